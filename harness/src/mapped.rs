//! `mapped nav <doc>` / `mapped conv <type> <doc>` — code-map navigation (C11).
use crate::common::*;
use json_syntax::array::JsonArray;
use json_syntax::code_map::Mapped;
use json_syntax::{CodeMap, FragmentRef, Parse, TryFromJson, Unexpected, Value};
use std::collections::BTreeMap;

fn kind_code(v: &Value) -> &'static str {
    match v { Value::Null => "n", Value::Boolean(_) => "b", Value::Number(_) => "d", Value::String(_) => "s", Value::Array(_) => "a", Value::Object(_) => "o" }
}
fn frag_code(f: &FragmentRef) -> &'static str {
    match f { FragmentRef::Value(v) => kind_code(v), FragmentRef::Entry(_) => "e", FragmentRef::Key(_) => "k" }
}
fn span_text<'a>(text: &'a str, cm: &CodeMap, i: usize) -> Option<&'a str> {
    let e = cm.get(i)?;
    text.get(e.span.start()..e.span.end())
}
/// does the source text of fragment `i` denote `v`?
fn text_is_value(text: &str, cm: &CodeMap, i: usize, v: &Value) -> bool {
    span_text(text, cm, i).and_then(|t| Value::parse_str(t).ok()).map_or(false, |(w, _)| &w == v)
}

fn walk(text: &str, cm: &CodeMap, v: &Value, off: usize, cs: &mut Vec<String>, ks: &mut Vec<String>, out: &mut Out) {
    match v {
        Value::Array(a) => {
            let items: Vec<Mapped<&Value>> = a.iter_mapped(cm, off).collect();
            let items2: Vec<usize> = a.as_slice().iter_mapped(cm, off).map(|m| m.offset).collect();
            out.oracle(items.iter().map(|m| m.offset).collect::<Vec<_>>() == items2, "Vec and slice iter_mapped agree", || String::new());
            cs.push(format!("A{}:{}", off, items.iter().map(|m| m.offset.to_string()).collect::<Vec<_>>().join(".")));
            { let laws = iter_laws(|| a.iter_mapped(cm, off).map(|m| m.offset)); out.oracle(laws.is_ok(), "array iter_mapped obeys the Iterator laws", || laws.clone().unwrap_err()); }
            for (m, x) in items.iter().zip(a.iter()) {
                out.oracle(std::ptr::eq(m.value, x) && text_is_value(text, cm, m.offset, x), "array item offset: span text is the item", || format!("array at {} item offset {}", off, m.offset));
            }
            for m in items { walk(text, cm, m.value, m.offset, cs, ks, out); }
        }
        Value::Object(o) => {
            let es: Vec<_> = o.iter_mapped(cm, off).collect();
            cs.push(format!("O{}:{}", off, es.iter().map(|e| format!("{}-{}-{}", e.offset, e.value.key.offset, e.value.value.offset)).collect::<Vec<_>>().join(";")));
            { let laws = iter_laws(|| o.iter_mapped(cm, off).map(|e| (e.offset, e.value.key.offset, e.value.value.offset))); out.oracle(laws.is_ok(), "object iter_mapped obeys the Iterator laws", || laws.clone().unwrap_err()); }
            for e in &es {
                let key_ok = span_text(text, cm, e.value.key.offset).and_then(|t| Value::parse_str(t).ok()).map_or(false, |(w, _)| w.as_str() == Some(e.value.key.value.as_str()));
                let entry_ok = span_text(text, cm, e.offset).map_or(false, |t| t.starts_with('"') && Value::parse_str(&format!("{{{}}}", t)).map_or(false, |(w, _)| w.as_object().map_or(false, |ob| ob.len() == 1 && ob.entries()[0].key == *e.value.key.value && ob.entries()[0].value == *e.value.value.value)));
                out.oracle(key_ok && entry_ok && text_is_value(text, cm, e.value.value.offset, e.value.value.value), "object entry/key/value offsets: span texts are the entry, its key, its value", || format!("object at {} entry offset {}", off, e.offset));
            }
            let mut keys: Vec<String> = Vec::new();
            for e in o.entries() { if !keys.contains(&e.key.to_string()) { keys.push(e.key.to_string()); } }
            keys.push("zz".into());
            for k in &keys {
                let q: Vec<_> = o.get_mapped_entries_with_index(cm, off, k.as_str()).collect();
                { let laws = iter_laws(|| o.get_mapped_entries_with_index(cm, off, k.as_str()).map(|(i, e)| (i, e.offset)))
                    .and_then(|_| iter_laws(|| o.get_mapped(cm, off, k.as_str()).map(|m| m.offset)));
                  out.oracle(laws.is_ok(), "keyed mapped lookups obey the Iterator laws", || laws.clone().unwrap_err()); }
                ks.push(format!("K{}:{}:{}", off, cps(k), q.iter().map(|(i, e)| format!("{}-{}-{}-{}", i, e.offset, e.value.key.offset, e.value.value.offset)).collect::<Vec<_>>().join(";")));
                // the other keyed variants are projections of this one
                let a1: Vec<_> = o.get_mapped_entries(cm, off, k.as_str()).map(|e| (e.offset, e.value.key.offset, e.value.value.offset)).collect();
                let a2: Vec<_> = o.get_mapped(cm, off, k.as_str()).map(|m| m.offset).collect();
                let a3: Vec<_> = o.get_mapped_with_index(cm, off, k.as_str()).map(|(i, m)| (i, m.offset)).collect();
                let b1: Vec<_> = q.iter().map(|(_, e)| (e.offset, e.value.key.offset, e.value.value.offset)).collect();
                let b2: Vec<_> = q.iter().map(|(_, e)| e.value.value.offset).collect();
                let b3: Vec<_> = q.iter().map(|(i, e)| (*i, e.value.value.offset)).collect();
                out.oracle(a1 == b1 && a2 == b2 && a3 == b3, "keyed mapped lookups agree with each other", || format!("object at {} key {:?}", off, k));
                // = the iter_mapped entries carrying the key, in order
                let want: Vec<_> = es.iter().enumerate().filter(|(_, e)| e.value.key.value.as_str() == k).map(|(i, e)| (i, e.offset)).collect();
                out.oracle(q.iter().map(|(i, e)| (*i, e.offset)).collect::<Vec<_>>() == want, "keyed lookup = entries carrying the key (absent: none; duplicates: all, in order)", || format!("object at {} key {:?}", off, k));
                let n = want.len();
                let u1 = match o.get_unique_mapped_entry(cm, off, k.as_str()) { Ok(None) => 0, Ok(Some(_)) => 1, Err(_) => 2 };
                let u2 = match o.get_unique_mapped(cm, off, k.as_str()) { Ok(None) => 0, Ok(Some(m)) => { if Some(m.offset) == b2.first().copied() { 1 } else { 9 } } Err(d) => { if d.0.offset == b2[0] && d.1.offset == b2[1] { 2 } else { 9 } } };
                let u3 = match o.get_unique_mapped_entry_with_index(cm, off, k.as_str()) { Ok(None) => 0, Ok(Some(_)) => 1, Err(_) => 2 };
                let u4 = match o.get_unique_mapped_with_index(cm, off, k.as_str()) { Ok(None) => 0, Ok(Some(_)) => 1, Err(_) => 2 };
                out.oracle(u1 == n.min(2) && u2 == n.min(2) && u3 == n.min(2) && u4 == n.min(2), "unique mapped lookups", || format!("object at {} key {:?}: {} matches", off, k, n));
            }
            for e in es { walk(text, cm, e.value.value.value, e.value.value.offset, cs, ks, out); }
        }
        _ => {}
    }
}

// leaf types with a common error type, so that the crate's generic Vec / BTreeMap / Option / Box
// impls (the code under test) can be instantiated
#[derive(Debug)]
pub struct E(pub usize);
impl From<Mapped<Unexpected>> for E { fn from(m: Mapped<Unexpected>) -> Self { E(m.offset) } }
impl From<Mapped<std::convert::Infallible>> for E { fn from(m: Mapped<std::convert::Infallible>) -> Self { E(m.offset) } }
macro_rules! leaf {
    ($name:ident, $ty:ty) => {
        #[derive(Debug)]
        pub struct $name(#[allow(dead_code)] pub $ty);
        impl TryFromJson for $name {
            type Error = E;
            fn try_from_json_at(json: &Value, cm: &CodeMap, offset: usize) -> Result<Self, E> {
                <$ty>::try_from_json_at(json, cm, offset).map($name).map_err(|m| E(m.offset))
            }
        }
    };
}
leaf!(B, bool);
leaf!(S, String);
leaf!(U, ());
leaf!(N, u8);

fn conv(ty: &str, v: &Value, cm: &CodeMap) -> Option<Result<(), usize>> {
    fn r<T>(x: Result<T, E>) -> Option<Result<(), usize>> { Some(x.map(|_| ()).map_err(|e| e.0)) }
    match ty {
        "B" => r(B::try_from_json(v, cm)),
        "VB" => r(Vec::<B>::try_from_json(v, cm)),
        "VS" => r(Vec::<S>::try_from_json(v, cm)),
        "VU" => r(Vec::<U>::try_from_json(v, cm)),
        "VN" => r(Vec::<N>::try_from_json(v, cm)),
        "VVB" => r(Vec::<Vec<B>>::try_from_json(v, cm)),
        "VOB" => r(Vec::<Option<B>>::try_from_json(v, cm)),
        "OVB" => r(Option::<Vec<B>>::try_from_json(v, cm)),
        "MB" => r(BTreeMap::<String, B>::try_from_json(v, cm)),
        "MVB" => r(BTreeMap::<String, Vec<B>>::try_from_json(v, cm)),
        "VMB" => r(Vec::<BTreeMap<String, B>>::try_from_json(v, cm)),
        "MMN" => r(BTreeMap::<String, BTreeMap<String, N>>::try_from_json(v, cm)),
        "VMVOS" => r(Vec::<BTreeMap<String, Vec<Option<S>>>>::try_from_json(v, cm)),
        "VVVU" => r(Vec::<Vec<Vec<U>>>::try_from_json(v, cm)),
        "BVB" => r(Box::<Vec<B>>::try_from_json(v, cm).map(|b| *b)),
        // Box at the root and BELOW it (converted at a non-zero offset)
        "XVB" => r(Box::<Vec<B>>::try_from_json(v, cm)),
        "VXB" => r(Vec::<Box<B>>::try_from_json(v, cm)),
        "MXB" => r(BTreeMap::<String, Box<B>>::try_from_json(v, cm)),
        "VXVB" => r(Vec::<Box<Vec<B>>>::try_from_json(v, cm)),
        "VOXMXN" => r(Vec::<Option<Box<BTreeMap<String, Box<N>>>>>::try_from_json(v, cm)),
        _ => None,
    }
}
pub const CONV_TYPES: [&str; 19] = ["VB", "VS", "VU", "VN", "VVB", "VOB", "OVB", "MB", "MVB", "VMB", "MMN", "VMVOS", "VVVU", "B", "XVB", "VXB", "MXB", "VXVB", "VOXMXN"];

pub fn exec(rest: &str, out: &mut Out) -> (String, bool) {
    let a: Vec<&str> = rest.split(' ').collect();
    match (a[0], a.len()) {
        ("nav", 2) => {
            let text = match parse_cps(a[1]) { Some(t) => t, None => return ("bad-op".into(), false) };
            let (v, cm) = match Value::parse_str(&text) { Ok(r) => r, Err(e) => return (crate::parse::show_err(&e, false), false) };
            let (mut cs, mut ks) = (Vec::new(), Vec::new());
            walk(&text, &cm, &v, 0, &mut cs, &mut ks, out);
            let n = v.traverse().count();
            let tr: Vec<FragmentRef> = v.traverse().map(|(_, f)| f).collect();
            out.oracle(v.traverse().enumerate().all(|(i, (j, _))| i == j), "traverse numbers fragments 0,1,2,…", || String::new());
            { let laws = iter_laws(|| v.traverse().map(|(i, f)| (i, frag_code(&f)))); out.oracle(laws.is_ok(), "traverse obeys the Iterator laws", || laws.clone().unwrap_err()); }
            for (_, f) in v.traverse().take(40) {
                let laws = iter_laws(|| f.sub_fragments().map(|g| frag_code(&g)));
                let fw: Vec<_> = f.sub_fragments().map(|g| frag_code(&g)).collect();
                let mut bw: Vec<_> = f.sub_fragments().rev().map(|g| frag_code(&g)).collect();
                bw.reverse();
                out.oracle(laws.is_ok() && fw == bw, "sub_fragments obeys the Iterator laws and reverses consistently", || laws.clone().err().unwrap_or_default());
            }
            let mut fr = Vec::new();
            for i in 0..n + 3 {
                match v.get_fragment(i) {
                    Ok(f) => {
                        out.oracle(i < n && frag_code(&f) == frag_code(&tr[i]) && match (&f, &tr[i]) { (FragmentRef::Value(x), FragmentRef::Value(y)) => std::ptr::eq(*x, *y), (FragmentRef::Entry(x), FragmentRef::Entry(y)) => std::ptr::eq(*x, *y), (FragmentRef::Key(x), FragmentRef::Key(y)) => std::ptr::eq(*x, *y), _ => false }, "get_fragment(i) = i-th fragment of the traversal", || format!("index {}", i));
                        fr.push(frag_code(&f).to_string());
                    }
                    Err(k) => {
                        out.oracle(i >= n && k == i - n, "indices past the end are rejected with the remaining distance", || format!("index {} of {}: Err({})", i, n, k));
                        fr.push(format!("!{}", k));
                    }
                }
            }
            out.oracle(cm.len() == n, "code map has one entry per fragment", || format!("{} vs {}", cm.len(), n));
            out.oracle(v.volume() == tr.iter().filter(|f| f.is_value()).count() && v.count(|_, _| true) == n && v.count(|_, f| f.is_key()) == tr.iter().filter(|f| f.is_key()).count(), "volume / count agree with the traversal", || String::new());
            (format!("n={}|C:{}|K:{}|F:{}|T:{}|V:{}", cm.len(), cs.join(","), ks.join(","), fr.join("."), tr.iter().map(|f| frag_code(f)).collect::<String>(), v.volume()), n > 1)
        }
        ("conv", 3) => {
            let text = match parse_cps(a[2]) { Some(t) => t, None => return ("bad-op".into(), false) };
            let (v, cm) = match Value::parse_str(&text) { Ok(r) => r, Err(e) => return (crate::parse::show_err(&e, false), false) };
            match conv(a[1], &v, &cm) {
                None => ("bad-op".into(), false),
                Some(Ok(())) => { out.count("conv_ok"); ("ok".into(), true) }
                Some(Err(off)) => {
                    // the offset names a fragment whose kind is the offending one: check it is a value fragment inside the map
                    out.oracle(off < cm.len() && v.get_fragment(off).map_or(false, |f| f.is_value()), "kind mismatch is reported at the index of a value fragment", || format!("offset {}", off));
                    out.count("conv_err");
                    (format!("err {}", off), true)
                }
            }
        }
        _ => ("bad-op".into(), false),
    }
}

/// a document of the shape described by `ty`, with a wrong-kind value planted with probability
fn gen_typed(rng: &mut Rng, ty: &[u8], plant: &mut i64, s: &mut String) {
    *plant -= 1;
    if *plant == 0 {
        s.push_str(*rng.pick(&["null", "true", "1", "300", "\"x\"", "[]", "{}", "[1]", "{\"a\":true}", "-1", "1.5"][..]));
        return;
    }
    match ty[0] {
        b'B' => s.push_str(if rng.chance(1, 2) { "true" } else { "false" }),
        b'S' => s.push_str(*rng.pick(&["\"\"", "\"a\"", "\"\\u00e9\""][..])),
        b'U' => s.push_str("null"),
        b'N' => s.push_str(*rng.pick(&["0", "7", "255"][..])),
        b'O' => { if rng.chance(1, 3) { s.push_str("null") } else { gen_typed(rng, &ty[1..], plant, s) } }
        b'V' => {
            s.push('[');
            let n = rng.below(4);
            for i in 0..n { if i > 0 { s.push_str(if rng.chance(1, 2) { ", " } else { "," }); } gen_typed(rng, &ty[1..], plant, s); }
            s.push(']');
        }
        b'M' => {
            s.push('{');
            let n = rng.below(4);
            for i in 0..n { if i > 0 { s.push(','); } s.push_str(*rng.pick(&["\"a\":", "\"b\" : ", "\"a\":", "\"\\u0063\": "][..])); gen_typed(rng, &ty[1..], plant, s); }
            s.push('}');
        }
        b'X' => gen_typed(rng, &ty[1..], plant, s),
        _ => s.push_str("null"),
    }
}

pub fn gen(out: &mut Out, thorough: bool) {
    let mut l = |s: String, out: &mut Out| crate::exec_line(&s, out);
    for doc in ["{ \"0\": [null, null], \"1\": { \"foo\": 0, \"bar\": 1 }, \"0\": null }", "[]", "{}", "[[],{}]", "{\"a\":{},\"a\":[],\"a\":{\"a\":[{}]}}", "null", "[1,[2,[3,[4]]],5]", " [ {} , \"é\" ] "] {
        l(format!("mapped nav {}", cps(doc)), out);
    }
    // bounded-exhaustive small token documents (accepted ones navigate; rejected ones reply with the error)
    let toks = ["[", "]", "{", "}", ",", "\"a\":", "\"b\":", "1", "null", "[]", "{}"];
    let mut lines = Vec::new();
    crate::parse::all_strings(&toks, if thorough { 6 } else { 5 }, |s| { if Value::parse_str(s).is_ok() { lines.push(format!("mapped nav {}", cps(s))); } });
    out.count_n("small_token_documents", lines.len() as u64);
    for s in lines.drain(..) { l(s, out); }
    out.exhaustive.push(format!("every VALID document of <= {} tokens over {:?}", if thorough { 6 } else { 5 }, toks));
    // wide objects (hash-table growth steps) with duplicated keys at the start, in the middle and at
    // the end, nested one level down as well: every keyed mapped lookup of every key
    for &nk in (if thorough { &[20usize, 57, 113, 130, 300][..] } else { &[20usize, 113, 130][..] }) {
        for variant in 0..2 {
            let mut d = String::from("{");
            for i in 0..nk {
                if i > 0 { d.push(','); }
                let key = if variant == 1 && i % 10 == 3 { format!("k{}", i / 20) } else { format!("k{}", i) };
                d.push_str(&format!("\"{}\":{}", key, if i % 7 == 0 { "[1,{\"x\":null,\"x\":2}]".to_string() } else { i.to_string() }));
            }
            d.push_str(",\"k1\":\"dup\",\"last\":[],\"k1\":2}");
            l(format!("mapped nav {}", cps(&d)), out);
            l(format!("mapped nav {}", cps(&format!("[0,{},{{\"w\":{}}}]", d, d))), out);
        }
    }
    // SCALE: flat arrays and objects of 2^8 / 2^12 (+-1, 5000; thorough 2^13, 2^16) scalars FOLLOWED by
    // more content, so that every fragment index, offset and mapped lookup behind the big container
    // depends on how it was skipped (chunked skipping, volume arithmetic in a narrower type)
    {
        let mut n = 0u64;
        for &len in (if thorough { &[255usize, 256, 257, 4095, 4096, 4097, 5000, 8193, 65537][..] } else { &[257usize, 4097, 5000][..] }) {
            let nums = |m: usize| (0..m).map(|i| (i % 10).to_string()).collect::<Vec<_>>().join(",");
            let docs = [
                format!("{{\"x\":[{}],\"y\":[{}],\"z\":{{\"k\":[1]}}}}", nums(len), nums(len - 1)),
                format!("[[{}],[[]],{{\"a\":[{}]}},7]", nums(len), nums(len + 1)),
                format!("{{{},\"last\":[{{}},[2]],\"k5\":null}}", (0..len).map(|i| format!("\"k{}\":{}", i, i % 7)).collect::<Vec<_>>().join(",")),
            ];
            for (di, d) in docs.iter().enumerate() {
                // the wide-object document costs the executable model a minute at 4097 entries
                if di == 2 && (len > 4097 || (len > 257 && !thorough)) { continue; }
                l(format!("mapped nav {}", cps(d)), out);
                n += 1;
            }
        }
        out.count_n("scale_documents", n);
        out.exhaustive.push("scale: flat arrays / objects of 2^8, 2^12 (+-1, 5000) scalars followed by further containers: every fragment index, every mapped iterator, every keyed lookup".into());
    }
    // wide objects of scalars with ONE small container value planted at every position (an offset
    // computed from the entry count instead of the fragment volumes goes wrong behind it), alone and
    // nested: every keyed mapped lookup of every key
    for &nk in (if thorough { &[9usize, 13, 14, 16, 33, 40][..] } else { &[13usize, 16, 40][..] }) {
        for pos in 0..nk {
            for (pi, plant) in ["[1]", "[[]]", "{\"a\":1}", "[1,2]"].iter().enumerate() {
                if !thorough && nk == 40 && pi != pos % 4 { continue; }
                let mut d = String::from("{");
                for i in 0..nk {
                    if i > 0 { d.push(','); }
                    d.push_str(&format!("\"k{}\":{}", i, if i == pos { plant.to_string() } else if i % 5 == 4 { "[]".to_string() } else if i % 5 == 2 { "\"s\"".to_string() } else { i.to_string() }));
                }
                d.push('}');
                l(format!("mapped nav {}", cps(&d)), out);
                if pos % 6 == 0 { l(format!("mapped nav {}", cps(&format!("[{{\"w\":{}}},{}]", d, d))), out); }
                out.count("wide_objects_one_container_value");
            }
        }
    }
    let n = if thorough { 150000 } else { 3000 };
    for _ in 0..n {
        let doc = { let mut g = crate::parse::DocGen { rng: &mut out.rng, max_depth: 5 }; g.doc() };
        l(format!("mapped nav {}", cps(&doc)), out);
    }
    // conversions with a wrong-kind value planted at every position
    let m = if thorough { 30000 } else { 600 };
    for ty in CONV_TYPES {
        for _ in 0..m / 4 {
            let mut s = String::new();
            let mut plant = -1i64;
            gen_typed(&mut out.rng, ty.as_bytes(), &mut plant, &mut s);
            l(format!("mapped conv {} {}", ty, cps(&s)), out);
            // count the generation steps, then plant at each position
            let steps = -plant - 1;
            for p in 1..=steps.min(12) {
                let mut rng2 = Rng(out.rng.0);
                let mut s2 = String::new();
                let mut pl = p;
                gen_typed(&mut rng2, ty.as_bytes(), &mut pl, &mut s2);
                if Value::parse_str(&s2).is_ok() { l(format!("mapped conv {} {}", ty, cps(&s2)), out); }
            }
        }
    }
}
