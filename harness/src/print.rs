//! `print <options> <value>` — the printer family (C04, C08, C13).
//!   options: `pretty` | `compact` | `inline` | 15 comma-separated fields in declaration order
//!            (indent sN/tN, array begin,end,empty,before_comma,after_comma,limit, object begin,end,
//!             empty,before_comma,after_comma,before_colon,after_colon,limit); limit: - A I<n> W<w> X<n>.<w>
use crate::common::*;
use json_syntax::print::{Indent, Limit, Options};
use json_syntax::{Parse, Print, Value};

fn parse_limit(s: &str) -> Option<Option<Limit>> {
    match s.as_bytes().first()? {
        b'-' => Some(None),
        b'A' => Some(Some(Limit::Always)),
        b'I' => Some(Some(Limit::Item(s[1..].parse().ok()?))),
        b'W' => Some(Some(Limit::Width(s[1..].parse().ok()?))),
        b'X' => {
            let mut it = s[1..].split('.');
            Some(Some(Limit::ItemOrWidth(it.next()?.parse().ok()?, it.next()?.parse().ok()?)))
        }
        _ => None,
    }
}
fn parse_indent(s: &str) -> Option<Indent> {
    match s.as_bytes().first()? {
        b's' => Some(Indent::Spaces(s[1..].parse().ok()?)),
        b't' => Some(Indent::Tabs(s[1..].parse().ok()?)),
        _ => None,
    }
}
pub fn parse_print_opts(s: &str) -> Option<Options> {
    match s {
        "pretty" => return Some(Options::pretty()),
        "compact" => return Some(Options::compact()),
        "inline" => return Some(Options::inline()),
        _ => {}
    }
    let f: Vec<&str> = s.split(',').collect();
    if f.len() != 15 {
        return None;
    }
    let n = |i: usize| -> Option<usize> { f[i].parse().ok() };
    let mut o = Options::compact();
    o.indent = parse_indent(f[0])?;
    o.array_begin = n(1)?;
    o.array_end = n(2)?;
    o.array_empty = n(3)?;
    o.array_before_comma = n(4)?;
    o.array_after_comma = n(5)?;
    o.array_limit = parse_limit(f[6])?;
    o.object_begin = n(7)?;
    o.object_end = n(8)?;
    o.object_empty = n(9)?;
    o.object_before_comma = n(10)?;
    o.object_after_comma = n(11)?;
    o.object_before_colon = n(12)?;
    o.object_after_colon = n(13)?;
    o.object_limit = parse_limit(f[14])?;
    Some(o)
}

// ---- independent reference printer, written from the documentation of `print::Options` ----

fn ref_string(s: &str, out: &mut String) {
    out.push('"');
    for c in s.chars() {
        match c {
            '"' => out.push_str("\\\""),
            '\\' => out.push_str("\\\\"),
            '\u{8}' => out.push_str("\\b"),
            '\u{9}' => out.push_str("\\t"),
            '\u{a}' => out.push_str("\\n"),
            '\u{c}' => out.push_str("\\f"),
            '\u{d}' => out.push_str("\\r"),
            c if (c as u32) < 0x20 => out.push_str(&format!("\\u{:04x}", c as u32)),
            c => out.push(c),
        }
    }
    out.push('"');
}
fn sp(n: usize) -> String {
    " ".repeat(n)
}
fn indent_unit(o: &Options) -> String {
    match o.indent {
        Indent::Spaces(n) => " ".repeat(n as usize),
        Indent::Tabs(n) => "\t".repeat(n as usize),
    }
}
/// one-line form, or None if some descendant must be expanded
fn ref_one_line(o: &Options, v: &Value) -> Option<String> {
    match v {
        Value::Null => Some("null".into()),
        Value::Boolean(b) => Some(b.to_string()),
        Value::Number(n) => Some(n.as_str().to_string()),
        Value::String(s) => { let mut t = String::new(); ref_string(s, &mut t); Some(t) }
        Value::Array(a) => {
            let mut t = String::from("[");
            if a.is_empty() { t.push_str(&sp(o.array_empty)); } else {
                t.push_str(&sp(o.array_begin));
                for (i, x) in a.iter().enumerate() {
                    if i > 0 { t.push_str(&sp(o.array_before_comma)); t.push(','); t.push_str(&sp(o.array_after_comma)); }
                    t.push_str(&ref_one_line(o, x)?);
                }
                t.push_str(&sp(o.array_end));
            }
            t.push(']');
            if within(&o.array_limit, a.len(), t.chars().count()) { Some(t) } else { None }
        }
        Value::Object(ob) => {
            let mut t = String::from("{");
            if ob.is_empty() { t.push_str(&sp(o.object_empty)); } else {
                t.push_str(&sp(o.object_begin));
                for (i, e) in ob.entries().iter().enumerate() {
                    if i > 0 { t.push_str(&sp(o.object_before_comma)); t.push(','); t.push_str(&sp(o.object_after_comma)); }
                    ref_string(e.key.as_str(), &mut t);
                    t.push_str(&sp(o.object_before_colon)); t.push(':'); t.push_str(&sp(o.object_after_colon));
                    t.push_str(&ref_one_line(o, &e.value)?);
                }
                t.push_str(&sp(o.object_end));
            }
            t.push('}');
            if within(&o.object_limit, ob.len(), t.chars().count()) { Some(t) } else { None }
        }
    }
}
fn within(l: &Option<Limit>, len: usize, width: usize) -> bool {
    match l {
        None => true,
        Some(Limit::Always) => false,
        Some(Limit::Item(i)) => len <= *i,
        Some(Limit::Width(w)) => width <= *w,
        Some(Limit::ItemOrWidth(i, w)) => len <= *i && width <= *w,
    }
}
pub fn ref_print(o: &Options, depth: usize, v: &Value, out: &mut String) {
    if let Some(t) = ref_one_line(o, v) {
        out.push_str(&t);
        return;
    }
    let unit = indent_unit(o);
    match v {
        Value::Array(a) => {
            out.push_str("[\n");
            for (i, x) in a.iter().enumerate() {
                if i > 0 { out.push_str(&sp(o.array_before_comma)); out.push_str(",\n"); }
                out.push_str(&unit.repeat(depth + 1));
                ref_print(o, depth + 1, x, out);
            }
            if !a.is_empty() { out.push('\n'); }
            out.push_str(&unit.repeat(depth));
            out.push(']');
        }
        Value::Object(ob) => {
            out.push_str("{\n");
            for (i, e) in ob.entries().iter().enumerate() {
                if i > 0 { out.push_str(&sp(o.object_before_comma)); out.push_str(",\n"); }
                out.push_str(&unit.repeat(depth + 1));
                ref_string(e.key.as_str(), out);
                out.push_str(&sp(o.object_before_colon)); out.push(':'); out.push_str(&sp(o.object_after_colon));
                ref_print(o, depth + 1, &e.value, out);
            }
            if !ob.is_empty() { out.push('\n'); }
            out.push_str(&unit.repeat(depth));
            out.push('}');
        }
        _ => unreachable!(),
    }
}
/// RFC 8785-style reference serializer (no whitespace).
pub fn ref_compact(v: &Value, out: &mut String) {
    match v {
        Value::Null => out.push_str("null"),
        Value::Boolean(b) => out.push_str(if *b { "true" } else { "false" }),
        Value::Number(n) => out.push_str(n.as_str()),
        Value::String(s) => ref_string(s, out),
        Value::Array(a) => {
            out.push('[');
            for (i, x) in a.iter().enumerate() { if i > 0 { out.push(','); } ref_compact(x, out); }
            out.push(']');
        }
        Value::Object(o) => {
            out.push('{');
            for (i, e) in o.entries().iter().enumerate() { if i > 0 { out.push(','); } ref_string(e.key.as_str(), out); out.push(':'); ref_compact(&e.value, out); }
            out.push('}');
        }
    }
}
/// remove JSON whitespace outside string literals
fn strip_ws(t: &str) -> String {
    let mut o = String::new();
    let mut in_str = false;
    let mut esc = false;
    for c in t.chars() {
        if in_str {
            o.push(c);
            if esc { esc = false; } else if c == '\\' { esc = true; } else if c == '"' { in_str = false; }
        } else if c == '"' { in_str = true; o.push(c); } else if !(c == ' ' || c == '\t' || c == '\n' || c == '\r') { o.push(c); }
    }
    o
}

pub fn exec(rest: &str, out: &mut Out) -> (String, bool) {
    let a: Vec<&str> = rest.split(' ').collect();
    if a.len() == 3 {
        // `print <opts> <value> <k>`: the public `Print::fmt_with` entered at indentation depth k (what
        // a user type embedding a Value, or Meta / Stripped / &T, does)
        let (o, v, k) = match (parse_print_opts(a[0]), parse_value(a[1]), a[2].parse::<usize>()) { (Some(o), Some(v), Ok(k)) if k <= 64 => (o, v, k), _ => return ("bad-op".into(), false) };
        struct At<'a, T: Print>(&'a T, &'a Options, usize);
        impl<'a, T: Print> std::fmt::Display for At<'a, T> { fn fmt(&self, f: &mut std::fmt::Formatter) -> std::fmt::Result { self.0.fmt_with(f, self.1, self.2) } }
        let text = At(&v, &o, k).to_string();
        let at0 = v.print_with(o.clone()).to_string();
        // C13: nested containers are indented by depth times the unit — entering at depth k shifts every
        // line after the first by k units and changes nothing else
        let shifted = at0.replace('\n', &format!("\n{}", o.indent.by(k)));
        out.oracle(text == shifted, "fmt_with at depth k = the depth-0 text with every line after the first shifted by k indent units", || format!("{:?} vs {:?}", text, shifted));
        let by_ref = At(&&v, &o, k).to_string();
        let meta = At(&locspan::Meta(v.clone(), ()), &o, k).to_string();
        out.oracle(by_ref == text && meta == text, "Print for &T and Meta<T, M> forward the depth", || format!("{:?} {:?}", by_ref, meta));
        out.count("fmt_with_at_depth");
        return (cps(&text), true);
    }
    if a.len() != 2 {
        return ("bad-op".into(), false);
    }
    let (o, v) = match (parse_print_opts(a[0]), parse_value(a[1])) {
        (Some(o), Some(v)) => (o, v),
        _ => return ("bad-op".into(), false),
    };
    let text = match a[0] {
        "pretty" => v.pretty_print().to_string(),
        "compact" => v.compact_print().to_string(),
        "inline" => v.inline_print().to_string(),
        _ => v.print_with(o.clone()).to_string(),
    };
    // C13 / C04: presets through print_with give the same text
    if matches!(a[0], "pretty" | "compact" | "inline") {
        let t2 = v.print_with(o.clone()).to_string();
        out.oracle(t2 == text, "preset method = print_with(preset)", || cps(&t2));
    }
    // the other `Print` implementors print the same text: a reference to the value, and the typed
    // scalar / object behind it (Print for bool, NumberBuf, String, Object via PrintWithSize)
    {
        let by_ref = (&v).print_with(o.clone()).to_string();
        let typed = match &v {
            Value::Boolean(b) => Some(b.print_with(o.clone()).to_string()),
            Value::Number(n) => Some(n.print_with(o.clone()).to_string()),
            Value::String(t) => Some(t.print_with(o.clone()).to_string()),
            _ => None,
        };
        out.oracle(by_ref == text && typed.as_ref().map_or(true, |t| *t == text), "Print for &Value and for the typed scalar = Print for Value", || format!("{:?} {:?}", by_ref, typed));
    }
    // content only: the same value built through another route (heap-backed buffers) prints alike
    {
        let vr = crate::ord::rebuilt(&v);
        let tr = match a[0] {
            "pretty" => vr.pretty_print().to_string(),
            "compact" => vr.compact_print().to_string(),
            "inline" => vr.inline_print().to_string(),
            _ => vr.print_with(o.clone()).to_string(),
        };
        out.oracle(tr == text, "printing depends on the content only (value rebuilt with heap-backed buffers prints the same)", || cps(&tr));
    }
    // C13: documented layout (independent reference printer)
    let mut want = String::new();
    ref_print(&o, 0, &v, &mut want);
    out.oracle(want == text, "output = documented layout (reference printer)", || format!("impl {:?} / reference {:?}", text, want));
    if matches!(a[0], "compact" | "inline") {
        out.oracle(!strip_strings(&text).contains('\n'), "inline/compact presets never emit a line break", || format!("{:?}", text));
    }
    // C08: compact = reference serializer, through all four routes
    let mut rc = String::new();
    ref_compact(&v, &mut rc);
    if a[0] == "compact" {
        out.oracle(rc == text, "compact_print = reference serializer", || format!("impl {:?} / reference {:?}", text, rc));
        let d = format!("{}", v);
        let ts = v.to_string();
        let fs: String = String::from(v.clone());
        out.oracle(d == rc && ts == rc && fs == rc, "Display / to_string / String::from = compact", || format!("{:?} {:?} {:?}", d, ts, fs));
    }
    // C04: the printed text re-parses (strictly) to the same value; only whitespace differs
    match Value::parse_str(&text) {
        Ok((w, _)) => out.oracle(w == v, "parse(print(v)) = v", || format!("printed {:?} re-parsed as {}", text, show_value(&w))),
        Err(e) => out.oracle(false, "printed text is a valid strict document", || format!("printed {:?}: {}", text, crate::parse::show_err(&e, false))),
    }
    out.oracle(strip_ws(&text) == rc, "formatting only changes insignificant whitespace", || format!("{:?} vs {:?}", strip_ws(&text), rc));
    let expanded = text.contains('\n');
    out.count(if expanded { "expanded_output" } else { "single_line_output" });
    if o.array_begin != o.object_begin || o.array_end != o.object_end { out.count("array_object_spacing_differs"); }
    (cps(&text), expanded || text.len() > 6)
}

fn strip_strings(t: &str) -> String {
    // drop string literal contents (a raw newline can never be inside: it is escaped)
    let mut o = String::new();
    let mut in_str = false;
    let mut esc = false;
    for c in t.chars() {
        if in_str { if esc { esc = false; } else if c == '\\' { esc = true; } else if c == '"' { in_str = false; } } else if c == '"' { in_str = true; } else { o.push(c); }
    }
    o
}

// ------------------------------------------------------------------------------------------------
// generators
// ------------------------------------------------------------------------------------------------

pub fn gen_string(rng: &mut Rng) -> String {
    let mut s = String::new();
    // mostly short; sometimes just around the inline/heap switch (16 bytes); rarely long
    let m = if rng.chance(1, 10) { 20 } else { 5 };
    let n = if rng.chance(1, 6) { 0 } else if rng.chance(1, 40) { rng.range(12, 22) } else if rng.chance(1, 150) { rng.range(60, 300) } else { rng.range(1, m) };
    for _ in 0..n {
        match rng.below(10) {
            0 => s.push(*rng.pick(&['"', '\\', '/', '\u{8}', '\u{9}', '\u{a}', '\u{c}', '\u{d}'])),
            1 => s.push(char::from_u32(rng.below(0x20) as u32).unwrap()),
            2 => s.push(*rng.pick(&['\u{7f}', '\u{80}', '\u{2028}', '\u{2029}', '\u{fffd}', '\u{fffe}', '\u{ffff}', '\u{e000}', '\u{d7ff}', '😀', '\u{10ffff}', '𐀀'])),
            3 => { if let Some(c) = char::from_u32(rng.below(0x110000) as u32) { s.push(c); } }
            _ => s.push(*rng.pick(&['a', 'b', 'k', 'z', ' ', ':', ',', '{', ']', '0', 'é'])),
        }
    }
    s
}
pub fn gen_number(rng: &mut Rng) -> String {
    let mut s = String::new();
    let mut g = crate::parse::DocGen { rng, max_depth: 0 };
    g.number(&mut s);
    s
}
pub fn gen_value(rng: &mut Rng, depth: usize, max_depth: usize) -> Value {
    let leaf = depth >= max_depth || rng.chance(2, 5);
    if leaf {
        match rng.below(7) {
            0 => Value::Null,
            1 => Value::Boolean(true),
            2 => Value::Boolean(false),
            3 | 4 => Value::Number(json_syntax::NumberBuf::new(gen_number(rng).into_bytes().into()).unwrap()),
            _ => Value::String(gen_string(rng).as_str().into()),
        }
    } else if rng.chance(1, 2) {
        // wide containers now and then: sorting, hashing and buffer strategies switch with the size
        let n = if rng.chance(1, 30) && depth + 1 >= max_depth.min(2) { rng.range(17, 70) } else { rng.below(5) };
        Value::Array((0..n).map(|_| gen_value(rng, (depth + 1).max(if n > 5 { max_depth } else { 0 }), max_depth)).collect())
    } else {
        let wide = rng.chance(1, 30);
        let n = if wide { rng.range(17, 70) } else { rng.below(5) };
        let mut o = json_syntax::Object::new();
        for i in 0..n {
            let k = if wide && !rng.chance(1, 6) { format!("{}{}", rng.pick(&["k", "key-", "é", ""]), (i * 7) % 41) } else if rng.chance(1, 2) { rng.pick(&["a", "b", "", "a"]).to_string() } else { gen_string(rng) };
            o.push(k.as_str().into(), gen_value(rng, if wide { max_depth } else { depth + 1 }, max_depth));
        }
        Value::Object(o)
    }
}
fn limit_str(rng: &mut Rng, widths: &[usize]) -> String {
    let w = if widths.is_empty() { rng.below(30) as usize } else { let b = *rng.pick(widths); (b + rng.below(3) as usize).saturating_sub(1) };
    match rng.below(6) {
        0 => "-".into(),
        1 => "A".into(),
        2 => format!("I{}", rng.below(4)),
        3 => format!("W{}", w),
        _ => format!("X{}.{}", rng.below(4), w),
    }
}
/// widths of the one-line forms of every container of `v` under `o` (thresholds should straddle them)
fn container_widths(o: &Options, v: &Value, acc: &mut Vec<usize>) {
    let mut no_limit = o.clone();
    no_limit.array_limit = None;
    no_limit.object_limit = None;
    fn walk(o: &Options, v: &Value, acc: &mut Vec<usize>) {
        match v {
            Value::Array(a) => { acc.push(ref_one_line(o, v).unwrap().chars().count()); for x in a { walk(o, x, acc); } }
            Value::Object(ob) => { acc.push(ref_one_line(o, v).unwrap().chars().count()); for e in ob.entries() { walk(o, &e.value, acc); } }
            _ => {}
        }
    }
    walk(&no_limit, v, acc);
}
pub fn gen_opts(rng: &mut Rng, v: &Value) -> String {
    let ind = if rng.chance(2, 3) { format!("s{}", rng.below(5)) } else { format!("t{}", rng.below(3)) };
    let mut f: Vec<String> = vec![ind];
    for _ in 0..5 { f.push(rng.below(4).to_string()); }
    f.push("-".into());
    for _ in 0..7 { f.push(rng.below(4).to_string()); }
    f.push("-".into());
    let o = parse_print_opts(&f.join(",")).unwrap();
    let mut widths = Vec::new();
    container_widths(&o, v, &mut widths);
    f[6] = limit_str(rng, &widths);
    f[14] = limit_str(rng, &widths);
    f.join(",")
}

pub fn gen(out: &mut Out, thorough: bool, focus: &str) {
    let mut l = |s: String, out: &mut Out| crate::exec_line(&s, out);
    // every Unicode scalar as a one-character string and as a key (C08: exhaustive in both tiers
    // on the Rust side; the model side follows the same requests)
    let stride = if focus == "C08" { if thorough { 1 } else { 3 } } else { 97 };
    let mut cp = (out.seed % stride as u64) as u32;
    while cp < 0x110000 {
        if char::from_u32(cp).is_some() {
            l(format!("print compact s{:x};", cp), out);
            if cp % 2 == 0 || thorough { l(format!("print compact {{k{:x};n}}", cp), out); }
        }
        cp += if cp < 0x3000 { 1 } else { stride };
    }
    out.notes.insert("scalar_sweep".into(), format!("every scalar below U+3000 and every {}th above, as a one-character string (and as a key)", stride));
    // every scalar below U+3000 (and every stride-th above) inside an array and as a key under a width
    // limit that its one-line form exactly meets and one that it exceeds by one: the width a character
    // contributes (1, 2 for a short escape, 6 for \\u00XX) decides the layout, whatever Unicode class
    // the character belongs to
    if focus != "C08" {
        let mut cp = (out.seed % stride as u64) as u32;
        let mut n = 0u64;
        while cp < 0x110000 {
            if char::from_u32(cp).is_some() {
                let extra = match cp { 0x22 | 0x5c | 0x8 | 0x9 | 0xa | 0xc | 0xd => 2, 0..=0x1f => 6, _ => 1 };
                // [ "a<c>" ] : brackets 2, padding 2, quotes 2, a 1
                let fit = 7 + extra;
                for w in [fit, fit - 1] {
                    l(format!("print s2,1,1,0,0,1,W{},1,1,0,0,1,0,1,W{} [s61.{:x};]", w, w + 5, cp), out);
                    if cp % 3 == 0 { l(format!("print s2,1,1,0,0,1,W{},1,1,0,0,1,0,1,W{} {{k{:x}.61;n}}", w, w + 4, cp), out); n += 1; }
                    n += 1;
                }
            }
            cp += if cp < 0x3000 { 1 } else { stride };
        }
        out.count_n("scalar_sweep_under_width_limits", n);
    }
    // fixed corner values under the three presets
    for v in ["n", "t", "f", "#30;", "#2d.31.2e.35.30.45.2b.33;", "s;", "[]", "{}", "[[]]", "[{}]", "{k;[]}", "{k61;n;k61;t}", "[n,t]", "[[[[[[n]]]]]]"] {
        for p in ["pretty", "compact", "inline"] {
            if parse_value(v).is_some() { l(format!("print {} {}", p, v), out); }
        }
    }
    // generated values x option records
    let n = if thorough { 400000 } else { 8000 };
    for i in 0..n {
        let v = gen_value(&mut out.rng, 0, if i % 7 == 0 { 5 } else { 3 });
        let sv = show_value(&v);
        let o = match i % 8 { 0 => "pretty".to_string(), 1 => "compact".to_string(), 2 => "inline".to_string(), _ => gen_opts(&mut out.rng, &v) };
        l(format!("print {} {}", o, sv), out);
        if focus == "C08" && i % 8 > 2 { l(format!("print compact {}", sv), out); }
    }
    // the same printer entered at a non-zero depth (Print::fmt_with), generated values x option records
    for i in 0..(if thorough { 20000 } else { 600 }) {
        let v = gen_value(&mut out.rng, 0, 3);
        let o = match i % 5 { 0 => "pretty".to_string(), 1 => "inline".to_string(), _ => gen_opts(&mut out.rng, &v) };
        l(format!("print {} {} {}", o, show_value(&v), 1 + (i % 7) * (1 + i % 3)), out);
    }
    for v in ["[t,f]", "{k61;[n]}", "[]", "{}", "[[],{}]", "#31;", "s61;"] { for k in [1usize, 2, 5, 33] { for p in ["pretty", "compact", "inline", "s2,1,1,0,0,1,A,1,1,0,0,1,0,1,A", "t1,0,0,1,1,0,A,0,0,1,1,0,1,0,A"] { l(format!("print {} {} {}", p, v, k), out); } } }
    // small exhaustive option grid on a fixed value: every numeric field in 0..3 one at a time,
    // every limit variant with thresholds around the actual widths
    let fixed = "[#31;[]{}{k61;[t]}[#31;#32;]]";
    let base: Vec<String> = "s2,1,1,0,0,1,-,1,1,0,0,1,0,1,-".split(',').map(|s| s.to_string()).collect();
    for field in [1usize, 2, 3, 4, 5, 7, 8, 9, 10, 11, 12, 13] {
        for val in 0..4 {
            for lim in ["-", "A", "I0", "I1", "I2", "I5", "W0", "W10", "W20", "W30", "W40", "X1.16", "X5.30", "X0.100"] {
                let mut f = base.clone();
                f[field] = val.to_string();
                f[6] = lim.to_string();
                f[14] = lim.to_string();
                l(format!("print {} {}", f.join(","), fixed), out);
            }
        }
    }
    for w in 0..45 {
        for ind in ["s0", "s1", "s4", "t1", "t2"] {
            let mut f = base.clone();
            f[0] = ind.to_string();
            f[6] = format!("W{}", w);
            f[14] = format!("X2.{}", w);
            l(format!("print {} {}", f.join(","), fixed), out);
        }
    }
    out.exhaustive.push("option grid on a fixed nested value: each numeric field 0..3 x 14 limit variants; width thresholds 0..44 x 5 indent units".into());
    // one character that needs (or almost needs) escaping at EVERY offset of strings of every length up
    // to 40 (and around 64/128), the rest plain — word-at-a-time scanners and chunked writers have
    // their lane and chunk boundaries there; also with a 2-byte filler, and in key position
    {
        let specials = ['"', '\\', '\n', '\u{1f}', '\u{7f}', '\u{0}', 'é', '\u{2028}', '😀'];
        let mut n = 0u64;
        let lens: Vec<usize> = (1..=40).chain([47, 48, 49, 63, 64, 65, 127, 128, 129]).collect();
        for &len in &lens {
            for pos in 0..len {
                if len > 40 && !(pos < 2 || pos + 2 >= len || pos % 16 >= 14 || pos % 16 <= 1) { continue; }
                for (si, sp) in specials.iter().enumerate() {
                    if len > 24 && si > 2 && (pos + si) % 3 != 0 { continue; }
                    let mut cps_s = Vec::with_capacity(len);
                    for i in 0..len { cps_s.push(if i == pos { format!("{:x}", *sp as u32) } else if (len + si) % 5 == 0 && i % 7 == 3 { "e9".to_string() } else { "61".to_string() }); }
                    let text = cps_s.join(".");
                    l(format!("print compact s{};", text), out);
                    if (pos + len) % 4 == 0 { l(format!("print compact {{k{};[s{};]}}", text, text), out); n += 1; }
                    n += 1;
                }
            }
        }
        out.count_n("stream_special_at_every_offset", n);
        out.exhaustive.push("strings of every length 1..40 (and 47..49, 63..65, 127..129) with one of 9 special characters at every offset (quote, backslash, LF, U+001F, DEL, NUL, é, U+2028, non-BMP), plain otherwise; value and key position".into());
    }
    // wide flat containers: arrays and objects of EVERY length 0..=40 under item limits at, below and
    // above their length and width limits around their one-line width (a limit comparison, a chunked
    // separator writer or a small-size fast path is decided at one length)
    {
        let mut n = 0u64;
        for len in 0..=40usize {
            let arr = format!("[{}]", (0..len).map(|i| format!("#{:x};", 0x30 + (i % 10))).collect::<Vec<_>>().join(""));
            let obj = format!("{{{}}}", (0..len).map(|i| format!("k{:x};{}", 0x61 + (i % 26), if i % 4 == 3 { "[]".to_string() } else { "t".to_string() })).collect::<Vec<_>>().join(""));
            let mut lims: Vec<String> = vec!["-".into(), "A".into(), format!("I{}", len.saturating_sub(1)), format!("I{}", len), format!("I{}", len + 1)];
            for w in [2 * len, 3 * len, 3 * len + 1, 3 * len + 2, 3 * len + 3, 4 * len + 2, 7 * len, 7 * len + 1, 7 * len + 2, 9 * len + 3] { lims.push(format!("W{}", w)); }
            lims.push(format!("X{}.{}", len, 3 * len + 2));
            lims.push(format!("X{}.{}", len + 1, 3 * len + 1));
            for (li, lim) in lims.iter().enumerate() {
                for (vi, v) in [&arr, &obj].iter().enumerate() {
                    if len > 20 && (li + vi + len) % 2 == 1 { continue; }
                    let mut f = base.clone();
                    f[6] = lim.clone();
                    f[14] = lim.clone();
                    if (len + li) % 3 == 0 { f[0] = "t1".into(); }
                    l(format!("print {} {}", f.join(","), v), out);
                    n += 1;
                }
            }
            for p in ["pretty", "compact", "inline"] { l(format!("print {} [{}{}]", p, arr, obj), out); n += 1; }
        }
        out.count_n("stream_wide_flat_containers", n);
        out.exhaustive.push("flat arrays and objects of every length 0..=40 under item limits len-1 / len / len+1, ten width limits around their one-line widths and two item-or-width limits; nested in an array under the three presets".into());
    }
    // SCALE: strings, keys and containers just below / at / above 2^12 and 2^16 (block buffers, width
    // counters, chunked writers, size caps): a 1/2/3/4-byte or escaped character at every offset
    // around the boundary; containers whose one-line width crosses 65 535; long non-ASCII / escaped
    // strings under width limits between their character width and their byte width
    {
        let mut n = 0u64;
        let tails = ["e9", "20ac", "1f600", "22", "a", "1f", "7f"];
        let bases: &[usize] = if thorough { &[4096, 8192, 65536] } else { &[4096, 65536] };
        for &b in bases {
            for off in 0..=8usize {
                for (ti, t) in tails.iter().enumerate() {
                    if !thorough && b > 4096 && (off + ti) % 3 != 0 { continue; }
                    let body = format!("78*{}", b + off - 7);
                    for p in ["compact", "pretty"] {
                        if p == "pretty" && (off + ti) % 2 == 1 { continue; }
                        l(format!("print {} [s{}.{}.74.61.69.6c;{{k{}.{}.6b;n}}]", p, body, t, body, t), out);
                        n += 1;
                    }
                    if (off + ti) % 4 == 0 { l(format!("print compact s{}*{}.{}.{};", t, (b + off) / 2, t, "61*9"), out); n += 1; }
                }
            }
        }
        // one-line widths across 65 535: many small items, one long string member
        for items in (if thorough { &[255usize, 4096, 10922, 10923, 21845, 21846, 32767, 32768, 40000][..] } else { &[4096usize, 21845, 21846, 32768][..] }) {
            let arr = format!("[{}]", "#31;".repeat(*items));
            let obj = format!("{{{}}}", (0..items / 4).map(|i| format!("k{:x};t", 0x61 + i % 26)).collect::<String>());
            for p in ["compact", "inline", "pretty"] { l(format!("print {} {}", p, arr), out); l(format!("print {} [{}{}]", p, obj, arr), out); n += 2; }
        }
        for len in (if thorough { &[65520usize, 65530, 65531, 65532, 65533, 65534, 65535, 65536, 65537, 70000][..] } else { &[65531usize, 65533, 65535, 65536][..] }) {
            for p in ["compact", "inline", "pretty"] { l(format!("print {} [s61*{};]", p, len), out); l(format!("print {} {{k61*{};[#31;]}}", p, len), out); n += 2; }
        }
        // width limits between the character width and the byte width of long strings
        for (unit, chars) in [("e9", 40000usize), ("20ac", 30000), ("22", 35000), ("1f", 12000), ("e9", 3000)] {
            let bytes = chars * match unit { "e9" => 2, "20ac" => 3, _ => 1 };
            let printed = chars * match unit { "22" => 2, "1f" => 6, _ => 1 };
            for w in [printed, printed + 2, printed + 4, printed + 6, printed + 8, printed + 12, (printed + bytes) / 2 + 7, bytes, bytes + 2, bytes + 4, bytes + 6, bytes + 8, bytes + 12, 2 * bytes + 20, chars, chars + 6, chars + 8] {
                let mut f = base.clone();
                f[6] = format!("W{}", w);
                f[14] = format!("X2.{}", w);
                l(format!("print {} [s{}*{};]", f.join(","), unit, chars), out);
                l(format!("print {} {{k{}*{};#31;}}", f.join(","), unit, chars), out);
                n += 2;
            }
        }
        out.count_n("stream_scale", n);
        out.exhaustive.push("scale: a plain / 2- / 3- / 4-byte / escaped character at 9 offsets around 4096 (8192) and 65536 in a string and a key; flat containers whose one-line width crosses 65 535; strings and keys of 65 520..70 000 characters; long non-ASCII / escaped strings under 17 width limits between their character width and byte width".into());
    }
    // deep expanded chains x indent units, and large padding values: indentation and padding are
    // written by loops/chunks whose size boundaries (16, 32, 64, …) a shallow value never reaches
    {
        let depths: &[usize] = if thorough { &[1, 2, 3, 8, 15, 16, 17, 18, 31, 32, 33, 34, 63, 64, 65, 66, 100, 127, 128, 129, 257] } else { &[1, 2, 3, 16, 17, 18, 32, 33, 34, 64, 65, 66, 129] };
        let inds = ["s1", "s2", "s3", "s4", "s7", "s16", "s31", "s32", "s33", "s63", "s64", "s65", "s200", "t1", "t2", "t3", "t15", "t16", "t17", "t33", "t64", "t65"];
        let mut n = 0u64;
        for &d in depths {
            for ind in inds {
                let unit: usize = ind[1..].parse().unwrap_or(1);
                if d * unit > 9000 { continue; }
                // alternate arrays and objects; two members per level so that `pretty` expands as well
                let mut v = String::from("#31;");
                for i in 0..d { v = if i % 2 == 0 { format!("[{}t]", v) } else { format!("{{k61;{}k62;n}}", v) }; }
                for lim in ["A", "-"] {
                    let mut f = base.clone();
                    f[0] = ind.to_string();
                    f[6] = lim.to_string();
                    f[14] = lim.to_string();
                    l(format!("print {} {}", f.join(","), v), out);
                    n += 1;
                }
                if d <= 66 { l(format!("print pretty {}", v), out); n += 1; }
            }
        }
        for field in [1usize, 2, 3, 4, 5, 7, 8, 9, 10, 11, 12, 13] {
            for val in [15, 16, 17, 31, 32, 33, 63, 64, 65, 127, 128, 129, 200] {
                for lim in ["-", "A"] {
                    let mut f = base.clone();
                    f[field] = val.to_string();
                    f[6] = lim.to_string();
                    f[14] = lim.to_string();
                    l(format!("print {} {}", f.join(","), fixed), out);
                    n += 1;
                }
            }
        }
        out.count_n("stream_deep_indent_and_padding", n);
        out.exhaustive.push(format!("alternating array/object chains of depth {:?} x {} indent units (spaces and tabs up to 200 / 65 per level) expanded and not, plus each padding field at 15..17, 31..33, 63..65, 127..129, 200", depths, inds.len()));
    }
}
