//! `canon <number table> <V>` — RFC 8785 canonicalization (C09, C10).
//! The number table (`spelling=canonical,…`, produced by the real code when the case is generated)
//! is the model's opaque `numCanon`; numbers themselves are checked here against an independent
//! reference (correctly rounded `str::parse::<f64>` + ECMAScript Number::toString layout).
use crate::common::*;
use json_syntax::{Object, Parse, Print, Value};

/// ECMAScript `Number::toString(x)` for finite x, from ECMA-262 7.1.6.1 (shortest digits from `{:e}`).
pub fn es6_number(x: f64) -> String {
    if x == 0.0 {
        return "0".into();
    }
    let neg = x < 0.0;
    let s = format!("{:e}", x.abs()); // d.ddddde[-]x, shortest round-trip digits
    let (mant, exp) = s.split_once('e').unwrap();
    let digits: String = mant.chars().filter(|c| *c != '.').collect();
    let k = digits.len() as i64;
    let n = exp.parse::<i64>().unwrap() + 1; // value = 0.digits * 10^n
    let body = if k <= n && n <= 21 {
        format!("{}{}", digits, "0".repeat((n - k) as usize))
    } else if 0 < n && n <= 21 {
        format!("{}.{}", &digits[..n as usize], &digits[n as usize..])
    } else if -6 < n && n <= 0 {
        format!("0.{}{}", "0".repeat((-n) as usize), digits)
    } else {
        let e = n - 1;
        let sign = if e < 0 { "-" } else { "+" };
        if k == 1 { format!("{}e{}{}", digits, sign, e.abs()) } else { format!("{}.{}e{}{}", &digits[..1], &digits[1..], sign, e.abs()) }
    };
    if neg { format!("-{}", body) } else { body }
}

/// Is `got` an acceptable ES6 rendering of `x` given the harness reference `want`?
/// `{:e}` and ECMA-262 agree on the digit count and on the digits except when two shortest
/// candidates are *exactly* equally close to `x`: ECMA-262 7.1.6.1 step 5 then takes the even one,
/// Rust's formatter does not specify. Such ties are decided here by exact integer arithmetic.
pub fn es6_ok(x: f64, got: &str, want: &str) -> bool {
    if got == want {
        return true;
    }
    if got.len() != want.len() || got.contains('e') || want.contains('e') || x.abs() >= 1e17 || got.parse::<f64>().ok() != Some(x) {
        return false;
    }
    // decimal -> (integer, number of fractional digits)
    let dec = |t: &str| -> Option<(i128, u32)> {
        let t = t.trim_start_matches('-');
        let (ip, fp) = t.split_once('.').unwrap_or((t, ""));
        Some((format!("{}{}", ip, fp).parse::<i128>().ok()?, fp.len() as u32))
    };
    let (g, dg) = match dec(got) { Some(v) => v, None => return false };
    let (w, dw) = match dec(want) { Some(v) => v, None => return false };
    if dg != dw || dg > 6 || (g - w).abs() != 1 { return false; }
    // x * 2^k integral for some k <= 30 ?
    let ax = x.abs();
    let mut k = 0u32;
    let mut y = ax;
    while y.fract() != 0.0 && k <= 30 { y *= 2.0; k += 1; }
    if y.fract() != 0.0 || y >= 1e30 { return false; }
    let xi = y as i128; // ax * 2^k
    let p10 = 10i128.pow(dg);
    let two_k = 1i128 << k;
    let dist = |c: i128| (c * two_k - xi * p10).abs(); // |c/10^d - ax| scaled by 10^d * 2^k
    dist(g) == dist(w) && g % 2 == 0
}

fn ref_string(s: &str, out: &mut String) {
    out.push('"');
    for c in s.chars() {
        match c {
            '"' => out.push_str("\\\""),
            '\\' => out.push_str("\\\\"),
            '\u{8}' => out.push_str("\\b"),
            '\u{9}' => out.push_str("\\t"),
            '\u{a}' => out.push_str("\\n"),
            '\u{c}' => out.push_str("\\f"),
            '\u{d}' => out.push_str("\\r"),
            c if (c as u32) < 0x20 => out.push_str(&format!("\\u{:04x}", c as u32)),
            c => out.push(c),
        }
    }
    out.push('"');
}
/// independent JCS serializer: RFC 8785 §3.2 (members sorted by UTF-16 code units of the keys)
pub fn ref_jcs(v: &Value, out: &mut String) {
    match v {
        Value::Null => out.push_str("null"),
        Value::Boolean(b) => out.push_str(if *b { "true" } else { "false" }),
        Value::Number(n) => out.push_str(&es6_number(n.as_str().parse::<f64>().unwrap())),
        Value::String(s) => ref_string(s, out),
        Value::Array(a) => { out.push('['); for (i, x) in a.iter().enumerate() { if i > 0 { out.push(','); } ref_jcs(x, out); } out.push(']'); }
        Value::Object(o) => {
            let mut es: Vec<(&str, &Value)> = o.entries().iter().map(|e| (e.key.as_str(), &e.value)).collect();
            es.sort_by(|a, b| a.0.encode_utf16().cmp(b.0.encode_utf16()));
            out.push('{');
            for (i, (k, x)) in es.iter().enumerate() { if i > 0 { out.push(','); } ref_string(k, out); out.push(':'); ref_jcs(x, out); }
            out.push('}');
        }
    }
}

/// `c` is the RFC 8785 form of `v`, with numbers judged by `es6_ok` (exact ties) instead of string equality
fn jcs_equiv(c: &Value, v: &Value) -> bool {
    match (c, v) {
        (Value::Number(a), Value::Number(b)) => b.as_str().parse::<f64>().map_or(false, |x| es6_ok(x, a.as_str(), &es6_number(x))),
        (Value::Array(a), Value::Array(b)) => a.len() == b.len() && a.iter().zip(b).all(|(p, q)| jcs_equiv(p, q)),
        (Value::Object(a), Value::Object(b)) => {
            let mut es: Vec<(&str, &Value)> = b.entries().iter().map(|e| (e.key.as_str(), &e.value)).collect();
            es.sort_by(|p, q| p.0.encode_utf16().cmp(q.0.encode_utf16()));
            a.len() == es.len() && a.entries().iter().zip(es.iter()).all(|(e, (k, w))| e.key.as_str() == *k && jcs_equiv(&e.value, w))
        }
        (p, q) => p == q,
    }
}

fn numbers_of(v: &Value, acc: &mut Vec<String>) {
    match v {
        Value::Number(n) => { let s = n.as_str().to_string(); if !acc.contains(&s) { acc.push(s); } }
        Value::Array(a) => for x in a { numbers_of(x, acc) },
        Value::Object(o) => for e in o.entries() { numbers_of(&e.value, acc) },
        _ => {}
    }
}
pub fn canon_of_number(n: &str) -> String {
    let mut v = Value::Number(json_syntax::NumberBuf::new(n.as_bytes().to_vec().into()).unwrap());
    v.canonicalize();
    match v { Value::Number(m) => m.as_str().to_string(), _ => unreachable!() }
}
pub fn request_for(v: &Value) -> String {
    let mut nums = Vec::new();
    numbers_of(v, &mut nums);
    let tbl = if nums.is_empty() { "-".to_string() } else { nums.iter().map(|n| format!("{}={}", n, canon_of_number(n))).collect::<Vec<_>>().join(",") };
    format!("canon {} {}", tbl, show_value(v))
}
fn is_ijson(v: &Value) -> bool {
    match v {
        Value::Number(n) => n.as_str().parse::<f64>().map_or(false, |x| x.is_finite()),
        Value::Array(a) => a.iter().all(is_ijson),
        Value::Object(o) => { let mut ks: Vec<&str> = o.entries().iter().map(|e| e.key.as_str()).collect(); ks.sort(); ks.windows(2).all(|w| w[0] != w[1]) && o.entries().iter().all(|e| is_ijson(&e.value)) }
        _ => true,
    }
}
/// the exact integer denoted by a number text, if it denotes one of moderate size
/// (handles exponent/fraction spellings such as `1.8446744073709551615e19`)
fn exact_int(t: &str) -> Option<i128> {
    let (neg, rest) = match t.strip_prefix('-') { Some(r) => (true, r), None => (false, t) };
    let (mant, exp) = match rest.find(|c| c == 'e' || c == 'E') { Some(i) => (&rest[..i], rest[i + 1..].parse::<i64>().ok()?), None => (rest, 0) };
    let (ip, fp) = match mant.split_once('.') { Some((a, b)) => (a, b), None => (mant, "") };
    let mut digits: String = format!("{}{}", ip, fp);
    let mut e10 = exp - fp.len() as i64;
    while e10 < 0 && digits.ends_with('0') { digits.pop(); e10 += 1; }
    if e10 < 0 { return if digits.chars().all(|c| c == '0') { Some(0) } else { None }; }
    if e10 > 40 { return None; }
    for _ in 0..e10 { digits.push('0'); }
    let digits = digits.trim_start_matches('0');
    if digits.len() > 38 { return None; }
    let v: i128 = if digits.is_empty() { 0 } else { digits.parse().ok()? };
    Some(if neg { -v } else { v })
}
pub fn same_shape_pub(a: &Value, b: &Value) -> bool { same_shape_x(a, b, true) }
fn same_shape(a: &Value, b: &Value) -> bool { same_shape_x(a, b, false) }
/// `exact_ints`: additionally a 64-bit integer literal must stay the very same integer (C18);
/// canonicalization (C09/C10) goes through doubles by specification, so it does not ask for that.
fn same_shape_x(a: &Value, b: &Value, exact_ints: bool) -> bool {
    // canonicalization changes only number spellings and member order
    match (a, b) {
        // same double (IEEE equality identifies -0 and 0, as RFC 8785 does); and a 64-bit integer
        // literal must stay the very same integer
        (Value::Number(x), Value::Number(y)) => {
            let int = |t: &str| t.parse::<i128>().ok().filter(|i| *i >= i64::MIN as i128 && *i <= u64::MAX as i128);
            let fx = x.as_str().parse::<f64>().ok();
            let fy = y.as_str().parse::<f64>().ok();
            fx.is_some() && fx == fy && match int(x.as_str()) { Some(i) if exact_ints && i.unsigned_abs() >= (1u128 << 53) => exact_int(y.as_str()) == Some(i), _ => true }
        }
        (Value::Array(x), Value::Array(y)) => x.len() == y.len() && x.iter().zip(y).all(|(p, q)| same_shape_x(p, q, exact_ints)),
        (Value::Object(x), Value::Object(y)) => x.len() == y.len() && x.entries().iter().all(|e| y.get(e.key.as_str()).any(|w| same_shape_x(&e.value, w, exact_ints))),
        (p, q) => p == q,
    }
}
fn shuffle_deep(rng: &mut Rng, v: &Value) -> Value {
    match v {
        Value::Array(a) => Value::Array(a.iter().map(|x| shuffle_deep(rng, x)).collect()),
        Value::Object(o) => {
            let mut es: Vec<(String, Value)> = o.entries().iter().map(|e| (e.key.to_string(), shuffle_deep(rng, &e.value))).collect();
            for i in (1..es.len()).rev() { let j = rng.below(i as u64 + 1) as usize; es.swap(i, j); }
            let mut n = Object::new();
            for (k, v) in es { n.push(k.as_str().into(), v); }
            Value::Object(n)
        }
        other => other.clone(),
    }
}
/// an exact respelling of a decimal (same real number): exponent shifting, trailing zeros, E/e/+
fn respell(rng: &mut Rng, n: &str) -> String {
    let (neg, rest) = match n.strip_prefix('-') { Some(r) => (true, r), None => (false, n) };
    let (mant, exp) = match rest.find(|c| c == 'e' || c == 'E') { Some(i) => (&rest[..i], rest[i + 1..].parse::<i64>().unwrap_or(0)), None => (rest, 0) };
    let (ip, fp) = match mant.split_once('.') { Some((a, b)) => (a.to_string(), b.to_string()), None => (mant.to_string(), String::new()) };
    // value = (ip fp) * 10^(exp - |fp|)
    let mut digits = format!("{}{}", ip, fp);
    let mut e10 = exp - fp.len() as i64;
    for _ in 0..rng.below(4) { digits.push('0'); e10 -= 1; }
    let digits = digits.trim_start_matches('0').to_string();
    let digits = if digits.is_empty() { "0".to_string() } else { digits };
    let out = match rng.below(3) {
        0 => format!("{}{}{}", digits, if rng.chance(1, 2) { "e" } else { "E" }, if e10 >= 0 && rng.chance(1, 2) { format!("+{}", e10) } else { e10.to_string() }),
        1 => { let shift = rng.below(3) as i64; format!("{}.{}e{}", digits, "0".repeat(shift as usize + 1), e10) }
        _ => format!("0.{}e{}", digits, e10 + digits.len() as i64),
    };
    if neg { format!("-{}", out) } else { out }
}
fn respell_deep(rng: &mut Rng, v: &Value) -> Value {
    match v {
        Value::Number(n) => {
            let s = respell(rng, n.as_str());
            match json_syntax::NumberBuf::new(s.into_bytes().into()) { Ok(m) => Value::Number(m), Err(_) => v.clone() }
        }
        Value::Array(a) => Value::Array(a.iter().map(|x| respell_deep(rng, x)).collect()),
        Value::Object(o) => { let mut n = Object::new(); for e in o.entries() { n.push(e.key.clone(), respell_deep(rng, &e.value)); } Value::Object(n) }
        other => other.clone(),
    }
}

pub fn exec(rest: &str, out: &mut Out) -> (String, bool) {
    let a: Vec<&str> = rest.split(' ').collect();
    if a.len() != 2 { return ("bad-op".into(), false); }
    let v = match parse_value(a[1]) { Some(v) => v, None => return ("bad-op".into(), false) };
    let mut c = v.clone();
    c.canonicalize();
    let reply = show_value(&c);
    // content only: the same value built another way (heap-backed buffers, entry-by-entry objects)
    // canonicalizes to the same bytes
    {
        let mut cr = crate::ord::rebuilt(&v);
        cr.canonicalize();
        out.oracle(cr.compact_print().to_string() == c.compact_print().to_string() && cr == c, "canonicalization depends on the content only (value rebuilt with heap-backed buffers)", || show_value(&cr));
    }
    // every way of asking for it gives the same result: Value::canonicalize_with (caller's buffer, a
    // used one as well), Object::canonicalize / Object::canonicalize_with called directly on the root
    // object, and on the objects one level down
    {
        let mut buf = ryu_js::Buffer::new();
        let _ = buf.format(1.2345e-7);
        let mut c1 = v.clone();
        c1.canonicalize_with(&mut buf);
        out.oracle(c1 == c, "Value::canonicalize_with = Value::canonicalize", || show_value(&c1));
        if let Value::Object(o) = &v {
            let mut o1 = o.clone();
            o1.canonicalize();
            let mut o2 = o.clone();
            o2.canonicalize_with(&mut buf);
            let (c1, c2) = (Value::Object(o1), Value::Object(o2));
            out.oracle(c1 == c && c2 == c, "Object::canonicalize / canonicalize_with on the root object = Value::canonicalize", || format!("{} / {}", show_value(&c1), show_value(&c2)));
            out.count("object_entry_point");
        }
        if let Value::Array(items) = &v {
            for (i, x) in items.iter().enumerate() {
                if let (Value::Object(o), Value::Array(ci)) = (x, &c) {
                    let mut o1 = o.clone();
                    o1.canonicalize();
                    out.oracle(ci.get(i) == Some(&Value::Object(o1.clone())), "Object::canonicalize on an item = that item of the canonical array", || show_value(&Value::Object(o1.clone())));
                }
            }
        }
    }
    let ijson = is_ijson(&v);
    out.count(if ijson { "ijson" } else { "not_ijson" });
    // the number table of the request is what the real code does now (ties the model's opaque numCanon)
    if a[0] != "-" {
        for p in a[0].split(',') {
            if let Some((n, cn)) = p.split_once('=') {
                out.oracle(canon_of_number(n) == cn, "number table of the request = current canonicalization of numbers", || format!("{} -> {} (table says {})", n, canon_of_number(n), cn));
                // C09: every number is the ES6 rendering of the nearest double
                if let Ok(x) = n.parse::<f64>() {
                    if x.is_finite() {
                        let (got, want) = (canon_of_number(n), es6_number(x));
                        if got != want && es6_ok(x, &got, &want) { out.count("exact_ties_resolved_to_even"); }
                        out.oracle(es6_ok(x, &got, &want), "number = ECMAScript shortest round-trip rendering of the nearest double", || format!("{} -> impl {} / reference {}", n, got, want));
                        out.count("numbers_checked");
                        if n.chars().filter(|c| c.is_ascii_digit()).count() > 17 { out.count("numbers_over_17_digits"); }
                    }
                }
            }
        }
    }
    if ijson {
        // C09: canonical form = independent JCS reference
        let mut want = String::new();
        ref_jcs(&v, &mut want);
        let got = c.compact_print().to_string();
        out.oracle(got == want || jcs_equiv(&c, &v), "canonicalize + compact print = RFC 8785 reference", || format!("impl {} / reference {}", got, want));
        // C10: idempotent
        let mut c2 = c.clone();
        c2.canonicalize();
        out.oracle(c2 == c, "idempotent", || format!("{} then {}", show_value(&c), show_value(&c2)));
        // C10: blind to member order at every depth
        let mut s = shuffle_deep(&mut out.rng, &v);
        s.canonicalize();
        out.oracle(s == c, "blind to member order", || show_value(&s));
        // C10: blind to number spelling
        let mut r = respell_deep(&mut out.rng, &v);
        let rs = show_value(&r);
        r.canonicalize();
        out.oracle(r == c, "blind to numerically equal number spellings", || format!("respelled {} canonicalized to {}", rs, show_value(&r)));
        // C10: blind to whitespace and escape spelling (print with other options / \u escapes, re-parse)
        let pretty = v.pretty_print().to_string();
        let escaped: String = pretty.chars().map(|ch| if ch == 'a' || ch == 'é' || ch == '/' { format!("\\u{:04x}", ch as u32) } else { ch.to_string() }).collect();
        if let Ok((mut w, _)) = Value::parse_str(&escaped) { w.canonicalize(); out.oracle(w == c, "blind to whitespace and escape spelling", || escaped.clone()); }
        // C10: nothing else changes; the object stays queryable by key
        out.oracle(same_shape(&v, &c), "only number spellings and member order change", || show_value(&c));
        fn queryable(v: &Value) -> bool {
            match v {
                Value::Array(a) => a.iter().all(queryable),
                Value::Object(o) => o.entries().iter().enumerate().all(|(i, e)| o.index_of(e.key.as_str()) == Some(i) && o.get(e.key.as_str()).next() == Some(&e.value) && queryable(&e.value)),
                _ => true,
            }
        }
        out.oracle(queryable(&c), "every key of the canonical object is found by key lookup at its position", || show_value(&c));
    }
    (reply, matches!(v, Value::Object(_) | Value::Array(_)))
}

pub fn gen_key(rng: &mut Rng) -> String {
    // keys across the region where UTF-16 and code point order differ
    let mut s = String::new();
    let n = rng.range(0, 3);
    for _ in 0..n {
        s.push(match rng.below(8) {
            0 => char::from_u32(0xe000 + rng.below(0x1fff) as u32).unwrap_or('\u{e000}'),
            1 => char::from_u32(0x10000 + rng.below(0x100000) as u32).unwrap_or('\u{10000}'),
            2 => *rng.pick(&['\u{ffff}', '\u{e000}', '\u{10000}', '\u{10ffff}', '\u{d7ff}', '\u{fb33}', '😀', '\u{1d11e}']),
            3 => *rng.pick(&['\u{0}', '\u{1f}', '"', '\\', '\u{7f}', '\r', '€']),
            _ => *rng.pick(&['a', 'b', 'A', '1', 'ö', 'z']),
        });
    }
    s
}
/// a plain decimal (no exponent): `int_digits` integer digits, then `zeros` zeros and `sig` random
/// digits after the point — small magnitudes spelled out in full
pub fn plain_decimal(rng: &mut Rng, int_digits: usize, zeros: usize, sig: usize) -> String {
    let mut s = String::new();
    if rng.chance(1, 3) { s.push('-'); }
    if int_digits == 0 { s.push('0'); } else { s.push(char::from(b'1' + rng.below(9) as u8)); for _ in 1..int_digits { s.push(char::from(b'0' + rng.below(10) as u8)); } }
    s.push('.');
    for _ in 0..zeros { s.push('0'); }
    for _ in 0..sig { s.push(char::from(b'0' + rng.below(10) as u8)); }
    if zeros + sig == 0 { s.push('0'); }
    s
}
pub fn gen_number(rng: &mut Rng) -> String {
    match rng.below(11) {
        10 => { let (i, z, g) = (rng.below(4) as usize, rng.below(30) as usize, rng.range(1, 18) as usize); plain_decimal(rng, i, z, g) }
        0 => (*rng.pick(&["0", "-0", "0.0", "-0.0e5", "1e21", "1e20", "999999999999999900000", "1e-6", "1e-7", "0.000001", "0.0000001", "123456789012345680000", "1.7976931348623157e308", "5e-324", "2.2250738585072014e-308", "4.9e-324", "333333333.33333329", "1E30", "4.50", "2e-3", "0.000000000000000000000000001", "9007199254740993", "9007199254740992", "0.1", "0.30000000000000004", "4.14673952822385274921803532e91", "1e400", "-1e400"])).to_string(),
        1 | 2 => { // long decimals
            let mut s = String::new();
            if rng.chance(1, 3) { s.push('-'); }
            s.push(*rng.pick(&['1', '2', '4', '7', '9']));
            for _ in 0..rng.range(17, 40) { s.push(char::from(b'0' + rng.below(10) as u8)); }
            if rng.chance(1, 2) { s.insert(1 + s.starts_with('-') as usize, '.'); }
            if rng.chance(2, 3) { s.push_str(&format!("e{}", rng.below(600) as i64 - 300)); }
            s
        }
        3 => { // near-halfway: a double's exact midpoint neighbourhood expressed in decimal via bits
            let bits = rng.next() & 0x7fefffffffffffff;
            let x = f64::from_bits(bits);
            let s = format!("{:e}", x);
            let mut t = s.replace('e', "00000000000000000001e");
            if rng.chance(1, 2) { t = s.replace('e', "49999999999999999999e"); }
            t
        }
        4 => format!("{}e{}", rng.range(1, 9999), rng.below(44) as i64 - 22),
        5 => { let x = f64::from_bits(rng.next() & 0x000fffffffffffff); format!("{:e}", x) } // subnormal
        _ => { let mut g = crate::parse::DocGen { rng, max_depth: 0 }; let mut s = String::new(); g.number(&mut s); s }
    }
}
pub fn gen_ijson(rng: &mut Rng, depth: usize, max_depth: usize) -> Value {
    let leaf = depth >= max_depth || rng.chance(2, 5);
    if leaf {
        match rng.below(7) {
            0 => Value::Null,
            1 => Value::Boolean(rng.chance(1, 2)),
            2 | 3 | 4 => {
                loop {
                    let n = gen_number(rng);
                    if n.parse::<f64>().map_or(false, |x| x.is_finite()) {
                        if let Ok(b) = json_syntax::NumberBuf::new(n.into_bytes().into()) { return Value::Number(b); }
                    }
                }
            }
            _ => Value::String(crate::print::gen_string(rng).as_str().into()),
        }
    } else if rng.chance(1, 3) {
        let n = rng.below(4);
        Value::Array((0..n).map(|_| gen_ijson(rng, depth + 1, max_depth)).collect())
    } else {
        // wide objects now and then (the member sort switches strategy with the size)
        let wide = rng.chance(1, 25);
        let n = if wide { rng.range(17, 90) } else { rng.below(6) };
        let mut o = Object::new();
        for i in 0..n {
            let k = if wide && !rng.chance(1, 5) { format!("{}{}", gen_key(rng), (i * 13) % 97) } else { gen_key(rng) };
            if !o.contains_key(k.as_str()) { o.push(k.as_str().into(), gen_ijson(rng, if wide { max_depth } else { depth + 1 }, max_depth)); }
        }
        Value::Object(o)
    }
}

pub fn gen(out: &mut Out, thorough: bool) {
    let mut l = |s: String, out: &mut Out| crate::exec_line(&s, out);
    // the RFC's own vectors and the repo's examples
    for doc in [
        "{\"numbers\": [333333333.33333329, 1E30, 4.50, 2e-3, 0.000000000000000000000000001], \"string\": \"\\u20ac$\\u000F\\u000aA'\\u0042\\u0022\\u005c\\\\\\\"\\/\", \"literals\": [null, true, false]}",
        "{\"\\u20ac\": \"Euro Sign\", \"\\r\": \"Carriage Return\", \"\\ufb33\": \"Hebrew Letter Dalet With Dagesh\", \"1\": \"One\", \"\\ud83d\\ude00\": \"Emoji: Grinning Face\", \"\\u0080\": \"Control\", \"\\u00f6\": \"Latin Small Letter O With Diaeresis\"}",
        "{\"b\": 0.00000000001, \"c\": {\"foo\": true, \"bar\": false}, \"a\": [\"foo\", \"bar\"]}",
        "{\"\\ue000\": 2, \"\\ud800\\udc00\": 1}",
        "[1e21, 1e20, 1e-6, 1e-7, 0, -0, 5e-324, 1.7976931348623157e308, 4.14673952822385274921803532e91]",
    ] {
        if let Ok((v, _)) = Value::parse_str(doc) { l(request_for(&v), out); }
    }
    // numbers alone
    let nn = if thorough { 1500000 } else { 30000 };
    for _ in 0..nn {
        let n = gen_number(&mut out.rng);
        if let Ok(b) = json_syntax::NumberBuf::new(n.into_bytes().into()) { l(request_for(&Value::Number(b)), out); }
    }
    // exact halfway points between adjacent doubles, spelled out in full and pushed off the tie by a
    // digit placed after a run of zeros / nines of EVERY length class (20 … 70 000): whatever the length
    // of the spelling, the result is the nearest double (a parser that looks at a bounded number of
    // digits, or switches algorithm with the length, is decided here)
    {
        let mut n = 0u64;
        let pads: &[usize] = if thorough { &[0, 1, 20, 300, 760, 1100, 1990, 2001, 2400, 4097, 20000, 70000] } else { &[0, 20, 300, 1100, 2001, 4097, 70000] };
        for i in 0..(if thorough { 60 } else { 12 }) {
            // an integer-valued halfway point: 2^53 + 2k + 1 (between 2^53 + 2k and 2^53 + 2k + 2), scaled
            let k = out.rng.below(1 << 20);
            let mid = (1u128 << 53) + 2 * k as u128 + 1;
            let scale = [0usize, 1, 7, 30][i % 4];
            let digits = format!("{}{}", mid, "0".repeat(scale));
            for &pad in pads {
                for (fill, last) in [("0", "1"), ("9", "9"), ("0", "0")] {
                    let up = format!("{}.{}{}", digits, fill.repeat(pad), last);
                    let down_int = mid - 1;
                    let down = format!("{}{}.{}{}", down_int, "0".repeat(scale).replacen('0', "9", 1), "9".repeat(pad), "9");
                    for num in [up, if scale == 0 { format!("{}.{}9", down_int, "9".repeat(pad)) } else { down }] {
                        for wrap in [false, true] {
                            let text = if wrap { format!("{}e-{}", num, 3 + i % 5) } else { num.clone() };
                            if let Ok(b) = json_syntax::NumberBuf::new(text.into_bytes().into()) { l(request_for(&Value::Number(b)), out); n += 1; }
                        }
                    }
                }
            }
        }
        out.count_n("halfway_padded_numbers", n);
        out.exhaustive.push(format!("integer-valued halfway points around 2^53 (scaled by 1, 10, 10^7, 10^30), pushed off the tie after {:?} zeros / nines, bare and with a negative exponent", pads));
    }
    // key pairs around the UTF-16 / code point divergence, exhaustive over a boundary set
    let ks = ['\u{d7ff}', '\u{e000}', '\u{f000}', '\u{ffff}', '\u{10000}', '\u{10ffff}', 'a', '\u{7f}', '\u{80}', '\u{7ff}', '\u{800}'];
    for a in ks { for b in ks { for c in ["", "a", "\u{10000}"] {
        let mut o = Object::new();
        let (k1, k2) = (format!("{}{}", a, c), format!("{}", b));
        o.push(k1.as_str().into(), Value::Null);
        if k1 != k2 { o.push(k2.as_str().into(), Value::Boolean(true)); }
        l(request_for(&Value::Object(o)), out);
    } } }
    out.exhaustive.push("all ordered pairs of 11 boundary characters (with 3 suffixes) as the two keys of an object".into());
    // the same divergence behind a shared prefix of EVERY length up to 40 UTF-16 units (a comparison
    // that looks at a bounded window, at chunks or at a prefix hash first is decided there), the
    // prefix made of one-unit characters, of surrogate pairs or of both
    let kd = ['\u{d7ff}', '\u{e000}', '\u{ffff}', '\u{10000}', '\u{10ffff}', 'a'];
    for plen in 0..=40usize {
        for pk in 0..3 {
            let mut prefix = String::new();
            let mut units = 0;
            while units < plen {
                let astral = match pk { 0 => false, 1 => plen - units >= 2, _ => plen - units >= 2 && units % 3 == 0 };
                if astral { prefix.push('\u{1f600}'); units += 2; } else { prefix.push(if pk == 2 { '\u{fb33}' } else { 'p' }); units += 1; }
            }
            for (i, a) in kd.iter().enumerate() { for b in kd.iter().skip(i + 1) {
                let mut o = Object::new();
                let (k1, k2) = (format!("{}{}x", prefix, a), format!("{}{}", prefix, b));
                if (plen + i) % 2 == 0 { o.push(k1.as_str().into(), Value::Null); o.push(k2.as_str().into(), Value::Boolean(true)); } else { o.push(k2.as_str().into(), Value::Boolean(true)); o.push(k1.as_str().into(), Value::Null); }
                if plen % 4 == 1 { o.push(prefix.as_str().into(), Value::Boolean(false)); }
                l(request_for(&Value::Object(o)), out);
                out.count("long_prefix_key_pairs");
            } }
        }
    }
    out.exhaustive.push("all pairs of 6 boundary characters behind a shared key prefix of every length 0..=40 UTF-16 units (3 prefix compositions)".into());
    // SCALE: objects of 2^8 / 2^12 (+-1, 5000; thorough 2^16) members in descending and interleaved
    // order with keys on both sides of the UTF-16 / code point divergence; keys longer than 2^12 / 2^16
    // sharing everything but the end; numbers with that many digits
    {
        let mut n = 0u64;
        for &cnt in (if thorough { &[255usize, 256, 257, 4095, 4096, 4097, 5000, 65537][..] } else { &[257usize, 4097, 5000][..] }) {
            let mut o = Object::new();
            for i in (0..cnt).rev() {
                let k = match i % 4 { 0 => format!("{}{}", '\u{e000}', i), 1 => format!("{}{}", '\u{10000}', i), 2 => format!("k{}", i), _ => format!("{}{}{}", '\u{ffff}', i, '\u{10ffff}') };
                o.push(k.as_str().into(), if i % 97 == 0 { Value::Number(json_syntax::NumberBuf::new(format!("{}.0e1", i).into_bytes().into()).unwrap()) } else { Value::Null });
            }
            l(request_for(&Value::Object(o.clone())), out);
            l(request_for(&Value::Array(vec![Value::Object(o), Value::Boolean(true)])), out);
            let long = "p".repeat(cnt);
            let mut o2 = Object::new();
            for tail in ["\u{e000}", "\u{10000}", "z", "", "\u{ffff}", "a"] { o2.push(format!("{}{}", long, tail).as_str().into(), Value::Null); }
            l(request_for(&Value::Object(o2)), out);
            for num in [format!("1{}", "0".repeat(cnt.min(300))), format!("0.{}1", "0".repeat(cnt.min(300))), format!("1.{}5e{}", "3".repeat(cnt), 3), format!("{}e-{}", "9".repeat(cnt), cnt)] {
                if let Ok(b) = json_syntax::NumberBuf::new(num.into_bytes().into()) { l(request_for(&Value::Array(vec![Value::Number(b)])), out); n += 1; }
            }
            n += 3;
        }
        out.count_n("scale_values", n);
    }
    // generated I-JSON values
    let m = if thorough { 300000 } else { 5000 };
    for i in 0..m {
        let v = gen_ijson(&mut out.rng, 0, if i % 5 == 0 { 4 } else { 2 });
        l(request_for(&v), out);
    }
    // values with duplicate keys (outside the I-JSON domain): structure only
    for _ in 0..(m / 10) {
        let v = crate::print::gen_value(&mut out.rng, 0, 2);
        l(request_for(&v), out);
    }
}
