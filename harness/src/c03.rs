//! C03 — totality, single pass, nesting-independent stack. The part a model cannot exhibit (real
//! stack depth, aborts) is observed here: deep documents are parsed and traversed in a thread with
//! a fixed 256 KiB stack, inside a child process so that an overflow is an exit status.
use crate::common::*;
use crate::parse::{parse_opts, show_result};
use json_syntax::{Parse, Value};

pub fn deep_doc(kind: &str, depth: usize, closed: bool) -> String {
    let mut s = String::with_capacity(depth * 8);
    match kind {
        "arr" => {
            for _ in 0..depth { s.push('['); }
            if closed { for _ in 0..depth { s.push(']'); } }
        }
        // a COMPLETED deep value followed by a syntax error: after the whole document ("tail"), or
        // inside an enclosing array whose next item is malformed ("mid"). The rejected value is
        // disposed of inside the parser, on its stack (`closed` = the well-formed twin)
        "tail" => {
            for _ in 0..depth { s.push('['); }
            for _ in 0..depth { s.push(']'); }
            if !closed { s.push('x'); }
        }
        "mid" => {
            s.push_str("[1,");
            for i in 0..depth { s.push_str(if i % 2 == 0 { "[" } else { "{\"a\":" }); }
            s.push_str("null");
            for i in (0..depth).rev() { s.push_str(if i % 2 == 0 { "]" } else { "}" }); }
            s.push_str(if closed { ",2]" } else { ",}" });
        }
        "obj" => {
            for _ in 0..depth { s.push_str("{\"k\":"); }
            if closed { s.push_str("0"); for _ in 0..depth { s.push('}'); } }
        }
        // long runs at every place where the grammar iterates without nesting: the stack must not
        // grow with the length of a whitespace run, a string, a number, or an item list either
        "ws" => {
            let w: String = (0..depth).map(|i| [' ', '\n', '\t', '\r'][i % 4]).collect();
            s.push_str(&w); s.push('['); s.push_str(&w); s.push('1'); s.push_str(&w); s.push(','); s.push_str(&w);
            s.push('{'); s.push_str(&w); s.push_str("\"k\""); s.push_str(&w); s.push(':'); s.push_str(&w); s.push_str("[]"); s.push_str(&w);
            s.push(','); s.push_str(&w); s.push_str("\"l\""); s.push_str(&w); s.push(':'); s.push_str(&w); s.push_str("\"s\""); s.push_str(&w);
            if closed { s.push('}'); s.push_str(&w); s.push(']'); s.push_str(&w); }
        }
        "pretty" => {
            // an indented nested document: the whitespace run before each closing bracket grows with the depth
            let d = (depth as f64).sqrt() as usize + 1;
            for i in 0..d { if i % 2 == 0 { s.push('['); } else { s.push_str("{\"a\": 1,\n"); for _ in 0..i { s.push(' '); } s.push_str("\"b\":"); } s.push('\n'); for _ in 0..=i { s.push(' '); } }
            s.push_str("null");
            if closed { for i in (0..d).rev() { s.push('\n'); for _ in 0..i { s.push(' '); } s.push(if i % 2 == 0 { ']' } else { '}' }); } }
        }
        "long" => {
            s.push('['); s.push('"');
            for i in 0..depth { match i % 7 { 0 => s.push_str("\\n"), 1 => s.push_str("\\u00e9"), 2 => s.push_str("\\ud83d\\ude00"), 3 => s.push('é'), _ => s.push('a') } }
            s.push('"'); s.push(','); s.push('-');
            for i in 0..depth { s.push((b'1' + (i % 9) as u8) as char); }
            s.push('.'); for _ in 0..depth { s.push('0'); } s.push_str("e+"); for _ in 0..depth { s.push('7'); }
            s.push_str(",{");
            for i in 0..depth { if i > 0 { s.push(','); } s.push_str("\"k\":"); s.push_str(if i % 2 == 0 { "[]" } else { "0" }); }
            s.push('}');
            for _ in 0..depth { s.push_str(",null"); }
            if closed { s.push(']'); }
        }
        _ => {
            for i in 0..depth { s.push_str(if i % 2 == 0 { "[1, " } else { "{\"a\":true,\"b\": " }); }
            if closed { s.push_str("null"); for i in (0..depth).rev() { s.push_str(if i % 2 == 0 { " ]" } else { "}" }); } }
        }
    }
    s
}

/// Runs in the child process: parse + traverse inside a small fixed stack.
pub fn deep_child(kind: &str, depth: usize, closed: bool) -> String {
    let doc = deep_doc(kind, depth, closed);
    let h = std::thread::Builder::new().stack_size(256 * 1024).spawn(move || {
        let r = Value::parse_str(&doc);
        let line = match &r {
            Ok((v, cm)) => {
                let n = v.traverse().count();
                let vol = v.volume();
                format!("ok {} traverse={} volume_le={}", cm.len(), n, vol <= n)
            }
            Err(e) => crate::parse::show_err(e, false),
        };
        std::mem::forget(r); // `Drop for Value` is recursive by design and outside the property
        line
    });
    match h {
        Ok(h) => h.join().unwrap_or_else(|_| "PANIC".into()),
        Err(_) => "spawn-failed".into(),
    }
}

struct Counting<I> { it: I, pulled: std::rc::Rc<std::cell::Cell<usize>>, done: std::rc::Rc<std::cell::Cell<usize>> }
impl<I: Iterator<Item = char>> Iterator for Counting<I> {
    type Item = Result<char, ()>;
    fn next(&mut self) -> Option<Self::Item> {
        self.pulled.set(self.pulled.get() + 1);
        let r = self.it.next();
        if r.is_none() { self.done.set(self.done.get() + 1); }
        r.map(Ok)
    }
}

pub fn exec(rest: &str, out: &mut Out) -> (String, bool) {
    let a: Vec<&str> = rest.split(' ').collect();
    match a[0] {
        "deep" if a.len() == 4 => {
            let (kind, depth, closed) = (a[1], a[2].parse::<usize>().unwrap_or(0), a[3] == "1");
            let exe = std::env::current_exe().unwrap();
            // the same child built WITHOUT optimisation (target/debug/jsv, built by `check` for C03): the
            // stack a user's debug build consumes — an optimiser may turn a self-recursive call into
            // a loop and hide a depth that grows with the input
            if let Some(dbg) = exe.parent().and_then(|p| p.parent()).map(|p| p.join("debug").join("jsv")) {
                if dbg.exists() {
                    let od = std::process::Command::new(&dbg).args(["deepchild", kind, &depth.to_string(), if closed { "1" } else { "0" }]).output();
                    match od {
                        Ok(od) if od.status.success() => { out.count("deep_debug_build_ok"); }
                        Ok(od) => out.oracle(false, "deep / long documents parse inside a fixed 256 KiB stack in an unoptimised build too (no overflow, no abort)", || format!("debug-build child exited with {:?}", od.status)),
                        Err(_) => {}
                    }
                }
            }
            let o = std::process::Command::new(exe).args(["deepchild", kind, &depth.to_string(), if closed { "1" } else { "0" }]).output();
            match o {
                Ok(o) if o.status.success() => {
                    let line = String::from_utf8_lossy(&o.stdout).trim().to_string();
                    let mut it = line.split(' ');
                    let reply = format!("{} {}", it.next().unwrap_or(""), it.next().unwrap_or(""));
                    if line.starts_with("ok") {
                        let n: usize = line.split(' ').nth(1).and_then(|x| x.parse().ok()).unwrap_or(0);
                        out.oracle(line.contains(&format!("traverse={}", n)) && line.contains("volume_le=true"), "iterative traversal yields one fragment per code-map entry", || line.clone());
                        (reply, true)
                    } else {
                        (line, false)
                    }
                }
                Ok(o) => {
                    out.oracle(false, "deep nesting parses inside a fixed 256 KiB stack (no overflow, no abort)", || format!("child exited with {:?}", o.status));
                    ("CRASH".into(), false)
                }
                Err(e) => (format!("spawn-error {}", e), false),
            }
        }
        "pull" if a.len() == 3 => {
            let o = match parse_opts(a[1]) { Some(o) => o, None => return ("bad-op".into(), false) };
            let text = match parse_cps(a[2]) { Some(t) => t, None => return ("bad-op".into(), false) };
            let pulled = std::rc::Rc::new(std::cell::Cell::new(0usize));
            let done = std::rc::Rc::new(std::cell::Cell::new(0usize));
            let n = text.chars().count();
            let res = Value::parse_utf8_with(Counting { it: text.chars(), pulled: pulled.clone(), done: done.clone() }, o);
            let reply = show_result(&res, false);
            // `pulled` counts calls to next(); `done` the calls answered with None. The stream is a
            // by-value iterator, so a character can only ever be delivered once; what is checked is
            // that the parser never asks for more characters than exist and, on success, has read
            // all of them. (Polling the exhausted iterator again is not a second pull of a character.)
            let chars_pulled = pulled.get() - done.get();
            out.oracle(chars_pulled <= n, "no more characters are pulled than the stream holds", || format!("{} characters delivered for {} in the text", chars_pulled, n));
            if res.is_ok() {
                out.oracle(chars_pulled == n && done.get() >= 1, "a successful parse has read the whole stream", || format!("pulled {} of {}", chars_pulled, n));
            }
            out.count(&format!("end_polled_{}", done.get().min(5)));
            (reply, res.is_ok())
        }
        _ => ("bad-op".into(), false),
    }
}

pub fn gen(out: &mut Out, thorough: bool) {
    let mut l = |s: String, out: &mut Out| crate::exec_line(&s, out);
    let depths: &[usize] = if thorough { &[1000, 10_000, 100_000, 500_000, 1_000_000, 2_000_000] } else { &[1000, 20_000, 200_000] };
    for kind in ["arr", "obj", "mixed", "ws", "pretty", "long", "tail", "mid"] {
        for &d in depths {
            for closed in ["1", "0"] {
                l(format!("c03 deep {} {} {}", kind, d, closed), out);
            }
        }
    }
    out.notes.insert("deep_nesting".into(), format!("sizes {:?} x {{nested arrays, nested objects, mixed nesting, long whitespace runs at every grammar position, indented nested documents (total size ~ the given number), long strings/numbers/item lists/entry lists}} x {{closed, unclosed}} parsed and traversed in a 256 KiB-stack thread of a child process", depths));
    // single pass: counting iterator on documents, prefixes and damaged documents
    let n_docs = if thorough { 5000 } else { 800 };
    for i in 0..n_docs {
        let doc = { let mut g = crate::parse::DocGen { rng: &mut out.rng, max_depth: 6 }; g.doc() };
        let o = crate::parse::ALL_OPTS[i % 4];
        l(format!("c03 pull {} {}", o, cps(&doc)), out);
        let chars: Vec<char> = doc.chars().collect();
        let k = out.rng.below(chars.len() as u64 + 1) as usize;
        l(format!("c03 pull {} {}", o, cps(&chars[..k].iter().collect::<String>())), out);
    }
    // long tokens across internal size thresholds (stack buffers, inline/heap switches, whatever their
    // size): totality must not depend on where a multi-byte character, an escape or the end of a
    // token falls — every plain-run length 0..N
    {
        let full: usize = if thorough { 1100 } else { 300 };
        let tails = ["", "é", "€", "😀", "\\n", "\\ud83d\\ude00", "é€😀é€😀"];
        let mut n = 0u64;
        let mut len = 0usize;
        while len <= full * 4 {
            for (ti, tail) in tails.iter().enumerate() {
                if len > full && ti != 1 && ti != 3 { continue; }
                let body = "a".repeat(len);
                let o = crate::parse::ALL_OPTS[(len + ti) % 4];
                l(format!("c03 pull {} {}", o, cps(&format!("[\"{}{}zy\",{{\"{}{}\":-{}.{}e-{}}}]", body, tail, body, tail, "7".repeat(len.max(1)), "7".repeat(len.max(1)), "1".repeat(len.clamp(1, 30))))), out);
                n += 1;
                if (len + ti) % 4 == 0 { l(crate::parse::req_bytes(format!("\"{}{}", body, tail).as_bytes(), o), out); n += 1; }
            }
            len += if len < full { 1 } else { 13 };
        }
        out.count_n("every_run_length_docs", n);
    }
    // characters that alias a significant one under a truncating cast / a class test / a table index, at
    // every position of documents covering every token type and right after token prefixes of every
    // length 0..=40 (shared with C01): no panic, whatever the verdict
    crate::parse::stream_aliasing(out, &crate::parse::ALL_OPTS);
    // random bytes and random damage through the byte entry point, all option records
    let n_rand = if thorough { 200_000 } else { 30_000 };
    for i in 0..n_rand {
        let len = out.rng.below(if i % 10 == 0 { 40 } else { 8 }) as usize;
        let mut b = Vec::with_capacity(len);
        for _ in 0..len {
            let c = match out.rng.below(4) {
                0 => out.rng.below(256) as u8,
                1 => *out.rng.pick(b"[]{}:,\"\\ue0123456789-+.tfn "),
                2 => *out.rng.pick(&[0xc3u8, 0xa9, 0xe2, 0x82, 0xac, 0xf0, 0x9f, 0x98, 0x80, 0xed, 0xa0, 0x80, 0xc0, 0xff]),
                _ => *out.rng.pick(b"\"\"[[]],,:: "),
            };
            b.push(c);
        }
        l(crate::parse::req_bytes(&b, crate::parse::ALL_OPTS[i % 4]), out);
    }
    // every prefix and single-byte edit of the corpus documents
    for (name, b) in crate::parse::corpus_files() {
        if b.len() > 3000 || name.starts_with("n_structure_100000") { l(crate::parse::req_bytes(&b, "ff"), out); l(crate::parse::req_bytes(&b, "tt"), out); continue; }
        let step = if thorough { 1 } else { 2 };
        let mut k = 0;
        while k <= b.len() {
            l(crate::parse::req_bytes(&b[..k], crate::parse::ALL_OPTS[k % 4]), out);
            if k < b.len() {
                let mut m = b.clone();
                m[k] = out.rng.below(256) as u8;
                l(crate::parse::req_bytes(&m, crate::parse::ALL_OPTS[(k + 1) % 4]), out);
            }
            k += step;
        }
    }
    for doc in ["", " ", "[", "[1", "[1,", "{\"a\"", "{\"a\":", "\"ab", "\"\\u12", "12", "1.", "tru", "[1] ", "{}", "nul", "[[[[", "{\"a\":{\"b\":["] {
        for o in crate::parse::ALL_OPTS { l(format!("parse cherr {} {}", o, cps(doc)), out); }
    }
}
