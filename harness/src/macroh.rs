//! `macro <token notation>` — the json! macro (C19). Programs are generated as Rust source,
//! compiled against /repo's current tree and run; each constructed value is compared with the Lean
//! model of the macro expansion (correspondence) and with `Value::parse_str` of the matching JSON
//! text (direct oracle). A batch that stops compiling is itself a failing replay.
use crate::common::*;
use json_syntax::{Parse, Value};

#[derive(Clone, Debug)]
pub enum KeyStyle { Lit, Paren, Var }
#[derive(Clone, Debug)]
pub enum Doc {
    Null,
    Bool(bool),
    Str(String),
    Int(String),          // Rust literal text incl. optional suffix, e.g. -5, 7u64
    Float(String),        // Rust float literal text
    Arr(Vec<Doc>, bool),
    Obj(Vec<(KeyStyle, String, Doc)>, bool),
}

fn float_rendering(src: &str) -> String {
    let x: f64 = src.parse().unwrap();
    json_syntax::NumberBuf::try_from(x).map(|n| n.as_str().to_string()).unwrap_or("null".into())
}
fn int_value(src: &str) -> String {
    src.trim_end_matches("u64").trim_end_matches("i64").trim_end_matches("u8").trim_end_matches("i8").to_string()
}

pub fn notation(d: &Doc, vars: &mut Vec<(String, String)>) -> String {
    match d {
        Doc::Null => "n".into(),
        Doc::Bool(true) => "t".into(),
        Doc::Bool(false) => "f".into(),
        Doc::Str(s) => format!("s{};", cps_inner(s)),
        Doc::Int(i) => format!("i{};", int_value(i)),
        Doc::Float(f) => format!("F{}={};", f, float_rendering(f)),
        Doc::Arr(items, tr) => {
            let mut s = String::from("[");
            for (i, x) in items.iter().enumerate() { if i > 0 { s.push(','); } s.push_str(&notation(x, vars)); }
            if *tr && !items.is_empty() { s.push(','); }
            s.push(']');
            s
        }
        Doc::Obj(es, tr) => {
            let mut s = String::from("{");
            for (i, (st, k, x)) in es.iter().enumerate() {
                if i > 0 { s.push(','); }
                match st {
                    KeyStyle::Lit => s.push_str(&format!("s{};", cps_inner(k))),
                    KeyStyle::Paren => s.push_str(&format!("(s{};)", cps_inner(k))),
                    KeyStyle::Var => { let name = format!("k{}", vars.len()); vars.push((name.clone(), k.clone())); s.push_str(&format!("(v{}={};)", name, cps(k))); }
                }
                s.push(':');
                s.push_str(&notation(x, vars));
            }
            if *tr && !es.is_empty() { s.push(','); }
            s.push('}');
            s
        }
    }
}
pub fn rust_source(d: &Doc, next_var: &mut usize) -> String {
    match d {
        Doc::Null => "null".into(),
        Doc::Bool(b) => b.to_string(),
        Doc::Str(s) => format!("{:?}", s),
        Doc::Int(i) => i.clone(),
        Doc::Float(f) => f.clone(),
        Doc::Arr(items, tr) => format!("[{}{}]", items.iter().map(|x| rust_source(x, next_var)).collect::<Vec<_>>().join(", "), if *tr && !items.is_empty() { "," } else { "" }),
        Doc::Obj(es, tr) => {
            let parts: Vec<String> = es.iter().map(|(st, k, x)| {
                let key = match st { KeyStyle::Lit => format!("{:?}", k), KeyStyle::Paren => format!("({:?})", k), KeyStyle::Var => { let n = format!("(k{})", *next_var); *next_var += 1; n } };
                format!("{}: {}", key, rust_source(x, next_var))
            }).collect();
            format!("{{ {}{} }}", parts.join(", "), if *tr && !es.is_empty() { "," } else { "" })
        }
    }
}
pub fn json_text(d: &Doc) -> String {
    match d {
        Doc::Null => "null".into(),
        Doc::Bool(b) => b.to_string(),
        Doc::Str(s) => { let mut t = String::new(); crate::print::ref_compact(&Value::String(s.as_str().into()), &mut t); t }
        Doc::Int(i) => int_value(i),
        Doc::Float(f) => float_rendering(f),
        Doc::Arr(items, _) => format!("[{}]", items.iter().map(json_text).collect::<Vec<_>>().join(",")),
        Doc::Obj(es, _) => format!("{{{}}}", es.iter().map(|(_, k, x)| { let mut t = String::new(); crate::print::ref_compact(&Value::String(k.as_str().into()), &mut t); format!("{}:{}", t, json_text(x)) }).collect::<Vec<_>>().join(",")),
    }
}

pub fn gen_doc(rng: &mut Rng, depth: usize, max_depth: usize) -> Doc {
    let leaf = depth >= max_depth || rng.chance(2, 5);
    if leaf {
        match rng.below(8) {
            0 => Doc::Null,
            1 => Doc::Bool(rng.chance(1, 2)),
            2 | 3 => Doc::Str(crate::print::gen_string(rng)),
            4 | 5 => Doc::Int((*rng.pick(&["0", "1", "-1", "42", "-2147483648", "2147483647", "18446744073709551615u64", "-9223372036854775808i64", "255u8", "-128i8", "7"])).to_string()),
            _ => Doc::Float((*rng.pick(&["1.5", "0.25", "-3.75", "12.125", "0.1", "-0.5", "100.0", "1e5", "2.5e-3", "1e21", "-0.0"])).to_string()),
        }
    } else if rng.chance(1, 2) {
        let n = rng.below(4);
        Doc::Arr((0..n).map(|_| gen_doc(rng, depth + 1, max_depth)).collect(), rng.chance(1, 2))
    } else {
        let n = rng.below(4);
        Doc::Obj((0..n).map(|_| {
            let st = match rng.below(4) { 0 => KeyStyle::Paren, 1 => KeyStyle::Var, _ => KeyStyle::Lit };
            let k = if rng.chance(1, 2) { rng.pick(&["a", "b", "", "a"]).to_string() } else { crate::print::gen_string(rng) };
            (st, k, gen_doc(rng, depth + 1, max_depth))
        }).collect(), rng.chance(1, 2))
    }
}

/// Compile and run one batch; returns the printed value lines (one per doc) or the compiler output.
pub fn run_batch(docs: &[Doc], workdir: &str) -> Result<Vec<String>, String> {
    let dir = format!("{}/macro_cases", workdir);
    std::fs::create_dir_all(format!("{}/src", dir)).map_err(|e| e.to_string())?;
    std::fs::write(format!("{}/Cargo.toml", dir), "[package]\nname = \"macro_cases\"\nversion = \"0.1.0\"\nedition = \"2021\"\n[workspace]\n[dependencies]\njson-syntax = { path = \"/repo\" }\n[profile.dev]\nopt-level = 0\ndebug = false\n").map_err(|e| e.to_string())?;
    let _ = std::fs::copy("/repo/Cargo.lock", format!("{}/Cargo.lock", dir));
    let mut src = String::from("#![recursion_limit = \"1024\"]\n#![allow(unused_parens, clippy::all)]\nuse json_syntax::{json, Value};\n");
    src.push_str("fn hh(v: &Value) -> u64 { use std::hash::{Hash, Hasher}; let mut s = std::collections::hash_map::DefaultHasher::new(); v.hash(&mut s); s.finish() }\n");
    src.push_str("fn cps(s: &str) -> String { s.chars().map(|c| format!(\"{:x}\", c as u32)).collect::<Vec<_>>().join(\".\") }\n");
    src.push_str("fn show(v: &Value, o: &mut String) { match v { Value::Null => o.push('n'), Value::Boolean(true) => o.push('t'), Value::Boolean(false) => o.push('f'), Value::Number(n) => { o.push('#'); o.push_str(&cps(n.as_str())); o.push(';'); } Value::String(s) => { o.push('s'); o.push_str(&cps(s.as_str())); o.push(';'); } Value::Array(a) => { o.push('['); for x in a { show(x, o); } o.push(']'); } Value::Object(ob) => { o.push('{'); for e in ob.entries() { o.push('k'); o.push_str(&cps(e.key.as_str())); o.push(';'); show(&e.value, o); } o.push('}'); } } }\n");
    for (i, d) in docs.iter().enumerate() {
        let mut vars = Vec::new();
        let _ = notation(d, &mut vars);
        let mut nv = 0;
        let body = rust_source(d, &mut nv);
        src.push_str(&format!("fn case{}() -> Value {{\n", i));
        for (j, (_, val)) in vars.iter().enumerate() { src.push_str(&format!("    let k{}: &str = {:?};\n", j, val)); }
        src.push_str(&format!("    json!({})\n}}\n", body));
    }
    src.push_str("fn main() {\n");
    for (i, d) in docs.iter().enumerate() {
        // `==` both ways against the parse of the matching text, and equal hashes (Object's PartialEq / Hash see the key index)
        src.push_str(&format!("    {{ let mut o = String::new(); let c = case{}(); show(&c, &mut o); let p = <Value as json_syntax::Parse>::parse_str({:?}).map(|r| r.0); let eq = p.as_ref().map_or(false, |p| *p == c && c == *p && hh(p) == hh(&c) && c.clone() == c); println!(\"{{}} {{}}\", o, if eq {{ \"EQ\" }} else {{ \"NE\" }}); }}\n", i, json_text(d)));
    }
    src.push_str("}\n");
    std::fs::write(format!("{}/src/main.rs", dir), src).map_err(|e| e.to_string())?;
    let out = std::process::Command::new("cargo").args(["run", "--offline", "-q"]).current_dir(&dir).env("CARGO_NET_OFFLINE", "true").env("CARGO_TARGET_DIR", format!("{}/macro_target", workdir)).env_remove("RUSTFLAGS").output().map_err(|e| e.to_string())?;
    if !out.status.success() {
        let err = String::from_utf8_lossy(&out.stderr);
        return Err(err.lines().filter(|l| l.starts_with("error") || l.contains("-->")).take(12).collect::<Vec<_>>().join(" | "));
    }
    Ok(String::from_utf8_lossy(&out.stdout).lines().map(|l| l.to_string()).collect())
}

pub fn process(docs: &[Doc], out: &mut Out, workdir: &str) {
    match run_batch(docs, workdir) {
        Err(e) => {
            out.cur = format!("macro batch of {} programs", docs.len());
            out.oracle(false, "generated json! programs compile against the current tree", || e.clone());
        }
        Ok(lines) => {
            for (d, line) in docs.iter().zip(lines.iter()) {
                let (line, flag) = match line.rsplit_once(' ') { Some((l, f)) => (l.to_string(), f.to_string()), None => (line.clone(), String::new()) };
                let line = &line;
                let mut vars = Vec::new();
                let req = format!("macro {}", notation(d, &mut vars));
                out.cur = req.clone();
                let text = json_text(d);
                match Value::parse_str(&text) {
                    Ok((v, _)) => out.oracle(show_value(&v) == *line, "json!(literal) = parse of the corresponding JSON text", || format!("macro {} / parse({}) {}", line, text, show_value(&v))),
                    Err(e) => out.oracle(false, "reference text parses", || format!("{}: {}", text, crate::parse::show_err(&e, false))),
                }
                out.oracle(flag == "EQ", "json!(literal) == parse of the corresponding JSON text (both ways, equal hashes), evaluated in the generated program", || format!("macro {} flag {}", line, flag));
                out.record(&req, &format!("ok {}", line), true);
            }
            out.oracle(lines.len() == docs.len(), "one output line per program", || format!("{} vs {}", lines.len(), docs.len()));
        }
    }
}

pub fn gen(out: &mut Out, thorough: bool, workdir: &str) {
    let batches = if thorough { 8 } else { 1 };
    let per = if thorough { 400 } else { 300 };
    for b in 0..batches {
        let mut docs = vec![
            Doc::Null, Doc::Bool(true), Doc::Arr(vec![], false), Doc::Obj(vec![], false),
            Doc::Arr(vec![Doc::Null], true), Doc::Obj(vec![(KeyStyle::Lit, "a".into(), Doc::Int("1".into())), (KeyStyle::Lit, "a".into(), Doc::Int("2".into()))], true),
            Doc::Obj(vec![(KeyStyle::Paren, "k".into(), Doc::Arr(vec![Doc::Float("1.5".into()), Doc::Str("é\"\\".into())], false)), (KeyStyle::Var, "v".into(), Doc::Obj(vec![], false))], false),
        ];
        for i in 0..per {
            let depth = if thorough && b == batches - 1 && i % 20 == 0 { 24 } else if i % 10 == 0 { 6 } else { 3 };
            docs.push(gen_doc(&mut out.rng, 0, depth));
        }
        if b == 0 {
            // every array of up to 7 elements (8 when thorough) over {a literal, `null`}, half of them
            // with a trailing comma, and the same as the member values of an object: the element
            // muncher's rules see every short interleaving of literal and non-literal tokens
            let maxn = if thorough { 8 } else { 7 };
            let mut count = 0u64;
            for n in 0..=maxn {
                for mask in 0u32..(1 << n) {
                    let leaf = |i: usize| if mask >> i & 1 == 1 { Doc::Int((i + 1).to_string()) } else { Doc::Null };
                    docs.push(Doc::Arr((0..n).map(leaf).collect(), (mask as usize + n) % 2 == 0));
                    if n >= 4 && mask % 3 == 0 {
                        docs.push(Doc::Obj((0..n).map(|i| (if i % 3 == 2 { KeyStyle::Paren } else { KeyStyle::Lit }, format!("k{}", i), leaf(i))).collect(), (mask as usize + n) % 2 == 1));
                    }
                    count += 1;
                }
            }
            out.count_n("short_arrays_literal_or_null", count);
            out.exhaustive.push(format!("every array of <= {} elements over {{literal, null}} as a json! program", maxn));
        }
        // long arrays and wide objects of mixed elements (runs of literals between containers, names,
        // nested programs), 8..=24 elements
        for i in 0..(if thorough { 40 } else { 24 }) {
            let n = 8 + (i * 5 + b) % 17;
            let run = 1 + out.rng.below(7) as usize;
            let elems: Vec<Doc> = (0..n).map(|j| if (j / run) % 2 == 0 || out.rng.chance(1, 4) { gen_doc(&mut out.rng, 3, 3) } else { gen_doc(&mut out.rng, 2, 3) }).collect();
            if i % 3 == 2 {
                docs.push(Doc::Obj(elems.into_iter().enumerate().map(|(j, x)| (match j % 4 { 0 => KeyStyle::Paren, 1 => KeyStyle::Var, _ => KeyStyle::Lit }, format!("m{}", j % 11), x)).collect(), i % 2 == 0));
            } else {
                docs.push(Doc::Arr(elems, i % 2 == 0));
            }
            out.count("long_mixed_arrays_objects");
        }
        process(&docs, out, workdir);
    }
    out.notes.insert("programs".into(), format!("{} batch(es) of ~{} generated json! programs compiled against the current tree", batches, per));
}

// ---- replay: token notation back to a document ----
fn parse_doc(b: &[u8], i: &mut usize) -> Option<Doc> {
    let s = std::str::from_utf8(b).ok()?;
    let read = |i: &mut usize| -> Option<String> { let st = *i; while *i < b.len() && b[*i] != b';' { *i += 1; } if *i >= b.len() { return None; } let t = s[st..*i].to_string(); *i += 1; Some(t) };
    let c = *b.get(*i)?;
    *i += 1;
    match c {
        b'n' => Some(Doc::Null),
        b't' => Some(Doc::Bool(true)),
        b'f' => Some(Doc::Bool(false)),
        b's' => Some(Doc::Str(parse_cps(&read(i)?)?)),
        b'i' => { let t = read(i)?; let v: i128 = t.parse().ok()?; Some(Doc::Int(if v > i64::MAX as i128 { format!("{}u64", t) } else if v < i32::MIN as i128 || v > i32::MAX as i128 { format!("{}i64", t) } else { t })) }
        b'F' => { let t = read(i)?; Some(Doc::Float(t.split('=').next()?.to_string())) }
        b'[' => {
            let mut items = Vec::new();
            let mut tr = false;
            loop {
                match *b.get(*i)? { b']' => { *i += 1; break; } b',' => { *i += 1; tr = true; } _ => { tr = false; items.push(parse_doc(b, i)?); } }
            }
            Some(Doc::Arr(items, tr))
        }
        b'{' => {
            let mut es = Vec::new();
            let mut tr = false;
            loop {
                match *b.get(*i)? {
                    b'}' => { *i += 1; break; }
                    b',' => { *i += 1; tr = true; }
                    _ => {
                        tr = false;
                        let (st, k) = if b[*i] == b'(' {
                            *i += 1;
                            let r = if b[*i] == b's' { *i += 1; (KeyStyle::Paren, parse_cps(&read(i)?)?) } else if b[*i] == b'v' { *i += 1; let t = read(i)?; (KeyStyle::Var, parse_cps(t.split('=').nth(1)?)?) } else { return None };
                            if *b.get(*i)? != b')' { return None; }
                            *i += 1;
                            r
                        } else if b[*i] == b's' { *i += 1; (KeyStyle::Lit, parse_cps(&read(i)?)?) } else { return None };
                        if *b.get(*i)? != b':' { return None; }
                        *i += 1;
                        es.push((st, k, parse_doc(b, i)?));
                    }
                }
            }
            Some(Doc::Obj(es, tr))
        }
        _ => None,
    }
}

/// replay of `macro <notation>` lines: one single-program batch per line
pub fn exec_replay(rest: &str, out: &mut Out, workdir: &str) -> bool {
    let mut i = 0;
    match parse_doc(rest.as_bytes(), &mut i) {
        Some(d) if i == rest.len() => { process(&[d], out, workdir); true }
        _ => false,
    }
}
