//! `parse <mode> <opts> <input>` — the parser family (C01, C02, C03, C05, C07, C12).
//!   mode  str    input = code points; all string/char-iterator entry points
//!         bytes  input = hex bytes;   parse_slice / parse_slice_with
//!         cherr  input = code points; a char stream that fails after these characters
//!   opts  two letters t/f: accept_truncated_surrogate_pair, accept_invalid_codepoints
use crate::common::*;
use crate::refjson::{ref_parse, ref_syntax, RErr, RV};
use json_syntax::parse::{Error, Options};
use json_syntax::{CodeMap, Parse, Value};

pub fn show_err<E>(e: &Error<E>, slice: bool) -> String {
    match e {
        Error::Stream(p, _) => format!("E {} {}", if slice { "utf8" } else { "stream" }, p),
        Error::InvalidUtf8(p) => format!("E utf8 {}", p),
        Error::Unexpected(p, c) => format!("E unexpected {} {}", p, c.map(|c| format!("{:x}", c as u32)).unwrap_or("none".into())),
        Error::InvalidUnicodeCodePoint(s, cp) => format!("E invcp {} {} {:x}", s.start(), s.end(), cp),
        Error::MissingLowSurrogate(s, hi) => format!("E misslow {} {} {:x}", s.start(), s.end(), hi),
        Error::InvalidLowSurrogate(s, hi, cp) => format!("E invlow {} {} {:x} {:x}", s.start(), s.end(), hi, cp),
    }
}
pub fn show_cm(cm: &CodeMap) -> String {
    if cm.is_empty() {
        return "-".into();
    }
    cm.iter().map(|(_, e)| format!("{}-{}-{}", e.span.start(), e.span.end(), e.volume)).collect::<Vec<_>>().join(",")
}
pub fn show_result<E>(r: &Result<(Value, CodeMap), Error<E>>, slice: bool) -> String {
    match r {
        Ok((v, cm)) => format!("ok {} {}", show_value(v), show_cm(cm)),
        Err(e) => show_err(e, slice),
    }
}
pub fn parse_opts(s: &str) -> Option<Options> {
    let b = s.as_bytes();
    if b.len() != 2 || !b.iter().all(|c| *c == b't' || *c == b'f') {
        return None;
    }
    Some(Options { accept_truncated_surrogate_pair: b[0] == b't', accept_invalid_codepoints: b[1] == b't' })
}

pub fn to_rv(v: &Value) -> RV {
    match v {
        Value::Null => RV::Null,
        Value::Boolean(b) => RV::Bool(*b),
        Value::Number(n) => RV::Num(n.as_str().to_string()),
        Value::String(s) => RV::Str(s.as_str().to_string()),
        Value::Array(a) => RV::Arr(a.iter().map(to_rv).collect()),
        Value::Object(o) => RV::Obj(o.entries().iter().map(|e| (e.key.as_str().to_string(), to_rv(&e.value))).collect()),
    }
}

fn is_strict(o: &Options) -> bool {
    !o.accept_truncated_surrogate_pair && !o.accept_invalid_codepoints
}

/// Oracles on one parse result of a *string* input, against the independent reference.
fn oracles_str(out: &mut Out, text: &str, o: Options, reply: &str, res: &Result<(Value, CodeMap), Error>) {
    let chars: Vec<char> = text.chars().collect();
    // the reference is a recursive-descent parser: no very deep documents (those are C03's child
    // process business); size alone is no obstacle (scale streams)
    if chars.len() > 4_000_000 {
        return;
    }
    if chars.len() > 20_000 {
        let (mut d, mut maxd) = (0i64, 0i64);
        for c in &chars { match c { '[' | '{' => { d += 1; maxd = maxd.max(d); } ']' | '}' => d -= 1, _ => {} } }
        if maxd > 4000 { return; }
    }
    let r = ref_parse(&chars, o.accept_truncated_surrogate_pair, o.accept_invalid_codepoints);
    // C01 / C12: verdict
    out.oracle(res.is_ok() == r.is_ok(), "verdict = RFC 8259 reference (with the lenient surrogate policy of the options)", || format!("impl {} / reference {:?}", reply, r.as_ref().map(|_| "accept").map_err(|e| e.clone())));
    if let (Ok((v, cm)), Ok((rv, rcm))) = (res, &r) {
        // C02: decoded value
        out.oracle(&to_rv(v) == rv, "decoded value = reference decoding", || format!("impl {} / reference {:?}", reply, rv));
        // C02: key lookups on the parsed objects = the reference entries carrying that key, in source order
        lookup_oracle(out, v, rv, reply);
        // C05: code map
        let icm: Vec<(usize, usize, usize)> = cm.iter().map(|(_, e)| (e.span.start(), e.span.end(), e.volume)).collect();
        out.oracle(&icm == rcm, "code map = reference spans/volumes in pre-order", || format!("impl {:?} / reference {:?}", icm, rcm));
        out.oracle(cm.len() == v.traverse().count() && cm.first().map(|e| e.volume) == Some(cm.len()) && cm.iter().all(|(_, e)| e.volume >= 1), "one entry per fragment, root volume = length, volumes >= 1", || reply.to_string());
    }
    // C07: unexpected-character errors point at the end of the longest viable prefix
    if let Err(Error::Unexpected(p, c)) = res {
        let syn = ref_syntax(&chars);
        let want = match &syn { Err(RErr::Syntax(q, d)) => Some((*q, *d)), _ => None };
        out.oracle(want == Some((*p, *c)), "Unexpected(p, c): p = longest viable prefix, c = character there", || format!("impl {} / reference {:?}", reply, syn));
        out.oracle(text.is_char_boundary(*p) && *p <= text.len(), "offset is a character boundary", || reply.to_string());
    }
    if let Err(e) = res {
        let sp = e.span();
        out.oracle(text.is_char_boundary(sp.start()) && text.is_char_boundary(sp.end().min(text.len())) && sp.start() <= sp.end() && sp.end() <= text.len(), "error span lies on character boundaries inside the input", || reply.to_string());
        match e {
            Error::InvalidUnicodeCodePoint(..) | Error::MissingLowSurrogate(..) | Error::InvalidLowSurrogate(..) => {
                // the error must be a surrogate problem under these options, and syntax before it fine
                let first = match &r { Err(RErr::Surrogate(at)) => Some(*at), _ => None };
                if let Some(at) = first {
                    out.oracle(sp.start() >= at, "surrogate error span starts inside the offending escape(s)", || format!("impl {} / first offending escape at {}", reply, at));
                }
                // span inside the escape sequence(s): text[start..end] must consist of escape characters only
                let inside = text.get(sp.start()..sp.end()).map_or(false, |t| {
                    let t = t.strip_prefix('u').unwrap_or(t);
                    let mut ok = true;
                    let mut rest = t;
                    // hex digits, then optionally `\uXXXX` groups
                    loop {
                        let n = rest.chars().take_while(|c| c.is_ascii_hexdigit()).count();
                        rest = &rest[n..];
                        if rest.is_empty() { break; }
                        if let Some(r2) = rest.strip_prefix("\\u") { rest = r2; } else { ok = false; break; }
                    }
                    ok
                });
                out.oracle(inside, "surrogate error span lies inside the offending escape sequence(s)", || reply.to_string());
                out.count("surrogate_span_checked");
            }
            _ => {}
        }
    }
}

/// C02, last sentence: on every object of a parsed document, every keyed lookup returns exactly
/// the entries of the *reference decoding* that carry the key, in source order.
fn lookup_oracle(out: &mut Out, v: &Value, rv: &RV, reply: &str) {
    match (v, rv) {
        (Value::Array(a), RV::Arr(r)) => {
            for (x, y) in a.iter().zip(r.iter()) {
                lookup_oracle(out, x, y, reply);
            }
        }
        (Value::Object(o), RV::Obj(r)) => {
            let mut seen: Vec<&str> = Vec::new();
            let mut maxmult = 0;
            // big objects (scale streams): the per-key scan is quadratic, so only a sample of the keys
            // is looked up — the first and last 24 and every (len/200)-th in between
            let big = r.len() > 2500;
            let stride = (r.len() / 200).max(1);
            for (pos, (k, _)) in r.iter().enumerate() {
                if big && !(pos < 24 || pos + 24 >= r.len() || pos % stride == 0) { continue; }
                if (!big || seen.len() < 400) && seen.contains(&k.as_str()) {
                    continue;
                }
                if big && seen.len() >= 400 { continue; }
                seen.push(k.as_str());
                let idx: Vec<usize> = r.iter().enumerate().filter(|(_, e)| &e.0 == k).map(|(i, _)| i).collect();
                let vals: Vec<&RV> = idx.iter().map(|i| &r[*i].1).collect();
                maxmult = maxmult.max(idx.len());
                let key = k.as_str();
                let got_vals: Vec<RV> = o.get(key).map(to_rv).collect();
                let got_idx: Vec<usize> = o.indexes_of(key).collect();
                let got_wi: Vec<(usize, RV)> = o.get_with_index(key).map(|(i, v)| (i, to_rv(v))).collect();
                let got_ent: Vec<(String, RV)> = o.get_entries(key).map(|e| (e.key.as_str().to_string(), to_rv(&e.value))).collect();
                let got_ewi: Vec<usize> = o.get_entries_with_index(key).map(|(i, _)| i).collect();
                let ok = got_vals.iter().collect::<Vec<_>>() == vals
                    && got_idx == idx
                    && got_wi.iter().map(|(i, _)| *i).collect::<Vec<_>>() == idx
                    && got_wi.iter().map(|(_, v)| v).collect::<Vec<_>>() == vals
                    && got_ent.iter().all(|(kk, _)| kk == k)
                    && got_ent.iter().map(|(_, v)| v).collect::<Vec<_>>() == vals
                    && got_ewi == idx
                    && o.index_of(key) == idx.first().copied()
                    && o.redundant_index_of(key) == idx.get(1).copied()
                    && o.contains_key(key)
                    && match o.get_unique(key) { Ok(Some(x)) => idx.len() == 1 && &to_rv(x) == vals[0], Ok(None) => false, Err(_) => idx.len() > 1 };
                out.oracle(ok, "key lookups on a parsed object = reference entries with that key, in source order", || format!("key {:?}: indexes_of {:?} (want {:?}), get {:?} in {}", k, got_idx, idx, got_vals, reply));
                // the mutable twins (their own iterators) find the same entries
                {
                    let mut oc = o.clone();
                    let got_mut: Option<Vec<RV>> = std::panic::catch_unwind(std::panic::AssertUnwindSafe(|| oc.get_mut(key).map(|v| to_rv(v)).collect())).ok();
                    let mut oc2 = o.clone();
                    let um_ok = match oc2.get_unique_mut(key) { Ok(Some(x)) => idx.len() == 1 && &to_rv(x) == vals[0], Ok(None) => false, Err(_) => idx.len() > 1 };
                    let ue_ok = match o.get_unique_entry(key) { Ok(Some(e)) => idx.len() == 1 && e.key.as_str() == key && &to_rv(&e.value) == vals[0], Ok(None) => false, Err(_) => idx.len() > 1 };
                    out.oracle(got_mut.as_ref().map_or(false, |g| g.iter().collect::<Vec<_>>() == vals) && um_ok && ue_ok, "get_mut / get_unique_mut / get_unique_entry on a parsed object = reference entries with that key", || format!("key {:?}: get_mut {:?} (want {} values) in {}", k, got_mut.as_ref().map(|g| g.len()), vals.len(), reply));
                }
            }
            // whole-object iteration in source order through every entry point
            {
                let want: Vec<(&str, &RV)> = r.iter().map(|(k, v)| (k.as_str(), v)).collect();
                let a: Vec<(String, RV)> = o.iter().map(|e| (e.key.to_string(), to_rv(&e.value))).collect();
                let b: Vec<(String, RV)> = o.into_iter().map(|e| (e.key.to_string(), to_rv(&e.value))).collect();
                let c: Vec<(String, RV)> = o.clone().into_iter().map(|e| (e.key.to_string(), to_rv(&e.value))).collect();
                let mut om = o.clone();
                let d: Vec<(String, RV)> = om.iter_mut().map(|(k, v)| (k.to_string(), to_rv(v))).collect();
                let same = |x: &Vec<(String, RV)>| x.len() == want.len() && x.iter().zip(want.iter()).all(|(p, q)| p.0 == q.0 && &p.1 == q.1);
                out.oracle(same(&a) && same(&b) && same(&c) && same(&d) && o.len() == want.len() && o.first().map(|e| e.key.as_str()) == want.first().map(|p| p.0) && o.last().map(|e| e.key.as_str()) == want.last().map(|p| p.0), "iter / into_iter / iter_mut / first / last of a parsed object = reference entries in source order", || reply.to_string());
            }
            // a key that does not occur
            let mut absent = String::from("~absent");
            while seen.contains(&absent.as_str()) { absent.push('~'); }
            out.oracle(o.get(absent.as_str()).next().is_none() && !o.contains_key(absent.as_str()) && o.index_of(absent.as_str()).is_none() && o.indexes_of(absent.as_str()).next().is_none(), "lookup of an absent key finds nothing", || reply.to_string());
            out.count(match maxmult { 0 => "lookup_obj_empty", 1 => "lookup_obj_unique_keys", 2 => "lookup_obj_dup2", 3 => "lookup_obj_dup3", _ => "lookup_obj_dup4plus" });
            for (e, (_, y)) in o.entries().iter().zip(r.iter()) {
                lookup_oracle(out, &e.value, y, reply);
            }
        }
        _ => {}
    }
}

pub fn exec(rest: &str, out: &mut Out) -> (String, bool) {
    let a: Vec<&str> = rest.split(' ').collect();
    if a.len() != 3 {
        return ("bad-op".into(), false);
    }
    let o = match parse_opts(a[1]) {
        Some(o) => o,
        None => return ("bad-op".into(), false),
    };
    match a[0] {
        "str" => {
            let text = match parse_cps(a[2]) { Some(t) => t, None => return ("bad-op".into(), false) };
            let res = Value::parse_str_with(&text, o);
            let reply = show_result(&res, false);
            // every entry point gives the same answer on the same text (C01)
            let mut others: Vec<(&str, String)> = vec![
                ("parse_utf8_with", show_result(&Value::parse_utf8_with(text.chars().map(Ok::<char, ()>), o), false)),
                ("parse_utf8_infallible_with", show_result(&Value::parse_utf8_infallible_with(text.chars(), o), false)),
                ("parse_with", show_result(&Value::parse_with(text.chars().map(|c| Ok::<_, ()>(json_syntax_decoded(c))), o), false)),
                ("parse_infallible_with", show_result(&Value::parse_infallible_with(text.chars().map(json_syntax_decoded), o), false)),
                ("parse_slice_with", show_result(&Value::parse_slice_with(text.as_bytes(), o), true)),
            ];
            if is_strict(&o) {
                others.push(("parse_str", show_result(&Value::parse_str(&text), false)));
                others.push(("parse_slice", show_result(&Value::parse_slice(text.as_bytes()), true)));
                others.push(("parse_utf8", show_result(&Value::parse_utf8(text.chars().map(Ok::<char, ()>)), false)));
                others.push(("parse_infallible_utf8", show_result(&Value::parse_infallible_utf8(text.chars()), false)));
                others.push(("parse", show_result(&Value::parse(text.chars().map(|c| Ok::<_, ()>(json_syntax_decoded(c)))), false)));
                others.push(("parse_infallible", show_result(&Value::parse_infallible(text.chars().map(json_syntax_decoded)), false)));
                others.push(("parse_str_with(Options::default())", show_result(&Value::parse_str_with(&text, Options::default()), false)));
                let fs: Result<Value, _> = text.parse::<Value>();
                let fs_line = match (&fs, &res) {
                    (Ok(v), Ok((w, _))) if v == w => reply.clone(),
                    (Err(e), Err(_)) => show_err(e, false),
                    _ => "FromStr disagrees".into(),
                };
                others.push(("FromStr", fs_line));
            }
            for (name, line) in others {
                out.oracle(line == reply, "all entry points agree", || format!("{}: {} vs parse_str_with: {}", name, line, reply));
            }
            // the generic entry points take the LENGTH of each character from the stream: a UTF-16 source
            // declares 2 or 4 bytes per character (whitespace included); verdict and value are the same,
            // every offset is the UTF-8 offset re-measured in those units
            if text.len() < 5000 {
                let mut at16: Vec<usize> = vec![0; text.len() + 1];
                let (mut o8, mut o16) = (0usize, 0usize);
                for c in text.chars() { at16[o8] = o16; o8 += c.len_utf8(); o16 += 2 * c.len_utf16(); }
                at16[o8] = o16;
                let r16 = Value::parse_with(text.chars().map(|c| Ok::<_, ()>(decoded_char::DecodedChar::new(c, 2 * c.len_utf16()))), o);
                let same = match (&res, &r16) {
                    (Ok((v, cm)), Ok((v2, cm2))) => v == v2 && cm.len() == cm2.len() && cm.iter().zip(cm2.iter()).all(|((_, a), (_, b))| at16.get(a.span.start()).copied() == Some(b.span.start()) && at16.get(a.span.end()).copied() == Some(b.span.end()) && a.volume == b.volume),
                    (Err(Error::Unexpected(p, c)), Err(Error::Unexpected(p2, c2))) => c == c2 && at16.get(*p).copied() == Some(*p2),
                    (Err(a), Err(b)) => show_err(a, false).split(' ').nth(1) == show_err(b, false).split(' ').nth(1) && at16.get(a.span().start()).copied() == Some(b.span().start()),
                    _ => false,
                };
                out.oracle(same, "a stream declaring other character lengths (UTF-16 source): same verdict and value, every offset re-measured in those units", || format!("{} / {}", reply, show_result(&r16, false)));
            }
            oracles_str(out, &text, o, &reply, &res);
            // nothing is carried from one call to the next, or from one thread to another (every 53rd case):
            // (1) after a parse that was ABANDONED because the caller's character iterator panicked — at
            //     several depths of a nested document, inside a string, a key, a number —, (2) with an
            //     iterator that itself parses on every character (re-entrancy), (3) when the document is
            //     parsed on another thread and its objects are queried here
            if text.len() < 2000 && (out.counter_value("accepted") + out.counter_value("rejected")) % 53 == 0 {
                let tpl = "{\"user\":\"alice\",\"session\":[1,{\"k\":[\"secret-token-\\u00e9\",-12.5e3,[[[tru";
                let mut same = true;
                for cut in [2usize, 6, 19, 31, 38, 52, 60, 70] {
                    crate::EXPECTED_PANIC.store(true, std::sync::atomic::Ordering::SeqCst);
                    let mut it = tpl.chars().take(cut);
                    let failing = std::iter::from_fn(move || match it.next() { Some(c) => Some(Ok::<char, ()>(c)), None => panic!("the caller's iterator failed") });
                    let _ = std::panic::catch_unwind(std::panic::AssertUnwindSafe(|| Value::parse_utf8_with(failing, o).map(|r| r.0)));
                    crate::EXPECTED_PANIC.store(false, std::sync::atomic::Ordering::SeqCst);
                    let again = std::panic::catch_unwind(std::panic::AssertUnwindSafe(|| show_result(&Value::parse_str_with(&text, o), false))).unwrap_or_else(|_| "PANIC".into());
                    same &= again == reply;
                }
                out.oracle(same, "a parse abandoned by a panicking iterator leaves nothing behind: the next parse on this thread is unaffected", || reply.clone());
                let reentrant = Value::parse_utf8_with(text.chars().map(|c| { let _ = Value::parse_str("[{\"a\":\"b\"},1]"); Ok::<char, ()>(c) }), o);
                out.oracle(show_result(&reentrant, false) == reply, "an iterator that parses while being pulled does not disturb the outer parse", || reply.clone());
                let (t2, o2) = (text.clone(), o);
                let elsewhere = std::thread::spawn(move || Value::parse_str_with(&t2, o2)).join();
                match elsewhere {
                    Ok(r2) => {
                        out.oracle(show_result(&r2, false) == reply, "parsing on another thread gives the same result", || reply.clone());
                        if let Ok((v2, _)) = &r2 {
                            let chars: Vec<char> = text.chars().collect();
                            if let Ok((rv, _)) = ref_parse(&chars, o.accept_truncated_surrogate_pair, o.accept_invalid_codepoints) { lookup_oracle(out, v2, &rv, &reply); }
                        }
                    }
                    Err(_) => out.oracle(false, "parsing on another thread does not panic", || reply.clone()),
                }
                out.count("poisoned_reentrant_crossthread");
            }
            out.count(if res.is_ok() { "accepted" } else { "rejected" });
            if let Err(e) = &res {
                out.count(&format!("err_{}", show_err(e, false).split(' ').nth(1).unwrap_or("?")));
            }
            (reply, res.is_ok())
        }
        "bytes" => {
            let bytes = match parse_hex_bytes(a[2]) { Some(t) => t, None => return ("bad-op".into(), false) };
            let res = Value::parse_slice_with(&bytes, o);
            let reply = show_result(&res, true);
            if is_strict(&o) {
                let r2 = show_result(&Value::parse_slice(&bytes), true);
                out.oracle(r2 == reply, "all entry points agree", || format!("parse_slice: {} vs parse_slice_with: {}", r2, reply));
            }
            match std::str::from_utf8(&bytes) {
                Ok(text) => {
                    let rs = show_result(&Value::parse_str_with(text, o), false);
                    out.oracle(rs == reply, "well-formed bytes parse like the string", || format!("parse_str_with: {} vs parse_slice_with: {}", rs, reply));
                    oracles_str(out, text, o, &reply, &res);
                    out.count("bytes_wellformed");
                }
                Err(e) => {
                    // ill-formed UTF-8 must be rejected (C01); InvalidUtf8 at the first ill-formed
                    // sequence unless a syntax error lies strictly before it (C07)
                    out.oracle(res.is_err(), "ill-formed UTF-8 is rejected", || reply.clone());
                    let up = e.valid_up_to();
                    let prefix = std::str::from_utf8(&bytes[..up]).unwrap();
                    let chars: Vec<char> = prefix.chars().collect();
                    let r = ref_parse(&chars, o.accept_truncated_surrogate_pair, o.accept_invalid_codepoints);
                    match &res {
                        Err(Error::InvalidUtf8(p)) => {
                            out.oracle(*p == up, "InvalidUtf8 offset = first ill-formed sequence", || format!("{} vs valid_up_to {}", reply, up));
                            out.count("err_utf8");
                        }
                        Err(err) => {
                            // must be an error strictly before `up`, i.e. the prefix alone already fails that way
                            let alone = show_result(&Value::parse_utf8_with(prefix.chars().map(Ok).chain(std::iter::once(Err(()))), o), false);
                            out.oracle(err.position() < up || alone == reply, "an earlier syntax error takes precedence only if it lies before the ill-formed sequence", || format!("{} / prefix+Err alone: {} / valid_up_to {}", reply, alone, up));
                            let _ = r;
                        }
                        Ok(_) => {}
                    }
                    out.count("bytes_illformed");
                }
            }
            (reply, res.is_ok())
        }
        "cherr" => {
            let text = match parse_cps(a[2]) { Some(t) => t, None => return ("bad-op".into(), false) };
            let res = Value::parse_utf8_with(text.chars().map(Ok).chain(std::iter::once(Err(()))), o);
            let reply = show_result(&res, false);
            out.oracle(res.is_err(), "a failing stream is never accepted", || reply.clone());
            (reply, false)
        }
        _ => ("bad-op".into(), false),
    }
}

fn json_syntax_decoded(c: char) -> decoded::DecodedChar {
    decoded::DecodedChar::from_utf8(c)
}
mod decoded {
    // `decoded_char::DecodedChar` is not re-exported by json-syntax; the harness depends on the
    // same crate version through Cargo.lock.
    pub use decoded_char::DecodedChar;
}

// ------------------------------------------------------------------------------------------------
// generators (request lines only; everything is executed through `exec_line`)
// ------------------------------------------------------------------------------------------------

pub const CHAR_ALPHABET: [char; 14] = ['{', '}', '[', ']', ',', ':', '"', '\\', '0', '1', '-', 'e', '.', ' '];
pub const TOKENS: [&str; 16] = ["{", "}", "[", "]", ",", ":", "\"a\"", "\"\"", "0", "-1.5e+3", "true", "false", "null", " ", "\n", "\"\\u00e9\\n\""];

pub fn req_str(text: &str, o: &str) -> String {
    format!("parse str {} {}", o, cps(text))
}
pub fn req_bytes(b: &[u8], o: &str) -> String {
    format!("parse bytes {} {}", o, hex_bytes(b))
}

/// every string of length <= n over `alphabet` (as strings)
pub fn all_strings<F: FnMut(&str)>(alphabet: &[&str], n: usize, mut f: F) {
    let k = alphabet.len();
    let mut idx: Vec<usize> = Vec::new();
    loop {
        let s: String = idx.iter().map(|&i| alphabet[i]).collect();
        f(&s);
        // next
        let mut pos = idx.len();
        loop {
            if pos == 0 {
                if idx.len() == n {
                    return;
                }
                idx = vec![0; idx.len() + 1];
                break;
            }
            pos -= 1;
            if idx[pos] + 1 < k {
                idx[pos] += 1;
                for j in pos + 1..idx.len() {
                    idx[j] = 0;
                }
                break;
            }
        }
    }
}

pub struct DocGen<'a> {
    pub rng: &'a mut Rng,
    pub max_depth: usize,
}
impl<'a> DocGen<'a> {
    pub fn ws(&mut self, s: &mut String) {
        let n = if self.rng.chance(2, 3) { 0 } else { self.rng.range(1, 3) };
        for _ in 0..n {
            s.push(*self.rng.pick(&[' ', ' ', '\n', '\t', '\r']));
        }
    }
    pub fn number(&mut self, s: &mut String) {
        if self.rng.chance(1, 3) { s.push('-'); }
        if self.rng.chance(1, 4) { s.push('0'); } else {
            s.push(*self.rng.pick(&['1', '2', '9', '7']));
            let m = if self.rng.chance(1, 10) { 40 } else { 4 };
            for _ in 0..self.rng.below(m) { s.push(*self.rng.pick(&['0', '1', '5', '9'])); }
        }
        if self.rng.chance(1, 3) {
            s.push('.');
            let m = if self.rng.chance(1, 10) { 30 } else { 4 };
            for _ in 0..self.rng.range(1, m) { s.push(*self.rng.pick(&['0', '1', '5', '9'])); }
        }
        if self.rng.chance(1, 4) {
            s.push(*self.rng.pick(&['e', 'E']));
            if self.rng.chance(1, 2) { s.push(*self.rng.pick(&['+', '-'])); }
            for _ in 0..self.rng.range(1, 3) { s.push(*self.rng.pick(&['0', '1', '5', '9'])); }
        }
    }
    pub fn string(&mut self, s: &mut String) {
        s.push('"');
        let m = if self.rng.chance(1, 12) { 40 } else { 6 };
        let n = if self.rng.chance(1, 8) { 0 } else { self.rng.range(1, m) };
        for _ in 0..n {
            match self.rng.below(14) {
                0 => s.push_str(*self.rng.pick(&["\\\"", "\\\\", "\\/", "\\b", "\\f", "\\n", "\\r", "\\t"][..])),
                1 => { let cp = *self.rng.pick(&[0x0u32, 0x1f, 0x41, 0xe9, 0x2028, 0xfffd, 0xffff, 0xd7ff, 0xe000]); s.push_str(&format!("\\u{:04x}", cp)); }
                2 => { let cp = self.rng.below(0x10000) as u32; if !(0xd800..0xe000).contains(&cp) { let t = format!("\\u{:04x}", cp); s.push_str(&if self.rng.chance(1, 2) { t.to_uppercase().replace("\\U", "\\u") } else { t }); } }
                3 => { let hi = 0xd800 + self.rng.below(0x400) as u32; let lo = 0xdc00 + self.rng.below(0x400) as u32; s.push_str(&format!("\\u{:04x}\\u{:04X}", hi, lo)); }
                4 => s.push(*self.rng.pick(&['é', 'ß', '€', '\u{2028}', '\u{7f}', '\u{fffe}', '😀', '\u{10ffff}', '\u{e000}', '𐀀'])),
                5 => { if let Some(c) = char::from_u32(self.rng.below(0x110000) as u32) { if (c as u32) >= 0x20 && c != '"' && c != '\\' { s.push(c); } } }
                _ => s.push(*self.rng.pick(&['a', 'b', 'k', 'z', ' ', '/', ':', ',', '{', ']', '0'])),
            }
        }
        s.push('"');
    }
    pub fn key(&mut self, s: &mut String) {
        if self.rng.chance(1, 2) {
            s.push_str(*self.rng.pick(&["\"a\"", "\"b\"", "\"\"", "\"a\"", "\"k\\u0061\"", "\"é\""][..]));
        } else {
            self.string(s);
        }
    }
    pub fn value(&mut self, s: &mut String, depth: usize) {
        let leaf = depth >= self.max_depth || self.rng.chance(2, 5);
        if leaf {
            match self.rng.below(7) {
                0 => s.push_str("null"),
                1 => s.push_str("true"),
                2 => s.push_str("false"),
                3 | 4 => self.number(s),
                _ => self.string(s),
            }
        } else if self.rng.chance(1, 2) {
            s.push('[');
            self.ws(s);
            let n = self.rng.below(5);
            for i in 0..n {
                if i > 0 { s.push(','); }
                self.ws(s);
                self.value(s, depth + 1);
                self.ws(s);
            }
            s.push(']');
        } else {
            s.push('{');
            self.ws(s);
            let n = if self.rng.chance(1, 8) { self.rng.range(4, 12) } else { self.rng.below(5) };
            for i in 0..n {
                if i > 0 { s.push(','); }
                self.ws(s);
                self.key(s);
                self.ws(s);
                s.push(':');
                self.ws(s);
                self.value(s, depth + 1);
                self.ws(s);
            }
            s.push('}');
        }
    }
    pub fn doc(&mut self) -> String {
        let mut s = String::new();
        self.ws(&mut s);
        self.value(&mut s, 0);
        self.ws(&mut s);
        s
    }
}

pub fn corpus_files() -> Vec<(String, Vec<u8>)> {
    let mut v = Vec::new();
    if let Ok(rd) = std::fs::read_dir("/repo/tests/inputs") {
        for e in rd.flatten() {
            let p = e.path();
            if p.extension().map_or(false, |x| x == "json") {
                if let Ok(b) = std::fs::read(&p) {
                    v.push((p.file_name().unwrap().to_string_lossy().to_string(), b));
                }
            }
        }
    }
    v.sort();
    v
}

pub const ALL_OPTS: [&str; 4] = ["ff", "tf", "ft", "tt"];

/// Streams shared by the parser properties. `opts`: option records to run under.
/// (j) character-class aliasing: every character of documents covering every token type is
/// replaced by characters that a truncating cast (`as u8`, `as u16`), a Unicode-aware class test
/// (`is_whitespace`, `is_numeric`, `is_alphanumeric`, `to_digit` on non-ASCII, `is_control`), a
/// table indexed by the character or a lookalike would confuse with it; (l) the same right after
/// token prefixes of EVERY length 0..=40 (a fast path that starts once a buffer has spilled, a
/// chunked scan, … is decided at one such length)
pub fn stream_aliasing(out: &mut Out, opts: &[&str]) {
    let mut l = |s: String, out: &mut Out| crate::exec_line(&s, out);
    {
        let templates = [
            "{\"a\\u00e9\\ud83d\\ude00\\n\":[-12.50e+3,true,false,null,\"x\"], \"b\" : {}}",
            " [0.1E-7 ,\t\"\\uABcd\\\\\"\r\n, -0 ] ",
            "\"\\u0041\\udbff\\udfff\"",
        ];
        let lookalike: &[char] = &['\u{a0}', '\u{2003}', '\u{3000}', '\u{feff}', '\u{b}', '\u{c}', '\u{85}', '\u{2028}', '\u{660}', '\u{ff11}', '\u{ff45}', '\u{435}', '\u{201c}', '\u{ff02}', '\u{ff0c}', '\u{ff3b}', '\u{ff5b}', '\u{2212}', '\u{7f}', '\u{9f}'];
        let mut n = 0u64;
        for t in templates {
            let chars: Vec<char> = t.chars().collect();
            for k in 0..chars.len() {
                let a = chars[k] as u32;
                let mut alts: Vec<char> = Vec::new();
                for d in [0x100u32, 0x200, 0x300, 0x2000, 0xff00, 0x10000, 0x20000, 0x100000] {
                    if let Some(c) = char::from_u32(a + d) { alts.push(c); }
                }
                alts.extend_from_slice(lookalike);
                for (j, c) in alts.iter().enumerate() {
                    let mut m = chars.clone();
                    m[k] = *c;
                    let o = opts[(k + j) % opts.len()];
                    l(req_str(&m.iter().collect::<String>(), o), out);
                    n += 1;
                    if j % 3 == 0 {
                        let mut m = chars.clone();
                        m.insert(k, *c);
                        l(req_str(&m.iter().collect::<String>(), o), out);
                        n += 1;
                    }
                }
            }
        }
        out.count_n("stream_char_aliasing", n);
        out.exhaustive.push("every character position of 3 documents covering every token type x (the character + 0x100/0x200/0x300/0x2000/0xff00/0x10000/0x20000/0x100000, and 20 Unicode lookalikes of whitespace, digits, letters, quotes, separators, controls): replaced, and every third also inserted".into());
    }
    {
        let mut n = 0u64;
        for len in 0..=40usize {
            let heads: Vec<(String, &[char], &str)> = vec![
                (format!("[{}", "1".repeat(len.max(1))), &['0', '.', 'e', ',', ']', ' '][..], "0]"),
                (format!("[-{}.{}", "1".repeat(len / 2 + 1), "5".repeat((len + 1) / 2 + 1)), &['0', 'e', 'E', ']'][..], "1]"),
                (format!("[1e{}", "2".repeat(len.max(1))), &['0', ',', ']'][..], "1]"),
                (format!("[1.5e-{}", "2".repeat(len.max(1))), &['7', ' '][..], "1]"),
                (format!("[\"{}", "a".repeat(len)), &['"', '\\', 'a', '\n'][..], "\"]"),
                (format!("[\"{}\\u", "a".repeat(len)), &['0', 'a', 'F'][..], "0041\"]"),
                (format!("[\"{}\\u0", "a".repeat(len)), &['0', 'c'][..], "041\"]"),
                (format!("[\"{}\\u00", "é".repeat(len)), &['4', 'E'][..], "41\"]"),
                (format!("[\"{}\\u004", "a".repeat(len)), &['1', 'b'][..], "1\"]"),
                (format!("[\"{}\\ud83d\\ude0", "a".repeat(len)), &['0'][..], "0\"]"),
                (format!("{{\"{}", "k".repeat(len)), &['"', ':'][..], "\":1}"),
                (format!("{{\"{}\"", "k".repeat(len)), &[':', ' '][..], ":1}"),
                (format!("[{}tru", " ".repeat(len)), &['e'][..], "e]"),
            ];
            for (hi, (head, nexts, tail)) in heads.iter().enumerate() {
                for (ai, a) in nexts.iter().enumerate() {
                    for (di, d) in [0x100u32, 0x2c00, 0xff00, 0x10000, 0x100000].iter().enumerate() {
                        if len > 24 && (len + hi + ai + di) % 2 == 1 { continue; }
                        if let Some(c) = char::from_u32(*a as u32 + d) {
                            let o = opts[(len + hi + ai + di) % opts.len()];
                            l(req_str(&format!("{}{}{}", head, c, tail), o), out);
                            n += 1;
                            if di == 0 { l(req_bytes(format!("{}{}", head, c).as_bytes(), o), out); n += 1; }
                        }
                    }
                }
            }
        }
        // two adjacent faults through the byte entry point: a character that is wrong (or right) at
        // its position immediately followed by ill-formed UTF-8 — which of the two is reported must
        // not depend on read-ahead
        let mut m = 0u64;
        for t in ["{\"a\\u00e9\\ud83d\\ude00\\n\":[-12.50e+3,true,false,null,\"x\"], \"b\" : {}}", " [0.1E-7 ,\t\"\\uABcd\\\\\"\r\n, -0 ] "] {
            let b = t.as_bytes();
            for k in 0..=b.len() {
                for (wi, wrong) in [&b"G"[..], b"\"", b",", b"0", b"\\", b"u", b""].iter().enumerate() {
                    for (bi, bad) in [&[0xffu8][..], &[0xc3], &[0xed, 0xa0, 0x80], &[0xf4, 0x90, 0x80, 0x80], &[0x80]].iter().enumerate() {
                        if (k + wi + bi) % 2 == 1 && wi > 1 { continue; }
                        let mut v = b[..k].to_vec();
                        v.extend_from_slice(wrong);
                        v.extend_from_slice(bad);
                        let o = opts[(k + wi + bi) % opts.len()];
                        l(req_bytes(&v, o), out);
                        if bi == 0 { v.extend_from_slice(&b[k..]); l(req_bytes(&v, o), out); m += 1; }
                        m += 1;
                    }
                }
            }
        }
        out.count_n("stream_fault_then_illformed_utf8", m);
        out.exhaustive.push("every byte position of 2 documents covering every token type: 7 wrong-or-right characters x 5 ill-formed UTF-8 sequences inserted there (truncated after, and continued)".into());
        out.count_n("stream_long_prefix_aliasing", n);
        out.exhaustive.push("13 token-prefix shapes (integer, fraction, exponent, string body, each slot of a \\uXXXX escape and of a surrogate pair, key, colon, literal) of every length 0..=40, followed by each valid next character + 0x100/0x2c00/0xff00/0x10000/0x100000".into());
    }
}

/// (s) SCALE: sizes that real data reaches and small generators do not — tokens, containers and
/// whole documents just below, at and just above 2^8, 2^12, 2^16 and 2^18 (narrowing casts, fixed
/// buffers and blocks, chunked copies, size caps, pre-sizing heuristics). Requests use run-length
/// notation; the executable model runs its `@[csimp]`-proved linear twins on them.
pub fn stream_scale(out: &mut Out, thorough: bool, opts: &[&str]) {
    let mut l = |s: String, out: &mut Out| crate::exec_line(&s, out);
    let rs = |text: &str, o: &str| format!("parse str {} {}", o, cps_rle(text));
    let mut n = 0u64;
    // a multi-byte character, an escape or a surrogate pair straddling every offset around a block
    // boundary of the DECODED text and of the SOURCE text, in a string and in a key (looked up)
    let tails = ["é", "€", "😀", "\\u00e9", "\\ud83d\\ude00", "\\n", "\u{7f}"];
    let bases: &[usize] = if thorough { &[256, 4096, 8192, 12288, 65536, 131072] } else { &[256, 4096, 65536] };
    for &base in bases {
        for off in 0..=6usize {
            for (ti, tail) in tails.iter().enumerate() {
                if base > 8192 && !thorough && (off + ti) % 3 != 0 { continue; }
                let body = "a".repeat(base + off - 5);
                let o = opts[(off + ti) % opts.len()];
                l(rs(&format!("[\"{}{}tail\",1]", body, tail), o), out);
                if (off + ti) % 2 == 0 { l(rs(&format!("{{\"{}{}k\":[],\"{}{}k2\":null}}", body, tail, body, tail), o), out); n += 1; }
                if (off + ti) % 3 == 0 { l(rs(&format!("[\"{}{}\"]", "é".repeat((base + off - 5) / 2), tail), o), out); n += 1; }
                n += 1;
            }
        }
    }
    // whole documents of N bytes: one long string, a long number, an array of small items, an object
    let sizes: &[usize] = if thorough { &[255, 256, 257, 4095, 4096, 4097, 65535, 65536, 65537, 262143, 262144, 262145, 262146, 300001, 1048577] } else { &[4097, 65536, 65537, 262145] };
    for &size in sizes {
        let o = opts[size % opts.len()];
        l(rs(&format!("\"{}\"", "s".repeat(size - 2)), o), out);
        l(rs(&format!("[\"{}é\",{{\"k\":0}}]", "s".repeat(size.saturating_sub(16))), o), out);
        l(rs(&format!("-{}.{}e-{}", "7".repeat(size / 2), "3".repeat(size / 2 - 4), "9".repeat(2)), o), out);
        let items = (size - 1) / 2;
        l(rs(&format!("[{}1]", "1,".repeat(items - 1)), o), out);
        l(req_bytes(format!("[{}1] ", "0,".repeat(items - 1)).as_bytes(), o), out);
        n += 5;
    }
    // containers with N items / entries / occurrences of one key
    let counts: &[usize] = if thorough { &[255, 256, 257, 4095, 4096, 4097, 5000, 65535, 65536, 65537] } else { &[257, 4097, 65537] };
    for &c in counts {
        let o = opts[c % opts.len()];
        l(rs(&format!("[{}null]", "[],".repeat(c - 1)), o), out);
        l(rs(&format!("{{{}\"last\":[]}}", (0..c - 1).map(|i| format!("\"k{}\":{},", i, i % 10)).collect::<String>()), o), out);
        if c <= 5000 || thorough { l(rs(&format!("{{{}\"k\":-1}}", (0..c - 1).map(|i| format!("\"k\":{},", i)).collect::<String>()), o), out); n += 1; }
        // a key and a number longer than the block
        l(rs(&format!("{{\"{}\":1,\"{}x\":2,\"{}\":3}}", "k".repeat(c), "k".repeat(c), "k".repeat(c)), o), out);
        n += 3;
    }
    out.count_n("stream_scale", n);
    out.exhaustive.push(format!("scale: a 1/2/3/4-byte character, an escape or a pair at 7 offsets around block boundaries {:?} of a string and of a key; whole documents of {:?} bytes (string, number, array, byte entry point); containers with {:?} items / distinct keys / occurrences of one key / a key that long", bases, sizes, counts));
}

pub fn gen_streams(out: &mut Out, thorough: bool, opts: &[&str], focus: &str) {
    let mut l = |s: String, out: &mut Out| crate::exec_line(&s, out);
    // (a) bounded-exhaustive over the character alphabet
    let n_char = if thorough { 6 } else { 5 };
    let alpha: Vec<String> = CHAR_ALPHABET.iter().map(|c| c.to_string()).collect();
    let alpha_ref: Vec<&str> = alpha.iter().map(|s| s.as_str()).collect();
    let mut lines = Vec::new();
    all_strings(&alpha_ref, n_char, |s| lines.push(req_str(s, opts[0])));
    out.count_n("stream_char_alphabet", lines.len() as u64);
    for s in lines.drain(..) { l(s, out); }
    out.exhaustive.push(format!("every string of length <= {} over the {}-character alphabet {:?}", n_char, CHAR_ALPHABET.len(), CHAR_ALPHABET.iter().collect::<String>()));
    // (b) bounded-exhaustive over the token alphabet
    let n_tok = if thorough { 5 } else { 4 };
    all_strings(&TOKENS, n_tok, |s| lines.push(req_str(s, opts[0])));
    out.count_n("stream_token_alphabet", lines.len() as u64);
    for s in lines.drain(..) { l(s, out); }
    out.exhaustive.push(format!("every sequence of <= {} tokens over {} tokens", n_tok, TOKENS.len()));
    // (c) transition cover of the number automaton in every context
    let num_alpha = ["-", "0", "1", ".", "e", "E", "+"];
    let n_num = if thorough { 7 } else { 6 };
    all_strings(&num_alpha, n_num, |s| {
        if s.is_empty() { return; }
        for (pre, post) in [("", ""), ("[", "]"), ("[", ",1]"), ("{\"a\":", "}"), (" ", " "), ("[", " ]"), ("", "x")] {
            lines.push(req_str(&format!("{}{}{}", pre, s, post), opts[0]));
        }
    });
    out.count_n("stream_number_cover", lines.len() as u64);
    for s in lines.drain(..) { l(s, out); }
    out.exhaustive.push(format!("every string of length <= {} over {:?} in 7 contexts (number automaton transition cover)", n_num, num_alpha));
    // literals: every prefix of each literal x one-character deviation
    for w in ["null", "true", "false"] {
        for k in 0..=w.len() {
            for c in ['n', 'u', 'l', 't', 'r', 'e', 'f', 'a', 's', ' ', ',', ']', 'x', 'N'] {
                for (pre, post) in [("", ""), ("[", "]"), ("{\"k\":", "}")] {
                    l(req_str(&format!("{}{}{}{}", pre, &w[..k], c, post), opts[0]), out);
                    l(req_str(&format!("{}{}{}{}{}", pre, &w[..k], c, &w[k.min(w.len())..], post), opts[0]), out);
                }
            }
        }
    }
    // (d) string element sequences under every requested option record
    let elems = ["\\ud800", "\\udbff", "\\udc00", "\\udfff", "\\n", "\\u0041", "a", "😀", "\\\"", "\\u12"];
    let n_el = if thorough { 4 } else { 3 };
    for o in opts {
        all_strings(&elems, n_el, |s| {
            lines.push(req_str(&format!("\"{}\"", s), o));
            lines.push(req_str(&format!("{{\"{}\":0}}", s), o));
        });
    }
    out.count_n("stream_string_elements", lines.len() as u64);
    for s in lines.drain(..) { l(s, out); }
    out.exhaustive.push(format!("every sequence of <= {} string elements over {:?}, value and key position, options {:?}", n_el, elems, opts));
    // (e) escapes
    let stride_u = if thorough || focus == "C02" || focus == "C12" { 1 } else { 7 };
    for o in opts {
        let mut cp = 0u32;
        while cp < 0x10000 {
            l(req_str(&format!("\"\\u{:04x}\"", cp), o), out);
            cp += stride_u;
        }
    }
    for c in 0u8..128 {
        l(req_str(&format!("\"\\{}\"", c as char), opts[0]), out);
        l(req_str(&format!("\"{}\"", c as char), opts[0]), out);
    }
    out.exhaustive.push(format!("\\uXXXX for every code unit with stride {} ; backslash + every ASCII char; every ASCII char raw", stride_u));
    // surrogate pairs
    let pair_stride = if thorough { 1 } else if focus == "C02" { 17 } else { 257 };
    let mut k = (out.seed % pair_stride as u64) as u32;
    while k < 0x100000 {
        let (hi, lo) = (0xd800 + (k >> 10), 0xdc00 + (k & 0x3ff));
        l(req_str(&format!("\"\\u{:04x}\\u{:04x}\"", hi, lo), opts[0]), out);
        k += pair_stride;
    }
    out.count_n("surrogate_pair_stride", pair_stride as u64);
    // (f) raw scalar values
    let raw_stride = if thorough { 1 } else if focus == "C02" { 13 } else { 211 };
    let mut cp = (out.seed % raw_stride as u64) as u32;
    while cp < 0x110000 {
        if let Some(c) = char::from_u32(cp) {
            l(req_str(&format!("\"{}\"", c), opts[0]), out);
            if cp % 4 == 0 { l(req_str(&format!("{{\"{}\":[]}}", c), opts[0]), out); }
        }
        cp += raw_stride;
    }
    out.count_n("raw_scalar_stride", raw_stride as u64);
    // every UTF-8 length boundary and its neighbours, raw, FOLLOWED by more fragments (so that a wrong
    // byte length shows in the later offsets), in value and key position, bare and nested
    for cp in [0x20u32, 0x7e, 0x7f, 0x80, 0x81, 0xff, 0x100, 0x7fe, 0x7ff, 0x800, 0x801, 0xfff, 0x1000, 0x1fff, 0x2000, 0x2028, 0x2029,
               0xd7fe, 0xd7ff, 0xe000, 0xe001, 0xfeff, 0xfffd, 0xfffe, 0xffff, 0x10000, 0x10001, 0x1ffff, 0x20000, 0xfffff, 0x100000, 0x10fffe, 0x10ffff] {
        if let Some(c) = char::from_u32(cp) {
            for o in opts {
                l(req_str(&format!("[\"{}\", 1, \"{}{}\"]", c, c, c), o), out);
                l(req_str(&format!("{{\"{}\" : [\"a{}\"], \"k\":{{\"{}{}\":null}}}}", c, c, c, c), o), out);
                l(req_str(&format!("[1,{}]", c), o), out);
                l(req_bytes(format!("[\"{}\",true]", c).as_bytes(), o), out);
            }
        }
    }
    out.exhaustive.push("33 code points at and around every UTF-8 length boundary / surrogate gap / noncharacters, raw in value and key position followed by further fragments, all option records, string and byte entry points".into());
    // (g) corpus documents: whole, every truncation, single-byte edits
    let files = corpus_files();
    out.count_n("corpus_documents", files.len() as u64);
    for (name, b) in &files {
        if b.len() > 5000 { l(req_bytes(b, opts[0]), out); continue; }
        for o in opts { l(req_bytes(b, o), out); }
        if name.starts_with("n_structure_100000") { continue; }
        let step = if thorough || b.len() < 40 { 1 } else { 3 };
        let mut k = 0;
        while k < b.len() {
            l(req_bytes(&b[..k], opts[0]), out);
            k += step;
        }
        let edits: &[u8] = &[b'"', b'\\', b',', b' ', b'0', b'}', 0x80, 0xc3, 0xff];
        let mut k = (out.rng.below(step as u64)) as usize;
        while k < b.len() {
            let e = edits[out.rng.below(edits.len() as u64) as usize];
            let mut m = b.clone();
            m[k] = e;
            l(req_bytes(&m, opts[0]), out);
            let mut m = b.clone();
            m.remove(k);
            l(req_bytes(&m, opts[0]), out);
            let mut m = b.clone();
            m.insert(k, e);
            l(req_bytes(&m, opts[0]), out);
            k += step;
        }
    }
    // (h) grammar-directed documents, plus random damage
    let n_docs = if thorough { 60000 } else { 9000 };
    for i in 0..n_docs {
        let doc = { let mut g = DocGen { rng: &mut out.rng, max_depth: 5 }; g.doc() };
        let o = opts[i % opts.len()];
        l(req_str(&doc, o), out);
        if i % 2 == 0 {
            // damage: delete / replace / insert one character
            let chars: Vec<char> = doc.chars().collect();
            if !chars.is_empty() {
                let k = out.rng.below(chars.len() as u64) as usize;
                let mut m = chars.clone();
                match out.rng.below(3) {
                    0 => { m.remove(k); }
                    1 => { m[k] = *out.rng.pick(&['"', ',', ':', ']', '}', '{', '[', '0', 'e', '\\', ' ', 'x', '\u{1f}']); }
                    _ => { m.insert(k, *out.rng.pick(&['"', ',', ':', ']', '}', '{', '[', '0', '-', '\\', '.', 'x'])); }
                }
                l(req_str(&m.iter().collect::<String>(), o), out);
            }
        }
        if i % 5 == 0 {
            l(req_bytes(doc.as_bytes(), o), out);
        }
    }
    stream_aliasing(out, opts);
    stream_scale(out, thorough, opts);
    // (k) long tokens across internal size thresholds (inline/heap switches of SmallString/SmallVec,
    // stack buffers, chunked copies — whatever their size is): strings and keys with EVERY plain-run
    // length 0..N followed by a 1/2/3/4-byte character, an escape or a surrogate pair and then a
    // narrow character; numbers with that many digits in each part at selected lengths
    {
        let mut n = 0u64;
        let full: usize = if thorough { 1100 } else { 300 };
        let sparse: usize = if thorough { 4200 } else { 700 };
        let tails = ["", "é", "€", "😀", "\\n", "\\u00e9", "\\ud83d\\ude00", "\u{7f}", "é€😀é€😀"];
        let mut len = 0usize;
        while len <= sparse {
            for (ti, tail) in tails.iter().enumerate() {
                if len > full && ti % 3 != 1 { continue; }
                for fill in ["a", "é"] {
                    if fill == "é" && (ti % 3 != 0 || len > full / 2) { continue; }
                    let body: String = fill.repeat(len);
                    let o = opts[(len + ti) % opts.len()];
                    l(req_str(&format!("\"{}{}zy\"", body, tail), o), out);
                    n += 1;
                    if (len + ti) % 3 == 0 {
                        l(req_str(&format!("{{\"{}{}z\":[\"{}\"],\"{}{}z\":0}}", body, tail, body, body, tail), o), out);
                        n += 1;
                    }
                }
            }
            if len % 8 == 0 || (len <= 70) {
                let digits: String = "7".repeat(len.max(1));
                l(req_str(&format!("[-{}.{}e+{},{}]", digits, digits, "1".repeat(len.clamp(1, 40)), digits), opts[0]), out);
                n += 1;
            }
            len += if len < full { 1 } else { 7 };
        }
        out.count_n("stream_every_run_length", n);
        out.exhaustive.push(format!("strings and keys (also duplicated, looked up) whose plain run has EVERY length 0..{} (then every 7th up to {}), followed by each of 9 tails (1/2/3/4-byte characters, escapes, a surrogate pair) and narrow characters; numbers with matching digit counts", full, sparse));
    }
    // (l) a pending high surrogate followed by EVERY \\uXXXX code unit: where exactly the low-surrogate
    // range begins and ends decides pair / lone high + something / error
    {
        let highs: &[u32] = if thorough || focus == "C12" { &[0xd800, 0xdbff, 0xd83d] } else { &[0xd800] };
        let os: Vec<&str> = if thorough || focus == "C12" { opts.to_vec() } else { vec![opts[0], opts[opts.len() - 1]] };
        let stride = if thorough || focus == "C12" || focus == "C02" { 1 } else { 5 };
        let mut n = 0u64;
        for &h in highs {
            for o in &os {
                let mut cu = (out.seed % stride as u64) as u32;
                while cu < 0x10000 {
                    l(req_str(&format!("\"\\u{:04x}\\u{:04x}\"", h, cu), o), out);
                    n += 1;
                    cu += stride;
                }
            }
        }
        // boundary code units in all pairs and triples, every option record, value and key position
        let bnd = ["\\ud7ff", "\\ud800", "\\udbff", "\\udc00", "\\udfff", "\\ue000", "\\uffff", "\\u0000", "x"];
        for o in opts {
            for a in bnd { for b in bnd { for c in bnd {
                l(req_str(&format!("\"{}{}{}\"", a, b, c), o), out);
                l(req_str(&format!("{{\"{}{}{}\":1}}", a, b, c), o), out);
                n += 2;
            } } }
        }
        out.count_n("stream_high_then_any_unit", n);
        out.exhaustive.push(format!("high surrogate {:x?} followed by every \\uXXXX (stride {}) under {} option records; all triples over the boundary units {:?} under all option records", highs, stride, os.len(), bnd));
    }
    // (m) wide containers: objects with many distinct keys (hash-table growth steps) and duplicates at
    // chosen places, arrays with many items; every keyed lookup is checked by the C02 lookup oracle
    {
        for &nk in (if thorough { &[20usize, 57, 113, 130, 300, 1000, 5000][..] } else { &[20usize, 113, 130, 300][..] }) {
            for variant in 0..3 {
                let mut d = String::from("{");
                for i in 0..nk {
                    if i > 0 { d.push(','); if variant == 1 { d.push_str("\n  "); } }
                    let key = match variant { 2 if i % 10 == 3 => format!("k{}", i / 20), _ => format!("k{}", i) };
                    d.push_str(&format!("\"{}\":{}", key, if i % 7 == 0 { "[1,{\"x\":null}]".to_string() } else { i.to_string() }));
                }
                d.push_str(",\"k1\":\"dup\",\"last\":[],\"k1\":2}");
                for o in [opts[0], opts[opts.len() - 1]] { l(req_str(&d, o), out); }
            }
            let arr = format!("[{}]", (0..nk * 3).map(|i| if i % 5 == 0 { "\"s\"".to_string() } else { i.to_string() }).collect::<Vec<_>>().join(", "));
            l(req_str(&arr, opts[0]), out);
        }
        out.exhaustive.push("wide objects (20 … 300 / 5000 keys, three layouts, duplicated keys near the start, in the middle and at the end) and wide arrays".into());
    }
    // (i) UTF-8 byte sequences inside a string
    let mut b0 = 0x80u32;
    while b0 < 0x100 {
        let step1 = if thorough { 1 } else { 3 };
        let mut b1 = (out.seed % step1 as u64) as u32;
        while b1 < 0x100 {
            l(req_bytes(&[b'"', b0 as u8, b1 as u8, b'"'], opts[0]), out);
            b1 += step1;
        }
        b0 += 1;
    }
    let structured: &[&[u8]] = &[
        &[0xe0, 0x80, 0x80], &[0xe0, 0x9f, 0xbf], &[0xe0, 0xa0, 0x80], &[0xed, 0x9f, 0xbf], &[0xed, 0xa0, 0x80], &[0xed, 0xbf, 0xbf], &[0xee, 0x80, 0x80],
        &[0xef, 0xbb, 0xbf], &[0xef, 0xbf, 0xbf], &[0xf0, 0x80, 0x80, 0x80], &[0xf0, 0x8f, 0xbf, 0xbf], &[0xf0, 0x90, 0x80, 0x80], &[0xf4, 0x8f, 0xbf, 0xbf], &[0xf4, 0x90, 0x80, 0x80],
        &[0xf5, 0x80, 0x80, 0x80], &[0xf8, 0x88, 0x80, 0x80, 0x80], &[0xfc, 0x84, 0x80, 0x80, 0x80, 0x80], &[0xc0, 0x80], &[0xc1, 0xbf], &[0xc2, 0x80], &[0xdf, 0xbf], &[0xe2, 0x82], &[0xf0, 0x9f, 0x98], &[0x80], &[0xbf], &[0xfe], &[0xff],
    ];
    for sq in structured {
        for (pre, post) in [(&b"\""[..], &b"\""[..]), (&b""[..], &b"[]"[..]), (&b"[1,"[..], &b"]"[..]), (&b"[]"[..], &b""[..]), (&b"{\""[..], &b"\":1}"[..]), (&b"[1 "[..], &b"2]"[..])] {
            let mut v = pre.to_vec();
            v.extend_from_slice(sq);
            v.extend_from_slice(post);
            for o in opts { l(req_bytes(&v, o), out); }
        }
    }
    // streams that fail after a prefix of a document (char-iterator entry points)
    for doc in ["", " ", "[", "[1", "[1,", "{\"a\"", "{\"a\":", "\"ab", "\"\\u12", "12", "1.", "tru", "[1] ", "{}", "nul"] {
        l(format!("parse cherr {} {}", opts[0], cps(doc)), out);
    }
}
