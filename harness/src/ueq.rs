//! `ueq V1 V2` — unordered equality (C15). Reference: compare recursively sorted normal forms.
use crate::common::*;
use json_syntax::{BorrowUnordered, Object, Unordered, UnorderedPartialEq, Value};

/// normal form: objects' entries sorted by (key, normal form of value) recursively
fn normal(v: &Value) -> Value {
    match v {
        Value::Array(a) => Value::Array(a.iter().map(normal).collect()),
        Value::Object(o) => {
            let mut es: Vec<(String, Value)> = o.entries().iter().map(|e| (e.key.to_string(), normal(&e.value))).collect();
            es.sort_by(|a, b| a.0.cmp(&b.0).then_with(|| a.1.cmp(&b.1)));
            let mut n = Object::new();
            for (k, v) in es { n.push(k.as_str().into(), v); }
            Value::Object(n)
        }
        other => other.clone(),
    }
}

pub fn exec(rest: &str, out: &mut Out) -> (String, bool) {
    let a: Vec<&str> = rest.split(' ').collect();
    if a.len() != 2 { return ("bad-op".into(), false); }
    let (x, y) = match (parse_value(a[0]), parse_value(a[1])) { (Some(x), Some(y)) => (x, y), _ => return ("bad-op".into(), false) };
    let r = x.unordered_eq(&y);
    let want = normal(&x) == normal(&y);
    out.oracle(r == want, "unordered_eq = equality of recursively sorted normal forms (one-to-one matching, multiplicities count)", || format!("impl {} / reference {}", r, want));
    out.oracle(y.unordered_eq(&x) == r, "symmetric", || format!("{} vs {}", r, y.unordered_eq(&x)));
    out.oracle(x.unordered_eq(&x), "reflexive", || String::new());
    out.oracle(!(x == y) || r, "implied by ordinary equality", || String::new());
    {
        let xr = crate::ord::rebuilt(&x);
        out.oracle(xr.unordered_eq(&y) == r && y.unordered_eq(&xr) == r && xr.unordered_eq(&x), "content only: a value rebuilt with heap-backed buffers compares the same", || String::new());
    }
    out.oracle((x.as_unordered() == y.as_unordered()) == r && (Unordered(x.clone()) == Unordered(y.clone())) == r, "Unordered<T> wrappers agree", || String::new());
    // the other implementors: Object itself, Vec<T>, locspan's Meta<T, M> (metadata compared with ==)
    // (Value has no UnorderedHash impl: nothing to check there)
    {
        use locspan::Meta;
        let (mx, my, mz) = (Meta(x.clone(), 7u8), Meta(y.clone(), 7u8), Meta(y.clone(), 8u8));
        out.oracle(mx.unordered_eq(&my) == r && my.unordered_eq(&mx) == r && !mx.unordered_eq(&mz) && (Unordered(mx.clone()) == Unordered(my.clone())) == r,
            "Meta<T, M>: equal metadata and unordered-equal values", || format!("{} / reference {}", mx.unordered_eq(&my), r));
        let (vx, vy) = (vec![x.clone(), y.clone(), x.clone()], vec![y.clone(), x.clone(), x.clone()]);
        out.oracle(vx.unordered_eq(&vy) == r && !vx.unordered_eq(&vec![x.clone(), y.clone()]) && vec![mx.clone()].unordered_eq(&vec![my.clone()]) == r, "Vec<T>: same length, item-wise", || String::new());
        if let (Value::Object(p), Value::Object(q)) = (&x, &y) {
            out.oracle(p.unordered_eq(q) == r && q.unordered_eq(p) == r && (Unordered(p.clone()) == Unordered(q.clone())) == r, "Object's own impl agrees with Value's", || String::new());
        }
    }
    // composition: the same right-hand value after in-place surgery that leaves its entries unchanged —
    // a temporary entry pushed and removed again, entries popped from the end and pushed back, at the
    // root and one level down (the key index has then lived through removals and shifts)
    {
        fn operated(v: &Value, depth: usize) -> Value {
            match v {
                Value::Object(o) => {
                    let es: Vec<(json_syntax::object::Key, Value)> = o.entries().iter().map(|e| (e.key.clone(), if depth > 0 { operated(&e.value, depth - 1) } else { e.value.clone() })).collect();
                    let mut n = Object::new();
                    let mid = es.len() / 2;
                    for (i, (k, v)) in es.iter().enumerate() {
                        if i == mid { n.push("~tmp~".into(), Value::Null); if let Some((k0, _)) = es.first() { n.push(k0.clone(), Value::Boolean(false)); } }
                        n.push(k.clone(), v.clone());
                    }
                    if es.is_empty() { n.push("~tmp~".into(), Value::Null); }
                    // remove the temporaries: the duplicate of the first key by position, `~tmp~` by key
                    if !es.is_empty() { n.remove_at(mid + 1); }
                    let _ = n.remove("~tmp~").count();
                    Value::Object(n)
                }
                Value::Array(a) => Value::Array(a.iter().map(|x| operated(x, depth)).collect()),
                other => other.clone(),
            }
        }
        let y2 = operated(&y, 1);
        out.oracle(y2 == y, "surgery that restores the entries restores equality", || show_value(&y2));
        out.oracle(x.unordered_eq(&y2) == r && y2.unordered_eq(&x) == r && y2.unordered_eq(&y) && y.unordered_eq(&y2), "unordered_eq does not depend on the operations the object has been through", || format!("reference {} / after surgery {} {}", r, x.unordered_eq(&y2), y2.unordered_eq(&x)));
    }
    out.count(if r { "equal" } else { "different" });
    if r && x != y { out.count("equal_but_reordered"); }
    (r.to_string(), x != y)
}

fn shuffle_deep(rng: &mut Rng, v: &Value) -> Value {
    match v {
        Value::Array(a) => Value::Array(a.iter().map(|x| shuffle_deep(rng, x)).collect()),
        Value::Object(o) => {
            let mut es: Vec<(String, Value)> = o.entries().iter().map(|e| (e.key.to_string(), shuffle_deep(rng, &e.value))).collect();
            for i in (1..es.len()).rev() { let j = rng.below(i as u64 + 1) as usize; es.swap(i, j); }
            let mut n = Object::new();
            for (k, v) in es { n.push(k.as_str().into(), v); }
            Value::Object(n)
        }
        other => other.clone(),
    }
}

pub fn gen(out: &mut Out, thorough: bool) {
    let mut l = |s: String, out: &mut Out| crate::exec_line(&s, out);
    // exhaustive: all objects with <= n entries over 2 keys x 3 values (one of them a nested object)
    let keys = ["61", "62"];
    let vals = ["#31;", "#32;", "{k61;#31;k61;#32;}"];
    let n = if thorough { 4 } else { 3 };
    let mut objs: Vec<String> = vec![];
    let entries: Vec<String> = keys.iter().flat_map(|k| vals.iter().map(move |v| format!("k{};{}", k, v))).collect();
    let refs: Vec<&str> = entries.iter().map(|s| s.as_str()).collect();
    crate::parse::all_strings(&refs, n, |s| objs.push(format!("{{{}}}", s)));
    out.count_n("small_objects", objs.len() as u64);
    let limit = if thorough { objs.len() } else { objs.len().min(400) };
    for a in objs.iter().take(limit) {
        for b in objs.iter().take(limit) {
            if a.len() == b.len() { l(format!("ueq {} {}", a, b), out); }
        }
    }
    out.exhaustive.push(format!("all pairs of equal-size objects among the first {} objects with <= {} entries over 2 keys x 3 values (one value a nested object with duplicate keys)", limit, n));
    // nested one level: swapped inner objects
    for (a, b) in [("{k61;{k61;#31;k61;#32;}}", "{k61;{k61;#32;k61;#31;}}"), ("[{k61;n,k62;t}]", "[{k62;t,k61;n}]"), ("[n,t]", "[t,n]"), ("{k61;[n,t]}", "{k61;[t,n]}")] {
        if parse_value(a).is_some() && parse_value(b).is_some() { l(format!("ueq {} {}", a, b), out); }
    }
    // many entries under one key (and a few other keys), values from a pool with nested objects and
    // arrays of objects: deep shuffles must stay equal whatever the number of duplicates, a single
    // mutation must not
    {
        let pool = ["n", "t", "#31;", "#32;", "s61;", "{k78;#31;k79;#32;}", "{k78;#35;}", "{k79;#32;k78;#31;k7a;n}", "[{k78;#31;k79;#32;}]", "[{k78;#35;}n]", "{k78;{k61;t k62;f}k79;[]}", "[]", "{}"];
        let sizes: &[usize] = if thorough { &[2, 5, 11, 12, 13, 14, 15, 16, 20, 31, 32, 33, 40, 65, 130] } else { &[5, 12, 13, 14, 15, 20, 33, 65] };
        let reps = if thorough { 40 } else { 8 };
        let mut n = 0u64;
        for &sz in sizes {
            for r in 0..reps {
                let mut o = Object::new();
                for i in 0..sz {
                    let key = if (i + r) % 6 == 5 { "z" } else if (i + r) % 11 == 7 { "" } else { "k" };
                    let v = parse_value(&pool[out.rng.below(pool.len() as u64) as usize].replace(' ', "")).unwrap_or(Value::Null);
                    o.push(key.into(), v);
                }
                let v = if r % 3 == 2 { Value::Array(vec![Value::Object(o), Value::Null]) } else { Value::Object(o) };
                let sh = shuffle_deep(&mut out.rng, &v);
                l(format!("ueq {} {}", show_value(&v), show_value(&sh)), out);
                l(format!("ueq {} {}", show_value(&sh), show_value(&v)), out);
                let mu = crate::ord::mutate(&mut out.rng, &sh);
                l(format!("ueq {} {}", show_value(&v), show_value(&mu)), out);
                n += 3;
            }
        }
        out.count_n("wide_duplicate_objects", n);
        out.exhaustive.push(format!("objects with {:?} entries mostly under ONE key, values from a pool with nested objects / arrays of objects: deep shuffle (both directions) and one mutation", sizes));
    }
    // objects of EVERY size 2..=40 (and some larger) with mostly DISTINCT keys whose key multisets
    // differ by one: one side repeats a key (same value) where the other has a key of its own; one side
    // repeats k_i, the other k_j; a repeated key with the two values swapped. Both argument orders,
    // shuffled, bare and nested (a size-dependent fast path, a one-sided duplicate test)
    {
        let mut sizes: Vec<usize> = (2..=40).collect();
        sizes.extend_from_slice(if thorough { &[41, 48, 63, 64, 65, 100, 130, 257][..] } else { &[64, 65, 130][..] });
        let mut n = 0u64;
        for &sz in &sizes {
            let distinct: Vec<(String, Value)> = (0..sz).map(|i| (format!("k{}", i), Value::Number(((i % 7) as u8).into()))).collect();
            let build = |es: &[(String, Value)]| { let mut o = Object::new(); for (k, v) in es { o.push(k.as_str().into(), v.clone()); } Value::Object(o) };
            let j = out.rng.below(sz as u64 - 1) as usize;
            let i2 = (j + 1 + out.rng.below(sz as u64 - 1) as usize) % (sz - 1);
            // a: the last key replaced by a second copy of k_j (same value)
            let mut a = distinct.clone(); a[sz - 1] = distinct[j].clone();
            // b: the last key replaced by a second copy of k_i2
            let mut b = distinct.clone(); b[sz - 1] = distinct[i2].clone();
            // c: as a, the copy carrying another value; d: the two values of the repeated key swapped
            let mut c = a.clone(); c[sz - 1].1 = Value::Boolean(true);
            let mut d = c.clone(); d[sz - 1].1 = c[j].1.clone(); d[j].1 = Value::Boolean(true);
            let all = [build(&distinct), build(&a), build(&b), build(&c), build(&d)];
            for (x, vx) in all.iter().enumerate() { for (y, vy) in all.iter().enumerate() {
                if x == y && sz > 12 { continue; }
                let (px, py) = if (x + y + sz) % 2 == 0 { (shuffle_deep(&mut out.rng, vx), vy.clone()) } else { (vx.clone(), shuffle_deep(&mut out.rng, vy)) };
                l(format!("ueq {} {}", show_value(&px), show_value(&py)), out);
                n += 1;
                if (x + y + sz) % 5 == 0 {
                    l(format!("ueq {} {}", show_value(&Value::Array(vec![Value::Null, px.clone()])), show_value(&Value::Array(vec![Value::Null, py.clone()]))), out);
                    n += 1;
                }
            } }
        }
        out.count_n("wide_distinct_key_multiset_pairs", n);
        out.exhaustive.push(format!("for every object size in {:?}: all ordered pairs of {{all keys distinct, one key repeated, another key repeated, repeated with a different value, the two values swapped}}, one side shuffled", sizes));
    }
    // SCALE: one key occurring N = 2^8, 2^12 (+-1, 5000; thorough 2^14) times with pairwise distinct
    // values, and N distinct keys: the object against itself, against its reversal, against a copy with
    // one value changed at the end (a cap on the candidates scanned, a size-dependent shortcut)
    {
        let mut n = 0u64;
        for &cnt in (if thorough { &[255usize, 256, 257, 4095, 4096, 4097, 5000, 16385][..] } else { &[257usize, 4097, 5000][..] }) {
            let dup = |rev: bool, change: Option<usize>| -> String {
                let idx: Vec<usize> = if rev { (0..cnt).rev().collect() } else { (0..cnt).collect() };
                format!("{{{}}}", idx.iter().map(|&i| format!("k6b;#{};", if change == Some(i) { "2d.31".to_string() } else { cps_inner(&i.to_string()) })).collect::<String>())
            };
            let dis = |rev: bool, change: Option<usize>| -> String {
                let idx: Vec<usize> = if rev { (0..cnt).rev().collect() } else { (0..cnt).collect() };
                format!("{{{}}}", idx.iter().map(|&i| format!("k6b.{:x};#{:x};", 0x100 + i, if change == Some(i) { 0x39 } else { 0x30 + i % 9 })).collect::<String>())
            };
            for (a, b) in [(dup(false, None), dup(false, None)), (dup(false, None), dup(true, None)), (dup(true, None), dup(false, Some(cnt - 1))), (dup(false, Some(0)), dup(true, None)),
                           (dis(false, None), dis(true, None)), (dis(false, None), dis(true, Some(cnt - 1))), (dis(false, Some(cnt / 2)), dis(false, None))] {
                l(format!("ueq {} {}", a, b), out);
                n += 1;
            }
            l(format!("ueq [n{}] [n{}]", dup(false, None), dup(true, None)), out);
            n += 1;
        }
        out.count_n("scale_pairs", n);
        out.exhaustive.push("scale: objects with 2^8 / 2^12 (+-1, 5000) occurrences of one key (pairwise distinct values) and as many distinct keys: against themselves, their reversal, and copies with one value changed at the end / start / middle".into());
    }
    // random large values: shuffles must be equal, single-leaf mutations must differ
    let m = if thorough { 300000 } else { 3000 };
    for _ in 0..m {
        let v = crate::print::gen_value(&mut out.rng, 0, 4);
        let s = shuffle_deep(&mut out.rng, &v);
        l(format!("ueq {} {}", show_value(&v), show_value(&s)), out);
        let mu = crate::ord::mutate(&mut out.rng, &s);
        l(format!("ueq {} {}", show_value(&v), show_value(&mu)), out);
    }
}
