#![allow(dead_code)]
use std::collections::hash_map::DefaultHasher;
use std::collections::{BTreeMap, HashSet};
use std::fs::File;
use std::hash::{Hash, Hasher};
use std::io::{BufWriter, Write};

/// xorshift64* — every random choice of a run derives from this one state.
pub struct Rng(pub u64);
impl Rng {
    pub fn new(seed: u64) -> Self {
        Rng(seed.wrapping_mul(0x9E3779B97F4A7C15) ^ 0xD1B54A32D192ED03 | 1)
    }
    pub fn next(&mut self) -> u64 {
        let mut x = self.0;
        x ^= x >> 12;
        x ^= x << 25;
        x ^= x >> 27;
        self.0 = x;
        x.wrapping_mul(0x2545F4914F6CDD1D)
    }
    pub fn below(&mut self, n: u64) -> u64 {
        if n == 0 { 0 } else { self.next() % n }
    }
    pub fn range(&mut self, lo: u64, hi: u64) -> u64 {
        lo + self.below(hi - lo + 1)
    }
    pub fn chance(&mut self, num: u64, den: u64) -> bool {
        self.below(den) < num
    }
    pub fn pick<'a, T>(&mut self, xs: &'a [T]) -> &'a T {
        &xs[self.below(xs.len() as u64) as usize]
    }
}

pub struct Out {
    pub prop: String,
    pub seed: u64,
    pub rng: Rng,
    cases: BufWriter<File>,
    imp: BufWriter<File>,
    stats_path: String,
    pub evaluations: u64,
    distinct: HashSet<u64>,
    pub counters: BTreeMap<String, u64>,
    pub samples: Vec<String>,
    pub oracle_failures: Vec<(String, String, String)>, // (clause, case, detail)
    pub oracle_checks: u64,
    pub known_hits: BTreeMap<String, (u64, String)>,
    pub notes: BTreeMap<String, String>,
    pub exhaustive: Vec<String>,
    pub panics: Vec<String>,
    pub cur: String,
    pub corpus_cases: u64,
}

pub fn json_str(s: &str) -> String {
    let mut o = String::from("\"");
    for c in s.chars() {
        match c {
            '"' => o.push_str("\\\""),
            '\\' => o.push_str("\\\\"),
            '\n' => o.push_str("\\n"),
            '\r' => o.push_str("\\r"),
            '\t' => o.push_str("\\t"),
            c if (c as u32) < 0x20 => o.push_str(&format!("\\u{:04x}", c as u32)),
            c => o.push(c),
        }
    }
    o.push('"');
    o
}

impl Out {
    pub fn new(prop: &str, workdir: &str, seed: u64) -> Self {
        std::fs::create_dir_all(workdir).unwrap();
        let f = |ext: &str| BufWriter::with_capacity(1 << 20, File::create(format!("{}/{}.{}", workdir, prop, ext)).unwrap());
        Out {
            prop: prop.to_string(),
            seed,
            rng: Rng::new(seed),
            cases: f("cases"),
            imp: f("impl"),
            stats_path: format!("{}/{}.stats.json", workdir, prop),
            evaluations: 0,
            distinct: HashSet::new(),
            counters: BTreeMap::new(),
            samples: Vec::new(),
            oracle_failures: Vec::new(),
            oracle_checks: 0,
            known_hits: BTreeMap::new(),
            notes: BTreeMap::new(),
            exhaustive: Vec::new(),
            panics: Vec::new(),
            cur: String::new(),
            corpus_cases: 0,
        }
    }

    /// Record one executed case: the request line (for the model) and the implementation's reply.
    /// `nontrivial`: the case reached a non-error / non-degenerate branch (rule per property).
    pub fn record(&mut self, request: &str, impl_reply: &str, nontrivial: bool) {
        debug_assert!(!request.contains('\n') && !impl_reply.contains('\n'));
        writeln!(self.cases, "{}", request).unwrap();
        writeln!(self.imp, "{}", impl_reply).unwrap();
        self.evaluations += 1;
        if nontrivial {
            let mut h = DefaultHasher::new();
            request.hash(&mut h);
            self.distinct.insert(h.finish());
        }
        if self.samples.len() < 12 && (self.evaluations.is_power_of_two() || self.samples.len() < 3) {
            let mut r = request.to_string();
            let mut i = impl_reply.to_string();
            if r.len() > 300 { r.truncate(300); r.push_str("…"); }
            if i.len() > 300 { i.truncate(300); i.push_str("…"); }
            self.samples.push(format!("{}  =>  {}", r, i));
        }
    }

    pub fn count(&mut self, key: &str) {
        *self.counters.entry(key.to_string()).or_insert(0) += 1;
    }
    pub fn counter_value(&self, key: &str) -> u64 { self.counters.get(key).copied().unwrap_or(0) }
    pub fn count_n(&mut self, key: &str, n: u64) {
        *self.counters.entry(key.to_string()).or_insert(0) += n;
    }

    /// A direct check of the property on the real code (no model involved), attributed to the
    /// request line being executed.
    pub fn oracle(&mut self, ok: bool, clause: &str, detail: impl FnOnce() -> String) {
        self.oracle_checks += 1;
        if !ok && self.oracle_failures.len() < 200 {
            self.oracle_failures.push((clause.to_string(), self.cur.clone(), detail()));
        }
    }

    /// A failure that belongs to a recorded known-finding class (example = current request).
    pub fn known(&mut self, id: &str) {
        let cur = self.cur.clone();
        let e = self.known_hits.entry(id.to_string()).or_insert((0, String::new()));
        e.0 += 1;
        if e.1.is_empty() {
            e.1 = cur;
        }
    }

    pub fn finish(mut self) {
        self.cases.flush().unwrap();
        self.imp.flush().unwrap();
        let mut s = String::from("{\n");
        s.push_str(&format!(" \"property\": {},\n", json_str(&self.prop)));
        s.push_str(&format!(" \"seed\": {},\n", self.seed));
        s.push_str(&format!(" \"evaluations\": {},\n", self.evaluations));
        s.push_str(&format!(" \"distinct_nontrivial\": {},\n", self.distinct.len()));
        s.push_str(&format!(" \"oracle_checks\": {},\n", self.oracle_checks));
        s.push_str(" \"counters\": {");
        s.push_str(&self.counters.iter().map(|(k, v)| format!("{}: {}", json_str(k), v)).collect::<Vec<_>>().join(", "));
        s.push_str("},\n \"notes\": {");
        s.push_str(&self.notes.iter().map(|(k, v)| format!("{}: {}", json_str(k), json_str(v))).collect::<Vec<_>>().join(", "));
        s.push_str("},\n \"exhaustive\": [");
        s.push_str(&self.exhaustive.iter().map(|k| json_str(k)).collect::<Vec<_>>().join(", "));
        s.push_str("],\n \"panics\": [");
        s.push_str(&self.panics.iter().take(50).map(|k| json_str(k)).collect::<Vec<_>>().join(", "));
        s.push_str(&format!("],\n \"corpus_cases\": {},\n \"samples\": [", self.corpus_cases));
        s.push_str(&self.samples.iter().map(|k| json_str(k)).collect::<Vec<_>>().join(", "));
        s.push_str("],\n \"known_hits\": {");
        s.push_str(&self.known_hits.iter().map(|(k, (n, e))| format!("{}: {{\"count\": {}, \"example\": {}}}", json_str(k), n, json_str(e))).collect::<Vec<_>>().join(", "));
        s.push_str("},\n \"oracle_failures\": [");
        s.push_str(&self.oracle_failures.iter().map(|(c, k, d)| format!("{{\"clause\": {}, \"case\": {}, \"detail\": {}}}", json_str(c), json_str(k), json_str(d))).collect::<Vec<_>>().join(",\n  "));
        s.push_str("]\n}\n");
        std::fs::write(&self.stats_path, s).unwrap();
    }
}

// ---------- protocol encodings ----------

pub fn cps(s: &str) -> String {
    if s.is_empty() {
        "-".to_string()
    } else {
        s.chars().map(|c| format!("{:x}", c as u32)).collect::<Vec<_>>().join(".")
    }
}
pub fn cps_inner(s: &str) -> String {
    s.chars().map(|c| format!("{:x}", c as u32)).collect::<Vec<_>>().join(".")
}
pub fn hex_bytes(b: &[u8]) -> String {
    if b.is_empty() {
        "-".to_string()
    } else {
        b.iter().map(|x| format!("{:02x}", x)).collect()
    }
}

use json_syntax::Value;

/// Iterative encoder (values may be deeply nested).
pub fn show_value(v: &Value) -> String {
    enum W<'a> { V(&'a Value), S(&'static str), K(&'a str) }
    let mut out = String::new();
    let mut stack = vec![W::V(v)];
    while let Some(w) = stack.pop() {
        match w {
            W::S(s) => out.push_str(s),
            W::K(k) => { out.push('k'); out.push_str(&cps_inner(k)); out.push(';'); }
            W::V(v) => match v {
                Value::Null => out.push('n'),
                Value::Boolean(true) => out.push('t'),
                Value::Boolean(false) => out.push('f'),
                Value::Number(n) => { out.push('#'); out.push_str(&cps_inner(n.as_str())); out.push(';'); }
                Value::String(s) => { out.push('s'); out.push_str(&cps_inner(s.as_str())); out.push(';'); }
                Value::Array(a) => {
                    out.push('[');
                    stack.push(W::S("]"));
                    for x in a.iter().rev() { stack.push(W::V(x)); }
                }
                Value::Object(o) => {
                    out.push('{');
                    stack.push(W::S("}"));
                    for e in o.entries().iter().rev() {
                        stack.push(W::V(&e.value));
                        stack.push(W::K(e.key.as_str()));
                    }
                }
            },
        }
    }
    out
}

// ---------- decoding of the protocol's value notation ----------

pub fn parse_cps(s: &str) -> Option<String> {
    if s == "-" || s.is_empty() {
        return Some(String::new());
    }
    let mut o = String::new();
    for p in s.split('.') {
        // `hex*n` = that character n times (request lines of the scale streams stay short)
        match p.split_once('*') {
            Some((h, n)) => { let c = char::from_u32(u32::from_str_radix(h, 16).ok()?)?; let n: usize = n.parse().ok()?; if n > 1 << 24 { return None; } for _ in 0..n { o.push(c); } }
            None => o.push(char::from_u32(u32::from_str_radix(p, 16).ok()?)?),
        }
    }
    Some(o)
}
/// `cps` with runs of four or more equal characters written `hex*n` (requests only: replies are
/// compared as text with the model's plain notation)
pub fn cps_rle(s: &str) -> String {
    if s.is_empty() { return "-".to_string(); }
    let mut parts: Vec<String> = Vec::new();
    let mut it = s.chars().peekable();
    while let Some(c) = it.next() {
        let mut n = 1usize;
        while it.peek() == Some(&c) { it.next(); n += 1; }
        if n >= 4 { parts.push(format!("{:x}*{}", c as u32, n)); } else { for _ in 0..n { parts.push(format!("{:x}", c as u32)); } }
    }
    parts.join(".")
}
pub fn parse_hex_bytes(s: &str) -> Option<Vec<u8>> {
    if s == "-" || s.is_empty() {
        return Some(vec![]);
    }
    if s.len() % 2 != 0 {
        return None;
    }
    (0..s.len() / 2).map(|i| u8::from_str_radix(&s[2 * i..2 * i + 2], 16).ok()).collect()
}

/// Iterative decoder of the prefix notation (deep nesting must not overflow the harness stack).
/// Numbers are built with `new_unchecked`-free API: invalid spellings yield None.
pub fn parse_value(s: &str) -> Option<Value> {
    enum Open { Arr(Vec<Value>), Obj(Vec<(String, Value)>, Option<String>) }
    let b = s.as_bytes();
    let mut i = 0usize;
    let mut stack: Vec<Open> = Vec::new();
    let read_cps = |i: &mut usize| -> Option<String> {
        let start = *i;
        while *i < b.len() && b[*i] != b';' { *i += 1; }
        if *i >= b.len() { return None; }
        let r = parse_cps(&s[start..*i])?;
        *i += 1;
        Some(r)
    };
    loop {
        if i >= b.len() { return None; }
        let c = b[i];
        i += 1;
        let mut done: Option<Value> = match c {
            b'n' => Some(Value::Null),
            b't' => Some(Value::Boolean(true)),
            b'f' => Some(Value::Boolean(false)),
            b'#' => { let t = read_cps(&mut i)?; Some(Value::Number(json_syntax::NumberBuf::new(t.into_bytes().into()).ok()?)) }
            b's' => { let t = read_cps(&mut i)?; Some(Value::String(t.as_str().into())) }
            b'[' => { stack.push(Open::Arr(Vec::new())); None }
            b'{' => { stack.push(Open::Obj(Vec::new(), None)); None }
            b']' => match stack.pop()? { Open::Arr(v) => Some(Value::Array(v)), _ => return None },
            b'}' => match stack.pop()? {
                Open::Obj(es, None) => {
                    let mut o = json_syntax::Object::new();
                    for (k, v) in es { o.push(k.as_str().into(), v); }
                    Some(Value::Object(o))
                }
                _ => return None,
            },
            b'k' => {
                let t = read_cps(&mut i)?;
                match stack.last_mut()? { Open::Obj(_, k @ None) => { *k = Some(t); None } _ => return None }
            }
            _ => return None,
        };
        while let Some(v) = done.take() {
            match stack.last_mut() {
                None => return if i == b.len() { Some(v) } else { None },
                Some(Open::Arr(a)) => a.push(v),
                Some(Open::Obj(es, k)) => { let key = k.take()?; es.push((key, v)); }
            }
        }
    }
}


/// An iterator must behave like the finite sequence it stands for whichever of the `Iterator`
/// methods a type may override is used: `nth`, `count`, `last`, `size_hint` (bounds must contain the
/// real remaining length), `skip`, `step_by`, and re-polling after the end.
pub fn iter_laws<I, T, F>(make: F) -> Result<(), String>
where
    I: Iterator<Item = T>,
    T: PartialEq + std::fmt::Debug,
    F: Fn() -> I,
{
    let all: Vec<T> = make().collect();
    let n = all.len();
    let check_hint = |it: &I, remaining: usize, what: &str| -> Result<(), String> {
        let (lo, hi) = it.size_hint();
        if lo > remaining || hi.map_or(false, |h| h < remaining) { return Err(format!("size_hint {:?} but {} items remain ({})", (lo, hi), remaining, what)); }
        Ok(())
    };
    check_hint(&make(), n, "fresh")?;
    if make().count() != n { return Err("count() differs from the number of items yielded".into()); }
    if make().last() != make().collect::<Vec<_>>().pop() { return Err("last() differs".into()); }
    for k in 0..=(n + 2).min(9) {
        let mut it = make();
        let got = it.nth(k);
        let want_idx = if k < n { Some(k) } else { None };
        match (&got, want_idx) {
            (Some(g), Some(i)) if *g == all[i] => {}
            (None, None) => {}
            _ => return Err(format!("nth({}) = {:?}, sequence has {:?}", k, got, want_idx.map(|i| &all[i]))),
        }
        let rest_want = if k < n { n - k - 1 } else { 0 };
        check_hint(&it, rest_want, "after nth")?;
        let rest: Vec<T> = it.collect();
        if rest.len() != rest_want || rest.iter().zip(all.iter().skip(k + 1)).any(|(a, b)| a != b) { return Err(format!("items after nth({}) differ from the sequence", k)); }
        let sk: Vec<T> = make().skip(k).collect();
        if sk.len() != n.saturating_sub(k) || sk.iter().zip(all.iter().skip(k)).any(|(a, b)| a != b) { return Err(format!("skip({}) differs", k)); }
        let st: Vec<T> = make().step_by(k + 1).collect();
        if st.len() != (n + k) / (k + 1) || st.iter().zip(all.iter().step_by(k + 1)).any(|(a, b)| a != b) { return Err(format!("step_by({}) differs", k + 1)); }
    }
    // polling after the end keeps returning None for the iterators of this crate (they are plain
    // cursors over finite data)
    let mut it = make();
    for _ in 0..n { it.next(); }
    if it.next().is_some() || it.next().is_some() { return Err("yields items after the end".into()); }
    Ok(())
}
