//! Descriptor-driven deserialization client (C16/C17): the real `Value` deserializer of
//! src/serde/de.rs driven by a run-time **type descriptor** instead of a fixed Rust type.
//!
//!   serde rt  <DTy> <SData> <numtable>   to_value(datum) and Probe(ty)(that value)
//!   serde de  <DTy> <V> <numtable>       Probe(ty)(V): mostly ill-typed values (error paths)
//!   serde fromvalm <V> <numtable>        from_value::<Value>(V), reply = the value built
//!
//! `P(ty)` makes exactly the `deserialize_*` request that serde's / serde-derive's `Deserialize`
//! implementation for a type of that shape makes, with a visitor accepting exactly what theirs
//! accept (checked against real `#[derive(Deserialize)]` types in serdeh.rs). The datum built is
//! shown in the `SData` notation of the recording serializer.
//!
//! `numtable` = `-` or `n=t32=t64,…` for every number text in the value: the text of
//! `NumberBuf::try_from` of the f32 / f64 that json-number hands to a float visitor (`!` when not
//! finite). This is the json-number / lexical dependency evaluated by the harness and given to the
//! model as a parameter; `exec` recomputes it and refuses a line whose table is wrong.
use crate::common::*;
use json_syntax::Value;
use serde::de::{self, DeserializeSeed, Deserializer, EnumAccess, MapAccess, SeqAccess, Unexpected, VariantAccess, Visitor};
use serde::ser::{SerializeMap, SerializeSeq, SerializeStruct, SerializeStructVariant, SerializeTuple, SerializeTupleVariant};
use serde::Serialize;
use std::collections::HashMap;
use std::sync::Mutex;

// ------------------------------------------------------------------------------------------------
// descriptors and data
// ------------------------------------------------------------------------------------------------

#[derive(Clone, Copy, Debug, PartialEq)]
pub enum IntW { I8, I16, I32, I64, U8, U16, U32, U64 }
impl IntW {
    pub fn range(self) -> (i128, i128) {
        match self {
            IntW::I8 => (i8::MIN as i128, i8::MAX as i128), IntW::I16 => (i16::MIN as i128, i16::MAX as i128),
            IntW::I32 => (i32::MIN as i128, i32::MAX as i128), IntW::I64 => (i64::MIN as i128, i64::MAX as i128),
            IntW::U8 => (0, u8::MAX as i128), IntW::U16 => (0, u16::MAX as i128), IntW::U32 => (0, u32::MAX as i128), IntW::U64 => (0, u64::MAX as i128),
        }
    }
    pub fn signed(self) -> bool { matches!(self, IntW::I8 | IntW::I16 | IntW::I32 | IntW::I64) }
    fn code(self) -> &'static str { match self { IntW::I8 => "I1", IntW::I16 => "I2", IntW::I32 => "I4", IntW::I64 => "I8", IntW::U8 => "U1", IntW::U16 => "U2", IntW::U32 => "U4", IntW::U64 => "U8" } }
}

#[derive(Clone, Debug, PartialEq)]
pub enum DTy {
    Bool, Int(IntW), F32, F64, Char, Str, Unit, UnitStruct,
    Opt(Box<DTy>), Newtype(Box<DTy>), Seq(Box<DTy>),
    Tuple(Vec<DTy>), TupleStruct(Vec<DTy>),
    Map(Box<DTy>, Box<DTy>),
    Struct(Vec<(String, DTy)>),
    Enum(Vec<(String, DTy)>),
}

pub fn show_dty(t: &DTy) -> String {
    match t {
        DTy::Bool => "b".into(), DTy::Int(w) => w.code().into(), DTy::F32 => "f4".into(), DTy::F64 => "f8".into(),
        DTy::Char => "c".into(), DTy::Str => "s".into(), DTy::Unit => "n".into(), DTy::UnitStruct => "N".into(),
        DTy::Opt(t) => format!("o{}", show_dty(t)), DTy::Newtype(t) => format!("w{}", show_dty(t)), DTy::Seq(t) => format!("q{}", show_dty(t)),
        DTy::Tuple(ts) => format!("t[{}]", ts.iter().map(show_dty).collect::<String>()),
        DTy::TupleStruct(ts) => format!("T[{}]", ts.iter().map(show_dty).collect::<String>()),
        DTy::Map(k, t) => format!("m{}{}", show_dty(k), show_dty(t)),
        DTy::Struct(fs) => format!("r[{}]", fs.iter().map(|(n, t)| format!("{};{}", cps_inner(n), show_dty(t))).collect::<String>()),
        DTy::Enum(vs) => format!("e[{}]", vs.iter().map(|(n, t)| format!("{};{}", cps_inner(n), show_dty(t))).collect::<String>()),
    }
}

fn read_name(b: &[u8], i: &mut usize) -> Option<String> {
    let start = *i;
    while *i < b.len() && b[*i] != b';' { *i += 1; }
    if *i >= b.len() { return None; }
    let r = parse_cps(std::str::from_utf8(&b[start..*i]).ok()?)?;
    *i += 1;
    Some(r)
}
fn read_raw<'a>(b: &'a [u8], i: &mut usize) -> Option<&'a str> {
    let start = *i;
    while *i < b.len() && b[*i] != b';' { *i += 1; }
    if *i >= b.len() { return None; }
    let r = std::str::from_utf8(&b[start..*i]).ok()?;
    *i += 1;
    Some(r)
}

pub fn read_dty(b: &[u8], i: &mut usize) -> Option<DTy> {
    let c = *b.get(*i)?;
    *i += 1;
    Some(match c {
        b'b' => DTy::Bool, b'c' => DTy::Char, b's' => DTy::Str, b'n' => DTy::Unit, b'N' => DTy::UnitStruct,
        b'I' | b'U' => {
            let d = *b.get(*i)?; *i += 1;
            DTy::Int(match (c, d) { (b'I', b'1') => IntW::I8, (b'I', b'2') => IntW::I16, (b'I', b'4') => IntW::I32, (b'I', b'8') => IntW::I64,
                                    (b'U', b'1') => IntW::U8, (b'U', b'2') => IntW::U16, (b'U', b'4') => IntW::U32, (b'U', b'8') => IntW::U64, _ => return None })
        }
        b'f' => { let d = *b.get(*i)?; *i += 1; match d { b'4' => DTy::F32, b'8' => DTy::F64, _ => return None } }
        b'o' => DTy::Opt(Box::new(read_dty(b, i)?)),
        b'w' => DTy::Newtype(Box::new(read_dty(b, i)?)),
        b'q' => DTy::Seq(Box::new(read_dty(b, i)?)),
        b't' | b'T' => {
            if *b.get(*i)? != b'[' { return None; } *i += 1;
            let mut ts = vec![];
            while *b.get(*i)? != b']' { ts.push(read_dty(b, i)?); }
            *i += 1;
            if c == b't' { DTy::Tuple(ts) } else { DTy::TupleStruct(ts) }
        }
        b'm' => { let k = read_dty(b, i)?; let t = read_dty(b, i)?; DTy::Map(Box::new(k), Box::new(t)) }
        b'r' | b'e' => {
            if *b.get(*i)? != b'[' { return None; } *i += 1;
            let mut fs = vec![];
            while *b.get(*i)? != b']' { let n = read_name(b, i)?; let t = read_dty(b, i)?; fs.push((n, t)); }
            *i += 1;
            if c == b'r' { DTy::Struct(fs) } else { DTy::Enum(fs) }
        }
        _ => return None,
    })
}
pub fn parse_dty(s: &str) -> Option<DTy> {
    let mut i = 0;
    let t = read_dty(s.as_bytes(), &mut i)?;
    if i == s.len() { Some(t) } else { None }
}

/// a datum of the serde data model
#[derive(Clone, Debug)]
pub enum SD {
    Bool(bool), I(i64), U(u64), F64(f64), F32(f32), Char(char), Str(String), Bytes(Vec<u8>),
    None, Some(Box<SD>), Unit, UnitStruct, UnitVariant(String), NewtypeStruct(Box<SD>), NewtypeVariant(String, Box<SD>),
    Seq(Vec<SD>), TupleVariant(String, Vec<SD>), Map(Vec<(SD, SD)>), Struct(Vec<(String, SD)>), StructVariant(String, Vec<(String, SD)>),
}

pub fn read_sd(b: &[u8], i: &mut usize) -> Option<SD> {
    let c = *b.get(*i)?;
    *i += 1;
    Some(match c {
        b'b' => { let d = *b.get(*i)?; *i += 1; match d { b'0' => SD::Bool(false), b'1' => SD::Bool(true), _ => return None } }
        b'i' => SD::I(read_raw(b, i)?.parse().ok()?),
        b'u' => SD::U(read_raw(b, i)?.parse().ok()?),
        b'F' => { let t = read_raw(b, i)?; if t == "null" { SD::F64(f64::NAN) } else { SD::F64(t.parse().ok()?) } }
        b'G' => { let t = read_raw(b, i)?; if t == "null" { SD::F32(f32::NAN) } else { SD::F32(t.parse().ok()?) } }
        b'c' => SD::Char(char::from_u32(u32::from_str_radix(read_raw(b, i)?, 16).ok()?)?),
        b's' => SD::Str(read_name(b, i)?),
        b'y' => { let t = read_raw(b, i)?; SD::Bytes(if t == "-" { vec![] } else { (0..t.len() / 2).map(|j| u8::from_str_radix(&t[2 * j..2 * j + 2], 16).unwrap_or(0)).collect() }) }
        b'N' => SD::None,
        b'S' => SD::Some(Box::new(read_sd(b, i)?)),
        b'U' => SD::Unit,
        b'X' => SD::UnitStruct,
        b'V' => SD::UnitVariant(read_name(b, i)?),
        b'W' => SD::NewtypeStruct(Box::new(read_sd(b, i)?)),
        b'w' => { let n = read_name(b, i)?; SD::NewtypeVariant(n, Box::new(read_sd(b, i)?)) }
        b'q' => { if *b.get(*i)? != b'[' { return None; } *i += 1; let mut l = vec![]; while *b.get(*i)? != b']' { l.push(read_sd(b, i)?); } *i += 1; SD::Seq(l) }
        b'T' => { let n = read_name(b, i)?; if *b.get(*i)? != b'[' { return None; } *i += 1; let mut l = vec![]; while *b.get(*i)? != b']' { l.push(read_sd(b, i)?); } *i += 1; SD::TupleVariant(n, l) }
        b'm' => { if *b.get(*i)? != b'[' { return None; } *i += 1; let mut l = vec![]; while *b.get(*i)? != b']' { let k = read_sd(b, i)?; let v = read_sd(b, i)?; l.push((k, v)); } *i += 1; SD::Map(l) }
        b'r' => { if *b.get(*i)? != b'[' { return None; } *i += 1; let mut l = vec![]; while *b.get(*i)? != b']' { let k = read_name(b, i)?; let v = read_sd(b, i)?; l.push((k, v)); } *i += 1; SD::Struct(l) }
        b'R' => { let n = read_name(b, i)?; if *b.get(*i)? != b'[' { return None; } *i += 1; let mut l = vec![]; while *b.get(*i)? != b']' { let k = read_name(b, i)?; let v = read_sd(b, i)?; l.push((k, v)); } *i += 1; SD::StructVariant(n, l) }
        _ => return None,
    })
}
pub fn parse_sd(s: &str) -> Option<SD> {
    let mut i = 0;
    let t = read_sd(s.as_bytes(), &mut i)?;
    if i == s.len() { Some(t) } else { None }
}
/// maps as a `BTreeMap` keeps them: one entry per key (the last value wins), sorted (here: by the
/// key's notation, applied to both sides of a comparison)
pub fn norm_maps(d: &SD) -> SD {
    let b = |d: &SD| Box::new(norm_maps(d));
    match d {
        SD::Some(x) => SD::Some(b(x)), SD::NewtypeStruct(x) => SD::NewtypeStruct(b(x)), SD::NewtypeVariant(n, x) => SD::NewtypeVariant(n.clone(), b(x)),
        SD::Seq(l) => SD::Seq(l.iter().map(norm_maps).collect()), SD::TupleVariant(n, l) => SD::TupleVariant(n.clone(), l.iter().map(norm_maps).collect()),
        SD::Struct(l) => SD::Struct(l.iter().map(|(k, v)| (k.clone(), norm_maps(v))).collect()),
        SD::StructVariant(n, l) => SD::StructVariant(n.clone(), l.iter().map(|(k, v)| (k.clone(), norm_maps(v))).collect()),
        SD::Map(l) => {
            let mut m: std::collections::BTreeMap<String, (SD, SD)> = std::collections::BTreeMap::new();
            for (k, v) in l { m.insert(show_sd(k), (k.clone(), norm_maps(v))); }
            SD::Map(m.into_values().collect())
        }
        other => other.clone(),
    }
}
pub fn show_sd(d: &SD) -> String { d.serialize(crate::serdeh::Rec).unwrap_or_else(|e| format!("<{}>", e)) }

/// serde wants `&'static str` names: intern them (bounded by the number of distinct names)
fn intern(s: &str) -> &'static str {
    static TABLE: Mutex<Option<HashMap<String, &'static str>>> = Mutex::new(None);
    let mut g = TABLE.lock().unwrap();
    let t = g.get_or_insert_with(HashMap::new);
    if let Some(r) = t.get(s) { return r; }
    let r: &'static str = Box::leak(s.to_string().into_boxed_str());
    t.insert(s.to_string(), r);
    r
}
fn intern_names(names: &[(String, DTy)]) -> &'static [&'static str] {
    static TABLE: Mutex<Option<HashMap<String, &'static [&'static str]>>> = Mutex::new(None);
    let key: String = names.iter().map(|(n, _)| format!("{};", cps_inner(n))).collect();
    let mut g = TABLE.lock().unwrap();
    let t = g.get_or_insert_with(HashMap::new);
    if let Some(r) = t.get(&key) { return r; }
    let v: Vec<&'static str> = names.iter().map(|(n, _)| intern(n)).collect();
    let r: &'static [&'static str] = Box::leak(v.into_boxed_slice());
    t.insert(key, r);
    r
}

impl Serialize for SD {
    fn serialize<S: serde::Serializer>(&self, s: S) -> Result<S::Ok, S::Error> {
        match self {
            SD::Bool(b) => s.serialize_bool(*b),
            SD::I(i) => s.serialize_i64(*i),
            SD::U(u) => s.serialize_u64(*u),
            SD::F64(f) => s.serialize_f64(*f),
            SD::F32(f) => s.serialize_f32(*f),
            SD::Char(c) => s.serialize_char(*c),
            SD::Str(x) => s.serialize_str(x),
            SD::Bytes(x) => s.serialize_bytes(x),
            SD::None => s.serialize_none(),
            SD::Some(d) => s.serialize_some(&**d),
            SD::Unit => s.serialize_unit(),
            SD::UnitStruct => s.serialize_unit_struct("X"),
            SD::UnitVariant(v) => s.serialize_unit_variant("E", 0, intern(v)),
            SD::NewtypeStruct(d) => s.serialize_newtype_struct("W", &**d),
            SD::NewtypeVariant(v, d) => s.serialize_newtype_variant("E", 0, intern(v), &**d),
            SD::Seq(l) => { let mut q = s.serialize_seq(Some(l.len()))?; for d in l { q.serialize_element(d)?; } q.end() }
            SD::TupleVariant(v, l) => { let mut q = s.serialize_tuple_variant("E", 0, intern(v), l.len())?; for d in l { q.serialize_field(d)?; } q.end() }
            SD::Map(l) => { let mut q = s.serialize_map(Some(l.len()))?; for (k, v) in l { q.serialize_key(k)?; q.serialize_value(v)?; } q.end() }
            SD::Struct(l) => { let mut q = s.serialize_struct("R", l.len())?; for (k, v) in l { q.serialize_field(intern(k), v)?; } q.end() }
            SD::StructVariant(n, l) => { let mut q = s.serialize_struct_variant("E", 0, intern(n), l.len())?; for (k, v) in l { q.serialize_field(intern(k), v)?; } q.end() }
        }
    }
}
/// a tuple must go through `serialize_tuple` for serializers that care; ours does not, so `Seq` is
/// used for sequences, tuples and tuple structs alike (as in the recording notation)
#[allow(dead_code)]
fn _tuple_marker<S: serde::Serializer>(s: S) -> Result<S::Ok, S::Error> { let q = s.serialize_tuple(0)?; q.end() }

// ------------------------------------------------------------------------------------------------
// the client: `Deserialize` implementations interpreted from a descriptor
// ------------------------------------------------------------------------------------------------

pub struct P<'a>(pub &'a DTy);

impl<'de, 'a> DeserializeSeed<'de> for P<'a> {
    type Value = SD;
    fn deserialize<D: Deserializer<'de>>(self, d: D) -> Result<SD, D::Error> {
        let v = V(self.0);
        match self.0 {
            DTy::Bool => d.deserialize_bool(v),
            DTy::Int(IntW::I8) => d.deserialize_i8(v), DTy::Int(IntW::I16) => d.deserialize_i16(v),
            DTy::Int(IntW::I32) => d.deserialize_i32(v), DTy::Int(IntW::I64) => d.deserialize_i64(v),
            DTy::Int(IntW::U8) => d.deserialize_u8(v), DTy::Int(IntW::U16) => d.deserialize_u16(v),
            DTy::Int(IntW::U32) => d.deserialize_u32(v), DTy::Int(IntW::U64) => d.deserialize_u64(v),
            DTy::F32 => d.deserialize_f32(v), DTy::F64 => d.deserialize_f64(v),
            DTy::Char => d.deserialize_char(v),
            DTy::Str => d.deserialize_string(v),
            DTy::Unit => d.deserialize_unit(v),
            DTy::UnitStruct => d.deserialize_unit_struct("X", v),
            DTy::Opt(_) => d.deserialize_option(v),
            DTy::Newtype(_) => d.deserialize_newtype_struct("W", v),
            DTy::Seq(_) => d.deserialize_seq(v),
            DTy::Tuple(ts) => d.deserialize_tuple(ts.len(), v),
            DTy::TupleStruct(ts) => d.deserialize_tuple_struct("T", ts.len(), v),
            DTy::Map(_, _) => d.deserialize_map(v),
            DTy::Struct(fs) => d.deserialize_struct("R", intern_names(fs), v),
            DTy::Enum(vs) => d.deserialize_enum("E", intern_names(vs), v),
        }
    }
}

struct V<'a>(&'a DTy);

fn int_of<E: de::Error>(w: IntW, x: i128, unexp: Unexpected, exp: &dyn de::Expected) -> Result<SD, E> {
    let (lo, hi) = w.range();
    if lo <= x && x <= hi { Ok(if w.signed() { SD::I(x as i64) } else { SD::U(x as u64) }) } else { Err(E::invalid_value(unexp, exp)) }
}

/// the struct visitor's `visit_map` (serde-derive): one slot per field, unknown keys ignored,
/// duplicates rejected before the value is read, missing fields = None for options
fn struct_from_map<'de, A: MapAccess<'de>>(fs: &[(String, DTy)], mut map: A) -> Result<Vec<(String, SD)>, A::Error> {
    let mut slots: Vec<Option<SD>> = fs.iter().map(|_| None).collect();
    while let Some(idx) = map.next_key_seed(FieldId(fs))? {
        match idx {
            Some(i) => {
                if slots[i].is_some() { return Err(de::Error::duplicate_field(intern(&fs[i].0))); }
                slots[i] = Some(map.next_value_seed(P(&fs[i].1))?);
            }
            None => { let _: de::IgnoredAny = map.next_value()?; }
        }
    }
    let mut out = vec![];
    for (i, s) in slots.into_iter().enumerate() {
        match s {
            Some(d) => out.push((fs[i].0.clone(), d)),
            None => match fs[i].1 { DTy::Opt(_) => out.push((fs[i].0.clone(), SD::None)), _ => return Err(de::Error::missing_field(intern(&fs[i].0))) },
        }
    }
    Ok(out)
}
fn tuple_from_seq<'de, A: SeqAccess<'de>, X: de::Expected>(ts: &[&DTy], mut seq: A, exp: &X) -> Result<Vec<SD>, A::Error> {
    let mut out = vec![];
    for (i, t) in ts.iter().enumerate() {
        match seq.next_element_seed(P(t))? { Some(d) => out.push(d), None => return Err(de::Error::invalid_length(i, exp)) }
    }
    Ok(out)
}

/// `__Field` of serde-derive: the index of the named field, `None` for an unknown name
struct FieldId<'a>(&'a [(String, DTy)]);
impl<'de, 'a> DeserializeSeed<'de> for FieldId<'a> {
    type Value = Option<usize>;
    fn deserialize<D: Deserializer<'de>>(self, d: D) -> Result<Option<usize>, D::Error> { d.deserialize_identifier(self) }
}
impl<'de, 'a> Visitor<'de> for FieldId<'a> {
    type Value = Option<usize>;
    fn expecting(&self, f: &mut std::fmt::Formatter) -> std::fmt::Result { f.write_str("field identifier") }
    fn visit_u64<E: de::Error>(self, v: u64) -> Result<Option<usize>, E> { Ok(if (v as usize) < self.0.len() { Some(v as usize) } else { None }) }
    fn visit_str<E: de::Error>(self, v: &str) -> Result<Option<usize>, E> { Ok(self.0.iter().position(|(n, _)| n == v)) }
    fn visit_bytes<E: de::Error>(self, v: &[u8]) -> Result<Option<usize>, E> { Ok(self.0.iter().position(|(n, _)| n.as_bytes() == v)) }
}
/// `__Field` of an enum: an unknown name is an error
struct VariantId<'a>(&'a [(String, DTy)]);
impl<'de, 'a> DeserializeSeed<'de> for VariantId<'a> {
    type Value = usize;
    fn deserialize<D: Deserializer<'de>>(self, d: D) -> Result<usize, D::Error> { d.deserialize_identifier(self) }
}
impl<'de, 'a> Visitor<'de> for VariantId<'a> {
    type Value = usize;
    fn expecting(&self, f: &mut std::fmt::Formatter) -> std::fmt::Result { f.write_str("variant identifier") }
    fn visit_u64<E: de::Error>(self, v: u64) -> Result<usize, E> { if (v as usize) < self.0.len() { Ok(v as usize) } else { Err(E::invalid_value(Unexpected::Unsigned(v), &"variant index")) } }
    fn visit_str<E: de::Error>(self, v: &str) -> Result<usize, E> { self.0.iter().position(|(n, _)| n == v).ok_or_else(|| E::unknown_variant(v, intern_names(self.0))) }
    fn visit_bytes<E: de::Error>(self, v: &[u8]) -> Result<usize, E> { self.0.iter().position(|(n, _)| n.as_bytes() == v).ok_or_else(|| E::unknown_variant(&String::from_utf8_lossy(v), intern_names(self.0))) }
}

/// visitor of a tuple / struct variant's content
struct VariantBody<'a> { name: &'a str, payload: &'a DTy }
impl<'de, 'a> Visitor<'de> for VariantBody<'a> {
    type Value = SD;
    fn expecting(&self, f: &mut std::fmt::Formatter) -> std::fmt::Result { f.write_str("variant content") }
    fn visit_seq<A: SeqAccess<'de>>(self, seq: A) -> Result<SD, A::Error> {
        match self.payload {
            DTy::Tuple(ts) | DTy::TupleStruct(ts) => Ok(SD::TupleVariant(self.name.to_string(), tuple_from_seq(&ts.iter().collect::<Vec<_>>(), seq, &self)?)),
            DTy::Struct(fs) => { let l = tuple_from_seq(&fs.iter().map(|(_, t)| t).collect::<Vec<_>>(), seq, &self)?; Ok(SD::StructVariant(self.name.to_string(), fs.iter().map(|(n, _)| n.clone()).zip(l).collect())) }
            _ => Err(de::Error::invalid_type(Unexpected::Seq, &self)),
        }
    }
    fn visit_map<A: MapAccess<'de>>(self, map: A) -> Result<SD, A::Error> {
        match self.payload {
            DTy::Struct(fs) => Ok(SD::StructVariant(self.name.to_string(), struct_from_map(fs, map)?)),
            _ => Err(de::Error::invalid_type(Unexpected::Map, &self)),
        }
    }
}

impl<'de, 'a> Visitor<'de> for V<'a> {
    type Value = SD;
    fn expecting(&self, f: &mut std::fmt::Formatter) -> std::fmt::Result { write!(f, "a value of type {}", show_dty(self.0)) }
    fn visit_bool<E: de::Error>(self, v: bool) -> Result<SD, E> {
        match self.0 { DTy::Bool => Ok(SD::Bool(v)), _ => Err(E::invalid_type(Unexpected::Bool(v), &self)) }
    }
    fn visit_i64<E: de::Error>(self, v: i64) -> Result<SD, E> {
        match self.0 {
            DTy::Int(w) => int_of(*w, v as i128, Unexpected::Signed(v), &self),
            DTy::F64 => Ok(SD::F64(v as f64)), DTy::F32 => Ok(SD::F32(v as f32)),
            _ => Err(E::invalid_type(Unexpected::Signed(v), &self)),
        }
    }
    fn visit_u64<E: de::Error>(self, v: u64) -> Result<SD, E> {
        match self.0 {
            DTy::Int(w) => int_of(*w, v as i128, Unexpected::Unsigned(v), &self),
            DTy::F64 => Ok(SD::F64(v as f64)), DTy::F32 => Ok(SD::F32(v as f32)),
            _ => Err(E::invalid_type(Unexpected::Unsigned(v), &self)),
        }
    }
    fn visit_f64<E: de::Error>(self, v: f64) -> Result<SD, E> {
        match self.0 { DTy::F64 => Ok(SD::F64(v)), DTy::F32 => Ok(SD::F32(v as f32)), _ => Err(E::invalid_type(Unexpected::Float(v), &self)) }
    }
    fn visit_str<E: de::Error>(self, v: &str) -> Result<SD, E> {
        match self.0 {
            DTy::Str => Ok(SD::Str(v.to_string())),
            DTy::Char => { let mut it = v.chars(); match (it.next(), it.next()) { (Some(c), None) => Ok(SD::Char(c)), _ => Err(E::invalid_value(Unexpected::Str(v), &self)) } }
            _ => Err(E::invalid_type(Unexpected::Str(v), &self)),
        }
    }
    fn visit_unit<E: de::Error>(self) -> Result<SD, E> {
        match self.0 { DTy::Unit => Ok(SD::Unit), DTy::UnitStruct => Ok(SD::UnitStruct), DTy::Opt(_) => Ok(SD::None), _ => Err(E::invalid_type(Unexpected::Unit, &self)) }
    }
    fn visit_none<E: de::Error>(self) -> Result<SD, E> {
        match self.0 { DTy::Opt(_) => Ok(SD::None), _ => Err(E::invalid_type(Unexpected::Option, &self)) }
    }
    fn visit_some<D: Deserializer<'de>>(self, d: D) -> Result<SD, D::Error> {
        match self.0 { DTy::Opt(t) => Ok(SD::Some(Box::new(P(t).deserialize(d)?))), _ => Err(de::Error::invalid_type(Unexpected::Option, &self)) }
    }
    fn visit_newtype_struct<D: Deserializer<'de>>(self, d: D) -> Result<SD, D::Error> {
        match self.0 { DTy::Newtype(t) => Ok(SD::NewtypeStruct(Box::new(P(t).deserialize(d)?))), _ => Err(de::Error::invalid_type(Unexpected::NewtypeStruct, &self)) }
    }
    fn visit_seq<A: SeqAccess<'de>>(self, mut seq: A) -> Result<SD, A::Error> {
        match self.0 {
            DTy::Seq(t) => { let mut l = vec![]; while let Some(d) = seq.next_element_seed(P(t))? { l.push(d); } Ok(SD::Seq(l)) }
            DTy::Tuple(ts) | DTy::TupleStruct(ts) => Ok(SD::Seq(tuple_from_seq(&ts.iter().collect::<Vec<_>>(), seq, &self)?)),
            DTy::Newtype(t) => match seq.next_element_seed(P(t))? { Some(d) => Ok(SD::NewtypeStruct(Box::new(d))), None => Err(de::Error::invalid_length(0, &self)) },
            DTy::Struct(fs) => { let l = tuple_from_seq(&fs.iter().map(|(_, t)| t).collect::<Vec<_>>(), seq, &self)?; Ok(SD::Struct(fs.iter().map(|(n, _)| n.clone()).zip(l).collect())) }
            _ => Err(de::Error::invalid_type(Unexpected::Seq, &self)),
        }
    }
    fn visit_map<A: MapAccess<'de>>(self, mut map: A) -> Result<SD, A::Error> {
        match self.0 {
            DTy::Map(k, t) => { let mut l = vec![]; while let Some(kd) = map.next_key_seed(P(k))? { let d = map.next_value_seed(P(t))?; l.push((kd, d)); } Ok(SD::Map(l)) }
            DTy::Struct(fs) => Ok(SD::Struct(struct_from_map(fs, map)?)),
            _ => Err(de::Error::invalid_type(Unexpected::Map, &self)),
        }
    }
    fn visit_enum<A: EnumAccess<'de>>(self, data: A) -> Result<SD, A::Error> {
        match self.0 {
            DTy::Enum(vs) => {
                let (i, variant) = data.variant_seed(VariantId(vs))?;
                let (name, payload) = (&vs[i].0, &vs[i].1);
                match payload {
                    DTy::Unit => { variant.unit_variant()?; Ok(SD::UnitVariant(name.clone())) }
                    DTy::Newtype(t) => Ok(SD::NewtypeVariant(name.clone(), Box::new(variant.newtype_variant_seed(P(t))?))),
                    DTy::Tuple(ts) | DTy::TupleStruct(ts) => variant.tuple_variant(ts.len(), VariantBody { name, payload }),
                    DTy::Struct(fs) => variant.struct_variant(intern_names(fs), VariantBody { name, payload }),
                    _ => Err(de::Error::custom("descriptor: not a variant payload")),
                }
            }
            _ => Err(de::Error::invalid_type(Unexpected::Enum, &self)),
        }
    }
}

// ------------------------------------------------------------------------------------------------
// replies
// ------------------------------------------------------------------------------------------------

pub fn err_class(msg: &str) -> &'static str {
    if msg.starts_with("invalid type") { "invalidType" }
    else if msg.starts_with("invalid value") { "invalidValue" }
    else if msg.starts_with("invalid length") { "invalidLength" }
    else if msg.starts_with("missing field") { "missingField" }
    else if msg.starts_with("duplicate field") { "duplicateField" }
    else if msg.starts_with("unknown variant") { "unknownVariant" }
    else { "custom" }
}
pub fn show_de(r: &Result<SD, json_syntax::DeserializeError>) -> String {
    match r { Ok(d) => format!("ok {}", show_sd(d).replace('G', "F")), Err(e) => format!("E {}", err_class(&e.to_string())) }
}

/// the float a float visitor receives for a number text: the integer converted when the text is a
/// 64-bit integer literal, else std's correctly rounded `str::parse::<f64>` — computed from the
/// dependencies directly, not through /repo's dispatch
fn float_of(n: &json_syntax::Number) -> f64 {
    let t = n.as_str();
    if let Ok(u) = t.parse::<u64>() { u as f64 } else if let Ok(i) = t.parse::<i64>() { i as f64 } else { t.parse::<f64>().unwrap_or(f64::NAN) }
}
fn collect_numbers(v: &Value, acc: &mut Vec<String>) {
    match v {
        Value::Number(n) => { let s = n.as_str().to_string(); if !acc.contains(&s) { acc.push(s); } }
        Value::Array(a) => for x in a { collect_numbers(x, acc); },
        Value::Object(o) => for e in o.entries() { collect_numbers(&e.value, acc); },
        _ => {}
    }
}
pub fn num_table(v: &Value) -> String {
    let mut ns = vec![];
    collect_numbers(v, &mut ns);
    if ns.is_empty() { return "-".into(); }
    ns.iter().map(|s| {
        let n = json_syntax::NumberBuf::new(s.as_bytes().to_vec().into()).ok();
        let f = n.as_ref().map_or(f64::NAN, |n| float_of(n));
        let t64 = json_syntax::NumberBuf::try_from(f).map_or("!".to_string(), |t| cps_inner(t.as_str()));
        let t32 = json_syntax::NumberBuf::try_from(f as f32).map_or("!".to_string(), |t| cps_inner(t.as_str()));
        format!("{}={}={}", cps_inner(s), t32, t64)
    }).collect::<Vec<_>>().join(",")
}

pub fn exec(a: &[&str], out: &mut Out) -> (String, bool) {
    match (a[0], a.len()) {
        ("rt", 4) => {
            let (ty, d) = match (parse_dty(a[1]), parse_sd(a[2])) { (Some(t), Some(d)) => (t, d), _ => return ("bad-op".into(), false) };
            let v = match json_syntax::to_value(&d) { Ok(v) => v, Err(e) => return (crate::serdeh::show_ser_err(&e), false) };
            if num_table(&v) != a[3] { return ("bad-op".into(), false); }
            let back = P(&ty).deserialize(v.clone());
            let shown = show_de(&back);
            // C16 on the real code: the datum comes back (floats by their digits; -0 may lose its sign)
            let want = format!("ok {}", a[2].replace('G', "F"));
            out.oracle(shown == want || shown.replace("F-0.0;", "F0.0;") == want.replace("F-0.0;", "F0.0;"), "from_value(to_value(x)) = x for the datum of a descriptor-described type", || format!("{} -> {} -> {}", a[2], show_value(&v), shown));
            out.count("rt");
            (format!("ok {} {}", show_value(&v), shown.replace(' ', "_")), true)
        }
        ("de", 4) => {
            let (ty, v) = match (parse_dty(a[1]), parse_value(a[2])) { (Some(t), Some(v)) => (t, v), _ => return ("bad-op".into(), false) };
            if num_table(&v) != a[3] { return ("bad-op".into(), false); }
            let r = P(&ty).deserialize(v);
            let shown = show_de(&r);
            out.count(if r.is_ok() { "de_ok" } else { "de_err" });
            if let Err(e) = &r { out.count(&format!("de_err_{}", err_class(&e.to_string()))); }
            (shown, true)
        }
        ("fromvalm", 3) => {
            let v = match parse_value(a[1]) { Some(v) => v, None => return ("bad-op".into(), false) };
            if num_table(&v) != a[2] { return ("bad-op".into(), false); }
            let r = json_syntax::from_value::<Value>(v);
            match r { Ok(w) => (format!("ok {}", show_value(&w)), true), Err(e) => (format!("E {}", err_class(&e.to_string())), true) }
        }
        ("fromobj", 3) => {
            let v = match parse_value(a[1]) { Some(v) => v, None => return ("bad-op".into(), false) };
            if num_table(&v) != a[2] { return ("bad-op".into(), false); }
            let r = json_syntax::from_value::<json_syntax::Object>(v);
            match r { Ok(w) => (format!("ok {}", show_value(&Value::Object(w))), true), Err(e) => (format!("E {}", err_class(&e.to_string())), true) }
        }
        _ => ("bad-op".into(), false),
    }
}

// ------------------------------------------------------------------------------------------------
// generators: random descriptors, well-typed data, ill-typed values
// ------------------------------------------------------------------------------------------------

const NAMES: [&str; 8] = ["a", "b", "x", "Unit", "k k", "é", "", "$serde_json::private::Number"];

fn gen_name(rng: &mut Rng, taken: &[String]) -> String {
    for _ in 0..20 {
        let n = if rng.chance(1, 6) { crate::print::gen_string(rng) } else { NAMES[rng.below(7) as usize].to_string() };
        if !taken.contains(&n) { return n; }
    }
    format!("f{}", taken.len())
}
fn gen_intw(rng: &mut Rng) -> IntW { *rng.pick(&[IntW::I8, IntW::I16, IntW::I32, IntW::I64, IntW::U8, IntW::U16, IntW::U32, IntW::U64]) }
fn gen_kty(rng: &mut Rng, d: usize) -> DTy {
    match rng.below(if d > 1 { 4 } else { 5 }) {
        0 => DTy::Str, 1 => DTy::Int(gen_intw(rng)), 2 => DTy::Char,
        3 => { let mut ns: Vec<String> = vec![]; for _ in 0..1 + rng.below(3) { let n = gen_name(rng, &ns); ns.push(n); } DTy::Enum(ns.into_iter().map(|n| (n, DTy::Unit)).collect()) }
        _ => DTy::Newtype(Box::new(gen_kty(rng, d + 1))),
    }
}
/// `nullable`: may the type's values serialize to null? (an `Option` around such a type does not round-trip)
fn nullable(t: &DTy) -> bool {
    match t { DTy::Unit | DTy::UnitStruct | DTy::Opt(_) => true, DTy::Newtype(t) => nullable(t), _ => false }
}
pub fn gen_dty(rng: &mut Rng, d: usize) -> DTy {
    let leaf = d >= 3 || rng.chance(1, 3);
    if leaf {
        return match rng.below(8) { 0 => DTy::Bool, 1 | 2 => DTy::Int(gen_intw(rng)), 3 => if rng.chance(1, 2) { DTy::F64 } else { DTy::F32 }, 4 => DTy::Char, 5 => DTy::Str, 6 => DTy::Unit, _ => DTy::UnitStruct };
    }
    match rng.below(9) {
        0 => { let t = gen_dty(rng, d + 1); if nullable(&t) { DTy::Opt(Box::new(DTy::Bool)) } else { DTy::Opt(Box::new(t)) } }
        1 => DTy::Newtype(Box::new(gen_dty(rng, d + 1))),
        2 => DTy::Seq(Box::new(gen_dty(rng, d + 1))),
        3 => { let n = if rng.chance(1, 8) { rng.below(2) as usize } else { 2 + rng.below(3) as usize }; let ts: Vec<DTy> = (0..n).map(|_| gen_dty(rng, d + 1)).collect(); if rng.chance(1, 2) { DTy::Tuple(ts) } else { DTy::TupleStruct(ts) } }
        4 => DTy::Map(Box::new(gen_kty(rng, 0)), Box::new(gen_dty(rng, d + 1))),
        5 | 6 => { let mut fs: Vec<(String, DTy)> = vec![]; for _ in 0..rng.below(5) { let taken: Vec<String> = fs.iter().map(|f| f.0.clone()).collect(); let n = gen_name(rng, &taken); fs.push((n, gen_dty(rng, d + 1))); } DTy::Struct(fs) }
        _ => {
            let mut vs: Vec<(String, DTy)> = vec![];
            for _ in 0..1 + rng.below(4) {
                let taken: Vec<String> = vs.iter().map(|f| f.0.clone()).collect();
                let n = gen_name(rng, &taken);
                let p = match rng.below(4) {
                    0 => DTy::Unit,
                    1 => DTy::Newtype(Box::new(gen_dty(rng, d + 1))),
                    2 => DTy::Tuple((0..2 + rng.below(2)).map(|_| gen_dty(rng, d + 1)).collect()),
                    _ => { let mut fs: Vec<(String, DTy)> = vec![]; for _ in 0..rng.below(4) { let taken: Vec<String> = fs.iter().map(|f| f.0.clone()).collect(); let n = gen_name(rng, &taken); fs.push((n, gen_dty(rng, d + 1))); } DTy::Struct(fs) }
                };
                vs.push((n, p));
            }
            DTy::Enum(vs)
        }
    }
}
fn gen_int(rng: &mut Rng, w: IntW) -> SD {
    let (lo, hi) = w.range();
    let x = match rng.below(5) { 0 => lo, 1 => hi, 2 => 0, 3 => if lo < 0 { -1 } else { 1 }, _ => lo + (rng.next() as i128).rem_euclid(hi - lo + 1) };
    if w.signed() { SD::I(x as i64) } else { SD::U(x as u64) }
}
fn gen_finite64(rng: &mut Rng) -> f64 {
    loop { let x = match rng.below(5) { 0 => *rng.pick(&[0.0, 1.0, -1.5, 1e21, 1e-7, f64::MAX, 5e-324, 0.1, 3.0, 1e16, 255.0, -128.0, f64::EPSILON]), 1 => f64::from(gen_finite32(rng)), _ => f64::from_bits(rng.next()) }; if x.is_finite() { return x; } }
}
fn gen_finite32(rng: &mut Rng) -> f32 {
    loop { let x = match rng.below(4) { 0 => *rng.pick(&[0.0, 1.0, -1.5, 3.4028235e38, 1e-45, 0.1, 16777216.0, 7.0]), _ => f32::from_bits(rng.next() as u32) }; if x.is_finite() { return x; } }
}
/// a well-typed datum (what a Rust value of that type looks like to a serializer)
pub fn gen_datum(rng: &mut Rng, t: &DTy) -> SD {
    match t {
        DTy::Bool => SD::Bool(rng.chance(1, 2)),
        DTy::Int(w) => gen_int(rng, *w),
        DTy::F64 => SD::F64(gen_finite64(rng)),
        DTy::F32 => SD::F32(gen_finite32(rng)),
        DTy::Char => SD::Char(*rng.pick(&['a', '"', '\u{0}', 'é', '😀', '\\', '5', '-'])),
        DTy::Str => SD::Str(if rng.chance(1, 4) { rng.pick(&["", "5", "-1", "a", "null"]).to_string() } else { crate::print::gen_string(rng) }),
        DTy::Unit => SD::Unit,
        DTy::UnitStruct => SD::UnitStruct,
        DTy::Opt(t) => if rng.chance(1, 3) { SD::None } else { SD::Some(Box::new(gen_datum(rng, t))) },
        DTy::Newtype(t) => SD::NewtypeStruct(Box::new(gen_datum(rng, t))),
        DTy::Seq(t) => SD::Seq((0..rng.below(4)).map(|_| gen_datum(rng, t)).collect()),
        DTy::Tuple(ts) | DTy::TupleStruct(ts) => SD::Seq(ts.iter().map(|t| gen_datum(rng, t)).collect()),
        DTy::Map(k, t) => {
            let mut l: Vec<(SD, SD)> = vec![];
            for _ in 0..rng.below(4) {
                let kd = gen_datum(rng, k);
                let ks = show_sd(&kd);
                if l.iter().all(|(k2, _)| show_sd(k2) != ks) { l.push((kd, gen_datum(rng, t))); }
            }
            SD::Map(l)
        }
        DTy::Struct(fs) => SD::Struct(fs.iter().map(|(n, t)| (n.clone(), gen_datum(rng, t))).collect()),
        DTy::Enum(vs) => {
            let (n, p) = &vs[rng.below(vs.len() as u64) as usize];
            match p {
                DTy::Unit => SD::UnitVariant(n.clone()),
                DTy::Newtype(t) => SD::NewtypeVariant(n.clone(), Box::new(gen_datum(rng, t))),
                DTy::Tuple(ts) | DTy::TupleStruct(ts) => SD::TupleVariant(n.clone(), ts.iter().map(|t| gen_datum(rng, t)).collect()),
                DTy::Struct(fs) => SD::StructVariant(n.clone(), fs.iter().map(|(n, t)| (n.clone(), gen_datum(rng, t))).collect()),
                other => gen_datum(rng, other),
            }
        }
    }
}
/// does the descriptor stay inside the round-trip domain of C16? (distinct names, no private number
/// token as a first struct field / map key, tuples of at least two components in variants, …)
pub fn in_rt_domain(t: &DTy) -> bool {
    const TOKEN: &str = "$serde_json::private::Number";
    match t {
        DTy::Opt(t) => !nullable(t) && in_rt_domain(t),
        DTy::Newtype(t) | DTy::Seq(t) => in_rt_domain(t),
        DTy::Tuple(ts) | DTy::TupleStruct(ts) => ts.iter().all(in_rt_domain),
        DTy::Map(k, t) => in_rt_domain(k) && in_rt_domain(t),
        DTy::Struct(fs) => fs.iter().all(|(n, t)| n != TOKEN && in_rt_domain(t)),
        DTy::Enum(vs) => vs.iter().all(|(n, p)| n != TOKEN && match p {
            DTy::Unit => true, DTy::Newtype(t) => in_rt_domain(t),
            DTy::Tuple(ts) | DTy::TupleStruct(ts) => ts.len() >= 2 && ts.iter().all(in_rt_domain),
            DTy::Struct(fs) => fs.iter().all(|(n, t)| n != TOKEN && in_rt_domain(t)), _ => false }),
        _ => true,
    }
}

/// an ill-typed (or differently typed) relative of a value
pub fn mutate_value(rng: &mut Rng, v: &Value) -> Value {
    let pool = |rng: &mut Rng| -> Value {
        let texts = ["n", "t", "f", "#30;", "#2d.31;", "#32.35.36;", "#2d.31.32.39;", "#31.2e.35;", "#31.65.35;", "#31.38.34.34.36.37.34.34.30.37.33.37.30.39.35.35.31.36.31.36;", "#39.32.32.33.33.37.32.30.33.36.38.35.34.37.37.35.38.30.38;", "#2d.30;",
                     "s;", "s61;", "s61.62;", "s35;", "s2b.35;", "s30.37;", "s2d.30;", "s31.5f.30;", "[]", "[n]", "[tf]", "{}", "{k61;n}", "{k61;nk62;t}", "{k61;nk61;t}"];
        parse_value(texts[rng.below(texts.len() as u64) as usize]).unwrap_or(Value::Null)
    };
    match v {
        Value::Array(a) if !a.is_empty() && rng.chance(2, 3) => {
            let mut a = a.clone();
            match rng.below(4) {
                0 => { a.pop(); }
                1 => { let x = pool(rng); a.push(x); }
                2 => { a.clear(); }
                _ => { let i = rng.below(a.len() as u64) as usize; a[i] = mutate_value(rng, &a[i]); }
            }
            Value::Array(a)
        }
        Value::Object(o) if !o.is_empty() && rng.chance(2, 3) => {
            let mut es: Vec<(String, Value)> = o.entries().iter().map(|e| (e.key.to_string(), e.value.clone())).collect();
            let i = rng.below(es.len() as u64) as usize;
            match rng.below(7) {
                0 => { es.remove(i); }
                1 => { let e = es[i].clone(); es.push(e); }
                2 => { let x = pool(rng); es.push((NAMES[rng.below(8) as usize].to_string(), x)); }
                3 => { es[i].0 = NAMES[rng.below(8) as usize].to_string(); }
                4 => { let j = rng.below(es.len() as u64) as usize; es.swap(i, j); }
                5 => { es[i].0 = rng.pick(&["5", "+5", "007", "-0", "256", "-129", "1_0", " 1", "18446744073709551616", "ab", ""]).to_string(); }
                _ => { es[i].1 = mutate_value(rng, &es[i].1); }
            }
            let mut n = json_syntax::Object::new();
            for (k, v) in es { n.push(k.as_str().into(), v); }
            Value::Object(n)
        }
        _ => pool(rng),
    }
}

pub fn gen(out: &mut Out, thorough: bool, focus: &str) {
    let mut l = |s: String, out: &mut Out| crate::exec_line(&s, out);
    if focus == "C17" {
        let n = if thorough { 60000 } else { 1500 };
        let token = cps_inner("$serde_json::private::Number");
        for s in [format!("{{k{};s31.2e.35;}}", token), format!("{{k{};s78;}}", token), format!("{{k{};n}}", token), format!("{{k{};s31;k61;n}}", token), format!("{{k61;nk{};s31;}}", token), format!("[{{k{};s2d.30.2e.35.65.2b.31.30;}}]", token), "{k61;nk62;tk61;f}".to_string(), "{}".to_string(), "[]".to_string()] {
            if let Some(v) = parse_value(&s) { l(format!("serde fromvalm {} {}", s, num_table(&v)), out); l(format!("serde fromobj {} {}", s, num_table(&v)), out); }
        }
        for i in 0..n {
            let mut v = if i % 2 == 0 { crate::print::gen_value(&mut out.rng, 0, 3) } else { crate::canon::gen_ijson(&mut out.rng, 0, 3) };
            if i % 7 == 3 { v = mutate_value(&mut out.rng, &v); }
            l(format!("serde fromvalm {} {}", show_value(&v), num_table(&v)), out);
            if i % 3 == 0 || matches!(v, Value::Object(_)) { l(format!("serde fromobj {} {}", show_value(&v), num_table(&v)), out); }
        }
        return;
    }
    let n = if thorough { 120000 } else { 2500 };
    for i in 0..n {
        let ty = gen_dty(&mut out.rng, 0);
        let d = gen_datum(&mut out.rng, &ty);
        let v = match json_syntax::to_value(&d) { Ok(v) => v, Err(_) => { out.count("datum_not_serializable"); continue; } };
        if in_rt_domain(&ty) {
            l(format!("serde rt {} {} {}", show_dty(&ty), show_sd(&d), num_table(&v)), out);
        } else {
            out.count("descriptor_outside_roundtrip_domain");
            l(format!("serde de {} {} {}", show_dty(&ty), show_value(&v), num_table(&v)), out);
        }
        // relatives: the same value at a mutated type, a mutated value at the same type
        for _ in 0..2 {
            let w = mutate_value(&mut out.rng, &v);
            l(format!("serde de {} {} {}", show_dty(&ty), show_value(&w), num_table(&w)), out);
        }
        if i % 3 == 0 {
            let ty2 = gen_dty(&mut out.rng, 1);
            l(format!("serde de {} {} {}", show_dty(&ty2), show_value(&v), num_table(&v)), out);
        }
    }
    // strings, keys, field and variant names, sequences of EVERY length 0..=40 (inline/heap switches,
    // chunked copies, small-size fast paths of either direction), ending in a 1-, 2- or 4-byte character
    {
        let mut n = 0u64;
        for len in 0..=40usize {
            for tail in ["", "é", "😀"] {
                let st = format!("{}{}", "k".repeat(len), tail);
                let mut cases: Vec<(DTy, SD)> = vec![
                    (DTy::Map(Box::new(DTy::Str), Box::new(DTy::Str)), SD::Map(vec![(SD::Str(st.clone()), SD::Str(st.clone())), (SD::Str(format!("{}2", st)), SD::Str(String::new()))])),
                    (DTy::Struct(vec![(st.clone(), DTy::Str), (format!("{}_", st), DTy::Opt(Box::new(DTy::Bool)))]), SD::Struct(vec![(st.clone(), SD::Str(st.clone())), (format!("{}_", st), SD::None)])),
                    (DTy::Enum(vec![(st.clone(), DTy::Unit), (format!("{}x", st), DTy::Newtype(Box::new(DTy::Str)))]), SD::NewtypeVariant(format!("{}x", st), Box::new(SD::Str(st.clone())))),
                    (DTy::Enum(vec![(st.clone(), DTy::Unit), (format!("{}x", st), DTy::Newtype(Box::new(DTy::Str)))]), SD::UnitVariant(st.clone())),
                ];
                if tail.is_empty() {
                    cases.push((DTy::Seq(Box::new(DTy::Int(IntW::U8))), SD::Seq((0..len).map(|i| SD::U(i as u64 * 6)).collect())));
                    cases.push((DTy::Seq(Box::new(DTy::Opt(Box::new(DTy::Str)))), SD::Seq((0..len).map(|i| if i % 3 == 0 { SD::None } else { SD::Some(Box::new(SD::Str("v".repeat(i)))) }).collect())));
                    if (1..=18).contains(&len) {
                        let k: i64 = "1234567890123456789"[..len].parse().unwrap_or(1);
                        cases.push((DTy::Map(Box::new(DTy::Int(IntW::I64)), Box::new(DTy::Bool)), SD::Map(vec![(SD::I(-k), SD::Bool(true)), (SD::I(k), SD::Bool(false))])));
                    }
                }
                for (ty, d) in cases {
                    if let Ok(v) = json_syntax::to_value(&d) {
                        l(format!("serde rt {} {} {}", show_dty(&ty), show_sd(&d), num_table(&v)), out);
                        n += 1;
                    }
                }
            }
        }
        out.count_n("every_length_strings_names_seqs", n);
        out.exhaustive.push("strings / map keys / field names / variant names of every length 0..=40 (+ a 1-, 2-, 4-byte last character), sequences of every length 0..=40, integer keys of every digit count 1..=18, through the round trip".into());
    }
    // SCALE: strings, keys, sequences and maps of 2^8 / 2^12 / 2^16 (+-1) elements through the round trip
    {
        let mut n = 0u64;
        for &len in (if thorough { &[255usize, 256, 257, 4095, 4096, 4097, 65535, 65536, 65537][..] } else { &[257usize, 4097, 65537][..] }) {
            let st = format!("{}é", "s".repeat(len - 1));
            let mut cases: Vec<(DTy, SD)> = vec![
                (DTy::Map(Box::new(DTy::Str), Box::new(DTy::Str)), SD::Map(vec![(SD::Str(st.clone()), SD::Str(st.clone())), (SD::Str(format!("{}2", st)), SD::Str(String::new()))])),
                (DTy::Struct(vec![(st.clone(), DTy::Str), ("b".into(), DTy::Opt(Box::new(DTy::Bool)))]), SD::Struct(vec![(st.clone(), SD::Str(st.clone())), ("b".into(), SD::None)])),
                (DTy::Enum(vec![(st.clone(), DTy::Unit), ("x".into(), DTy::Newtype(Box::new(DTy::Str)))]), SD::UnitVariant(st.clone())),
                (DTy::Seq(Box::new(DTy::Int(IntW::U16))), SD::Seq((0..len).map(|i| SD::U((i % 65536) as u64)).collect())),
                (DTy::Tuple(vec![DTy::Seq(Box::new(DTy::Bool)), DTy::Str]), SD::Seq(vec![SD::Seq((0..len).map(|i| SD::Bool(i % 3 == 0)).collect()), SD::Str("end".into())])),
            ];
            if len <= 4097 {
                cases.push((DTy::Map(Box::new(DTy::Int(IntW::U32)), Box::new(DTy::Bool)), SD::Map((0..len).map(|i| (SD::U(i as u64 * 3), SD::Bool(i % 2 == 0))).collect())));
                cases.push((DTy::Map(Box::new(DTy::Str), Box::new(DTy::Int(IntW::I64))), SD::Map((0..len).map(|i| (SD::Str(format!("k{:05}", i)), SD::I(-(i as i64)))).collect())));
            }
            for (ty, d) in cases {
                if let Ok(v) = json_syntax::to_value(&d) {
                    l(format!("serde rt {} {} {}", show_dty(&ty), show_sd(&d), num_table(&v)), out);
                    n += 1;
                }
            }
        }
        out.count_n("scale_data", n);
        out.exhaustive.push("scale: strings / keys / field and variant names, sequences, integer- and string-keyed maps of 2^8, 2^12, 2^16 (+-1) elements through the round trip".into());
    }
    // every leaf type against every kind of value
    let leaves = ["b", "I1", "I2", "I4", "I8", "U1", "U2", "U4", "U8", "f4", "f8", "c", "s", "n", "N", "ob", "oI1", "wb", "wU1", "qb", "t[bb]", "T[bb]", "t[]", "msb", "mI1b", "mU8b", "mcb", "me[61;n62;n]b", "mwsb", "r[]", "r[61;b]", "r[61;ob62;I1]", "e[61;n]", "e[61;wb62;t[bb]63;r[78;b]64;n]"];
    let values = ["n", "t", "#30;", "#2d.31;", "#32.35.35;", "#32.35.36;", "#2d.31.32.38;", "#2d.31.32.39;", "#31.2e.35;", "#31.65.32;", "#2d.30;", "#31.38.34.34.36.37.34.34.30.37.33.37.30.39.35.35.31.36.31.35;", "#31.38.34.34.36.37.34.34.30.37.33.37.30.39.35.35.31.36.31.36;", "#2d.39.32.32.33.33.37.32.30.33.36.38.35.34.37.37.35.38.30.38;", "#2d.39.32.32.33.33.37.32.30.33.36.38.35.34.37.37.35.38.30.39;", "#31.65.34.30.30;",
                  "s;", "s61;", "s61.62;", "s1f600;", "[]", "[t]", "[tf]", "[tft]", "[[]]", "{}", "{k61;t}", "{k61;tk62;#31;}", "{k62;#31;k61;t}", "{k61;tk61;f}", "{k61;n}", "{k61;[tf]}", "{k62;[tf]}", "{k62;[]}", "{k62;[t]}", "{k62;[tft]}", "{k63;{k78;t}}", "{k63;{}}", "{k63;[t]}", "{k64;n}", "{k64;t}", "{k64;[]}", "{k65;n}", "s64;", "s62;", "s65;",
                  "{k35;t}", "{k2b.35;t}", "{k30.37;t}", "{k2d.30;t}", "{k32.35.36;t}", "{k2d.31;t}", "{k31.5f.30;t}", "{k;t}", "{k2d;t}", "{k2b;t}", "{k31.38.34.34.36.37.34.34.30.37.33.37.30.39.35.35.31.36.31.35;t}", "{k31.38.34.34.36.37.34.34.30.37.33.37.30.39.35.35.31.36.31.36;t}", "{k61.62;t}", "{k63;t}"];
    for t in leaves { for v in values { if let Some(val) = parse_value(v) { l(format!("serde de {} {} {}", t, v, num_table(&val)), out); } } }
    out.exhaustive.push(format!("{} leaf / small descriptors x {} values of every kind (type confusion, integer bounds of every width, key spellings +5 007 -0 1_0, duplicate and missing fields, variant payload kinds)", leaves.len(), values.len()));
}
