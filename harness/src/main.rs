//! Correspondence / oracle harness: runs the REAL json-syntax code in-process.
//!
//! `jsv run  <property> <tier> <seed> <workdir> [corpus files…]`
//!     executes the corpus request lines first, then the generated streams, and writes
//!       <workdir>/<property>.cases       one request line per case (input of the Lean driver)
//!       <workdir>/<property>.impl        the implementation's canonical reply, line for line
//!       <workdir>/<property>.stats.json  measured distribution + direct-oracle failures
//! `jsv exec <property> <tier> <seed> <workdir> <file>`  executes only the request lines of <file>
//!     (replay mode), same outputs.
//!
//! Every request line is self-contained: `exec_line` parses it, runs the real code under
//! `catch_unwind`, evaluates the direct oracles that apply to that operation, and returns the
//! canonical reply that the model must reproduce.
mod common;
mod c20;
mod macroh;
mod serdeh;
mod probe;
mod mapped;
mod canon;
mod ueq;
mod ord;
mod obj;
mod print;
mod c03;
mod parse;
mod refjson;

use common::Out;

/// the request being executed: printed by the panic hook, so that even a non-unwinding panic
/// (an abort: panic inside a `Drop` during unwinding, …) names the input that caused it
static CUR: std::sync::Mutex<String> = std::sync::Mutex::new(String::new());
/// set while an oracle provokes a panic on purpose (a caller's iterator that fails by panicking)
pub static EXPECTED_PANIC: std::sync::atomic::AtomicBool = std::sync::atomic::AtomicBool::new(false);

pub fn exec_line(line: &str, out: &mut Out) {
    if let Ok(mut c) = CUR.lock() { c.clear(); c.push_str(line); }
    let mut it = line.splitn(2, ' ');
    let head = it.next().unwrap_or("");
    let rest = it.next().unwrap_or("");
    out.cur = line.to_string();
    let r = std::panic::catch_unwind(std::panic::AssertUnwindSafe(|| match head {
        "kind" => c20::exec(rest, out),
        "parse" => parse::exec(rest, out),
        "c03" => c03::exec(rest, out),
        "print" => print::exec(rest, out),
        "obj" => obj::exec(rest, out),
        "ord" => ord::exec(rest, out),
        "ueq" => ueq::exec(rest, out),
        "canon" => canon::exec(rest, out),
        "mapped" => mapped::exec(rest, out),
        "serde" => serdeh::exec(rest, out),
        _ => ("bad-op".to_string(), false),
    }));
    match r {
        Ok((reply, nontrivial)) => out.record(line, &reply, nontrivial),
        Err(_) => {
            out.record(line, "PANIC", false);
            out.panics.push(line.to_string());
        }
    }
}

fn main() {
    let h = std::thread::Builder::new().stack_size(1 << 30).spawn(real_main).unwrap();
    let _ = h.join();
}

fn real_main() {
    let args: Vec<String> = std::env::args().collect();
    if args.len() == 5 && args[1] == "deepchild" {
        println!("{}", c03::deep_child(&args[2], args[3].parse().unwrap_or(0), args[4] == "1"));
        std::process::exit(0);
    }
    if args.len() == 3 && args[1] == "retable" {
        // re-derive the dependency tables embedded in request lines (number canonicalizations,
        // float texts) with the implementation as it is now: corpus lines collected on a changed
        // tree carry that tree's tables
        let text = std::fs::read_to_string(&args[2]).unwrap_or_default();
        for line in text.lines() {
            let a: Vec<&str> = line.split(' ').collect();
            let fixed = match (a.first().copied(), a.len()) {
                (Some("canon"), 3) => common::parse_value(a[2]).map(|v| canon::request_for(&v)),
                (Some("serde"), 5) if a[1] == "de" => common::parse_value(a[3]).map(|v| format!("serde de {} {} {}", a[2], a[3], probe::num_table(&v))),
                (Some("serde"), 5) if a[1] == "rt" => probe::parse_sd(a[3]).and_then(|d| json_syntax::to_value(&d).ok()).map(|v| format!("serde rt {} {} {}", a[2], a[3], probe::num_table(&v))),
                (Some("serde"), 4) if a[1] == "fromvalm" || a[1] == "fromobj" => common::parse_value(a[2]).map(|v| format!("serde {} {} {}", a[1], a[2], probe::num_table(&v))),
                (Some("serde"), 3) | (Some("serde"), 4) if a[1] == "sj" => common::parse_value(a[2]).map(|v| serdeh::sj_request(&v)),
                _ => None,
            };
            println!("{}", fixed.unwrap_or_else(|| line.to_string()));
        }
        std::process::exit(0);
    }
    if args.len() < 6 {
        eprintln!("usage: jsv run|exec <property> <quick|thorough> <seed> <workdir> [files…]");
        std::process::exit(2);
    }
    let mode = args[1].as_str();
    let prop = args[2].as_str();
    let thorough = args[3] == "thorough";
    let seed: u64 = args[4].parse().unwrap_or(0);
    let workdir = &args[5];
    std::panic::set_hook(Box::new(|_| {
        if EXPECTED_PANIC.load(std::sync::atomic::Ordering::SeqCst) { return; }
        if let Ok(c) = CUR.try_lock() { eprintln!("PANIC-CASE: {}", c); }
    }));
    let mut out = Out::new(prop, workdir, seed);
    for f in &args[6..] {
        let text = std::fs::read_to_string(f).unwrap_or_default();
        for line in text.lines() {
            let line = line.trim();
            if line.is_empty() || line.starts_with("//") {
                continue;
            }
            if let Some(rest) = line.strip_prefix("macro ") {
                if !macroh::exec_replay(rest, &mut out, workdir) { out.record(line, "bad-op", false); }
            } else {
                exec_line(line, &mut out);
            }
            out.corpus_cases += 1;
        }
    }
    if mode == "run" {
        match prop {
            "C20" => c20::gen(&mut out, thorough),
            "C03" => c03::gen(&mut out, thorough),
            "C06" => obj::gen(&mut out, thorough, "C06"),
            "C14" => ord::gen(&mut out, thorough),
            "C15" => ueq::gen(&mut out, thorough),
            "C11" => mapped::gen(&mut out, thorough),
            "C19" => macroh::gen(&mut out, thorough, workdir),
            "C16" => serdeh::gen(&mut out, thorough, "C16"),
            "C17" => serdeh::gen(&mut out, thorough, "C17"),
            "C18" => serdeh::gen(&mut out, thorough, "C18"),
            "C09" => canon::gen(&mut out, thorough),
            "C10" => canon::gen(&mut out, thorough),
            "C04" => print::gen(&mut out, thorough, "C04"),
            "C08" => print::gen(&mut out, thorough, "C08"),
            "C13" => print::gen(&mut out, thorough, "C13"),
            "C01" => parse::gen_streams(&mut out, thorough, &["ff"], "C01"),
            "C02" => parse::gen_streams(&mut out, thorough, &["ff"], "C02"),
            "C05" => parse::gen_streams(&mut out, thorough, &["ff"], "C05"),
            "C07" => parse::gen_streams(&mut out, thorough, &["ff"], "C07"),
            "C12" => parse::gen_streams(&mut out, thorough, &parse::ALL_OPTS, "C12"),
            _ => {
                eprintln!("unknown property {}", prop);
                std::process::exit(2);
            }
        }
    }
    out.finish();
}
