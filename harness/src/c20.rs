//! C20 — KindSet: exhaustive enumeration of the complete finite domain through the public API.
use crate::common::*;
use json_syntax::{Kind, KindSet, Value};
use std::collections::BTreeSet;

const KINDS: [Kind; 6] = [Kind::Null, Kind::Boolean, Kind::Number, Kind::String, Kind::Array, Kind::Object];
const CONSTS: [KindSet; 6] = [KindSet::NULL, KindSet::BOOLEAN, KindSet::NUMBER, KindSet::STRING, KindSet::ARRAY, KindSet::OBJECT];

fn set_of_idx(i: usize) -> KindSet {
    let mut s = KindSet::none();
    for j in 0..6 {
        if i >> j & 1 == 1 {
            s = s | CONSTS[j];
        }
    }
    s
}
/// raw bits through the derived Debug ("KindSet(5)")
fn bits(s: KindSet) -> String {
    let d = format!("{:?}", s);
    d.trim_start_matches("KindSet(").trim_end_matches(')').to_string()
}
fn abs_of_idx(i: usize) -> BTreeSet<usize> {
    (0..6).filter(|j| i >> j & 1 == 1).collect()
}
/// abstraction of a KindSet through membership tests only (`& Kind` and `is_empty`)
fn abs(s: KindSet) -> BTreeSet<usize> {
    (0..6).filter(|&j| !(s & KINDS[j]).is_empty()).collect()
}
fn name(j: usize) -> &'static str {
    ["null", "boolean", "number", "string", "array", "object"][j]
}
fn spec_junction(a: &BTreeSet<usize>, sep: &str) -> String {
    let l: Vec<usize> = a.iter().cloned().collect();
    match l.len() {
        6 => "anything".into(),
        0 => "nothing".into(),
        1 => name(l[0]).into(),
        n => format!("{}{}{}", l[..n - 1].iter().map(|&j| name(j)).collect::<Vec<_>>().join(", "), sep, name(l[n - 1])),
    }
}

pub fn exec(rest: &str, out: &mut Out) -> (String, bool) {
    let a: Vec<&str> = rest.split(' ').collect();
    let num = |i: usize| -> Option<usize> { a.get(i).and_then(|x| x.parse().ok()) };
    let singleton = |k: usize| -> BTreeSet<usize> { [k].into_iter().collect() };
    match (a[0], num(1), num(2)) {
        ("consts", _, _) => {
            let consts = format!("{} {} {}", CONSTS.iter().map(|c| bits(*c)).collect::<Vec<_>>().join(" "), bits(KindSet::all()), bits(KindSet::none()));
            out.oracle(abs(KindSet::all()).len() == 6 && abs(KindSet::none()).is_empty() && KindSet::default() == KindSet::none(), "all/none", || consts.clone());
            for j in 0..6 {
                out.oracle(abs(CONSTS[j]) == singleton(j) && KindSet::from(KINDS[j]) == CONSTS[j], "const = singleton", || bits(CONSTS[j]));
            }
            (consts, true)
        }
        (op @ ("or" | "and"), Some(x), Some(y)) if x < 64 && y < 64 => {
            let (sa, sb) = (set_of_idx(x), set_of_idx(y));
            let (ax, ay) = (abs_of_idx(x), abs_of_idx(y));
            let (r, want): (KindSet, BTreeSet<usize>) = if op == "or" {
                let mut t = sa;
                t |= sb;
                out.oracle(t == (sa | sb), "|= agrees with |", || bits(t));
                (sa | sb, ax.union(&ay).cloned().collect())
            } else {
                let mut t = sa;
                t &= sb;
                out.oracle(t == (sa & sb), "&= agrees with &", || bits(t));
                (sa & sb, ax.intersection(&ay).cloned().collect())
            };
            out.oracle(abs(r) == want, "set op set = set semantics", || bits(r));
            out.oracle((sa == sb) == (x == y), "eq is extensional", || String::new());
            (bits(r), x != 0 && y != 0 && x != y)
        }
        (op @ ("ork" | "andk" | "kor" | "kand"), Some(x), Some(k)) if x < 64 && k < 6 => {
            let sa = set_of_idx(x);
            let ax = abs_of_idx(x);
            let r = match op {
                "ork" => sa | KINDS[k],
                "andk" => sa & KINDS[k],
                "kor" => KINDS[k] | sa,
                _ => KINDS[k] & sa,
            };
            let want: BTreeSet<usize> = if op.ends_with("or") || op == "ork" {
                let mut u = ax.clone();
                u.insert(k);
                u
            } else if ax.contains(&k) {
                singleton(k)
            } else {
                BTreeSet::new()
            };
            let mut t = sa;
            if op == "ork" {
                t |= KINDS[k];
                out.oracle(t == r, "|= kind", || bits(t));
            } else if op == "andk" {
                t &= KINDS[k];
                out.oracle(t == r, "&= kind", || bits(t));
            }
            out.oracle(abs(r) == want, "set op kind = set semantics", || bits(r));
            (bits(r), x != 0)
        }
        (op @ ("kkor" | "kkand"), Some(k), Some(l)) if k < 6 && l < 6 => {
            let r = if op == "kkor" { KINDS[k] | KINDS[l] } else { KINDS[k] & KINDS[l] };
            let want: BTreeSet<usize> = if op == "kkor" { [k, l].into_iter().collect() } else if k == l { singleton(k) } else { BTreeSet::new() };
            out.oracle(abs(r) == want, "kind op kind = set semantics", || bits(r));
            (bits(r), true)
        }
        ("set", Some(x), _) if x < 64 => {
            let s = set_of_idx(x);
            let aa = abs_of_idx(x);
            let line = format!("{} {} {} [{}] [{}] [{}]", bits(s), s.len(), s.is_empty(), s, s.as_disjunction(), s.as_conjunction());
            out.oracle(s.len() == aa.len() && s.is_empty() == aa.is_empty(), "len/is_empty", || line.clone());
            out.oracle(s.to_string() == aa.iter().map(|&j| name(j)).collect::<Vec<_>>().join(", "), "Display", || s.to_string());
            out.oracle(s.as_disjunction().to_string() == spec_junction(&aa, " or "), "disjunction", || s.as_disjunction().to_string());
            out.oracle(s.as_conjunction().to_string() == spec_junction(&aa, " and "), "conjunction", || s.as_conjunction().to_string());
            out.oracle(s.iter().collect::<Vec<_>>() == (&s).into_iter().collect::<Vec<_>>() && s.into_iter().len() == aa.len(), "IntoIterator forms", || String::new());
            // every iterator method that a type may override (nth, nth_back, last, count, min, max, fold,
            // rev, skip, step_by, …), in every sequence of up to three steps, against a Vec's iterator
            // over the set's members: the iterator must behave like the finite sequence it stands for
            {
                let members: Vec<Kind> = aa.iter().map(|&j| KINDS[j]).collect();
                #[derive(Clone, Copy, Debug)]
                enum Op { Next, NextBack, Nth(usize), NthBack(usize) }
                let mut ops = vec![Op::Next, Op::NextBack];
                for k in 0..8 { ops.push(Op::Nth(k)); ops.push(Op::NthBack(k)); }
                let apply = |it: &mut dyn DoubleEndedIterator<Item = Kind>, op: Op| match op { Op::Next => it.next(), Op::NextBack => it.next_back(), Op::Nth(k) => it.nth(k), Op::NthBack(k) => it.nth_back(k) };
                let mut bad: Option<String> = None;
                for &o1 in &ops { for &o2 in &ops { for &o3 in &ops {
                    let mut a = s.iter();
                    let mut b = members.clone().into_iter();
                    for op in [o1, o2, o3] {
                        let (ra, rb) = (apply(&mut a, op), apply(&mut b, op));
                        if ra != rb || a.size_hint() != b.size_hint() || a.len() != b.len() {
                            if bad.is_none() { bad = Some(format!("{:?} after {:?}: got {:?} size {:?}, sequence semantics {:?} size {:?}", s, [o1, o2, o3], ra, a.size_hint(), rb, b.size_hint())); }
                        }
                    }
                    if a.clone().collect::<Vec<_>>() != b.clone().collect::<Vec<_>>() && bad.is_none() { bad = Some(format!("{:?} remaining after {:?}", s, [o1, o2, o3])); }
                } } }
                out.oracle(bad.is_none(), "iterator methods (nth, nth_back, next, next_back in every sequence of three) = the finite sequence of members", || bad.clone().unwrap_or_default());
                let it = || s.iter();
                let v = || members.clone().into_iter();
                let ok = it().last() == v().last() && it().count() == v().count() && Iterator::min(it()) == v().min() && Iterator::max(it()) == v().max()
                    && it().rev().collect::<Vec<_>>() == v().rev().collect::<Vec<_>>()
                    && (0..8).all(|k| it().skip(k).collect::<Vec<_>>() == v().skip(k).collect::<Vec<_>>() && it().take(k).collect::<Vec<_>>() == v().take(k).collect::<Vec<_>>()
                        && it().step_by(k + 1).collect::<Vec<_>>() == v().step_by(k + 1).collect::<Vec<_>>() && it().rev().skip(k).collect::<Vec<_>>() == v().rev().skip(k).collect::<Vec<_>>())
                    && it().fold(0usize, |acc, k| acc * 7 + k as usize) == v().fold(0usize, |acc, k| acc * 7 + k as usize)
                    && it().rfold(0usize, |acc, k| acc * 7 + k as usize) == v().rfold(0usize, |acc, k| acc * 7 + k as usize)
                    && it().any(|k| k == Kind::String) == v().any(|k| k == Kind::String) && it().position(|k| k == Kind::Array) == v().position(|k| k == Kind::Array);
                out.oracle(ok, "derived iterator adaptors (last, count, min, max, rev, skip, take, step_by, fold, rfold, any, position) = the finite sequence of members", || format!("{:?}", s));
            }
            (line, x != 0)
        }
        ("iter", Some(x), _) if x < 64 && a.len() == 3 => {
            let s = set_of_idx(x);
            let dirs = if a[2] == "-" { "" } else { a[2] };
            let mut it = s.iter();
            let mut rem: Vec<usize> = abs_of_idx(x).into_iter().collect();
            let mut items = Vec::new();
            let mut ok = true;
            for d in dirs.chars() {
                let got = if d == 'f' { it.next() } else { it.next_back() };
                let want = if rem.is_empty() { None } else if d == 'f' { Some(rem.remove(0)) } else { rem.pop() };
                ok &= got == want.map(|j| KINDS[j]);
                let (lo, hi) = it.size_hint();
                ok &= lo == rem.len() && hi == Some(rem.len()) && it.len() == rem.len();
                items.push(format!("{}:{}", got.map(|k| k.to_string()).unwrap_or("-".into()), lo));
            }
            out.oracle(ok, "double-ended iteration", || items.join(","));
            // every other way of consuming the iterator from this state agrees with the plain list:
            // the provided methods an implementation may override (nth, nth_back, count, last, fold,
            // try-style searches, min/max) and the adaptors that delegate to them (skip, step_by,
            // rev, take, chain with itself)
            {
                let fresh = || { let mut it = s.iter(); for d in dirs.chars() { if d == 'f' { it.next(); } else { it.next_back(); } } it };
                let want: Vec<Kind> = rem.iter().map(|&j| KINDS[j]).collect();
                let mut bad: Vec<String> = Vec::new();
                for n in 0..8usize {
                    let mut it = fresh();
                    let got = it.nth(n);
                    let rest: Vec<Kind> = it.collect();
                    if got != want.get(n).copied() || rest != want.iter().skip(n + 1).copied().collect::<Vec<_>>() { bad.push(format!("nth({}) = {:?} then {:?}", n, got, rest)); }
                    let mut it = fresh();
                    let got = it.nth_back(n);
                    let rest: Vec<Kind> = it.collect();
                    let wb = if n < want.len() { Some(want[want.len() - 1 - n]) } else { None };
                    if got != wb || rest != want.iter().take(want.len().saturating_sub(n + 1)).copied().collect::<Vec<_>>() { bad.push(format!("nth_back({}) = {:?} then {:?}", n, got, rest)); }
                    if fresh().skip(n).collect::<Vec<_>>() != want.iter().skip(n).copied().collect::<Vec<_>>() { bad.push(format!("skip({})", n)); }
                    if fresh().take(n).collect::<Vec<_>>() != want.iter().take(n).copied().collect::<Vec<_>>() { bad.push(format!("take({})", n)); }
                    if n >= 1 && fresh().step_by(n).collect::<Vec<_>>() != want.iter().step_by(n).copied().collect::<Vec<_>>() { bad.push(format!("step_by({})", n)); }
                    if n >= 1 && fresh().rev().step_by(n).collect::<Vec<_>>() != want.iter().rev().step_by(n).copied().collect::<Vec<_>>() { bad.push(format!("rev().step_by({})", n)); }
                    if fresh().rev().skip(n).collect::<Vec<_>>() != want.iter().rev().skip(n).copied().collect::<Vec<_>>() { bad.push(format!("rev().skip({})", n)); }
                }
                if fresh().count() != want.len() { bad.push("count".into()); }
                if fresh().last() != want.last().copied() { bad.push("last".into()); }
                if fresh().rev().collect::<Vec<_>>() != want.iter().rev().copied().collect::<Vec<_>>() { bad.push("rev".into()); }
                if fresh().fold(Vec::new(), |mut acc, k| { acc.push(k); acc }) != want { bad.push("fold".into()); }
                if fresh().rfold(Vec::new(), |mut acc, k| { acc.push(k); acc }) != want.iter().rev().copied().collect::<Vec<_>>() { bad.push("rfold".into()); }
                for k in KINDS {
                    if fresh().position(|x| x == k) != want.iter().position(|x| *x == k) { bad.push(format!("position({})", k)); }
                    if fresh().rposition(|x| x == k) != want.iter().rposition(|x| *x == k) { bad.push(format!("rposition({})", k)); }
                    if fresh().find(|x| *x == k) != want.iter().copied().find(|x| *x == k) { bad.push(format!("find({})", k)); }
                    if fresh().rfind(|x| *x == k) != want.iter().copied().rfind(|x| *x == k) { bad.push(format!("rfind({})", k)); }
                    if fresh().any(|x| x == k) != want.contains(&k) { bad.push(format!("any({})", k)); }
                    if fresh().all(|x| x != k) == want.contains(&k) { bad.push(format!("all(!= {})", k)); }
                }
                if fresh().chain(fresh()).collect::<Vec<_>>() != want.iter().chain(want.iter()).copied().collect::<Vec<_>>() { bad.push("chain".into()); }
                if fresh().zip(fresh().rev()).count() != want.len() { bad.push("zip".into()); }
                if fresh().map(|k| k.to_string()).collect::<Vec<_>>() != want.iter().map(|k| k.to_string()).collect::<Vec<_>>() { bad.push("map".into()); }
                if fresh().enumerate().last().map(|p| p.0) != want.len().checked_sub(1) { bad.push("enumerate".into()); }
                // the owned and borrowed IntoIterator impls
                if dirs.is_empty() {
                    if s.into_iter().collect::<Vec<_>>() != want { bad.push("IntoIterator for KindSet".into()); }
                    if (&s).into_iter().collect::<Vec<_>>() != want { bad.push("IntoIterator for &KindSet".into()); }
                    let mut viafor = Vec::new();
                    for k in s { viafor.push(k); }
                    if viafor != want { bad.push("for loop".into()); }
                }
                out.oracle(bad.is_empty(), "every provided iterator method and adaptor agrees with the list of remaining kinds", || bad.join("; "));
            }
            out.count(&format!("iter_steps_{}", dirs.len()));
            (items.join(","), x != 0)
        }
        ("vkind", _, _) if a.len() == 2 => match parse_value(a[1]) {
            Some(v) => {
                let want = match v { Value::Null => Kind::Null, Value::Boolean(_) => Kind::Boolean, Value::Number(_) => Kind::Number, Value::String(_) => Kind::String, Value::Array(_) => Kind::Array, Value::Object(_) => Kind::Object };
                out.oracle(v.kind() == want && v.is_kind(want), "Value::kind", || v.kind().to_string());
                (v.kind().to_string(), true)
            }
            None => ("bad-op".into(), false),
        },
        _ => ("bad-op".into(), false),
    }
}

pub fn gen(out: &mut Out, _thorough: bool) {
    let mut l = |s: String| crate::exec_line(&s, out);
    l("kind consts".into());
    for a in 0..64 {
        for b in 0..64 {
            l(format!("kind or {} {}", a, b));
            l(format!("kind and {} {}", a, b));
        }
    }
    for a in 0..64 {
        for k in 0..6 {
            for op in ["ork", "andk", "kor", "kand"] {
                l(format!("kind {} {} {}", op, a, k));
            }
        }
    }
    for k in 0..6 {
        for m in 0..6 {
            l(format!("kind kkor {} {}", k, m));
            l(format!("kind kkand {} {}", k, m));
        }
    }
    for a in 0..64usize {
        l(format!("kind set {}", a));
        let n = a.count_ones() as usize + 1; // one step past exhaustion (the iterator is fused)
        for pat in 0..(1u32 << n) {
            let dirs: String = (0..n).map(|i| if pat >> i & 1 == 1 { 'f' } else { 'b' }).collect();
            l(format!("kind iter {} {}", a, dirs));
        }
    }
    for v in ["n", "t", "f", "#31;", "s78;", "[n]", "[]", "{}", "{k61;n}"] {
        l(format!("kind vkind {}", v));
    }
    out.exhaustive.push("64x64 set pairs (| & |= &=)".into());
    out.exhaustive.push("64x6 set/kind pairs (| & in both operand orders, assign forms)".into());
    out.exhaustive.push("6x6 kind pairs".into());
    out.exhaustive.push("64 sets: len, is_empty, three renderings, every front/back interleaving of |s|+1 steps".into());
    out.exhaustive.push("one value per variant (+ empty containers)".into());
}
