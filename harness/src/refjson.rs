//! Independent reference for RFC 8259 written from the grammar (NOT from json-syntax's code):
//! a predictive recursive-descent recogniser/decoder over a char slice. Because the JSON grammar is
//! LL(1) and the recogniser only consumes a character when it is allowed by the grammar, the offset
//! at which it stops is the length of the longest viable prefix (used by C07), the value it builds
//! is the document's abstract content (C02) and the spans it records are the fragments' source
//! texts (C05). String bodies are decoded in two passes (split into elements, then combine the
//! surrogate code units under the lenient options: the C12 specification).
#![allow(dead_code)]

#[derive(Clone, Debug, PartialEq)]
pub enum RV {
    Null,
    Bool(bool),
    Num(String),
    Str(String),
    Arr(Vec<RV>),
    Obj(Vec<(String, RV)>),
}

#[derive(Clone, Debug, PartialEq)]
pub enum RErr {
    /// syntax error: byte offset of the first character that cannot extend a viable prefix
    /// (`None` = end of input)
    Syntax(usize, Option<char>),
    /// the text is syntactically fine up to here but a surrogate escape is not acceptable under
    /// the options (byte offset of the backslash of the first offending escape)
    Surrogate(usize),
}

#[derive(Clone, Copy, Debug, PartialEq)]
enum Elem {
    Ch(char),
    U(u32),
}

pub struct Ref<'a> {
    s: &'a [char],
    off: Vec<usize>, // byte offset of each char index (len+1 entries)
    i: usize,
    trunc: bool,
    inval: bool,
    pub cm: Vec<(usize, usize, usize)>,
    depth: usize,
}

fn is_ws(c: char) -> bool {
    c == ' ' || c == '\t' || c == '\n' || c == '\r'
}

impl<'a> Ref<'a> {
    pub fn new(s: &'a [char], trunc: bool, inval: bool) -> Self {
        let mut off = Vec::with_capacity(s.len() + 1);
        let mut o = 0;
        for c in s {
            off.push(o);
            o += c.len_utf8();
        }
        off.push(o);
        Ref { s, off, i: 0, trunc, inval, cm: Vec::new(), depth: 0 }
    }
    fn peek(&self) -> Option<char> {
        self.s.get(self.i).copied()
    }
    fn err<T>(&self) -> Result<T, RErr> {
        Err(RErr::Syntax(self.off[self.i], self.peek()))
    }
    fn ws(&mut self) {
        while self.peek().map_or(false, is_ws) {
            self.i += 1;
        }
    }
    fn expect(&mut self, c: char) -> Result<(), RErr> {
        if self.peek() == Some(c) {
            self.i += 1;
            Ok(())
        } else {
            self.err()
        }
    }
    fn open(&mut self) -> usize {
        self.cm.push((self.off[self.i], 0, 0));
        self.cm.len() - 1
    }
    fn close(&mut self, k: usize) {
        let n = self.cm.len();
        self.cm[k].1 = self.off[self.i];
        self.cm[k].2 = n - k;
    }

    pub fn document(&mut self) -> Result<RV, RErr> {
        self.ws();
        let v = self.value(|c| is_ws(c))?;
        self.ws();
        if self.i < self.s.len() {
            return self.err();
        }
        Ok(v)
    }

    /// `follow`: characters that may follow a value in the current context (used for numbers,
    /// whose end is only known by looking at the next character).
    fn value(&mut self, follow: fn(char) -> bool) -> Result<RV, RErr> {
        match self.peek() {
            Some('n') => { let k = self.open(); self.word("null")?; self.close(k); Ok(RV::Null) }
            Some('t') => { let k = self.open(); self.word("true")?; self.close(k); Ok(RV::Bool(true)) }
            Some('f') => { let k = self.open(); self.word("false")?; self.close(k); Ok(RV::Bool(false)) }
            Some('"') => { let k = self.open(); let s = self.string()?; self.close(k); Ok(RV::Str(s)) }
            Some('-') | Some('0'..='9') => { let k = self.open(); let n = self.number(follow)?; self.close(k); Ok(RV::Num(n)) }
            Some('[') => {
                let k = self.open();
                self.i += 1;
                self.ws();
                let mut items = Vec::new();
                if self.peek() == Some(']') {
                    self.i += 1;
                } else {
                    loop {
                        self.ws();
                        items.push(self.value(|c| is_ws(c) || c == ',' || c == ']')?);
                        self.ws();
                        match self.peek() {
                            Some(',') => self.i += 1,
                            Some(']') => { self.i += 1; break; }
                            _ => return self.err(),
                        }
                    }
                }
                self.close(k);
                Ok(RV::Arr(items))
            }
            Some('{') => {
                let k = self.open();
                self.i += 1;
                self.ws();
                let mut es = Vec::new();
                if self.peek() == Some('}') {
                    self.i += 1;
                } else {
                    loop {
                        self.ws();
                        let e = self.open();
                        let kk = self.open();
                        if self.peek() != Some('"') {
                            return self.err();
                        }
                        let key = self.string()?;
                        self.close(kk);
                        self.ws();
                        self.expect(':')?;
                        self.ws();
                        let v = self.value(|c| is_ws(c) || c == ',' || c == '}')?;
                        self.close(e);
                        es.push((key, v));
                        self.ws();
                        match self.peek() {
                            Some(',') => self.i += 1,
                            Some('}') => { self.i += 1; break; }
                            _ => return self.err(),
                        }
                    }
                }
                self.close(k);
                Ok(RV::Obj(es))
            }
            _ => self.err(),
        }
    }

    fn word(&mut self, w: &str) -> Result<(), RErr> {
        for c in w.chars() {
            self.expect(c)?;
        }
        Ok(())
    }

    /// number = [ minus ] int [ frac ] [ exp ]   (RFC 8259 §6), then a follow character or EOF
    fn number(&mut self, follow: fn(char) -> bool) -> Result<String, RErr> {
        let start = self.i;
        if self.peek() == Some('-') {
            self.i += 1;
        }
        match self.peek() {
            Some('0') => self.i += 1,
            Some('1'..='9') => {
                while matches!(self.peek(), Some('0'..='9')) {
                    self.i += 1;
                }
            }
            _ => return self.err(),
        }
        if self.peek() == Some('.') {
            self.i += 1;
            if !matches!(self.peek(), Some('0'..='9')) {
                return self.err();
            }
            while matches!(self.peek(), Some('0'..='9')) {
                self.i += 1;
            }
        }
        if matches!(self.peek(), Some('e') | Some('E')) {
            self.i += 1;
            if matches!(self.peek(), Some('+') | Some('-')) {
                self.i += 1;
            }
            if !matches!(self.peek(), Some('0'..='9')) {
                return self.err();
            }
            while matches!(self.peek(), Some('0'..='9')) {
                self.i += 1;
            }
        }
        match self.peek() {
            None => {}
            Some(c) if follow(c) => {}
            _ => return self.err(),
        }
        Ok(self.s[start..self.i].iter().collect())
    }

    /// string = quotation-mark *char quotation-mark (RFC 8259 §7)
    fn string(&mut self) -> Result<String, RErr> {
        self.expect('"')?;
        let mut elems: Vec<(Elem, usize)> = Vec::new(); // element, byte offset where it starts
        loop {
            let at = self.off[self.i];
            match self.peek() {
                None => return self.err(),
                Some('"') => { self.i += 1; break; }
                Some('\\') => {
                    self.i += 1;
                    match self.peek() {
                        Some('"') => { self.i += 1; elems.push((Elem::Ch('"'), at)); }
                        Some('\\') => { self.i += 1; elems.push((Elem::Ch('\\'), at)); }
                        Some('/') => { self.i += 1; elems.push((Elem::Ch('/'), at)); }
                        Some('b') => { self.i += 1; elems.push((Elem::Ch('\u{8}'), at)); }
                        Some('f') => { self.i += 1; elems.push((Elem::Ch('\u{c}'), at)); }
                        Some('n') => { self.i += 1; elems.push((Elem::Ch('\n'), at)); }
                        Some('r') => { self.i += 1; elems.push((Elem::Ch('\r'), at)); }
                        Some('t') => { self.i += 1; elems.push((Elem::Ch('\t'), at)); }
                        Some('u') => {
                            self.i += 1;
                            let mut cp = 0u32;
                            for _ in 0..4 {
                                match self.peek().and_then(|c| if c.is_ascii_hexdigit() { c.to_digit(16) } else { None }) {
                                    Some(d) => { cp = cp * 16 + d; self.i += 1; }
                                    None => return self.err(),
                                }
                            }
                            elems.push((Elem::U(cp), at));
                        }
                        _ => return self.err(),
                    }
                }
                Some(c) if (c as u32) < 0x20 => return self.err(),
                Some(c) => { self.i += 1; elems.push((Elem::Ch(c), at)); }
            }
        }
        self.combine(&elems)
    }

    /// Surrogate policy (the C12 specification): a high unit immediately followed by a low unit
    /// is one scalar; any other high unit is unpaired (U+FFFD iff `trunc`); a lone low unit is
    /// U+FFFD iff `inval`; everything else is itself.
    fn combine(&self, elems: &[(Elem, usize)]) -> Result<String, RErr> {
        let mut out = String::new();
        let mut k = 0;
        while k < elems.len() {
            match elems[k] {
                (Elem::Ch(c), _) => { out.push(c); k += 1; }
                (Elem::U(cp), at) => {
                    if (0xd800..=0xdbff).contains(&cp) {
                        if let Some((Elem::U(lo), _)) = elems.get(k + 1).copied() {
                            if (0xdc00..=0xdfff).contains(&lo) {
                                out.push(char::from_u32(0x10000 + ((cp - 0xd800) << 10) + (lo - 0xdc00)).unwrap());
                                k += 2;
                                continue;
                            }
                        }
                        if self.trunc { out.push('\u{fffd}'); k += 1; } else { return Err(RErr::Surrogate(at)); }
                    } else if (0xdc00..=0xdfff).contains(&cp) {
                        if self.inval { out.push('\u{fffd}'); k += 1; } else { return Err(RErr::Surrogate(at)); }
                    } else {
                        out.push(char::from_u32(cp).unwrap());
                        k += 1;
                    }
                }
            }
        }
        Ok(out)
    }
}

/// Parse `text` with the reference; returns the value and the code map, or the first error.
pub fn ref_parse(text: &[char], trunc: bool, inval: bool) -> Result<(RV, Vec<(usize, usize, usize)>), RErr> {
    let mut r = Ref::new(text, trunc, inval);
    let v = r.document()?;
    Ok((v, r.cm))
}

/// Syntax-only verdict (any \uXXXX allowed): Ok(()) or the viable-prefix error.
pub fn ref_syntax(text: &[char]) -> Result<(), RErr> {
    let mut r = Ref::new(text, true, true);
    r.document().map(|_| ())
}
