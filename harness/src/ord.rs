//! `ord cmp V1 V2` / `ord cmp3 V1 V2 V3` / `ord hist H1 H2` — equality, ordering, hashing (C14).
use crate::common::*;
use json_syntax::{Object, Value};
use std::cmp::Ordering;
use std::collections::hash_map::DefaultHasher;
use std::hash::{Hash, Hasher};

fn h<T: Hash>(v: &T) -> u64 {
    let mut s = DefaultHasher::new();
    v.hash(&mut s);
    s.finish()
}
fn ord(o: Ordering) -> &'static str {
    match o { Ordering::Less => "lt", Ordering::Equal => "eq", Ordering::Greater => "gt" }
}
fn run_history(ops: &str, out: &mut Out) -> Option<Object> {
    // reuse the C06 executor on a throw-away Out-independent object
    let mut o = Object::new();
    let mut spec = Vec::new();
    for op in ops.split('+') {
        crate::obj::step_pub(&mut o, &mut spec, op, out)?;
    }
    Some(o)
}

/// The same content built through other routes: every string, key and number buffer is given spare
/// heap capacity (so short texts live on the heap instead of inline), objects are built entry by
/// entry, arrays with spare capacity. Content-only equality/order/hash must not see the difference.
pub fn rebuilt(v: &Value) -> Value {
    fn heap(s: &str) -> String { let mut t = String::with_capacity(s.len() + 64); t.push_str(s); t }
    match v {
        Value::String(s) => Value::String(heap(s.as_str()).into()),
        Value::Number(n) => {
            let mut b: Vec<u8> = Vec::with_capacity(n.as_str().len() + 64);
            b.extend_from_slice(n.as_str().as_bytes());
            match json_syntax::NumberBuf::new(json_syntax::number::Buffer::from_vec(b)) { Ok(m) => Value::Number(m), Err(_) => v.clone() }
        }
        Value::Array(a) => { let mut w = Vec::with_capacity(a.len() + 17); for x in a.iter() { w.push(rebuilt(x)); } Value::Array(w) }
        Value::Object(o) => {
            let mut n = Object::new();
            for e in o.entries() { n.push(heap(e.key.as_str()).into(), rebuilt(&e.value)); }
            Value::Object(n)
        }
        other => other.clone(),
    }
}

pub fn exec(rest: &str, out: &mut Out) -> (String, bool) {
    let a: Vec<&str> = rest.split(' ').collect();
    match (a[0], a.len()) {
        ("cmp", 3) => {
            let (x, y) = match (parse_value(a[1]), parse_value(a[2])) { (Some(x), Some(y)) => (x, y), _ => return ("bad-op".into(), false) };
            let c = x.cmp(&y);
            out.oracle(x.partial_cmp(&y) == Some(c), "partial_cmp = Some(cmp)", || format!("{:?} vs {:?}", x.partial_cmp(&y), c));
            out.oracle(y.cmp(&x) == c.reverse(), "antisymmetry: cmp(b,a) = reverse(cmp(a,b))", || format!("{:?} / {:?}", c, y.cmp(&x)));
            out.oracle((x == y) == (c == Ordering::Equal), "Equal exactly when equal", || format!("eq={} cmp={:?}", x == y, c));
            out.oracle(x.cmp(&x) == Ordering::Equal && x == x.clone() && h(&x) == h(&x.clone()), "reflexive; clones equal their originals and hash alike", || String::new());
            if x == y { out.oracle(h(&x) == h(&y), "equal values hash identically", || String::new()); }
            // the provided methods an impl may override say the same thing as cmp / eq
            out.oracle((x != y) == !(x == y) && (x < y) == (c == Ordering::Less) && (x <= y) == (c != Ordering::Greater) && (x > y) == (c == Ordering::Greater) && (x >= y) == (c != Ordering::Less)
                && (&x).max(&y) == (if c == Ordering::Greater { &x } else { &y }) && (&x).min(&y) == (if c == Ordering::Greater { &y } else { &x }),
                "ne, <, <=, >, >=, max, min agree with eq / cmp", || format!("cmp={:?} eq={}", c, x == y));
            // entries carrying the two values under one key, and under two keys, compare as pairs
            {
                use json_syntax::object::{Entry, Key};
                let (e1, e2): (Entry, Entry) = (Entry::new(Key::from("k"), x.clone()), Entry::new(Key::from("k"), y.clone()));
                out.oracle(e1.cmp(&e2) == c && (e1 == e2) == (x == y) && e1.partial_cmp(&e2) == Some(c) && (e1 != e2) == (x != y) && (x != y || h(&e1) == h(&e2)), "Entry with equal keys compares / hashes like its values", || format!("{:?}", e1.cmp(&e2)));
                let (f1, f2): (Entry, Entry) = (Entry::new(Key::from("a"), y.clone()), Entry::new(Key::from("b"), x.clone()));
                out.oracle(f1.cmp(&f2) == Ordering::Less && f2.cmp(&f1) == Ordering::Greater && f1 != f2, "Entry order is decided by the key first", || String::new());
            }
            // the same content through another construction route (heap-backed buffers, entry-by-entry objects)
            let xr = rebuilt(&x);
            out.oracle(xr == x && x == xr && xr.cmp(&x) == Ordering::Equal && h(&xr) == h(&x) && xr.clone() == xr && xr.clone() == x,
                "same content built another way (heap-backed string/key/number buffers): equal, Equal, same hash", || format!("{}", a[1]));
            out.oracle((xr == y) == (x == y) && xr.cmp(&y) == c && y.cmp(&xr) == c.reverse(),
                "comparison with a third value does not depend on the construction route", || format!("{} / {}", a[1], a[2]));
            // objects: the comparison goes through Object's own impls as well
            if let (Value::Object(p), Value::Object(q)) = (&x, &y) {
                out.oracle(p.cmp(q) == c && (p == q) == (x == y) && p.partial_cmp(q) == Some(c), "Object impls agree with Value impls", || String::new());
                if p == q { out.oracle(h(p) == h(q), "equal objects hash identically", || String::new()); }
            }
            (format!("eq={} cmp={}", x == y, ord(c)), x != y)
        }
        ("cmp3", 4) => {
            let v: Vec<Value> = match a[1..].iter().map(|s| parse_value(s)).collect::<Option<Vec<_>>>() { Some(v) => v, None => return ("bad-op".into(), false) };
            let (ab, bc, ac) = (v[0].cmp(&v[1]), v[1].cmp(&v[2]), v[0].cmp(&v[2]));
            let le = |o: Ordering| o != Ordering::Greater;
            out.oracle(!(le(ab) && le(bc)) || le(ac), "transitivity", || format!("{:?} {:?} {:?}", ab, bc, ac));
            out.oracle(!(ab == Ordering::Less && bc == Ordering::Less) || ac == Ordering::Less, "strict transitivity", || format!("{:?} {:?} {:?}", ab, bc, ac));
            (format!("{} {} {}", ord(ab), ord(bc), ord(ac)), true)
        }
        ("hist", 3) => {
            let (p, q) = match (run_history(a[1], out), run_history(a[2], out)) { (Some(p), Some(q)) => (p, q), _ => return ("bad-op".into(), false) };
            let same = p.entries().len() == q.entries().len() && p.entries().iter().zip(q.entries()).all(|(e, f)| e.key == f.key && e.value == f.value);
            let c = p.cmp(&q);
            if same {
                out.oracle(p == q && c == Ordering::Equal && h(&p) == h(&q) && Value::Object(p.clone()) == Value::Object(q.clone()) && h(&Value::Object(p.clone())) == h(&Value::Object(q.clone())), "same entries through different histories: equal, Equal, same hash", || format!("{} / {}", a[1], a[2]));
                out.count("hist_same_entries");
            } else {
                out.oracle(p != q && c != Ordering::Equal, "different entries: not equal", || format!("{} / {}", a[1], a[2]));
                out.count("hist_different_entries");
            }
            (format!("eq={} cmp={}", p == q, ord(c)), same)
        }
        _ => ("bad-op".into(), false),
    }
}

/// a near-copy: one leaf, one key or one position changed
pub fn mutate(rng: &mut Rng, v: &Value) -> Value {
    match v {
        Value::Array(a) if !a.is_empty() && rng.chance(3, 4) => {
            let mut b = a.clone();
            let i = rng.below(b.len() as u64) as usize;
            match rng.below(4) {
                0 => { b.remove(i); }
                1 => { let x = crate::print::gen_value(rng, 0, 1); b.insert(i, x); }
                2 => { if b.len() > 1 { let j = rng.below(b.len() as u64) as usize; b.swap(i, j); } }
                _ => { b[i] = mutate(rng, &b[i]); }
            }
            Value::Array(b)
        }
        Value::Object(o) if !o.is_empty() && rng.chance(3, 4) => {
            let mut es: Vec<(String, Value)> = o.entries().iter().map(|e| (e.key.to_string(), e.value.clone())).collect();
            let i = rng.below(es.len() as u64) as usize;
            match rng.below(7) {
                0 => { es.remove(i); }
                1 => { es[i].0.push('x'); }
                // same length, same long prefix, different tail / different middle (keys longer than any
                // inline or abbreviated-comparison width)
                5 => { let pre: String = "0123456789abcdef-shared-prefix/".chars().cycle().take(16 + rng.below(40) as usize).collect(); es[i].0 = format!("{}{}", pre, rng.pick(&["a", "b", "ab", "ba"])); }
                6 => { let mut cs: Vec<char> = es[i].0.chars().collect(); if cs.is_empty() { cs.push('q'); } else { let j = if rng.chance(1, 2) { cs.len() - 1 } else { rng.below(cs.len() as u64) as usize }; cs[j] = if cs[j] == 'y' { 'z' } else { 'y' }; } es[i].0 = cs.into_iter().collect(); }
                2 => { if es.len() > 1 { let j = rng.below(es.len() as u64) as usize; es.swap(i, j); } }
                3 => { let e = es[i].clone(); es.push(e); }
                _ => { es[i].1 = mutate(rng, &es[i].1); }
            }
            let mut n = Object::new();
            for (k, v) in es { n.push(k.as_str().into(), v); }
            Value::Object(n)
        }
        Value::Number(n) => { let mut s = n.as_str().to_string(); s.push('0'); if !s.contains('.') && !s.contains('e') && !s.contains('E') { s = format!("{}.5", n.as_str()); } Value::Number(json_syntax::NumberBuf::new(s.clone().into_bytes().into()).unwrap_or_else(|_| 7u8.into())) }
        Value::String(s) => {
            let mut t = s.to_string();
            match rng.below(4) {
                0 => t.push('a'),
                1 => t.insert(0, 'é'),
                2 => { let pre: String = "0123456789abcdef-shared-prefix/".chars().cycle().take(16 + rng.below(40) as usize).collect(); t = format!("{}{}", pre, rng.pick(&["a", "b"])); }
                _ => { let mut cs: Vec<char> = t.chars().collect(); if cs.is_empty() { cs.push('q'); } else { let j = cs.len() - 1; cs[j] = if cs[j] == 'y' { 'z' } else { 'y' }; } t = cs.into_iter().collect(); }
            }
            Value::String(t.as_str().into())
        }
        Value::Boolean(b) => Value::Boolean(!b),
        _ => crate::print::gen_value(rng, 0, 1),
    }
}

pub fn gen(out: &mut Out, thorough: bool) {
    let mut l = |s: String, out: &mut Out| crate::exec_line(&s, out);
    // all pairs and triples of a fixed pool of small values (every variant, prefixes, near strings)
    let lk = |tail: &str| format!("{{k{}.{};n}}", cps_inner("0123456789abcdef-long-key"), cps_inner(tail));
    let ls = |tail: &str| format!("s{}.{};", cps_inner("0123456789abcdef-long-text"), cps_inner(tail));
    let long: Vec<String> = vec![lk("a"), lk("b"), lk("aa"), ls("a"), ls("b"), format!("#{};", cps_inner("12345678901234567890123451")), format!("#{};", cps_inner("12345678901234567890123452"))];
    let mut pool: Vec<&str> = vec!["n", "f", "t", "#30;", "#31;", "#31.30;", "#2d.31;", "s;", "s61;", "s61.61;", "s62;", "se9;", "s1f600;", "[]", "[n]", "[n,n]", "[t]", "[[]]", "{}", "{k61;n}", "{k61;t}", "{k61;nk61;n}", "{k62;n}", "{k;n}", "{k61;[]}"];
    for x in &long { pool.push(x.as_str()); }
    for a in &pool { for b in &pool { l(format!("ord cmp {} {}", a, b), out); } }
    let tri = if thorough { pool.len() } else { 12 };
    for a in pool.iter().take(tri) { for b in pool.iter().take(tri) { for c in pool.iter().take(tri) { l(format!("ord cmp3 {} {} {}", a, b, c), out); } } }
    out.exhaustive.push(format!("all {}x{} pairs and {}^3 triples of a pool covering every variant, prefixes and near-equal strings/numbers", pool.len(), pool.len(), tri));
    // numbers that denote the same (or nearly the same) real number in different spellings: content is
    // the spelling, so they must be unequal, never compare Equal, and the order must stay transitive
    let nums = ["0", "-0", "0.0", "-0.0", "0e0", "1", "1.0", "1e0", "10", "9", "-9", "-10", "1E1", "10.0",
        "9007199254740992", "9007199254740993", "9007199254740992.5", "-9007199254740993", "-9007199254740992", "-9007199254740992.5",
        "18446744073709551615", "18446744073709551616", "1.8446744073709552e19", "1e400", "2e400", "1e-400", "0.1", "0.10", "1e-1"];
    let enc = |t: &str| format!("#{};", cps_inner(t));
    for a in nums { for b in nums {
        l(format!("ord cmp {} {}", enc(a), enc(b)), out);
        l(format!("ord cmp [{}] [{}]", enc(a), enc(b)), out);
    } }
    let ntri = if thorough { nums.len() } else { 14 };
    for a in nums.iter().take(ntri) { for b in nums.iter().take(ntri) { for c in nums.iter().take(ntri) {
        l(format!("ord cmp3 {} {} {}", enc(a), enc(b), enc(c)), out);
    } } }
    for a in &nums[14..20] { for b in &nums[14..20] { for c in &nums[14..20] {
        l(format!("ord cmp3 {} {} {}", enc(a), enc(b), enc(c)), out);
    } } }
    out.exhaustive.push(format!("all pairs (bare and inside an array) of {} number spellings with equal or near-equal numeric value (zeros, 1/1.0/1e0, 10/1E1, integers around 2^53 and 2^64 with decimals, over/underflowing exponents), all triples of the first {} and of the 2^53 group", nums.len(), ntri));
    // keys and strings of EVERY byte length 1..=40 that share all but their last character, the last
    // characters spread over the bit positions of a byte (a packed / chunked / abbreviated comparison
    // is decided at one length and one bit): all pairs as keys and as strings, all triples as keys
    {
        let lasts = ["a", "q", "b", "p", "d", "t", "0", " ", "\u{7f}", "é", "ù"];
        let mut n = 0u64;
        for len in 1..=40usize {
            let pre: String = "total_bytes_sent/0123456789abcdefghijklmnopqrstuvwxyz".chars().take(len - 1).collect();
            let key = |t: &str| format!("{{k{};n}}", cps_inner(&format!("{}{}", pre, t)));
            let key2 = |t: &str| format!("{{k{};#31;k7a;t}}", cps_inner(&format!("{}{}", pre, t)));
            let st = |t: &str| format!("s{};", cps_inner(&format!("{}{}", pre, t)));
            for a in lasts { for b in lasts {
                l(format!("ord cmp {} {}", key(a), key(b)), out);
                l(format!("ord cmp {} {}", key(a), key2(b)), out);
                l(format!("ord cmp {} {}", st(a), st(b)), out);
                n += 3;
            } }
            let tri = if thorough { lasts.len() } else { 7 };
            for a in lasts.iter().take(tri) { for b in lasts.iter().take(tri) { for c in lasts.iter().take(tri) {
                if (len > 24 && !thorough) && (len % 2 == 1) { continue; }
                l(format!("ord cmp3 {} {} {}", key(a), key(b), key2(c)), out);
                n += 1;
            } } }
        }
        out.count_n("same_prefix_last_char_families", n);
        out.exhaustive.push(format!("for every key/string byte length 1..=40: all pairs of {} last characters behind a common prefix (as keys, as strings), all triples of the first 7 as keys", lasts.len()));
    }
    // SCALE: arrays, objects and strings with N = 2^8, 2^12, 2^16 (+-1, and off the block size) items /
    // entries / characters that differ ONLY at the very end, in the last block, right after a block
    // boundary, or not at all (block-wise comparison, truncated length, capped hashing)
    {
        let mut n = 0u64;
        for &len in (if thorough { &[255usize, 256, 257, 4095, 4096, 4097, 4104, 5000, 8191, 8193, 65535, 65536, 65537][..] } else { &[257usize, 4096, 4097, 5000, 8193][..] }) {
            let obj = |change: Option<(usize, u8)>| -> String {
                // change: (position, 0 = other value, 1 = other key)
                let mut t = String::from("{");
                for i in 0..len {
                    let cp = if 0x100 + i >= 0xd800 { 0x100 + i + 0x800 } else { 0x100 + i };   // skip the surrogate gap
                    let (mut k, mut v) = (format!("6b.{:x}", cp), format!("#{:x};", 0x30 + i % 10));
                    if let Some((p, what)) = change { if p == i { if what == 0 { v = "n".into(); } else { k.push_str(".78"); } } }
                    t.push_str(&format!("k{};{}", k, v));
                }
                t.push('}');
                t
            };
            let arr = |change: Option<usize>| -> String { format!("[{}]", (0..len).map(|i| if change == Some(i) { "t".to_string() } else { format!("#{:x};", 0x30 + i % 10) }).collect::<String>()) };
            let base_o = obj(None);
            let base_a = arr(None);
            for p in [len - 1, len - 2, len - len % 4096, (len - len % 4096).saturating_sub(1), len / 2, 0] {
                if p >= len { continue; }
                l(format!("ord cmp {} {}", base_o, obj(Some((p, 0)))), out);
                l(format!("ord cmp {} {}", obj(Some((p, 1))), base_o), out);
                l(format!("ord cmp {} {}", base_a, arr(Some(p))), out);
                n += 3;
            }
            l(format!("ord cmp {} {}", base_o, base_o), out);
            l(format!("ord cmp3 {} {} {}", obj(Some((len - 1, 0))), base_o, obj(Some((len - 1, 1)))), out);
            l(format!("ord cmp s61*{};  s61*{}.62;", len, len - 1).replace(";  ", "; "), out);
            l(format!("ord cmp {{k61*{};n}} {{k61*{}.62;n}}", len, len - 1), out);
            l(format!("ord cmp #31.30*{}; #31.30*{}.31;", len, len - 1), out);
            n += 5;
        }
        out.count_n("scale_pairs", n);
        out.exhaustive.push("scale: objects / arrays / strings / keys / numbers of 2^8, 2^12, 2^13, 2^16 (+-1, 5000) elements against copies that differ in one value or one key at the last position, the one before, the first of the last 4096-block, the last of the block before, the middle, the first — and against themselves".into());
    }
    // generated values with near-copies
    let n = if thorough { 400000 } else { 6000 };
    for _ in 0..n {
        let a = crate::print::gen_value(&mut out.rng, 0, 3);
        let b = if out.rng.chance(1, 8) { a.clone() } else { mutate(&mut out.rng, &a) };
        let c = if out.rng.chance(1, 2) { mutate(&mut out.rng, &b) } else { crate::print::gen_value(&mut out.rng, 0, 2) };
        l(format!("ord cmp {} {}", show_value(&a), show_value(&b)), out);
        l(format!("ord cmp3 {} {} {}", show_value(&a), show_value(&b), show_value(&c)), out);
    }
    // pairs of histories that produce the same entry list through different routes
    let same = [
        ("push:61:n+push:62:t", "push:62:t+pushf:61:n"),
        ("push:61:n+push:62:t+push:61:f", "new:61=n,62=t,61=f"),
        ("push:61:n+push:62:t+push:61:f+rm:62:9", "push:62:n+push:61:n+push:61:f+rmat:0"),
        ("push:61:n+push:61:t+push:62:n+ins:61:f:9", "push:61:f+push:62:n"),
        ("push:62:n+push:61:t+push:61:n+sort", "new:61=n,61=t,62=n"),
        ("push:63:n+push:61:n+rmu:63+pushf:62:t", "ext:62=t,61=n"),
        ("push:61:n+push:62:n+push:61:t+insf:61:f:0", "new:61=f,62=n"),
        ("push:61:n+clone+push:62:t", "new:61=n,62=t"),
        ("push:61:n+push:62:t", "push:61:n+push:62:f"),
        ("push:61:n+push:62:t", "push:62:t+push:61:n"),
    ];
    for (p, q) in same { l(format!("ord hist {} {}", p, q), out); l(format!("ord hist {} {}", q, p), out); }
    // random history pairs: build the same list by a random interleaving of pushes/push_fronts/removals
    let nh = if thorough { 30000 } else { 500 };
    for _ in 0..nh {
        let len = out.rng.range(1, 6) as usize;
        let es: Vec<(String, &str)> = (0..len).map(|_| (format!("6{}", out.rng.below(3) + 1), *out.rng.pick(&["n", "t", "#31;"]))).collect();
        let direct = format!("new:{}", es.iter().map(|(k, v)| format!("{}={}", k, v)).collect::<Vec<_>>().join(","));
        // route 2: push everything in reverse with push_front, with a detour (push + remove_at last)
        let mut ops: Vec<String> = Vec::new();
        for (i, (k, v)) in es.iter().enumerate().rev() {
            ops.push(format!("pushf:{}:{}", k, v));
            if out.rng.chance(1, 3) { ops.push("push:7a:n".into()); ops.push(format!("rmat:{}", es.len() - i)); }
        }
        l(format!("ord hist {} {}", direct, ops.join("+")), out);
    }
}
