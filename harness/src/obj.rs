//! `obj <flags> op op …` — histories of `Object` operations (C06, C14).
//! After every op: result # entries # contains_duplicate_keys [# key queries for the history's key
//! universe (flag q)] [# sorted bucket dump through the cfg(json_syntax_verif) hook (flag b)].
//! Oracle: a plain `Vec<(String, Value)>` subjected to the documented semantics of the same ops.
use crate::common::*;
use json_syntax::object::{Entry, Key};
use json_syntax::{Object, Value};

fn show_entry(k: &str, v: &Value) -> String {
    format!("k{};{}", cps_inner(k), show_value(v))
}
fn show_entries<'a, I: Iterator<Item = (&'a str, &'a Value)>>(it: I) -> String {
    let mut s = String::from("{");
    for (k, v) in it {
        s.push_str(&show_entry(k, v));
    }
    s.push('}');
    s
}
fn show_obj(o: &Object) -> String {
    show_entries(o.entries().iter().map(|e| (e.key.as_str(), &e.value)))
}
fn nats(v: &[usize]) -> String {
    v.iter().map(|x| x.to_string()).collect::<Vec<_>>().join(".")
}
fn optnat(v: Option<usize>) -> String {
    v.map(|x| x.to_string()).unwrap_or("-".into())
}
fn parse_entry_list(s: &str) -> Option<Vec<(String, Value)>> {
    if s == "-" || s.is_empty() {
        return Some(vec![]);
    }
    s.split(',').map(|p| { let mut it = p.splitn(2, '='); Some((parse_cps(it.next()?)?, parse_value(it.next()?)?)) }).collect()
}
fn op_keys(op: &str) -> Vec<String> {
    let f: Vec<&str> = op.split(':').collect();
    match (f[0], f.len()) {
        ("rmu", 2) | ("q", 2) => parse_cps(f[1]).into_iter().collect(),
        ("new", 2) | ("ext", 2) => parse_entry_list(f[1]).unwrap_or_default().into_iter().map(|e| e.0).collect(),
        ("push", 3) | ("pushf", 3) | ("rm", 3) | ("getmut", 3) | ("goi", 3) => parse_cps(f[1]).into_iter().collect(),
        ("ins", 4) | ("insf", 4) => parse_cps(f[1]).into_iter().collect(),
        _ => vec![],
    }
}

type Spec = Vec<(String, Value)>;

fn positions(spec: &Spec, k: &str) -> Vec<usize> {
    spec.iter().enumerate().filter(|(_, e)| e.0 == k).map(|(i, _)| i).collect()
}

/// Executes one op on the real object and on the plain-list spec; returns the result text (real)
/// and the spec's result text.
pub fn step_pub(o: &mut Object, spec: &mut Vec<(String, Value)>, op: &str, out: &mut Out) -> Option<(String, String)> {
    step(o, spec, op, out)
}

fn step(o: &mut Object, spec: &mut Spec, op: &str, out: &mut Out) -> Option<(String, String)> {
    let f: Vec<&str> = op.split(':').collect();
    let take = |n: usize, v: Vec<(String, Value)>| -> Vec<(String, Value)> { if n >= 9 { v } else { v.into_iter().take(n).collect() } };
    let show_list = |v: &[(String, Value)]| show_entries(v.iter().map(|e| (e.0.as_str(), &e.1)));
    match (f[0], f.len()) {
        ("sort", 1) => {
            o.sort();
            spec.sort_by(|a, b| a.0.cmp(&b.0).then_with(|| a.1.cmp(&b.1))); // stable
            Some(("ok".into(), "ok".into()))
        }
        ("clone", 1) => {
            let c = o.clone();
            let r = if &c == o { "eq" } else { "ne" };
            *o = c;
            Some((r.into(), "eq".into()))
        }
        ("new", 2) => {
            let es = parse_entry_list(f[1])?;
            *o = Object::from_vec(es.iter().map(|(k, v)| Entry::new(k.as_str().into(), v.clone())).collect());
            *spec = es;
            Some(("ok".into(), "ok".into()))
        }
        ("ext", 2) => {
            let es = parse_entry_list(f[1])?;
            if out.rng.chance(1, 2) {
                o.extend(es.iter().map(|(k, v)| Entry::new(k.as_str().into(), v.clone())));
            } else {
                o.extend(es.iter().map(|(k, v)| (Key::from(k.as_str()), v.clone())));
            }
            spec.extend(es);
            Some(("ok".into(), "ok".into()))
        }
        ("rmat", 2) => {
            let i: usize = f[1].parse().ok()?;
            let r = o.remove_at(i);
            let s = if i < spec.len() { Some(spec.remove(i)) } else { None };
            Some((r.map(|e| show_entry(e.key.as_str(), &e.value)).unwrap_or("none".into()), s.map(|e| show_entry(&e.0, &e.1)).unwrap_or("none".into())))
        }
        ("rmu", 2) => {
            let k = parse_cps(f[1])?;
            let r = match o.remove_unique(k.as_str()) {
                Ok(None) => "none".to_string(),
                Ok(Some(e)) => format!("one {}", show_entry(e.key.as_str(), &e.value)),
                Err(d) => format!("dup {} {}", show_entry(d.0.key.as_str(), &d.0.value), show_entry(d.1.key.as_str(), &d.1.value)),
            };
            let p = positions(spec, &k);
            let removed: Vec<(String, Value)> = p.iter().map(|&i| spec[i].clone()).collect();
            spec.retain(|e| e.0 != k);
            let s = match removed.len() { 0 => "none".to_string(), 1 => format!("one {}", show_entry(&removed[0].0, &removed[0].1)), _ => format!("dup {} {}", show_entry(&removed[0].0, &removed[0].1), show_entry(&removed[1].0, &removed[1].1)) };
            Some((r, s))
        }
        ("push", 3) | ("pushf", 3) => {
            let (k, v) = (parse_cps(f[1])?, parse_value(f[2])?);
            let fresh = positions(spec, &k).is_empty();
            let r = if f[0] == "push" {
                if out.rng.chance(1, 2) { o.push(k.as_str().into(), v.clone()) } else { o.push_entry(Entry::new(k.as_str().into(), v.clone())) }
            } else if out.rng.chance(1, 2) { o.push_front(k.as_str().into(), v.clone()) } else { o.push_entry_front(Entry::new(k.as_str().into(), v.clone())) };
            if f[0] == "push" { spec.push((k, v)); } else { spec.insert(0, (k, v)); }
            Some((r.to_string(), fresh.to_string()))
        }
        ("rm", 3) => {
            let (k, n) = (parse_cps(f[1])?, f[2].parse::<usize>().ok()?);
            let mut yielded = Vec::new();
            {
                // ManuallyDrop: if `next()` panics, unwinding must not run the iterator's Drop (a second
                // panic there would abort the whole harness); the explicit drop below is the
                // "dropped half-way: Drop completes the removal" of the API
                let mut it = std::mem::ManuallyDrop::new(o.remove(k.as_str()));
                if n >= 9 { while let Some(e) = it.next() { yielded.push((e.key.to_string(), e.value)); } } else {
                    for _ in 0..n { if let Some(e) = it.next() { yielded.push((e.key.to_string(), e.value)); } }
                }
                unsafe { std::mem::ManuallyDrop::drop(&mut it); }
            }
            let removed: Vec<(String, Value)> = spec.iter().filter(|e| e.0 == k).cloned().collect();
            spec.retain(|e| e.0 != k);
            Some((show_list(&yielded), show_list(&take(n, removed))))
        }
        ("setv", 3) => {
            let (i, v) = (f[1].parse::<usize>().ok()?, parse_value(f[2])?);
            if let Some((_, slot)) = o.iter_mut().nth(i) { *slot = v.clone(); }
            if i < spec.len() { spec[i].1 = v; }
            Some(("ok".into(), "ok".into()))
        }
        ("getmut", 3) => {
            let (k, v) = (parse_cps(f[1])?, parse_value(f[2])?);
            let mut n = 0;
            for slot in o.get_mut(k.as_str()) { *slot = v.clone(); n += 1; }
            let mut m = 0;
            for e in spec.iter_mut() { if e.0 == k { e.1 = v.clone(); m += 1; } }
            Some((n.to_string(), m.to_string()))
        }
        ("goi", 3) => {
            let (k, v) = (parse_cps(f[1])?, parse_value(f[2])?);
            let r = if out.rng.chance(1, 2) { show_value(o.get_or_insert_with(k.as_str(), || v.clone())) } else { show_value(o.get_mut_or_insert_with(k.as_str(), || v.clone())) };
            let s = match positions(spec, &k).first() { Some(&i) => show_value(&spec[i].1), None => { spec.push((k, v.clone())); show_value(&v) } };
            Some((r, s))
        }
        ("ins", 4) => {
            let (k, v, n) = (parse_cps(f[1])?, parse_value(f[2])?, f[3].parse::<usize>().ok()?);
            let r = {
                match o.insert(k.as_str().into(), v.clone()) {
                    None => "fresh".to_string(),
                    Some(it) => {
                        let mut it = std::mem::ManuallyDrop::new(it);
                        let mut yielded = Vec::new();
                        if n >= 9 { while let Some(e) = it.next() { yielded.push((e.key.to_string(), e.value)); } } else {
                            for _ in 0..n { if let Some(e) = it.next() { yielded.push((e.key.to_string(), e.value)); } }
                        }
                        unsafe { std::mem::ManuallyDrop::drop(&mut it); }
                        show_list(&yielded)
                    }
                }
            };
            let p = positions(spec, &k);
            let s = if p.is_empty() { spec.push((k, v)); "fresh".to_string() } else {
                let mut removed = vec![spec[p[0]].clone()];
                spec[p[0]] = (k.clone(), v);
                for &i in p[1..].iter() { removed.push(spec[i].clone()); }
                let first = p[0];
                let mut idx = 0;
                spec.retain(|e| { let keep = idx == first || e.0 != k; idx += 1; keep });
                show_list(&take(n, removed))
            };
            Some((r, s))
        }
        ("insf", 4) => {
            let (k, v, n) = (parse_cps(f[1])?, parse_value(f[2])?, f[3].parse::<usize>().ok()?);
            let r = {
                let mut it = std::mem::ManuallyDrop::new(o.insert_front(k.as_str().into(), v.clone()));
                let mut yielded = Vec::new();
                if n >= 9 { while let Some(e) = it.next() { yielded.push((e.key.to_string(), e.value)); } } else {
                    for _ in 0..n { if let Some(e) = it.next() { yielded.push((e.key.to_string(), e.value)); } }
                }
                unsafe { std::mem::ManuallyDrop::drop(&mut it); }
                show_list(&yielded)
            };
            let mut removed = Vec::new();
            if spec.first().map_or(false, |e| e.0 == k) {
                removed.push(spec[0].clone());
                spec[0] = (k.clone(), v);
            } else {
                spec.insert(0, (k.clone(), v));
            }
            let mut idx = 0;
            let mut rest = Vec::new();
            spec.retain(|e| { let keep = idx == 0 || e.0 != k; if !keep { rest.push(e.clone()); } idx += 1; keep });
            removed.extend(rest);
            Some((r, show_list(&take(n, removed))))
        }
        _ => None,
    }
}

fn queries(o: &Object, spec: &Spec, keys: &[String], out: &mut Out) -> String {
    let mut parts = Vec::new();
    for k in keys {
        let ks = k.as_str();
        let p = positions(spec, ks);
        let idxs: Vec<usize> = o.indexes_of(ks).collect();
        let vals: Vec<&Value> = o.get(ks).collect();
        parts.push(format!("{}:{}:{}:{}:{}:[{}]", cps(ks), o.contains_key(ks), optnat(o.index_of(ks)), optnat(o.redundant_index_of(ks)), nats(&idxs), vals.iter().map(|v| show_value(v)).collect::<String>()));
        // every key-based query = linear scan of the entries
        let ok = o.contains_key(ks) == !p.is_empty()
            && o.index_of(ks) == p.first().copied()
            && o.redundant_index_of(ks) == p.get(1).copied()
            && idxs == p
            && vals.len() == p.len() && vals.iter().zip(p.iter()).all(|(v, &i)| **v == spec[i].1)
            && o.get_entries(ks).map(|e| (e.key.as_str(), &e.value)).eq(p.iter().map(|&i| (spec[i].0.as_str(), &spec[i].1)))
            && o.get_with_index(ks).map(|(i, v)| (i, v.clone())).eq(p.iter().map(|&i| (i, spec[i].1.clone())))
            && o.get_entries_with_index(ks).map(|(i, e)| (i, e.value.clone())).eq(p.iter().map(|&i| (i, spec[i].1.clone())));
        out.oracle(ok, "key queries = linear scan of the entries", || format!("key {:?}: index_of {:?} indexes {:?} vs scan {:?}", ks, o.index_of(ks), idxs, p));
        // the lookup iterators behave like the finite sequences they stand for
        let laws = iter_laws(|| o.indexes_of(ks))
            .and_then(|_| iter_laws(|| o.get(ks)))
            .and_then(|_| iter_laws(|| o.get_entries(ks).map(|e| (e.key.as_str(), &e.value))))
            .and_then(|_| iter_laws(|| o.get_with_index(ks)))
            .and_then(|_| iter_laws(|| o.get_entries_with_index(ks).map(|(i, e)| (i, &e.value))));
        out.oracle(laws.is_ok(), "lookup iterators obey the Iterator laws (nth, count, last, size_hint, skip, step_by)", || format!("key {:?}: {}", ks, laws.clone().unwrap_err()));
        let u = match o.get_unique(ks) { Ok(None) => 0, Ok(Some(v)) => { if p.len() == 1 && *v == spec[p[0]].1 { 1 } else { 99 } } Err(d) => { if p.len() >= 2 && d.0.value == spec[p[0]].1 && d.1.value == spec[p[1]].1 { 2 } else { 99 } } };
        let ue = match o.get_unique_entry(ks) { Ok(None) => 0, Ok(Some(_)) => 1, Err(_) => 2 };
        out.oracle(u == p.len().min(2) && ue == p.len().min(2), "unique lookups = linear scan", || format!("key {:?}: {} matches", ks, p.len()));
        // the mutable twins see the same entries
        {
            let mut oc = o.clone();
            let um = match oc.get_unique_mut(ks) { Ok(None) => 0, Ok(Some(v)) => { if p.len() == 1 && *v == spec[p[0]].1 { 1 } else { 99 } } Err(_) => 2 };
            let gm: Vec<Value> = oc.get_mut(ks).map(|v| v.clone()).collect();
            out.oracle(um == p.len().min(2) && gm.iter().eq(p.iter().map(|&i| &spec[i].1)), "get_unique_mut / get_mut = linear scan", || format!("key {:?}: get_unique_mut class {} for {} matches", ks, um, p.len()));
        }
    }
    // whole-object iteration through every entry point yields the entries in order
    {
        let want: Vec<(&str, &Value)> = spec.iter().map(|(k, v)| (k.as_str(), v)).collect();
        let a: Vec<(&str, &Value)> = o.iter().map(|e| (e.key.as_str(), &e.value)).collect();
        let b: Vec<(&str, &Value)> = o.into_iter().map(|e| (e.key.as_str(), &e.value)).collect();
        let c: Vec<(String, Value)> = o.clone().into_iter().map(|e| (e.key.to_string(), e.value)).collect();
        let mut om = o.clone();
        let d: Vec<(String, Value)> = (&mut om).into_iter().map(|(k, v)| (k.to_string(), v.clone())).collect();
        let owned: Vec<(String, Value)> = want.iter().map(|(k, v)| (k.to_string(), (*v).clone())).collect();
        out.oracle(a == want && b == want && c == owned && d == owned, "iter / IntoIterator for &Object, Object, &mut Object yield the entries in order", || format!("{} entries", want.len()));
        let laws = iter_laws(|| o.iter().map(|e| (e.key.as_str(), &e.value)));
        out.oracle(laws.is_ok(), "Object::iter obeys the Iterator laws", || laws.clone().unwrap_err());
    }
    parts.join(",")
}

pub fn exec(rest: &str, out: &mut Out) -> (String, bool) {
    let a: Vec<&str> = rest.split(' ').collect();
    let flags = a[0];
    let ops = &a[1..];
    let mut keys: Vec<String> = Vec::new();
    for op in ops { for k in op_keys(op) { if !keys.contains(&k) { keys.push(k); } } }
    let mut o = Object::new();
    let mut spec: Spec = Vec::new();
    let mut parts = Vec::new();
    let mut dups = false;
    for (opi, op) in ops.iter().enumerate() {
        match step(&mut o, &mut spec, op, out) {
            None => return ("bad-op".into(), false),
            Some((res, want)) => {
                // flag `x` (scale histories): the full state is reported after the last operation only;
                // the list-model oracles still run after every operation
                if flags.contains('x') && opi + 1 < ops.len() {
                    out.oracle(res == want, "operation result = documented list semantics", || format!("op {}: impl {} / list model {}", op, res, want));
                    let same = o.len() == spec.len() && o.entries().iter().zip(spec.iter()).all(|(e, s)| e.key.as_str() == s.0 && e.value == s.1);
                    out.oracle(same, "entries = plain ordered list under the same operations", || format!("after op #{} {}", opi, op.chars().take(40).collect::<String>()));
                    if positions_has_dup(&spec) { dups = true; }
                    parts.push(res);
                    continue;
                }
                out.oracle(res == want, "operation result = documented list semantics", || format!("op {}: impl {} / list model {}", op, res, want));
                let same = o.len() == spec.len() && o.entries().iter().zip(spec.iter()).all(|(e, s)| e.key.as_str() == s.0 && e.value == s.1);
                out.oracle(same, "entries = plain ordered list under the same operations", || format!("after {}: impl {} / list model {}", op, show_obj(&o), show_entries(spec.iter().map(|e| (e.0.as_str(), &e.1)))));
                out.oracle(o.is_empty() == spec.is_empty() && o.first().map(|e| e.key.as_str()) == spec.first().map(|e| e.0.as_str()) && o.last().map(|e| e.key.as_str()) == spec.last().map(|e| e.0.as_str()), "len/first/last", || op.to_string());
                let mut line = format!("{}#{}#{}", res, show_obj(&o), json_syntax_dup(&o));
                if flags.contains('q') { line.push('#'); line.push_str(&queries(&o, &spec, &keys, out)); }
                // without the cfg hook (fallback build when the hook no longer compiles against a
                // refactored index) the dump segment is the marker `nohook`
                #[cfg(not(json_syntax_verif))]
                if flags.contains('b') { line.push_str("#nohook"); }
                #[cfg(json_syntax_verif)]
                if flags.contains('b') {
                    let mut d = o.verif_index_dump();
                    d.sort();
                    line.push('#');
                    line.push_str(&d.iter().map(|(r, o)| format!("{}>{}", r, nats(o))).collect::<Vec<_>>().join(","));
                    // index invariant, checked directly on the dump
                    let mut ok = true;
                    let mut covered = 0;
                    for (r, oth) in &d {
                        let k = spec.get(*r).map(|e| e.0.clone());
                        let mut all = vec![*r];
                        all.extend(oth.iter().cloned());
                        ok &= k.as_ref().map_or(false, |k| positions(&spec, k) == all);
                        covered += all.len();
                    }
                    ok &= covered == spec.len();
                    out.oracle(ok, "index buckets = positions of each key (never stale)", || format!("after {}: buckets {:?} entries {}", op, d, show_obj(&o)));
                }
                if positions_has_dup(&spec) { dups = true; }
                out.count(&format!("op_{}", op.split(':').next().unwrap_or("")));
                parts.push(line);
            }
        }
    }
    // `canonicalize` and `sort` re-order the entries in place: afterwards every key is found at the
    // positions a linear scan of the NEW entry list gives (whatever order the entries were in before)
    for which in 0..3 {
        let mut c = o.clone();
        if which == 0 { c.canonicalize(); } else if which == 1 { c.sort(); } else { c.sort(); c.canonicalize(); }
        let ents: Vec<(String, Value)> = c.entries().iter().map(|e| (e.key.to_string(), e.value.clone())).collect();
        let mut bad = String::new();
        for k in keys.iter() {
            let want = positions(&ents, k);
            if c.indexes_of(k.as_str()).collect::<Vec<_>>() != want || c.contains_key(k.as_str()) != !want.is_empty() || c.get(k.as_str()).count() != want.len() { bad = format!("key {:?}", k.chars().take(12).collect::<String>()); break; }
        }
        if bad.is_empty() {
            if let Some(k) = keys.first() {
                let before = positions(&ents, k).len();
                let replaced = { let old = c.insert(k.as_str().into(), Value::Boolean(true)); let some = old.is_some(); drop(old); some };
                if replaced != (before > 0) || c.indexes_of(k.as_str()).count() != 1 { bad = "insert after the re-ordering".into(); }
            }
        }
        out.oracle(bad.is_empty() && ents.len() == spec.len(), match which { 0 => "after canonicalize every key is found where a scan of the entries finds it, and insert replaces", 1 => "after sort every key is found where a scan of the entries finds it, and insert replaces", _ => "after sort then canonicalize every key is found where a scan of the entries finds it, and insert replaces" }, || bad.clone());
    }
    // the object (and its index) is a value: moved to another thread it answers every key query as
    // here, and a further mutation there behaves like on the list (an index tied to per-thread or
    // per-process state would not)
    {
        let spec2 = spec.clone();
        let keys2 = keys.clone();
        let moved = o.clone();
        let verdict = std::thread::spawn(move || {
            let mut o = moved;
            let mut bad: Vec<String> = Vec::new();
            for k in keys2.iter().chain(std::iter::once(&"~absent~".to_string())) {
                let want = positions(&spec2, k);
                if o.indexes_of(k.as_str()).collect::<Vec<_>>() != want || o.contains_key(k.as_str()) != !want.is_empty() || o.index_of(k.as_str()) != want.first().copied()
                    || o.get(k.as_str()).count() != want.len() { bad.push(format!("queries for key {:?}", k.chars().take(20).collect::<String>())); }
            }
            if let Some(k) = keys2.first() {
                let n_before = positions(&spec2, k).len();
                let removed = o.remove(k.as_str()).count();
                if removed != n_before || o.contains_key(k.as_str()) || o.len() + n_before != spec2.len() { bad.push(format!("remove of key {:?} on the other thread", k.chars().take(20).collect::<String>())); }
                let fresh = o.push(k.as_str().into(), Value::Null);
                if !fresh || o.index_of(k.as_str()) != Some(o.len() - 1) { bad.push("push after the remove on the other thread".into()); }
            }
            bad
        }).join();
        match verdict {
            Ok(bad) => out.oracle(bad.is_empty(), "an object moved to another thread answers key queries and takes mutations exactly as here", || bad.join("; ")),
            Err(_) => out.oracle(false, "an object moved to another thread can be queried without panicking", || String::new()),
        }
    }
    out.count_n("ops", ops.len() as u64);
    (parts.join(" | "), dups || ops.len() > 2)
}

fn positions_has_dup(spec: &Spec) -> bool {
    let mut ks: Vec<&str> = spec.iter().map(|e| e.0.as_str()).collect();
    ks.sort();
    ks.windows(2).any(|w| w[0] == w[1])
}
/// `contains_duplicate_keys` is crate-private on IndexMap; observe it through unordered_eq-free API:
/// an object has duplicate keys iff some key has a redundant index.
fn json_syntax_dup(o: &Object) -> bool {
    o.entries().iter().any(|e| o.redundant_index_of(e.key.as_str()).is_some())
}

// ------------------------------------------------------------------------------------------------

const KEYS: [&str; 3] = ["61", "62", "63"];
const VALS: [&str; 2] = ["n", "#31;"];

fn all_ops() -> Vec<String> {
    let mut v = Vec::new();
    for k in KEYS.iter().take(3) {
        for val in VALS {
            v.push(format!("push:{}:{}", k, val));
            v.push(format!("pushf:{}:{}", k, val));
        }
        v.push(format!("ins:{}:t:9", k));
        v.push(format!("ins:{}:t:0", k));
        v.push(format!("insf:{}:f:9", k));
        v.push(format!("insf:{}:f:1", k));
        v.push(format!("rm:{}:9", k));
        v.push(format!("rm:{}:0", k));
        v.push(format!("rmu:{}", k));
    }
    for i in 0..3 { v.push(format!("rmat:{}", i)); }
    v.push("sort".into());
    v
}

pub fn gen(out: &mut Out, thorough: bool, focus: &str) {
    let mut l = |s: String, out: &mut Out| crate::exec_line(&s, out);
    let ops = all_ops();
    // exhaustive: every history of length <= n over the op alphabet above (2 keys for the longest)
    let n = if thorough { 4 } else { 3 };
    let small: Vec<String> = ops.iter().filter(|o| !o.contains(":63")).cloned().collect();
    let small_refs: Vec<&str> = small.iter().map(|s| s.as_str()).collect();
    let mut lines = Vec::new();
    // histories are "op op op": all_strings concatenates, so add the separator to the alphabet
    let with_sp: Vec<String> = small_refs.iter().map(|s| format!(" {}", s)).collect();
    let with_sp_refs: Vec<&str> = with_sp.iter().map(|s| s.as_str()).collect();
    crate::parse::all_strings(&with_sp_refs, n, |s| { if !s.is_empty() { lines.push(format!("obj qb{}", s)); } });
    out.count_n("exhaustive_histories", lines.len() as u64);
    for s in lines.drain(..) { l(s, out); }
    out.exhaustive.push(format!("every history of length <= {} over {} operations on 2 keys x 2 values (push, push_front, insert/insert_front/remove with iterator consumed or dropped, remove_unique, remove_at 0..2, sort)", n, small.len()));
    // every history of length n+1 / n+2 whose prefix builds duplicates (seeded prefix), 3 keys
    let prefixes = ["push:61:n push:62:n push:61:#31; push:63:n push:61:t", "pushf:62:n push:62:t push:61:n pushf:61:f push:62:f", "new:61=n,62=t,61=f,61=n,63=n,62=n"];
    let all_refs: Vec<String> = ops.iter().map(|s| format!(" {}", s)).collect();
    let all_refs2: Vec<&str> = all_refs.iter().map(|s| s.as_str()).collect();
    for p in prefixes {
        crate::parse::all_strings(&all_refs2, if thorough { 3 } else { 2 }, |s| lines.push(format!("obj qb {}{}", p, s)));
    }
    out.count_n("seeded_prefix_histories", lines.len() as u64);
    for s in lines.drain(..) { l(s, out); }
    // keys on both sides of the UTF-16 / code point divergence (U+E000..U+FFFF against supplementary
    // planes), pushed in code point order, in UTF-16 order and interleaved, with duplicates: queries,
    // then the re-ordering oracles above
    for hist in ["push:ffff:n push:10000:t push:61:f", "push:61:n push:ffff:t push:10000:f push:ffff:n", "push:10000:n push:e000.61:t push:10000.62:f push:ff21.ff22:n",
                 "push:1f600:n push:ff77.ff70:t", "push:61:n push:ffff:t push:10000:f", "push:31:n push:ff21:t push:1f600:f push:1f601:n", "push:e000:n push:10000:t", "new:31=n,ff21=t,1f600=f,ff21=n pushf:e000:t", "push:10ffff:n push:ffff:t push:10ffff:f rm:ffff:9 push:fb01:n push:1d11e:t"] {
        l(format!("obj qb {}", hist), out);
    }
    // SCALE: keys as long as 2^8, 2^12, 2^16 bytes (hash of a truncated / capped key, inline buffers,
    // length counters), many occurrences of one key, many distinct keys — with every query after every
    // operation (flag q) for the long keys
    {
        let mut nh = 0u64;
        for klen in (if thorough { &[255usize, 256, 257, 4095, 4096, 4097, 5000, 65535, 65536, 65537, 100000][..] } else { &[256usize, 4096, 4097, 5000, 65537][..] }) {
            for unit in ["6b", "e9"] {
                let (k, k2, k3) = (format!("{}*{}", unit, klen), format!("{}*{}.78", unit, klen), format!("{}*{}", unit, klen - 1));
                l(format!("obj qb push:{k}:n push:{k2}:t push:{k}:#31; push:{k3}:f ins:{k}:t:9 push:{k}:n push:{k}:f rm:{k2}:9 insf:{k}:f:1 rmu:{k3} goi:{k}:t getmut:{k2}:n rm:{k}:0 rmat:0 push:{k}:t sort", k = k, k2 = k2, k3 = k3), out);
                l(format!("obj qb new:{k}=n,{k2}=t,{k}=f,{k3}=n ins:{k}:t:0 rm:{k}:9 push:{k2}:n rmu:{k2} ext:{k}=t,{k3}=f", k = k, k2 = k2, k3 = k3), out);
                nh += 2;
            }
        }
        for count in (if thorough { &[255usize, 256, 257, 4095, 4096, 4097, 5000, 9000][..] } else { &[257usize, 4097, 5000][..] }) {
            // `count` occurrences of one key among a few others, then removals inside the run
            let mut ops_s: Vec<String> = (0..*count).map(|i| if i % 1000 == 999 { format!("push:7a:#{:x};", 0x30 + i % 10) } else { format!("push:6b:#{:x};", 0x30 + i % 10) }).collect();
            ops_s.push(format!("rmat:{}", count / 2)); ops_s.push("rmat:3".into()); ops_s.push(format!("rmat:{}", count - 5)); ops_s.push("ins:6b:t:1".into()); ops_s.push("push:6b:n".into()); ops_s.push("rm:7a:9".into()); ops_s.push("goi:6b:f".into()); ops_s.push("rmu:6b".into()); ops_s.push("rm:6b:9".into());
            l(format!("obj xqb {}", ops_s.join(" ")), out);
            // `count` distinct keys, then removals, re-insertions and a sort
            let mut ops_s: Vec<String> = (0..*count).map(|i| format!("push:6b.{:x}:#31;", 0x100 + i)).collect();
            ops_s.push(format!("rmat:{}", count / 2)); ops_s.push("rmat:0".into()); ops_s.push(format!("rm:6b.{:x}:9", 0x100 + count - 1)); ops_s.push(format!("ins:6b.{:x}:t:9", 0x100 + count / 3)); ops_s.push(format!("push:6b.{:x}:f", 0x100 + count / 3)); ops_s.push(format!("goi:6b.{:x}:n", 0x100 + count - 2)); ops_s.push(format!("rmu:6b.{:x}", 0x100 + 1)); ops_s.push("sort".into()); ops_s.push(format!("rm:6b.{:x}:9", 0x100 + count / 3));
            l(format!("obj xb {}", ops_s.join(" ")), out);
            nh += 2;
        }
        out.count_n("scale_histories", nh);
    }
    // long random histories over many keys (several growth/rehash cycles of the table)
    let n_long = if thorough { 400 } else { 60 };
    for h in 0..n_long {
        let nkeys = if h % 3 == 0 { 200 } else { 40 };
        let len = if h % 3 == 0 { 1500 } else { 300 };
        let mut ops_s = Vec::new();
        for _ in 0..len {
            let k = format!("6b.{:x}", 0x30 + out.rng.below(nkeys));
            let v = *out.rng.pick(&["n", "t", "#31;", "[]", "s61;"]);
            let op = match out.rng.below(20) {
                0..=6 => format!("push:{}:{}", k, v),
                7 | 8 => format!("pushf:{}:{}", k, v),
                9 | 10 => format!("ins:{}:{}:{}", k, v, out.rng.pick(&[0, 1, 9])),
                11 => format!("insf:{}:{}:{}", k, v, out.rng.pick(&[0, 1, 9])),
                12 | 13 => format!("rm:{}:{}", k, out.rng.pick(&[0, 1, 9])),
                14 => format!("rmu:{}", k),
                15 | 16 => format!("rmat:{}", out.rng.below(60)),
                17 => format!("goi:{}:{}", k, v),
                18 => format!("getmut:{}:{}", k, v),
                _ => (*out.rng.pick(&["sort", "clone", "setv:3:t", "ext:6b.30=n,6b.31=t,6b.30=f"])).to_string(),
            };
            ops_s.push(op);
        }
        // queries over the whole universe after every op would be quadratic: dump buckets only
        l(format!("obj b {}", ops_s.join(" ")), out);
    }
    out.notes.insert("long_histories".into(), format!("{} random histories of 300-1500 ops over 40-200 distinct keys, bucket dump compared after every op", n_long));
    // grow-then-drain histories: the hash index grows with the number of distinct keys and may be
    // reorganised when the object empties again; fill to N distinct keys (plus some duplicates), then
    // remove everything from the front / the back / the middle / by key, then refill
    {
        let sizes: &[u64] = if thorough { &[7, 8, 9, 14, 15, 16, 28, 29, 30, 56, 57, 58, 112, 113, 114, 130, 224, 225, 449, 900] } else { &[8, 15, 20, 29, 57, 113, 130, 225] };
        let mut nh = 0;
        for &nk in sizes {
            for mode in 0..5 {
                let mut ops_s = Vec::new();
                for i in 0..nk { ops_s.push(format!("push:6b.{:x}:#31;", 0x100 + i)); if i % 9 == 4 { ops_s.push(format!("push:6b.{:x}:t", 0x100 + i / 2)); } }
                let total = nk + (nk + 4) / 9;
                for j in 0..total {
                    let remaining = total - j;
                    ops_s.push(match mode {
                        0 => "rmat:0".to_string(),
                        1 => format!("rmat:{}", remaining - 1),
                        2 => format!("rmat:{}", remaining / 2),
                        3 => if j % 2 == 0 { "rmat:0".to_string() } else { format!("rmat:{}", remaining - 1) },
                        _ => format!("rm:6b.{:x}:9", 0x100 + (j * 7) % nk),
                    });
                    // probe a few keys through the index after each removal (present and absent)
                    if remaining <= 40 || j % 5 == 0 {
                        ops_s.push(format!("goi:6b.{:x}:n", 0x100 + (nk - 1 - (j % nk))));
                        ops_s.push(format!("rm:6b.{:x}:0", 0x90));
                    }
                }
                for i in 0..6 { ops_s.push(format!("pushf:6b.{:x}:f", 0x100 + i * 3)); }
                ops_s.push("sort".into());
                l(format!("obj b {}", ops_s.join(" ")), out);
                nh += 1;
            }
        }
        out.notes.insert("grow_drain_histories".into(), format!("{} histories: fill to N distinct keys for N in {:?} (with duplicates), drain from the front / back / middle / both ends / by key with index probes after the removals, refill, sort; bucket dump compared after every op", nh, sizes));
    }
    // clone-then-diverge, bulk construction, value mutation
    for p in ["new:61=n,62=t,61=f clone push:61:n rm:61:9", "new:- ext:61=n,61=t,62=n setv:1:f getmut:61:#32; goi:63:n goi:61:n sort", "new:61=t,61=n,61=f sort", "new:62=n,61=[],61={},61=n,61=t,61=#31;,61=s; sort"] {
        l(format!("obj qb {}", p), out);
    }
    let _ = focus;
}
