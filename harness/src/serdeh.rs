//! serde family (C16, C17, C18).
//!   serde ser <SData>      the datum as a recording serializer saw it; reply = to_value(datum)
//!   serde toval <V>        to_value(&Value)
//!   serde fromval <V>      from_value::<Value>(Value) and serde_json::from_str::<Value> (oracle only)
//!   serde sj <V>           from_serde_json / into_serde_json
use crate::common::*;
use json_syntax::{Object, Print, Value};
use serde::{Deserialize, Serialize};
use std::collections::BTreeMap;

// ---------------------------------------------------------------------------------------------
// recording serializer: turns any Serialize datum into the SData notation of the Lean driver
// ---------------------------------------------------------------------------------------------

pub struct Rec;
#[derive(Debug)]
pub struct RecErr(String);
impl std::fmt::Display for RecErr { fn fmt(&self, f: &mut std::fmt::Formatter) -> std::fmt::Result { write!(f, "{}", self.0) } }
impl std::error::Error for RecErr {}
impl serde::ser::Error for RecErr { fn custom<T: std::fmt::Display>(m: T) -> Self { RecErr(m.to_string()) } }

fn float_text64(v: f64) -> String {
    match json_syntax::NumberBuf::try_from(v) { Ok(n) => format!("F{};", n.as_str()), Err(_) => "Fnull;".into() }
}
/// an f32 is written `G…;` (the model reads it as the same float datum; a line can then be re-executed
/// with the float of the right width)
fn float_text32(v: f32) -> String {
    match json_syntax::NumberBuf::try_from(v) { Ok(n) => format!("G{};", n.as_str()), Err(_) => "Gnull;".into() }
}

pub struct RecSeq { head: String, items: String }
pub struct RecMap { head: String, items: String }

impl serde::Serializer for Rec {
    type Ok = String;
    type Error = RecErr;
    type SerializeSeq = RecSeq;
    type SerializeTuple = RecSeq;
    type SerializeTupleStruct = RecSeq;
    type SerializeTupleVariant = RecSeq;
    type SerializeMap = RecMap;
    type SerializeStruct = RecMap;
    type SerializeStructVariant = RecMap;
    fn serialize_bool(self, v: bool) -> Result<String, RecErr> { Ok(if v { "b1".into() } else { "b0".into() }) }
    fn serialize_i8(self, v: i8) -> Result<String, RecErr> { Ok(format!("i{};", v)) }
    fn serialize_i16(self, v: i16) -> Result<String, RecErr> { Ok(format!("i{};", v)) }
    fn serialize_i32(self, v: i32) -> Result<String, RecErr> { Ok(format!("i{};", v)) }
    fn serialize_i64(self, v: i64) -> Result<String, RecErr> { Ok(format!("i{};", v)) }
    fn serialize_u8(self, v: u8) -> Result<String, RecErr> { Ok(format!("u{};", v)) }
    fn serialize_u16(self, v: u16) -> Result<String, RecErr> { Ok(format!("u{};", v)) }
    fn serialize_u32(self, v: u32) -> Result<String, RecErr> { Ok(format!("u{};", v)) }
    fn serialize_u64(self, v: u64) -> Result<String, RecErr> { Ok(format!("u{};", v)) }
    fn serialize_f32(self, v: f32) -> Result<String, RecErr> { Ok(float_text32(v)) }
    fn serialize_f64(self, v: f64) -> Result<String, RecErr> { Ok(float_text64(v)) }
    fn serialize_char(self, v: char) -> Result<String, RecErr> { Ok(format!("c{:x};", v as u32)) }
    fn serialize_str(self, v: &str) -> Result<String, RecErr> { Ok(format!("s{};", cps_inner(v))) }
    fn serialize_bytes(self, v: &[u8]) -> Result<String, RecErr> { Ok(format!("y{};", if v.is_empty() { "-".to_string() } else { hex_bytes(v) })) }
    fn serialize_none(self) -> Result<String, RecErr> { Ok("N".into()) }
    fn serialize_some<T: ?Sized + Serialize>(self, v: &T) -> Result<String, RecErr> { Ok(format!("S{}", v.serialize(Rec)?)) }
    fn serialize_unit(self) -> Result<String, RecErr> { Ok("U".into()) }
    fn serialize_unit_struct(self, _: &'static str) -> Result<String, RecErr> { Ok("X".into()) }
    fn serialize_unit_variant(self, _: &'static str, _: u32, variant: &'static str) -> Result<String, RecErr> { Ok(format!("V{};", cps_inner(variant))) }
    fn serialize_newtype_struct<T: ?Sized + Serialize>(self, _: &'static str, v: &T) -> Result<String, RecErr> { Ok(format!("W{}", v.serialize(Rec)?)) }
    fn serialize_newtype_variant<T: ?Sized + Serialize>(self, _: &'static str, _: u32, variant: &'static str, v: &T) -> Result<String, RecErr> { Ok(format!("w{};{}", cps_inner(variant), v.serialize(Rec)?)) }
    fn serialize_seq(self, _: Option<usize>) -> Result<RecSeq, RecErr> { Ok(RecSeq { head: "q[".into(), items: String::new() }) }
    fn serialize_tuple(self, _: usize) -> Result<RecSeq, RecErr> { Ok(RecSeq { head: "q[".into(), items: String::new() }) }
    fn serialize_tuple_struct(self, _: &'static str, _: usize) -> Result<RecSeq, RecErr> { Ok(RecSeq { head: "q[".into(), items: String::new() }) }
    fn serialize_tuple_variant(self, _: &'static str, _: u32, variant: &'static str, _: usize) -> Result<RecSeq, RecErr> { Ok(RecSeq { head: format!("T{};[", cps_inner(variant)), items: String::new() }) }
    fn serialize_map(self, _: Option<usize>) -> Result<RecMap, RecErr> { Ok(RecMap { head: "m[".into(), items: String::new() }) }
    fn serialize_struct(self, _: &'static str, _: usize) -> Result<RecMap, RecErr> { Ok(RecMap { head: "r[".into(), items: String::new() }) }
    fn serialize_struct_variant(self, _: &'static str, _: u32, variant: &'static str, _: usize) -> Result<RecMap, RecErr> { Ok(RecMap { head: format!("R{};[", cps_inner(variant)), items: String::new() }) }
}
macro_rules! rec_seq { ($tr:path, $m:ident) => {
    impl $tr for RecSeq {
        type Ok = String; type Error = RecErr;
        fn $m<T: ?Sized + Serialize>(&mut self, v: &T) -> Result<(), RecErr> { self.items.push_str(&v.serialize(Rec)?); Ok(()) }
        fn end(self) -> Result<String, RecErr> { Ok(format!("{}{}]", self.head, self.items)) }
    }
} }
rec_seq!(serde::ser::SerializeSeq, serialize_element);
rec_seq!(serde::ser::SerializeTuple, serialize_element);
rec_seq!(serde::ser::SerializeTupleStruct, serialize_field);
rec_seq!(serde::ser::SerializeTupleVariant, serialize_field);
impl serde::ser::SerializeMap for RecMap {
    type Ok = String; type Error = RecErr;
    fn serialize_key<T: ?Sized + Serialize>(&mut self, k: &T) -> Result<(), RecErr> { self.items.push_str(&k.serialize(Rec)?); Ok(()) }
    fn serialize_value<T: ?Sized + Serialize>(&mut self, v: &T) -> Result<(), RecErr> { self.items.push_str(&v.serialize(Rec)?); Ok(()) }
    fn end(self) -> Result<String, RecErr> { Ok(format!("{}{}]", self.head, self.items)) }
}
impl serde::ser::SerializeStruct for RecMap {
    type Ok = String; type Error = RecErr;
    fn serialize_field<T: ?Sized + Serialize>(&mut self, k: &'static str, v: &T) -> Result<(), RecErr> { self.items.push_str(&format!("{};{}", cps_inner(k), v.serialize(Rec)?)); Ok(()) }
    fn end(self) -> Result<String, RecErr> { Ok(format!("{}{}]", self.head, self.items)) }
}
impl serde::ser::SerializeStructVariant for RecMap {
    type Ok = String; type Error = RecErr;
    fn serialize_field<T: ?Sized + Serialize>(&mut self, k: &'static str, v: &T) -> Result<(), RecErr> { self.items.push_str(&format!("{};{}", cps_inner(k), v.serialize(Rec)?)); Ok(()) }
    fn end(self) -> Result<String, RecErr> { Ok(format!("{}{}]", self.head, self.items)) }
}

// ---------------------------------------------------------------------------------------------
// a family of derive-annotated types covering the data-model shapes the serializer implements
// ---------------------------------------------------------------------------------------------

#[derive(Serialize, Deserialize, PartialEq, Eq, PartialOrd, Ord, Debug, Clone, Copy)]
pub enum K { A, B, #[serde(rename = "c c")] C }
#[derive(Serialize, Deserialize, PartialEq, Debug, Clone)]
pub struct UnitS;
#[derive(Serialize, Deserialize, PartialEq, Debug, Clone)]
pub struct New(pub i32);
#[derive(Serialize, Deserialize, PartialEq, Debug, Clone)]
pub struct Tup(pub u8, pub String, pub Option<bool>);
#[derive(Serialize, Deserialize, PartialEq, Debug, Clone)]
pub enum E { Unit, New(u64), Tup(i8, String), Str { x: bool, y: Vec<u32> }, Nested(Box<E>), Opt(Option<K>) }
#[derive(Serialize, Deserialize, PartialEq, Debug, Clone)]
pub struct R { pub a: i64, pub b: Option<Box<R>>, pub c: Vec<E>, pub d: BTreeMap<String, u16>, pub e: (u16, char), pub f: (), pub g: String, pub h: UnitS, pub i: New, pub j: Tup }
#[derive(Serialize, Deserialize, PartialEq, Debug, Clone)]
pub struct Maps { pub by_int: BTreeMap<i32, String>, pub by_char: BTreeMap<char, u8>, pub by_variant: BTreeMap<K, bool>, pub by_u64: BTreeMap<u64, ()>, pub by_new: BTreeMap<NewKey, i8> }
#[derive(Serialize, Deserialize, PartialEq, Eq, PartialOrd, Ord, Debug, Clone)]
pub struct NewKey(pub String);
#[derive(Serialize, Deserialize, PartialEq, Debug, Clone)]
pub struct Ints { pub a: i8, pub b: i16, pub c: i32, pub d: i64, pub e: u8, pub f: u16, pub g: u32, pub h: u64 }
#[derive(Serialize, Deserialize, Debug, Clone)]
pub struct Floats { pub a: f32, pub b: f64, pub c: Vec<f64>, pub d: Option<f32> }

/// the type descriptor of each family type: what `probe::P` must reproduce
pub trait Desc { fn desc() -> crate::probe::DTy; }
fn pd(s: &str) -> crate::probe::DTy { crate::probe::parse_dty(s).expect("descriptor") }
fn n(s: &str) -> String { cps_inner(s) }
fn k_desc() -> String { format!("e[{};n{};n{};n]", n("A"), n("B"), n("c c")) }
fn e_desc(depth: usize) -> String {
    let nested = if depth == 0 { String::new() } else { format!("{};w{}", n("Nested"), e_desc(depth - 1)) };
    format!("e[{};n{};wU8{};t[I1s]{};r[{};b{};qU4]{}{};wo{}]", n("Unit"), n("New"), n("Tup"), n("Str"), n("x"), n("y"), nested, n("Opt"), k_desc())
}
fn r_desc(depth: usize) -> String {
    let b = if depth == 0 { "ob".to_string() } else { format!("o{}", r_desc(depth - 1)) };
    format!("r[{};I8{};{}{};q{}{};msU2{};t[U2c]{};n{};s{};N{};wI4{};T[U1sob]]", n("a"), n("b"), b, n("c"), e_desc(4), n("d"), n("e"), n("f"), n("g"), n("h"), n("i"), n("j"))
}
impl Desc for K { fn desc() -> crate::probe::DTy { pd(&k_desc()) } }
impl Desc for E { fn desc() -> crate::probe::DTy { pd(&e_desc(4)) } }
impl Desc for R { fn desc() -> crate::probe::DTy { pd(&r_desc(3)) } }
impl Desc for Maps { fn desc() -> crate::probe::DTy { pd(&format!("r[{};mI4s{};mcU1{};m{}b{};mU8n{};mwsI1]", n("by_int"), n("by_char"), n("by_variant"), k_desc(), n("by_u64"), n("by_new"))) } }
impl Desc for Ints { fn desc() -> crate::probe::DTy { pd(&format!("r[{};I1{};I2{};I4{};I8{};U1{};U2{};U4{};U8]", n("a"), n("b"), n("c"), n("d"), n("e"), n("f"), n("g"), n("h"))) } }
impl Desc for Floats { fn desc() -> crate::probe::DTy { pd(&format!("r[{};f4{};f8{};qf8{};of4]", n("a"), n("b"), n("c"), n("d"))) } }
impl Desc for (Vec<Option<K>>, BTreeMap<String, Vec<(u8, char)>>, [i16; 3], Option<u8>) { fn desc() -> crate::probe::DTy { pd(&format!("t[qo{}msqt[U1c]t[I2I2I2]oU1]", k_desc())) } }

/// the descriptor-driven client against the real derive-generated `Deserialize` of `T`
fn probe_vs_derive<T: Serialize + for<'de> Deserialize<'de> + Desc>(v: &Value, out: &mut Out) {
    use serde::de::DeserializeSeed;
    let ty = T::desc();
    let real = match json_syntax::from_value::<T>(v.clone()) { Ok(y) => format!("ok {}", y.serialize(Rec).unwrap_or_default().replace('G', "F")), Err(e) => format!("E {}", crate::probe::err_class(&e.to_string())) };
    let probe = crate::probe::show_de(&crate::probe::P(&ty).deserialize(v.clone()));
    let nm = |s: &str| -> String { match s.strip_prefix("ok ").and_then(crate::probe::parse_sd) { Some(d) => format!("ok {}", crate::probe::show_sd(&crate::probe::norm_maps(&d))), None => s.to_string() } };
    let (real, probe) = (nm(&real), nm(&probe));
    out.oracle(real == probe, "the descriptor-driven client deserializes like the derive-generated Deserialize of the same shape", || format!("{} at {}: derive {} / probe {}", show_value(v), crate::probe::show_dty(&ty), real, probe));
    out.count(if real.starts_with("ok") { "probe_vs_derive_ok" } else { "probe_vs_derive_err" });
}

fn feq64(a: f64, b: f64) -> bool { a.to_bits() == b.to_bits() || (a == 0.0 && b == 0.0) }
fn feq32(a: f32, b: f32) -> bool { a.to_bits() == b.to_bits() || (a == 0.0 && b == 0.0) }
impl PartialEq for Floats {
    fn eq(&self, o: &Self) -> bool {
        feq32(self.a, o.a) && feq64(self.b, o.b) && self.c.len() == o.c.len() && self.c.iter().zip(&o.c).all(|(x, y)| feq64(*x, *y))
            && match (self.d, o.d) { (None, None) => true, (Some(x), Some(y)) => feq32(x, y), _ => false }
    }
}

fn gs(rng: &mut Rng) -> String { crate::print::gen_string(rng) }
fn gen_k(rng: &mut Rng) -> K { *rng.pick(&[K::A, K::B, K::C]) }
fn gen_e(rng: &mut Rng, d: usize) -> E {
    match rng.below(if d > 2 { 5 } else { 6 }) {
        0 => E::Unit,
        1 => E::New(*rng.pick(&[0, 1, u64::MAX, 1 << 63, 12345678901234567890])),
        2 => E::Tup(*rng.pick(&[0, -1, i8::MIN, i8::MAX]), gs(rng)),
        3 => E::Str { x: rng.chance(1, 2), y: (0..rng.below(3)).map(|_| rng.next() as u32).collect() },
        4 => E::Opt(if rng.chance(1, 2) { Some(gen_k(rng)) } else { None }),
        _ => E::Nested(Box::new(gen_e(rng, d + 1))),
    }
}
fn gen_r(rng: &mut Rng, d: usize) -> R {
    R {
        a: *rng.pick(&[0, -1, i64::MIN, i64::MAX, 42]),
        b: if d < 2 && rng.chance(1, 2) { Some(Box::new(gen_r(rng, d + 1))) } else { None },
        c: (0..rng.below(3)).map(|_| gen_e(rng, 0)).collect(),
        d: (0..rng.below(3)).map(|_| (gs(rng), rng.next() as u16)).collect(),
        e: (rng.next() as u16, char::from_u32(rng.below(0x110000) as u32).unwrap_or('x')),
        f: (),
        g: gs(rng),
        h: UnitS,
        i: New(rng.next() as i32),
        j: Tup(rng.next() as u8, gs(rng), *rng.pick(&[None, Some(true), Some(false)])),
    }
}
fn gen_maps(rng: &mut Rng) -> Maps {
    Maps {
        by_int: (0..rng.below(3)).map(|_| (*rng.pick(&[0, -1, i32::MIN, i32::MAX, 7]), gs(rng))).collect(),
        by_char: (0..rng.below(3)).map(|_| (*rng.pick(&['a', '"', '\u{0}', 'é', '😀', '\\']), rng.next() as u8)).collect(),
        by_variant: (0..rng.below(3)).map(|_| (gen_k(rng), rng.chance(1, 2))).collect(),
        by_u64: (0..rng.below(3)).map(|_| (*rng.pick(&[0, u64::MAX, 1 << 53]), ())).collect(),
        by_new: (0..rng.below(3)).map(|_| (NewKey(gs(rng)), rng.next() as i8)).collect(),
    }
}
fn gen_ints(rng: &mut Rng) -> Ints {
    let e = rng.below(3);
    let pick = |lo: i128, hi: i128, r: u64| -> i128 { match e { 0 => lo, 1 => hi, _ => lo + (r as i128 % (hi - lo + 1)) } };
    Ints { a: pick(i8::MIN as i128, i8::MAX as i128, rng.next()) as i8, b: pick(i16::MIN as i128, i16::MAX as i128, rng.next()) as i16, c: pick(i32::MIN as i128, i32::MAX as i128, rng.next()) as i32, d: pick(i64::MIN as i128, i64::MAX as i128, rng.next()) as i64,
           e: pick(0, u8::MAX as i128, rng.next()) as u8, f: pick(0, u16::MAX as i128, rng.next()) as u16, g: pick(0, u32::MAX as i128, rng.next()) as u32, h: pick(0, u64::MAX as i128, rng.next()) as u64 }
}
/// k·10^e for one-digit k: the doubles whose shortest spelling has a single significant digit (the
/// spellings `1e10`, `4e-7`, … that exercise exponent forms without a fraction)
fn short_decimal(rng: &mut Rng, emin: i32, emax: i32) -> f64 {
    let k = 1 + rng.below(9) as i32;
    let e = emin + rng.below((emax - emin + 1) as u64) as i32;
    let x: f64 = format!("{}e{}", k, e).parse().unwrap_or(1.0);
    if rng.chance(1, 2) { -x } else { x }
}
fn gen_f64(rng: &mut Rng, finite: bool) -> f64 {
    loop {
        if rng.chance(1, 8) { let x = short_decimal(rng, -323, 308); if x.is_finite() { return x; } }
        // doubles that are exactly a single (widened f32 data), doubles with few mantissa bits
        if rng.chance(1, 8) { let x = f64::from(gen_f32(rng, true)); return if rng.chance(1, 4) { x * 3.0 } else { x }; }
        if rng.chance(1, 16) { let x = f64::from_bits(rng.next() & !((1u64 << rng.below(52)) - 1)); if x.is_finite() { return x; } }
        let x = match rng.below(6) { 0 => *rng.pick(&[0.0, -0.0, 1.0, -1.5, 1e21, 1e-7, f64::MAX, f64::MIN_POSITIVE, 5e-324, 0.1, 1e16, 0.10000000149011612, 0.3333333432674408, f64::EPSILON]), 1 if !finite => *rng.pick(&[f64::NAN, f64::INFINITY, f64::NEG_INFINITY]), _ => f64::from_bits(rng.next()) };
        if !finite || x.is_finite() { return x; }
    }
}
fn gen_f32(rng: &mut Rng, finite: bool) -> f32 {
    loop {
        if rng.chance(1, 6) { let x = short_decimal(rng, -45, 38) as f32; if x.is_finite() { return x; } }
        let x = match rng.below(6) { 0 => *rng.pick(&[0.0, -0.0, 1.0, 3.4028235e38, 1e-45, 0.1, 16777216.0]), 1 if !finite => *rng.pick(&[f32::NAN, f32::INFINITY]), _ => f32::from_bits(rng.next() as u32) };
        if !finite || x.is_finite() { return x; }
    }
}
fn gen_floats(rng: &mut Rng, finite: bool) -> Floats {
    Floats { a: gen_f32(rng, finite), b: gen_f64(rng, finite), c: (0..rng.below(3)).map(|_| gen_f64(rng, finite)).collect(), d: if rng.chance(1, 2) { Some(gen_f32(rng, finite)) } else { None } }
}

/// "same JSON shape": same structure, strings, booleans, nulls and keys; integers equal; a float is
/// only required to be a number on both sides (serde_json renders an f32 through its f64 value,
/// json-syntax with the f32's own shortest digits — the values are compared by the round trips).
fn same_shape(a: &Value, b: &Value) -> bool {
    match (a, b) {
        (Value::Number(x), Value::Number(y)) => { let (ix, iy) = ((x.as_i64(), x.as_u64()), (y.as_i64(), y.as_u64())); let int = |p: (Option<i64>, Option<u64>)| p.0.is_some() || p.1.is_some(); if int(ix) && int(iy) { ix == iy } else { true } }
        (Value::Array(x), Value::Array(y)) => x.len() == y.len() && x.iter().zip(y).all(|(p, q)| same_shape(p, q)),
        (Value::Object(x), Value::Object(y)) => x.len() == y.len() && x.entries().iter().all(|e| y.get(e.key.as_str()).any(|w| same_shape(&e.value, w))),
        (p, q) => p == q,
    }
}

fn one<T: Serialize + for<'de> Deserialize<'de> + PartialEq + std::fmt::Debug + Desc>(x: &T, roundtrip: bool, out: &mut Out, lines: &mut Vec<(String, String)>) {
    let sdata = match x.serialize(Rec) { Ok(s) => s, Err(e) => { out.oracle(false, "recording serializer", || e.to_string()); return; } };
    let v = json_syntax::to_value(x);
    let reply = match &v { Ok(v) => format!("ok {}", show_value(v)), Err(e) => show_ser_err(e) };
    out.cur = format!("serde ser {}", sdata);
    lines.push((format!("serde ser {}", sdata), reply));
    // serializability agrees with serde_json (both accept, or both refuse: e.g. non-string map keys
    // that neither can render)
    {
        let sj_ok = serde_json::to_value(x).is_ok();
        out.oracle(v.is_ok() == sj_ok, "to_value(x) succeeds exactly when serde_json::to_value(x) does", || format!("json-syntax {} / serde_json ok={}", reply_brief(&v), sj_ok));
    }
    if let Ok(v) = v {
        probe_vs_derive::<T>(&v, out);
        for _ in 0..2 { let w = crate::probe::mutate_value(&mut out.rng, &v); probe_vs_derive::<T>(&w, out); }
        if roundtrip {
            match json_syntax::from_value::<T>(v.clone()) {
                Ok(y) => out.oracle(&y == x, "from_value(to_value(x)) = x", || format!("{:?} -> {} -> {:?}", x, show_value(&v), y)),
                Err(e) => out.oracle(false, "from_value(to_value(x)) succeeds", || format!("{:?} -> {}: {}", x, show_value(&v), e)),
            }
        }
        // the way out to serde_json, through both entry points (inherent method, From impl): what
        // serde_json deserializes from the converted value is the datum again
        if roundtrip {
            for (name, sjv) in [("into_serde_json", v.clone().into_serde_json()), ("From<Value> for serde_json::Value", serde_json::Value::from(v.clone()))] {
                match serde_json::from_value::<T>(sjv.clone()) {
                    Ok(y) => out.oracle(&y == x, "serde_json::from_value(to_value(x) converted to serde_json) = x", || format!("{}: {:?} -> {} -> {:?}", name, x, sjv, y)),
                    Err(e) => out.oracle(false, "serde_json::from_value of the converted value succeeds", || format!("{}: {}: {}", name, sjv, e)),
                }
            }
        }
        match serde_json::to_value(x) {
            Ok(sj) => {
                let w = Value::from_serde_json(sj);
                out.oracle(same_shape(&v, &w), "to_value(x) has the JSON shape serde_json produces", || format!("json-syntax {} / serde_json {}", show_value(&v), show_value(&w)));
                if roundtrip {
                    match json_syntax::from_value::<T>(w.clone()) {
                        Ok(y) => out.oracle(&y == x, "from_value(from_serde_json(serde_json::to_value(x))) = x", || format!("{:?} via {}", x, show_value(&w))),
                        Err(e) => out.oracle(false, "deserializing serde_json's rendering succeeds", || format!("{}: {}", show_value(&w), e)),
                    }
                }
            }
            Err(_) => {}
        }
    }
}

fn reply_brief(v: &Result<Value, json_syntax::SerializeError>) -> String {
    match v { Ok(_) => "ok".into(), Err(e) => show_ser_err(e) }
}

pub fn show_ser_err(e: &json_syntax::SerializeError) -> String {
    match e {
        json_syntax::SerializeError::Custom(m) => format!("E custom {}", m.replace(' ', "_")),
        json_syntax::SerializeError::NonStringKey => "E nonstringkey".into(),
        json_syntax::SerializeError::MalformedHighPrecisionNumber => "E malformed".into(),
    }
}

fn number_value_eq(a: &str, b: &str) -> (bool, bool) {
    // (same integer or same double, digits>19 class)
    let many = a.chars().filter(|c| c.is_ascii_digit()).count() > 19;
    if let (Ok(x), Ok(y)) = (a.parse::<i128>(), b.parse::<i128>()) { return (x == y, many); }
    let (x, y) = (a.parse::<f64>().unwrap_or(f64::NAN), b.parse::<f64>().unwrap_or(f64::NAN));
    (x == y || (x.is_infinite() && b == "null"), many)
}
/// structure equal, numbers denote the same integer or double; returns (ok, hit_known_class)
fn same_numbers(a: &Value, b: &Value, known: &mut bool) -> bool {
    match (a, b) {
        (Value::Number(x), Value::Number(y)) => { let (ok, many) = number_value_eq(x.as_str(), y.as_str()); if !ok && many { *known = true; true } else { ok } }
        (Value::Number(x), Value::Null) => x.as_str().parse::<f64>().map_or(false, |f| f.is_infinite()),
        (Value::Array(x), Value::Array(y)) => x.len() == y.len() && x.iter().zip(y).all(|(p, q)| same_numbers(p, q, known)),
        (Value::Object(x), Value::Object(y)) => x.len() == y.len() && x.entries().iter().zip(y.entries()).all(|(e, f)| e.key == f.key && same_numbers(&e.value, &f.value, known)),
        (p, q) => p == q,
    }
}
fn same_numbers_unordered(a: &Value, b: &Value, known: &mut bool) -> bool {
    match (a, b) {
        (Value::Array(x), Value::Array(y)) => x.len() == y.len() && x.iter().zip(y).all(|(p, q)| same_numbers_unordered(p, q, known)),
        (Value::Object(x), Value::Object(y)) => x.len() == y.len() && x.entries().iter().all(|e| y.get(e.key.as_str()).next().map_or(false, |w| same_numbers_unordered(&e.value, w, known))),
        (p, q) => same_numbers(p, q, known),
    }
}
fn dedup_last(v: &Value) -> Value {
    // duplicate keys collapse to the first position holding the last value; -0 integer literal loses its sign
    match v {
        Value::Array(a) => Value::Array(a.iter().map(dedup_last).collect()),
        Value::Object(o) => {
            let mut n = Object::new();
            for e in o.entries() { let _ = n.insert(e.key.clone(), dedup_last(&e.value)); }
            Value::Object(n)
        }
        Value::Number(x) if x.as_str() == "-0" => Value::Number(0u8.into()),
        other => other.clone(),
    }
}

pub fn exec(rest: &str, out: &mut Out) -> (String, bool) {
    let a: Vec<&str> = rest.split(' ').collect();
    match (a[0], a.len()) {
        ("toval", 2) => {
            let v = match parse_value(a[1]) { Some(v) => v, None => return ("bad-op".into(), false) };
            let r = json_syntax::to_value(&v);
            let reply = match &r { Ok(w) => format!("ok {}", show_value(w)), Err(e) => show_ser_err(e) };
            if has_token_key(&v) && r.as_ref().map_or(true, |w| *w != dedup_last(&v)) {
                out.known("C17-number-token-key");
                return (reply, false);
            }
            match &r {
                Ok(w) => out.oracle(*w == dedup_last(&v), "to_value(&value) reproduces the value (duplicates collapse to first position / last value; integer -0 may lose its sign)", || format!("{} -> {}", show_value(&v), show_value(w))),
                Err(e) => out.oracle(false, "to_value(&value) succeeds for every value", || format!("{}: {}", show_value(&v), e)),
            }
            (reply, r.is_ok())
        }
        ("fromval", 2) => {
            let v = match parse_value(a[1]) { Some(v) => v, None => return ("bad-op".into(), false) };
            let mut known = false;
            match json_syntax::from_value::<Value>(v.clone()) {
                Ok(w) => out.oracle(same_numbers(&dedup_last(&v), &w, &mut known) && !known, "deserializing a Value from a Value: same structure, every number the same integer or double (long decimals included: correctly rounded)", || format!("{} -> {}", show_value(&v), show_value(&w))),
                Err(e) => out.oracle(false, "from_value::<Value> succeeds", || e.to_string()),
            }
            // through a self-describing deserializer reading JSON text: the numbers are the ones that
            // deserializer reads (serde_json rejects magnitudes beyond f64 and, without its
            // float_roundtrip feature, is itself not correctly rounded — neither is json-syntax's doing)
            let text = v.compact_print().to_string();
            match (serde_json::from_str::<Value>(&text), serde_json::from_str::<serde_json::Value>(&text)) {
                (Ok(w), Ok(sj)) => {
                    let want = Value::from_serde_json(sj);
                    let mut k2 = false;
                    out.oracle(same_numbers_unordered(&want, &w, &mut k2) && !k2, "deserializing a Value from JSON text (serde_json) = what serde_json reads from that text", || format!("{} -> {} / serde_json {}", text, show_value(&w), show_value(&want)));
                }
                (Err(_), Err(_)) => { out.count("text_rejected_by_serde_json"); }
                (a, b) => out.oracle(false, "serde_json::from_str::<json_syntax::Value> succeeds exactly when serde_json accepts the text", || format!("{}: {:?} vs {:?}", text, a.is_ok(), b.is_ok())),
            }
            ("ok".into(), true)
        }
        ("ser", 2) => {
            // replayed from a line (corpus / replay files): the datum is rebuilt from its notation
            // (`G…;` = an f32) and given to the real serializer
            let d = match crate::probe::parse_sd(a[1]) { Some(d) => d, None => return ("bad-op".into(), false) };
            match json_syntax::to_value(&d) { Ok(v) => (format!("ok {}", show_value(&v)), true), Err(e) => (show_ser_err(&e), true) }
        }
        ("rt", _) | ("de", _) | ("fromvalm", _) | ("fromobj", _) => crate::probe::exec(&a, out),
        ("sj", 2) | ("sj", 3) => {
            let v = match parse_value(a[1]) { Some(v) => v, None => return ("bad-op".into(), false) };
            // json-syntax -> serde_json -> json-syntax
            let nonfinite = has_nonfinite(&v);
            {
                let r1 = std::panic::catch_unwind(|| crate::ord::rebuilt(&v).into_serde_json()).ok();
                let r0 = std::panic::catch_unwind(|| v.clone().into_serde_json()).ok();
                out.oracle(r0 == r1, "into_serde_json depends on the content only (value rebuilt with heap-backed buffers)", || show_value(&v));
            }
            let sj = std::panic::catch_unwind(|| v.clone().into_serde_json());
            match sj {
                Err(_) => {
                    out.oracle(false, "into_serde_json never panics", || show_value(&v));
                    let _ = nonfinite;
                    ("PANIC".into(), false)
                }
                Ok(sj) => {
                    let back = Value::from_serde_json(sj.clone());
                    // the trait entry points are the same conversions
                    {
                        let via_from = std::panic::catch_unwind(|| serde_json::Value::from(v.clone()));
                        let via_into: Result<serde_json::Value, _> = std::panic::catch_unwind(|| v.clone().into());
                        out.oracle(via_from.as_ref().map_or(false, |x| *x == sj) && via_into.as_ref().map_or(false, |x| *x == sj), "From<Value> for serde_json::Value / Into = into_serde_json", || format!("{} -> {:?}", show_value(&v), via_from.as_ref().map(|x| x.to_string())));
                        let b2 = Value::from(sj.clone());
                        let b3: Value = sj.clone().into();
                        out.oracle(b2 == back && b3 == back, "From<serde_json::Value> for Value / Into = from_serde_json", || format!("{} -> {}", sj, show_value(&b2)));
                    }
                    if in_domain(&v) {
                        out.oracle(crate::canon::same_shape_pub(&v, &back), "json-syntax -> serde_json -> json-syntax: equal up to entry order and number spelling", || format!("{} -> {}", show_value(&v), show_value(&back)));
                        out.count("sj_in_domain");
                    }
                    // serde_json -> json-syntax -> serde_json is the identity
                    let again = back.clone().into_serde_json();
                    out.oracle(again == sj, "serde_json -> json-syntax -> serde_json: equal", || format!("{} vs {}", sj, again));
                    (format!("ok {}", show_value(&back)), true)
                }
            }
        }
        _ => ("bad-op".into(), false),
    }
}
/// The float leg of the number conversion, evaluated on the DEPENDENCIES alone (std's correctly
/// rounded `str::parse::<f64>`, `serde_json::Number::from_f64` and its `Display`) for every number of
/// `v` that is not a `u64` / `i64` literal: `text=printed` (`!` = no serde_json number). The model's
/// integer dispatch and structure handling stay its own.
pub fn sj_table(v: &Value) -> String {
    fn walk(v: &Value, acc: &mut Vec<String>) {
        match v {
            Value::Number(n) => {
                let t = n.as_str();
                if t.parse::<u64>().is_err() && t.parse::<i64>().is_err() {
                    let r = t.parse::<f64>().ok().and_then(serde_json::Number::from_f64).map(|x| x.to_string());
                    let e = format!("{}={}", cps_inner(t), r.map_or("!".to_string(), |x| cps_inner(&x)));
                    if !acc.contains(&e) { acc.push(e); }
                }
            }
            Value::Array(a) => a.iter().for_each(|x| walk(x, acc)),
            Value::Object(o) => o.entries().iter().for_each(|e| walk(&e.value, acc)),
            _ => (),
        }
    }
    let mut acc = Vec::new();
    walk(v, &mut acc);
    if acc.is_empty() { "-".into() } else { acc.join(",") }
}
pub fn sj_request(v: &Value) -> String { format!("serde sj {} {}", show_value(v), sj_table(v)) }
/// the same from a value in line notation
fn sj_line(notation: &str) -> String {
    match parse_value(notation) { Some(v) => sj_request(&v), None => format!("serde sj {}", notation) }
}
fn has_token_key(v: &Value) -> bool {
    match v {
        Value::Array(a) => a.iter().any(has_token_key),
        Value::Object(o) => o.entries().first().map_or(false, |e| e.key.as_str() == "$serde_json::private::Number") || o.entries().iter().any(|e| has_token_key(&e.value)),
        _ => false,
    }
}
fn has_nonfinite(v: &Value) -> bool {
    match v {
        Value::Number(n) => n.as_u64().is_none() && n.as_i64().is_none() && !n.as_str().parse::<f64>().map_or(false, |f| f.is_finite()),
        Value::Array(a) => a.iter().any(has_nonfinite),
        Value::Object(o) => o.entries().iter().any(|e| has_nonfinite(&e.value)),
        _ => false,
    }
}
fn in_domain(v: &Value) -> bool {
    match v {
        Value::Number(n) => n.as_u64().is_some() || n.as_i64().is_some() || (n.as_str().parse::<f64>().map_or(false, |f| f.is_finite()) && (n.as_str().contains('.') || n.as_str().contains('e') || n.as_str().contains('E'))),
        Value::Array(a) => a.iter().all(in_domain),
        Value::Object(o) => { let mut ks: Vec<&str> = o.entries().iter().map(|e| e.key.as_str()).collect(); ks.sort(); ks.windows(2).all(|w| w[0] != w[1]) && o.entries().iter().all(|e| in_domain(&e.value)) }
        _ => true,
    }
}

pub fn gen(out: &mut Out, thorough: bool, focus: &str) {
    let n = if thorough { 200000 } else { 3000 };
    if focus == "C16" {
        let mut lines: Vec<(String, String)> = Vec::new();
        for i in 0..n {
            match i % 8 {
                0 | 1 => { let x = gen_r(&mut out.rng, 0); one(&x, true, out, &mut lines); }
                2 => { let x = gen_maps(&mut out.rng); one(&x, true, out, &mut lines); }
                3 => { let x = gen_ints(&mut out.rng); one(&x, true, out, &mut lines); }
                4 => { let x = gen_floats(&mut out.rng, true); one(&x, true, out, &mut lines); }
                5 => { let x = gen_floats(&mut out.rng, false); one(&x, false, out, &mut lines); }
                6 => { let x = gen_e(&mut out.rng, 0); one(&x, true, out, &mut lines); }
                _ => { let x: (Vec<Option<K>>, BTreeMap<String, Vec<(u8, char)>>, [i16; 3], Option<u8>) = ((0..out.rng.below(3)).map(|_| if out.rng.chance(1, 2) { Some(gen_k(&mut out.rng)) } else { None }).collect(), (0..out.rng.below(3)).map(|_| (gs(&mut out.rng), vec![(out.rng.next() as u8, 'x')])).collect(), [1, -2, i16::MIN], if out.rng.chance(1, 2) { Some(7) } else { None }); one(&x, true, out, &mut lines); }
            }
            for (req, reply) in lines.drain(..) {
                out.cur = req.clone();
                out.record(&req, &reply, true);
            }
        }
        // keys that are not strings, bytes, the number token by hand
        let extra: Vec<(String, String)> = vec![
            { let m: BTreeMap<bool, u8> = [(true, 1)].into_iter().collect(); (m.serialize(Rec).unwrap(), match json_syntax::to_value(&m) { Ok(v) => format!("ok {}", show_value(&v)), Err(e) => show_ser_err(&e) }) },
            { let m: BTreeMap<Option<u8>, u8> = [(None, 1)].into_iter().collect(); (m.serialize(Rec).unwrap(), match json_syntax::to_value(&m) { Ok(v) => format!("ok {}", show_value(&v)), Err(e) => show_ser_err(&e) }) },
            { let m: BTreeMap<(u8, u8), u8> = [((1, 2), 1)].into_iter().collect(); (m.serialize(Rec).unwrap(), match json_syntax::to_value(&m) { Ok(v) => format!("ok {}", show_value(&v)), Err(e) => show_ser_err(&e) }) },
            { let m: BTreeMap<String, &str> = [("$serde_json::private::Number".to_string(), "12.50e3")].into_iter().collect(); (m.serialize(Rec).unwrap(), match json_syntax::to_value(&m) { Ok(v) => format!("ok {}", show_value(&v)), Err(e) => show_ser_err(&e) }) },
            { let m: BTreeMap<String, &str> = [("$serde_json::private::Number".to_string(), "abc")].into_iter().collect(); (m.serialize(Rec).unwrap(), match json_syntax::to_value(&m) { Ok(v) => format!("ok {}", show_value(&v)), Err(e) => show_ser_err(&e) }) },
            { let m: BTreeMap<String, u8> = [("$serde_json::private::Number".to_string(), 1)].into_iter().collect(); (m.serialize(Rec).unwrap(), match json_syntax::to_value(&m) { Ok(v) => format!("ok {}", show_value(&v)), Err(e) => show_ser_err(&e) }) },
            { let m: Vec<(&str, u8)> = vec![("a", 1)]; (m.serialize(Rec).unwrap(), match json_syntax::to_value(&m) { Ok(v) => format!("ok {}", show_value(&v)), Err(e) => show_ser_err(&e) }) },
        ];
        for (sd, reply) in extra { let req = format!("serde ser {}", sd); out.cur = req.clone(); out.record(&req, &reply, true); }
        crate::probe::gen(out, thorough, "C16");
        out.notes.insert("types".into(), "R (recursive struct with Option<Box<R>>, Vec<enum>, map, tuple, unit, unit struct, newtype, tuple struct), E (unit/newtype/tuple/struct/nested variants), Maps (keys: i32, char, unit variant, u64, newtype(String)), Ints (all 8 widths at bounds), Floats (random bit patterns f32/f64, non-finite), tuples/arrays/options".into());
        return;
    }
    let mut l = |s: String, out: &mut Out| crate::exec_line(&s, out);
    if focus == "C17" {
        for nn in ["0", "-0", "1", "-1", "9223372036854775807", "-9223372036854775808", "9223372036854775808", "18446744073709551615", "18446744073709551616", "-9223372036854775809", "123456789012345678901234567890", "1e5", "1E5", "-1e-5", "0e0", "1.0", "-0.0", "1.5e300", "1e400", "0.1", "123456789012345678.901234567890", "4.14673952822385274921803532e91", "1.00000000000000000000001"] {
            l(format!("serde toval #{};", cps_inner(nn)), out);
            l(format!("serde fromval #{};", cps_inner(nn)), out);
            l(format!("serde toval [{{k61;#{};}}]", cps_inner(nn)), out);
        }
        l(format!("serde toval {{k{};s31.2e.35;}}", cps_inner("$serde_json::private::Number")), out);
        l(format!("serde toval [{{k{};s78;}}]", cps_inner("$serde_json::private::Number")), out);
        for _ in 0..n {
            let v = if out.rng.chance(1, 2) { crate::print::gen_value(&mut out.rng, 0, 3) } else { crate::canon::gen_ijson(&mut out.rng, 0, 3) };
            let s = show_value(&v);
            l(format!("serde toval {}", s), out);
            l(format!("serde fromval {}", s), out);
        }
        crate::probe::gen(out, thorough, "C17");
        return;
    }
    // C18
    for nn in ["0", "-0", "18446744073709551615", "-9223372036854775808", "18446744073709551616", "-0.0", "0.0", "5e-324", "1.7976931348623157e308", "1e400", "-1e400", "2.2250738585072014e-308", "1e-400", "0.1", "1e5"] {
        l(sj_line(&format!("#{};", cps_inner(nn))), out);
        l(sj_line(&format!("[#{};]", cps_inner(nn))), out);
    }
    // serde_json numbers at the edges of its three representations, alone and nested
    {
        let edge: Vec<serde_json::Value> = vec![
            serde_json::json!(u64::MAX), serde_json::json!(u64::MAX - 1), serde_json::json!(i64::MAX as u64 + 1), serde_json::json!(i64::MAX),
            serde_json::json!(i64::MIN), serde_json::json!(i64::MIN + 1), serde_json::json!(-1), serde_json::json!(0), serde_json::json!(1u64 << 53), serde_json::json!((1u64 << 53) + 1),
            serde_json::json!(-0.0), serde_json::json!(0.0), serde_json::json!(5e-324), serde_json::json!(-5e-324), serde_json::json!(2.2250738585072014e-308),
            serde_json::json!(f64::MAX), serde_json::json!(f64::MIN), serde_json::json!(1e21), serde_json::json!(1e-7), serde_json::json!(18446744073709551616.0), serde_json::json!(-9223372036854775808.0), serde_json::json!(0.1),
        ];
        for e in &edge {
            for sj in [e.clone(), serde_json::json!([e.clone()]), serde_json::json!({ "k": [e.clone(), { "n": e.clone() }] })] {
                let v = Value::from_serde_json(sj.clone());
                out.cur = format!("serde sj {}", show_value(&v));
                let again = std::panic::catch_unwind(|| v.clone().into_serde_json());
                let ok = again.as_ref().map_or(false, |x| *x == sj);
                out.oracle(ok, "serde_json -> json-syntax -> serde_json: equal", || format!("{} -> {:?}", sj, again.as_ref().map(|x| x.to_string())));
                out.count("sj_edge_numbers");
            }
        }
    }
    // plain decimals of every shape: every fraction length up to 44 x every count of zeros after the
    // point (a conversion with a fast path keyed on the digit count or on a power-of-ten table is
    // decided at one such shape), with and without integer digits
    for frac in 1..=(if thorough { 60usize } else { 44 }) {
        for zeros in 0..frac {
            for rep in 0..(if thorough { 6 } else { 2 }) {
                let sig = frac - zeros;
                let nn = crate::canon::plain_decimal(&mut out.rng, if rep % 2 == 0 { 0 } else { 1 + (zeros + rep) % 3 }, zeros, sig);
                l(sj_line(&format!("{}#{};{}", if rep == 1 { "[" } else { "" }, cps_inner(&nn), if rep == 1 { "]" } else { "" })), out);
                out.count("plain_decimal_shapes");
            }
        }
    }
    for i in 0..n {
        let v = if i % 3 == 0 { crate::print::gen_value(&mut out.rng, 0, 3) } else { crate::canon::gen_ijson(&mut out.rng, 0, 3) };
        l(sj_request(&v), out);
        // values built FROM serde_json (all three number representations)
        if i % 4 == 0 {
            let f = gen_f64(&mut out.rng, true);
            let sj = serde_json::json!({ "u": out.rng.next(), "i": -((out.rng.next() >> 1) as i64), "f": f, "s": gs(&mut out.rng), "a": [null, true, { "k": [] }] });
            let v = Value::from_serde_json(sj.clone());
            let again = std::panic::catch_unwind(|| v.clone().into_serde_json());
            let ok = again.as_ref().map_or(false, |x| *x == sj);
            out.cur = format!("serde sj {}", show_value(&v));
            out.oracle(ok, "serde_json -> json-syntax -> serde_json: equal", || format!("{}", sj));
            l(sj_request(&v), out);
        }
    }
}
