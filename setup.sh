#!/bin/sh
# One-time build after a fresh restore (offline): Lean model + theorems + driver, Rust harness.
set -e
cd "$(dirname "$0")"
export CARGO_NET_OFFLINE=true
python3 tools/extract_tables.py || true
(cd lean && lake build JsonVerif jsvdriver)
(cd harness && cargo build --release --offline)
# unoptimised build of the same binary: C03 runs its deep / long documents through both
(cd harness && cargo build --offline) || true
echo "setup done"
