#!/bin/bash
# tools/confirm_seed.sh <Cxx> <seed_out dir> <scratch worktree>
# Independent confirmation of a seeded change in a scratch worktree (never /repo):
#  (1) patch applies to HEAD, (2) builds, (3) pinned test suite passes with it,
#  (4) demo fails with it, (5) demo passes without it.  Writes <seed_out dir>/confirm.json
set -u
id=$1; so=$2; wt=$3
export CARGO_NET_OFFLINE=true
cd "$wt" || exit 2
case "$wt" in /repo*|/verif*) echo "refusing to work in $wt"; exit 2;; esac
git checkout -q -- . ; git clean -fdq -e target
git apply "$so/patch.diff" || { echo "patch does not apply"; exit 2; }
feat=$(python3 -c "import json,sys; print(json.load(open('$so/meta.json')).get('features','--all-features'))")
cargo test --workspace --no-fail-fast --offline >"$so/suite_with.log" 2>&1; suite=$?
cp "$so/demo.rs" tests/seed_demo.rs
cargo test --offline $feat --test seed_demo >"$so/demo_with.log" 2>&1; with=$?
git checkout -q -- .   # undo the change, keep the demo
cargo test --offline $feat --test seed_demo >"$so/demo_without.log" 2>&1; without=$?
rm -f tests/seed_demo.rs
passed=$(grep -h "^test result" "$so/suite_with.log" | awk '{s+=$4} END{print s}')
echo "{\"id\":\"$id\",\"suite_exit_with_change\":$suite,\"suite_passed_with_change\":$passed,\"demo_exit_with_change\":$with,\"demo_exit_without_change\":$without}" > "$so/confirm.json"
cat "$so/confirm.json"
[ $suite -eq 0 ] && [ $with -ne 0 ] && [ $without -eq 0 ] && echo CONFIRMED || echo NOT-CONFIRMED
