"""Per-property configuration of ./check (what to regenerate, what the evidence says)."""

COMMON_TRUST = [
    "rustc/cargo, the Rust standard library, and the crates json-syntax depends on (exercised, not modelled, unless stated)",
]

def c14_projection(case, reply):
    parts = reply.split(" ")
    if reply.startswith("eq="):
        return "%s cmpEq=%s" % (parts[0], parts[1] == "cmp=eq")
    if len(parts) == 3 and all(x in ("lt", "eq", "gt") for x in parts):
        ab, bc, ac = parts
        le = lambda x: x != "gt"
        ok = (not (le(ab) and le(bc)) or le(ac)) and (not (ab == "lt" and bc == "lt") or ac == "lt") and \
             (not (ab == "eq" and bc == "eq") or ac == "eq")
        return "transitive=%s" % ok
    return reply


def c06_projection(case, reply):
    """everything except the internal bucket dump (the last #-segment of each per-operation reply)"""
    flags = case.split(" ")[1] if case.startswith("obj ") and len(case.split(" ")) > 1 else ""
    if "b" not in flags:
        return reply
    return " | ".join(seg.rsplit("#", 1)[0] for seg in reply.split(" | "))


def c04_projection(case, reply):
    """the printed text with the whitespace outside string literals removed: what the round trip
    (and 'options only change insignificant whitespace') determines; the layout itself is C13's"""
    if not reply or reply in ("PANIC", "skip", "bad-op", "-"):
        return reply
    try:
        cps = [int(x, 16) for x in reply.split(".")]
    except ValueError:
        return reply
    out, instr, esc = [], False, False
    for c in cps:
        if instr:
            out.append(c)
            if esc:
                esc = False
            elif c == 0x5c:
                esc = True
            elif c == 0x22:
                instr = False
        else:
            if c in (0x20, 0x09, 0x0a, 0x0d):
                continue
            out.append(c)
            if c == 0x22:
                instr = True
    return ".".join("%x" % c for c in out)


def number_value_projection(case, reply):
    """numbers compared as exact decimal values (spelling is not what C16 determines: `16777216`
    and `16777216.0` are the same number; `null` in place of a number is not)"""
    import re
    from decimal import Decimal, InvalidOperation
    def norm(m):
        try:
            text = "".join(chr(int(x, 16)) for x in m.group(1).split("."))
            d = Decimal(text)
            return "#<%s>" % (d.normalize() if d != 0 else Decimal(0))
        except (ValueError, InvalidOperation):
            return m.group(0)
    return re.sub(r"#([0-9a-f]+(?:\.[0-9a-f]+)*);", norm, reply)


def c16_projection(case, reply):
    """C16 fixes the round trip of well-typed data (and the shape of what to_value builds, numbers by
    value); what an ill-typed or hand-made value deserializes to (`serde de` lines: error kinds,
    acceptance) is the model's business, not the property's"""
    if case.startswith("serde de "):
        return ""
    return number_value_projection(case, reply)


def c17_projection(case, reply):
    """serialization: exact spelling is part of the property; deserialization (`fromvalm`): same
    structure, numbers by value"""
    if case.startswith("serde fromvalm "):
        return number_value_projection(case, reply)
    return reply


def c03_projection(case, reply):
    """accept / reject / abnormal end: which error a rejected input gets is C07's business"""
    head = reply.split(" ")[0]
    return head if head in ("ok", "E", "PANIC", "CRASH", "skip") else reply


PROPS = {
    "C20": dict(
        tables=["kind"],
        determined=True,
        exhaustive=True,
        technique="Lean 4 theorems by kernel evaluation over the complete 64-set domain (decide +kernel) + induction over interleavings; model regenerated from kind.rs masks and tied by exhaustive differential execution",
        level_text=("Every clause of the property is a Lean theorem over the whole finite domain (all 64 sets, all operand pairs, all kinds), "
                    "checked by the kernel on a model whose mask table and row order are regenerated from src/kind.rs on every run; iteration is "
                    "lifted to every interleaving of front/back steps by induction. The model is tied to the code by executing the complete "
                    "domain through the public API and comparing every reply (exhaustive, not sampled). Full strength: the domain is finite."),
        level_note=("Trusted: Lean kernel (axioms: propext only), the regex table extractor, the hand-written transcription of the kind_set! macro body "
                    "(validated exhaustively against the real code on every run), derived Debug printing the raw bits."),
        rule=("complete finite domain through the public API: all 64 sets x 64 sets (| &), 64 x 6 set/kind in both operand "
              "orders, 6 x 6 kinds, and per set len/is_empty/three renderings/every front-back interleaving of |s|+1 steps; "
              "a case is non-trivial when no operand is the empty set (and operands differ for set pairs); distinct = distinct request lines"),
        strength="full: every clause is a kernel-checked theorem over the whole 64-set domain (decide +kernel), iteration lifted to all interleavings by induction",
        trusted_base=COMMON_TRUST + ["derived Debug of KindSet prints the raw bits (used as the canonical observable)"],
        assumptions=["KindSet values are only built through the public API (the u8 field is private), hence range over the 64 subsets"],
    ),

    "C01": dict(
        tables=["parse"],
        determined=True,
        projection=lambda case, reply: reply.split(" ")[0] if reply.startswith("ok ") else ("E" if reply.startswith("E ") else reply),
        technique="Lean 4 theorem: the model of the strict parser accepts a text iff it is derivable in RFC 8259's grammar (stated as an inductive relation transcribed from the ABNF) — soundness and completeness by induction, via a refinement explicit-stack machine = recursive descent; plus stream-error/ill-formed-UTF-8 rejection and entry-point equalities; model tied to the code by bounded-exhaustive differential execution through every entry point, with an independent recogniser as second oracle",
        level_text=('FULL proof on the model. C01_accepts_iff_rfc8259: for every text, the string entry point of the modelled strict parser accepts iff the text is a JSON-text of RFC 8259 (GDoc: `ws value ws`, every production of the ABNF transcribed one for one as an inductive relation in Spec/Grammar.lean; \\u escapes must denote well-formed UTF-16). Both directions, all texts, no bound: soundness and completeness are proved through two hub theorems — machine_eq_rd (the explicit-stack loop of Value::parse_in computes the same result as a textbook recursive-descent parser over the same lexers, for every input) and rd_sound / rd_complete (recursive descent = grammar; the number automaton and the string scanner are proved equal to the `number` and `string` productions state by state). C01_slice_accepts_iff: the byte entry point accepts exactly the well-formed UTF-8 encodings of JSON-texts; a stream ending in a decoding error is never accepted; all entry points agree. The model is tied to /repo by differential execution of the verdict through every entry point (bounded-exhaustive alphabets, automaton transition covers, corpus edits, character-class aliasing, UTF-8 byte sequences, grammar-directed documents) and an independent recogniser runs as a second oracle.'),
        level_note=("Trusted: Lean kernel; hand-written model of src/parse/*.rs validated by correspondence on ~1.6M inputs per run; the harness's reference recogniser; "
                    "std core::str::from_utf8 modelled by utf8Dec (validated on all 2-byte and structured longer sequences)."),
        rule=("request = one input text/byte string + option record; verdict projection (accept / reject). Streams: bounded-exhaustive character alphabet and token alphabet, "
              "number-automaton transition cover, literal deviations, string-element sequences, \\uXXXX sweep, surrogate pairs, raw scalars, corpus edits/truncations, grammar-directed + damaged documents, "
              "UTF-8 byte sequences, failing streams. Non-trivial = accepted input; distinct = distinct request lines"),
        strength='full on the model: accepts iff RFC 8259 (soundness + completeness, all texts); UTF-8 layer and entry-point agreement proved; tie to the code by correspondence',
        trusted_base=COMMON_TRUST + ["std core::str::from_utf8 = utf8Dec (modelled, validated by the byte streams)", "harness reference recogniser (harness/src/refjson.rs), written from RFC 8259"],
        assumptions=["the character-iterator entry points are given iterators that deliver the text's characters (any iterator is modelled as a finite list plus a may-fail flag)"],
    ),
    "C03": dict(
        tables=["parse"],
        determined=True,
        projection_determined=lambda case, reply: c03_projection(case, reply),

        technique="Lean 4: termination proof of the explicit-stack machine, iteration bound 2n+2, no-panic invariant over code-map indices; runtime observation of deep nesting (depth up to 2e6) in a 256 KiB-stack child process",
        level_text=("PARTIAL proof (by nature of the property). Proved in Lean for every input, every option record: the parsing machine (one arm per arm of the Rust loop, its only recursion a tail call, "
                    "nesting kept in an explicit stack) terminates (well-founded measure accepted by the kernel), needs at most 2*|input|+2 loop iterations, consumes every character exactly once on success, "
                    "and never reaches the only panic site of the parser (end_fragment's unwrap) — invariant: every code-map index held by the machine is below the code map's length. "
                    "What a model cannot exhibit — real stack depth of the compiled code, aborts in dependencies — is observed: arrays/objects/mixed nestings of depth 10^3..2*10^5 (thorough 2*10^6), closed and unclosed, and completed deep values followed by a syntax error (after the document; inside an enclosing array: the case repaired by fix: 9a28305, where rejected values used to be dropped recursively on the parser's stack), are parsed and "
                    "traversed in a thread with a fixed 256 KiB stack inside a child process — once in the optimised build and once in an UNOPTIMISED build of the same child (an optimiser may turn a self-recursive call into a loop and hide a stack depth that grows with the input), together with long whitespace runs at every grammar position, indented documents, long strings / numbers / item lists; random bytes, prefixes and single-byte edits of the corpus go through the byte entry point under all four option records with catch_unwind; "
                    "a counting iterator checks that no more characters are pulled than exist."),
        level_note="Trusted: Lean kernel; model validated by correspondence; runtime stack behaviour is tested, not proved. Traverse = pre-order is proved under C11 (when claimed).",
        rule="deep documents (kind, depth, closed) ; counting-iterator documents and prefixes ; random byte strings ; corpus prefixes/edits ; failing streams. Non-trivial = accepted; distinct request lines",
        strength="partial: totality, step bound, no-panic proved on the model; stack usage observed at run time",
        trusted_base=COMMON_TRUST + ["the OS delivering a stack overflow as a signal to the child process"],
        assumptions=["Drop/Clone/Print of Value are recursive by design and outside the property (values are leaked in the deep-nesting child)"],
        timeout=3600,
    ),
    "C12": dict(
        tables=["parse"],
        determined=True,
        technique='Lean 4 theorems: conservative extension for whole documents (no option-dependent branch on a strict-successful run) and exactness of the lenient semantics at the string scanner — for every option record, accepted string literals are exactly an explicit extension of the RFC 8259 string production by two one-option-each element kinds, each denoting one U+FFFD (both directions, by induction over the scanner loop with a pending-high state); tied to the code by exhaustive differential execution over element sequences under all four option records and an independent two-pass reference',
        level_text=('Proof on the model of both sentences of the property. (1) Conservative extension, whole documents: C12_conservative — for every character stream (well-formed or failing) and every option record, whatever strict mode accepts is accepted with the identical value and code map (run_mono: no option-dependent branch is taken on a successful strict run); presets regenerated from the source (strict = default = all false, flexible = all true). (2) Exactness, at the only place where the options are consulted — the string scanner, values and keys alike: C12_string_exact — under ANY option record the scanner accepts a literal and returns str iff the literal is an LString o denoting str, where LString o (Spec/Lenient.lean) is the RFC 8259 string production extended by exactly two element kinds: a high-surrogate escape not directly followed by a low-surrogate escape (iff accept_truncated_surrogate_pair) and a low-surrogate escape not preceded by a high one (iff accept_invalid_codepoints), each denoting exactly one U+FFFD; a high escape directly followed by a low escape is one scalar under every option record. Both directions, every string, no bound (strLoopO_sound / strLoopO_complete: induction over the scanner loop including the pending-high state; strStepO_trunc: with the truncation option a pending high followed by anything but a low escape behaves exactly as U+FFFD followed by that input). C12_strict_adds_nothing, C12_monotone (options independent and monotone), C12_lone_high_needs_trunc. Not a separate Lean theorem: the lifting of (2) from strings to whole documents (the container layer never reads the options; it is the same code under all records). Tie to /repo: the full result under all four option records is compared with the model and with an independent two-pass reference exhaustively over every sequence of <= 3 (thorough 4) string elements from {high escapes, low escapes, ordinary escapes, raw BMP/non-BMP chars, truncated escape} in value and key position, all 65,536 \\uXXXX, plus the C01 streams.'
                    " (3) Exactness for WHOLE DOCUMENTS: C12_document_exact — under ANY option record o the parser accepts a text with value v if and only if the text is an LDoc o with content v (Spec/LGrammar.lean: the RFC 8259 grammar of Spec/Grammar.lean word for word, with every string — value or key, at any depth — an LString o literal); proved by re-running the soundness and completeness proofs of the recursive-descent layer for an arbitrary record (Lemmas/LGramSound.lean, LGramComplete.lean) on top of machine_eq_rd; C12_strict_is_rfc8259 (both options off: LDoc = the RFC 8259 grammar), C12_document_conservative (every RFC 8259 text keeps its content under every record; the content under a record is unique)."),
        level_note="Trusted: Lean kernel; model validated by correspondence; the harness's two-pass reference for the lenient semantics.",
        rule="request = text + option record, full result projection (value, code map, error). Non-trivial = accepted; distinct request lines",
        strength='full on the model: conservative extension and exact lenient semantics proved for whole documents under every option record (accepts with value v iff LDoc o text v); tie to the code by correspondence',
        trusted_base=COMMON_TRUST + ["harness reference (refjson.rs) for the lenient surrogate policy"],
        assumptions=[],
    ),

    "C13": dict(
        tables=["print"],
        determined=True,
        technique="Lean 4 theorem P by mutual structural induction: the two-phase printer (size pre-computation + emission) equals the documented layout for all values, option records and indentations; byte-for-byte differential execution against the model and an independent reference printer",
        level_text=("FULL proof on the model. Theorem C13_layout: for every value, every option record and every starting indentation the code's two-phase printer (model of pre_compute_size / fmt_with_size, "
                    "including the sizes[*index] bookkeeping, which is proved never to go out of bounds) outputs exactly specPrint, the documented layout written directly (one line iff all children are and "
                    "the one-line form respects the item/width limit, width = number of characters printed, *_empty spacing for empty containers, otherwise one child per line at depth*unit). "
                    "C13_width: the measured width is the printed width. C13_nolimit + C13_presets (on the presets regenerated from the source): inline/compact never add a line break. "
                    "The model is tied to the code by byte-for-byte comparison of real output, model output and an independent reference printer over generated values x option records "
                    "(every numeric field 0..3, Spaces 0..4/Tabs 0..2, every Limit variant with thresholds straddling the actual widths) and a full grid on a fixed value."),
        level_note="Trusted: Lean kernel; hand-written model of src/print/mod.rs validated by correspondence each run; extractor for the three presets; fmt::Formatter = string concatenation.",
        rule=("request = option record + value; reply = printed text. Values generated from the repo's value type (controls, quotes, non-BMP, duplicate/empty keys, nesting <= 5), options as described; "
              "non-trivial = output is multi-line or longer than 6 chars; distinct request lines. distribution.array_object_spacing_differs / expanded_output show how many cases exercised the distinguishing conditions"),
        strength="full on the model (theorem P); model-to-code tie by differential execution",
        trusted_base=COMMON_TRUST + ["harness reference printer (harness/src/print.rs), written from the documentation"],
        assumptions=["numbers print as their stored text (Display of NumberBuf)"],
    ),
    "C08": dict(
        tables=["print"],
        determined=True,
        technique="Lean 4 theorem: compact printing = reference serializer (corollary of theorem P specialised to the regenerated compact preset) + escaping table lemma; exhaustive sweep of Unicode scalars through the four API routes",
        level_text=("FULL proof on the model. C08_compact: for every value, printing with the compact preset (regenerated from Options::compact() on every run and proved to have every spacing 0 and no limit) "
                    "equals refSerialize, the direct RFC 8785-style serializer (no whitespace, ',' ':' separators, numbers verbatim, strings minimally escaped); C08_escape gives the per-character escaping table "
                    "(\\\" \\\\ \\b \\t \\n \\f \\r, lowercase \\u00xx below U+0020, everything else raw). Tie to the code: byte-for-byte comparison of compact_print, Display, to_string and String::from with the model and with an "
                    "independent reference serializer for every scalar value below U+3000 and every 3rd above as a one-character string and key (thorough: every scalar), plus generated nested values."),
        level_note="Trusted: Lean kernel; model validated by correspondence; preset extractor.",
        rule="request = compact/other preset + value (one-character strings/keys for every scalar in the sweep; generated values); non-trivial as C13; distinct request lines",
        strength="full on the model; tie by differential execution",
        trusted_base=COMMON_TRUST + ["harness reference serializer"],
        assumptions=[],
    ),
    "C04": dict(
        tables=["print", "parse"],
        determined=True,
        projection_determined=lambda case, reply: c04_projection(case, reply),

        technique="Lean 4 theorem: for every value (with JSON numbers), print-option record, indentation and parse-option record, the modelled printer's output is parsed back to the same value by the modelled parser — via (i) printer = layout specification, (ii) every layout is a whitespace-interleaving of the value's tokens, (iii) every such interleaving is derivable in the RFC 8259 grammar with that value, (iv) completeness of the parser; models tied to the code by differential execution (printed bytes; strict re-parse of the real output)",
        level_text=("FULL proof on the model. C04_round_trip: for every value whose numbers are JSON numbers (NumsOk — the guard NumberBuf::new enforces), every print option record, every starting indentation and every parse option record, printWith returns a text (never panics) and parseStr maps it back to exactly that value (entry order, duplicate keys, every character of every string, every number spelling). C04_printed_is_json: the text is a JSON-text of RFC 8259 denoting the value. Proof chain, all unbounded: printer_eq_spec (two-phase printer = layout specification), spec_interleave (any layout = the value's token sequence with JSON whitespace between tokens only; C04_only_whitespace_partial), interleave_gdoc (any such interleaving is in the grammar with content v; string literals via escapeChar_gelem: every escape the printer writes is a `char` production denoting that character), parse_complete. Tie to /repo: printed bytes compared with the model for every generated value x option record, and the real output re-parsed by the real strict parser must equal the original."),
        level_note=('Trusted: Lean kernel; hand-written models of printer and parser validated by correspondence on every run; assumption NumsOk (numbers are JSON numbers).'),
        rule="as C13; every case additionally re-parsed by the real strict parser",
        strength='full on the model: parse(print(v)) = v for all values/options; tie to the code by correspondence',
        trusted_base=COMMON_TRUST,
        assumptions=["values carry valid JSON numbers (enforced by NumberBuf::new; new_unchecked is unsafe)"],
    ),

    "C06": dict(
        tables=[],
        determined=True,
        projection_determined=lambda case, reply: c06_projection(case, reply),

        technique='Lean 4: index invariant (every bucket = the exact ascending positions of its key) proved preserved by EVERY mutating operation of the public API, each with its plain-list refinement, then lifted to every operation sequence by induction (C06_reachable); all key queries proved equal to the linear scan under the invariant; model tied to the code by exhaustive short and long random operation histories comparing results, entries, every key query and the hash-index bucket dump (cfg hook) after every operation',
        level_text=('FULL proof on the model. Model: entries list + hash-index buckets (a ghost key per bucket stands for the hash chain; a lookup finds a bucket only through the chain AND the equality test on entries[rep].key, which is what makes a stale index observable) and every Object operation written from index_map.rs / object/mod.rs, including the three removal iterators (consumed or dropped half-way: Drop finishes). Invariant Inv: bucket keys pairwise distinct; every bucket lists exactly the ascending positions of its key, representative first; every present key has a bucket. Proved: Inv holds for the empty object and any from_vec, and is preserved — with no panic and with the stated plain-list refinement and result — by push/push_entry, push_front/push_entry_front (shift_up then insert), remove_at (Indexes::remove, bucket deletion, shift_down), remove(key), remove_unique, insert (overwrite first, remove later duplicates, return old+removed), insert_front, get_or_insert_with, extend/from_iter, sort (index rebuilt), value mutation; C06_reachable lifts this to every finite sequence of operations by induction; C06_queries: under Inv contains_key, index_of, redundant_index_of, indexes_of, get/get_entries equal the linear scan of the entries and never panic. Tie to /repo: every history of length <= 3 (thorough 4) over 26 operations on 2 keys x 2 values, extensions of duplicate-rich prefixes, and long random histories over 40-200 keys (growth/rehash cycles), comparing after EVERY operation the result, the entries, every key query for every key and the bucket dump (cfg(json_syntax_verif) hook) with the model, plus a plain-Vec oracle.'),
        level_note="Trusted: Lean kernel; hashbrown RawTable + ahash behave as a hash table for a deterministic hash of the key (ghost key abstraction); Rust's stable sort_by = List.mergeSort; model validated by correspondence incl. bucket dumps.",
        rule="request = one operation history; after every op: result, entries, key queries over the history's key universe, sorted bucket dump. Non-trivial = history creates duplicate keys or has > 2 ops; distinct request lines",
        strength='full on the model: invariant + plain-list refinement for every mutating operation, lifted to all operation sequences; all queries = linear scan; tie to the code by correspondence',
        trusted_base=COMMON_TRUST + ["hashbrown::raw::RawTable, ahash (hash table semantics)", "plain-Vec reference semantics in harness/src/obj.rs"],
        assumptions=["remove_unique on a duplicated key returns Err(Duplicate) AND removes all entries with that key (the iterator's Drop completes the removal); the documentation is silent, the list semantics follows `remove`"],
        timeout=3600,
    ),
    "C14": dict(
        tables=[],
        determined=True,
        # the property fixes equality and the LAWS of the order, not which total order it is: what it
        # determines of a reply is the eq flag, "cmp is Equal", and whether the triple is transitive
        projection_determined=lambda case, reply: c14_projection(case, reply),

        technique="Lean 4 theorems by mutual structural induction: the derived lexicographic order on values is reflexive, antisymmetric (swap law), transitive, Equal iff equal; Object eq/cmp/hash read entries only; differential execution of ==, cmp, partial_cmp on pairs/triples with near-copies and on history pairs with a fixed-key hasher",
        level_text=("FULL proof on the model. For the model of the derived Ord on Value/Entry/Object (variant rank, false<true, numbers and strings by bytes, arrays/objects lexicographic with proper prefix first, entries by key then value): "
                    "C14_refl, C14_eq_iff (Equal exactly when equal), C14_antisymm (cmp b a = swap (cmp a b): exactly one of <,=,> holds), C14_trans and C14_le_trans, for ALL pairs and triples of arbitrarily nested values; "
                    "C14_content: eq/cmp/hash input of objects are functions of the entry list alone (independent of the index buckets, hence of the history). "
                    "Tie to the code: ==, cmp, partial_cmp compared with the model on all pairs/triples of a 25-value pool and on generated values with near-copies (one leaf, key or position changed); on the real code hash equality of equal values, "
                    "clones, and objects with equal entries reached through different operation histories (500+ random history pairs) under a fixed-key hasher."),
        level_note="Trusted: Lean kernel; #[derive(PartialOrd, Ord, Hash, PartialEq)] expand to the lexicographic definitions the model writes; smallstr/NumberBuf compare as their bytes (UTF-8 byte order = code point order); validated by correspondence.",
        rule="request = pair / triple of values or a pair of operation histories; reply = eq flag and comparison results. Non-trivial = the values differ (pairs), all triples, history pairs with equal entries; distinct request lines",
        strength="full on the model; hashing is content-only by construction of the model and checked on the real code",
        trusted_base=COMMON_TRUST + ["derive macros of std"],
        assumptions=[],
    ),

    "C15": dict(
        tables=[],
        determined=True,
        technique='Lean 4 theorem: the model of unordered_eq (greedy one-to-one matching with matched flags) holds iff the values are equal up to permutation of object entries at every depth (inductive relation PermEq) — soundness and completeness, the latter from PermEq being an equivalence (proved through core List.Perm) — hence unordered_eq is an equivalence relation; model tied to the code by exhaustive differential execution on small objects with duplicates and generated nested values',
        level_text=("FULL proof on the model. C15_exact: for all values, any nesting, any duplicate keys, ueq a b = true iff PermEq a b, where PermEq (Spec/PermEq.lean) says: scalars equal, arrays pointwise in order, objects related when the entries of one are a permutation of entries with equal keys and related values of the other, matched one-to-one (multiplicities count). Soundness by induction; completeness of the greedy matching (each entry of self takes the FIRST not-yet-paired entry of other with the same key and a related value — the code after the fix: commit for duplicate multiplicities) from PermEq being symmetric and transitive (PermEq.symm / PermEq.trans, proved by characterising PermEqM through core's List.Perm and a pointwise relation and moving permutations across it). C15_equivalence: unordered_eq is reflexive, symmetric and transitive; C15_of_eq: implied by ordinary equality. Tie to /repo: every pair of objects with <= 3 entries over 2 keys x 2 values (all multiplicity patterns) and generated nested values with shuffled / mutated copies are run through the real unordered_eq in both directions and compared with the model; an independent multiset-based oracle runs on the real code."),
        level_note="Trusted: Lean kernel; model validated by correspondence; sorted-normal-form reference in harness/src/ueq.rs; get_entries_with_index = ascending positions of the key (C06).",
        rule="request = pair of values; reply = unordered_eq. Non-trivial = values differ structurally; distinct request lines. distribution.equal_but_reordered counts accepted pairs that are not ==",
        strength='full on the model: unordered_eq = equality up to permutation (both directions), equivalence relation; tie to the code by correspondence',
        trusted_base=COMMON_TRUST + ["harness normal-form reference"],
        assumptions=[],
    ),

    "C09": dict(
        tables=["print"],
        determined=True,
        technique="Lean 4 theorems: canonical member order is the UTF-16 total order, sorted at every depth, members preserved, compact print = reference serializer; the number rendering is an explicit hypothesis tested against an independent ES6/IEEE reference",
        level_text=("PARTIAL proof. Proved in Lean for all values (model of canonicalize_with after the two fix: commits; the number canonicalizer nc is an opaque parameter): the comparison used to sort members is a total order "
                    "(total, transitive, antisymmetric — the latter via injectivity of UTF-16 encoding on scalar values) on keys compared as UTF-16 code-unit sequences (C09_total_order, C09_utf16_witness: U+10000 before U+E000); "
                    "the canonical value has every object sorted by it at every depth (C09_sorted_partial) and each object is a rearrangement of its canonicalized members (C09_members_partial); compact printing of the result is the minimal-escape, no-whitespace reference serializer (C09_print). C09_characterisation states the whole of RFC 8785 3.2 except the rendering of one number declaratively and with uniqueness: the canonical value is the input with every number respelled by nc, up to member order at every depth (nothing dropped, added or merged), all numbers canonical, every object sorted by UTF-16 units — and it is the ONLY value with these three properties (nc idempotent). "
                    "NOT provable with what is installed: nc = ES6 shortest round-trip rendering of the nearest double (IEEE-754 rounding of arbitrary decimals + shortest-digit generation live in two dependencies and have no formalisation here). "
                    "It is stated as C09_number_hypothesis and tested on every run: 30k (thorough 200k) number spellings — 18-40 digit decimals, near-halfway spellings, subnormals, the 1e21/1e-6 thresholds, RFC 8785 vectors — "
                    "against correctly rounded str::parse + an ECMA-262 layout written independently, with exact-tie resolution by integer arithmetic; and whole I-JSON values against an independent JCS serializer."),
        level_note="Trusted: Lean kernel; model validated by correspondence (numbers through a per-request table produced by the real code); Rust std float parsing/formatting as the number oracle; ryu-js, json-number not modelled.",
        rule="request = value (+ table spelling->canonical for its numbers); reply = canonical value. Streams: RFC vectors, number spellings, all ordered key pairs over 11 boundary characters, generated I-JSON values (keys across the U+E000..U+FFFF / supplementary region), some non-I-JSON values. Non-trivial = containers; distinct request lines",
        strength="partial only by the dependency: ordering, structure, escaping proved with a uniqueness characterisation; the rendering of a number (ryu-js / json-number) is a tested hypothesis",
        trusted_base=COMMON_TRUST + ["Rust std `str::parse::<f64>` is correctly rounded; `{:e}` prints shortest round-trip digits", "ryu-js / json-number (opaque)"],
        assumptions=["C09_number_hypothesis: nc n = ES6 rendering of the double nearest to n"],
    ),
    "C10": dict(
        tables=[],
        determined=True,
        technique="Lean 4 theorems: canonicalization is idempotent (sorted fixed point), invariant under permutation of members at any depth (unique sorted permutation under a total antisymmetric order), preserves everything but number spellings and member order; number-spelling invariance is a hypothesis tested by exact respellings",
        level_text=("PARTIAL proof. Proved in Lean for all values: C10_idempotent (given nc idempotent): canonicalizing twice = once, because the result is sorted at every depth with fixed-point numbers and such values are fixed points; "
                    "C10_member_order / C10_permutation: values equal up to permutation of object entries at ANY depth (the PermEq relation of C15) have identical canonical forms (a sorted permutation under a total antisymmetric order is unique); "
                    "C10_preserves: null/bool/string untouched, arrays mapped item-wise in order, objects keep their size and multiset of keys. "
                    "C10_order_and_numbers: member order at any depth AND number spelling together — two values that are PermEq once every number is replaced by its nc-spelling canonicalize identically (canon_mapNumbers). "
                    "C10_documents / C10_whitespace_and_escapes: the document-level clause — for two texts whose grammar contents (GDoc, the relation of C01/C02, in which whitespace and the choice of escapes are the only freedom for a fixed content) are equal up to member order and number spelling, parsing under every option record succeeds on both and canonicalize-then-compact-print is byte-identical (composition with parse_complete). "
                    "What remains a hypothesis is only the behaviour of the opaque number canonicalizer (idempotent; equal on numerically equal spellings), tested with exact respellings (exponent shifts, trailing zeros, E/e/+). The whitespace/escape clause is additionally "
                    "tested end-to-end (pretty print + \\u-escape rewriting + re-parse + canonicalize); key lookups after canonicalization are tested on every generated case and follow from C06_sort for the model."),
        level_note="Trusted: as C09.",
        rule="as C09; every I-JSON case is additionally canonicalized twice, deep-shuffled, respelled, re-escaped and queried by key on the real code",
        strength="partial only by the dependency: idempotence, member order, whitespace/escapes (document level) proved; the number canonicalizer (ryu-js/json-number) enters as a tested hypothesis",
        trusted_base=COMMON_TRUST,
        assumptions=["nc idempotent; nc equal on numerically equal spellings"],
    ),

    "C02": dict(
        tables=["parse"],
        determined=True,
        projection=lambda case, reply: " ".join(reply.split(" ")[:2]) if reply.startswith("ok ") else "E",
        technique='Lean 4 theorems: the value returned by the modelled parser is the content the RFC 8259 grammar relation assigns to the text (soundness), every valid document is parsed to its content under every option record (completeness + conservativity), and that content is unique; key lookups from the C06 object invariant; model tied to the code by differential execution of the decoded value and an independent reference decoder',
        level_text=('FULL proof on the model. GDoc text v (Spec/Grammar.lean) assigns to each JSON-text its abstract content: items and members in source order with duplicates kept, strings as the characters denoted by their `char` productions (two-character escapes, \\uXXXX, a high+low surrogate escape pair as one scalar, raw characters as themselves), numbers as their spelling, literals as themselves. C02_value_is_content: whatever the strict parser returns for a text is that content; C02_content_is_parsed: every JSON-text is parsed to its content under every option record; C02_content_unique: the content is unique. All for every text, no bound (hub theorems machine_eq_rd, rd_sound, rd_complete, run_mono). C02_lookup: on an object built by pushing entries in source order get/get_entries return exactly the entries carrying the key in source order and index_of the first (C06 invariant). Tie to /repo: the decoded value of the real parser is compared with the model and with an independent decoder on all 65,536 \\uXXXX escapes, surrogate pairs (every 17th; thorough: all 1,048,576), raw scalars (every 13th; thorough: all), all backslash+ASCII pairs, bounded-exhaustive document streams, grammar-directed documents with duplicate keys; every keyed lookup on every object of every parsed document is compared with the reference entries.'),
        level_note=('Trusted: Lean kernel; model validated by correspondence; the grammar relation of Spec/Grammar.lean as the reading of RFC 8259 (\\u escapes as UTF-16; unpaired surrogates denote nothing); harness reference decoder (second oracle).'),
        rule="request = text + options; value projection (`ok <value>`). Non-trivial = accepted; distinct request lines",
        strength='full on the model: parsed value = grammar content for every text, uniqueness, lookups; tie to the code by correspondence',
        trusted_base=COMMON_TRUST + ["harness reference decoder"],
        assumptions=[],
    ),
    "C05": dict(
        tables=["parse"],
        determined=True,
        projection=lambda case, reply: reply.split(" ")[2] if reply.startswith("ok ") and len(reply.split(" ")) > 2 else ("ok" if reply.startswith("ok") else "E"),
        technique='Lean 4 theorem: the code map built by the modelled parser equals the code map the RFC 8259 derivation of the text induces (a span-annotated copy of the grammar relation): pre-order, one entry per value/entry/key, exact byte spans, subtree-size volumes — by induction through the recursive-descent refinement, including the in-place patching of container entries; model tied to the code by differential execution of the full code map and an independent reference',
        level_text=("FULL proof on the model. SDoc text v cm (Spec/Spans.lean) is the RFC 8259 grammar relation annotated with byte offsets: cm lists in pre-order one entry per value, per object entry and per key; each span is exactly the bytes of the fragment's own text (an entry: first byte of its key to last byte of its value; never surrounding whitespace; offsets in bytes of the UTF-8 text); each volume is the number of entries in that subtree. C05_codemap_is_spec: for every text, whatever the strict parser returns is that code map (rd_span: induction over the recursive-descent refinement carrying positions and the code map as a list, including end_fragment's in-place update of the container's reserved slot; transported to the explicit-stack loop by machine_eq_rd). C05_every_document: every valid document gets it under every option record. C05_volumes: the volume column is volsV (the hypothesis of C11's navigation theorems), length = number of fragments, root volume = length; C05_root_span. Tie to /repo: the real parser's full code map is compared entry by entry with the model and with an independent reference on every accepted input of the C01 streams."),
        level_note="Trusted: Lean kernel; model validated by correspondence; harness reference spans (refjson.rs).",
        rule="request = text + options; code-map projection. Non-trivial = accepted; distinct request lines",
        strength='full on the model: code map = grammar-induced spans/volumes for every text; tie to the code by correspondence',
        trusted_base=COMMON_TRUST + ["harness reference spans"],
        assumptions=[],
    ),
    "C07": dict(
        tables=["parse"],
        determined=True,
        projection=lambda case, reply: reply if reply.startswith("E ") else "ok",
        technique="Lean 4 theorems by functional induction over the parsing machine: every error offset is the UTF-8 length of an input prefix and Unexpected carries the character found there (None iff end of input); locality of every lexical function and of the machine gives: no continuation past the reported character is a JSON text; completion of every partial token and a closing lemma for machine configurations give: the input before it has a continuation that is one (longest viable prefix, both halves)",
        level_text=("The first clause is proved in full on the model: C07_longest_viable_prefix - when strict parsing reports Unexpected(p, c), the input splits as pre ++ rest with p = utf8Len pre, pre IS viable (some continuation of it is a JSON text of the grammar in which every \\uXXXX escape is allowed: Viable = exists suffix in LDoc <true,true>), and pre plus the next character is NOT viable (no continuation at all), so p is the length of the longest viable prefix (C07_viable_prefix_closed: viability is closed under taking prefixes). "
                    "Upper bound (C07_no_longer_prefix_viable, C07_error_is_local): a locality lemma for every lexical function (what it does strictly inside a prefix does not depend on what follows: Lemmas/Local.lean), lifted to the machine (run_local_err), error monotonicity across option records (run_emono), completeness of the parser for LDoc (C12). "
                    "Lower bound (C07_prefix_viable): every machine step that touches the reported offset - fails there or stops exactly there - can be completed (partial numbers through the automaton's suffix languages, literals, string elements incl. partial \\uXXXX and pending surrogates, keys and colons: Lemmas/TokComplete.lean, StepComplete.lean), from any well-formed configuration the run on `0` plus the closing brackets succeeds (run_close), and the steps strictly before the offset are replayed by locality (run_viable, by functional induction over all 25 cases of the machine). "
                    "Also proved for all inputs (incl. failing streams) and all option records (C07_boundary_partial and corollaries): every offset in every error is a character boundary inside the input; Unexpected(p, c) carries exactly the character at p and None exactly when p is the input length; InvalidUtf8 is reported at the end of the well-formed prefix and only for ill-formed input; surrogate-error spans have both ends on boundaries, in order. "
                    "Surrogate errors (C07_surrogate_inside, every input and option record): the span of MissingLowSurrogate / InvalidLowSurrogate / InvalidUnicodeCodePoint is exactly the uXXXX part of an escape of the input that writes the code unit carried by the error, and the high surrogate carried by InvalidLowSurrogate was written by the escape directly before it (invariant HighAt through the string scanner, Lemmas/SurrIn.lean; the MissingLowSurrogate overshoot this clause exposed on the original tree was repaired: fix: commit). "
                    "Every clause of the property is thus a theorem on the model; the independent predictive (LL(1)) recogniser and the span-shape check still run on every rejected input as oracles on the real code."),
        level_note="Trusted: Lean kernel; model validated by correspondence (full error projection); harness reference recogniser.",
        rule="request = text/bytes + options; error projection (variant, offsets, payload). Non-trivial = accepted inputs are trivial here: non-trivial counts distinct rejected... (harness counts accepted as non-trivial; see distribution.err_* for rejected kinds)",
        strength="full on the model: longest-viable-prefix clause (both halves), character clause, boundary clause, InvalidUtf8 clause and surrogate-span clause proved for all inputs; tie to the code by correspondence (full error projection) plus an independent recogniser",
        trusted_base=COMMON_TRUST + ["harness reference recogniser"],
        assumptions=[],
    ),

    "C11": dict(
        tables=["parse"],
        determined=True,
        technique="Lean 4 theorems: array/object mapped iterators yield exactly the pre-order indices of their items/entries/keys/values given a well-formed volume column (never panicking), get_fragment = i-th pre-order fragment or remaining distance, explicit-stack traversal = pre-order; differential navigation of every container, key and fragment index of parsed documents",
        level_text=("FULL proof on the model. For all values and positions, under the hypothesis that the code map's volume column is that of a well-formed code map — which C05 PROVES for every parsed document (parse_volumes; C11_parsed_array / C11_parsed_object / C11_parsed_conversion compose the two) — : C11_array/C11_array_fragments and C11_object (iter_mapped never panics and yields exactly the pre-order index of each item / entry / key / value), C11_keyed (get_mapped*, get_unique_mapped*, get_mapped_entries*: under the C06 index invariant, which every reachable object has, they never panic and yield for exactly the entries carrying the key, in entry order, the index and the offsets iter_mapped assigns to that entry — the advance loop over (last_index, offset) is proved by induction), C11_get_fragment (i-th fragment of the traversal, or Err(i − size) past the end), C11_traverse (the explicit-stack traversal is the pre-order, one step per fragment), C11_conversion (TryFromJson for bool/String/unit/u8, Vec<T>, BTreeMap<String,T>, Option<T>, Box<T> nested at will: never panics and equals a fragment-counting specification that does not look at the code map) and C11_conversion_error (a failed conversion reports the offset of the offending fragment: the pre-order index of a value fragment that the sub-conversion reaching it rejects at its root). The conversion impls are trait-generic code; the model instantiates them for a type-descriptor family (CTy). Tie to /repo: for every parsed document (all valid token documents of <= 5 tokens, 3000 generated documents) every array/object's iterators, every key incl. an absent and duplicated ones through all keyed variants, every fragment index 0..|T|+2, traversal/volume/count; 14 conversion types with a wrong-kind value planted at every position (error offset compared). Direct oracle on the real code: the source text sliced at each yielded offset's span re-parses to that element."),
        level_note="Trusted: Lean kernel; model validated by correspondence; depends on C05 for the volume column (tested jointly since the code map comes from the real parser).",
        rule="request = document (navigation) or type+document (conversion); reply = all offsets / fragment kinds / error offset. Non-trivial = documents with more than one fragment, all conversions; distinct request lines",
        strength='full on the model: iterators, keyed lookups, fragment index, traversal and typed conversions (type-descriptor family) proved, composed with the proved C05 code map; tie to the code by correspondence',
        trusted_base=COMMON_TRUST,
        assumptions=["the code map is the one returned by parsing the same value (offset 0 = root)"],
    ),

    "C16": dict(
        tables=[],
        determined=True,
        projection_determined=lambda case, reply: c16_projection(case, reply),

        technique="Lean 4 theorems about a model of BOTH directions of the serde bridge: the Serializer (src/serde/ser.rs) and the Deserializer / MapKeyDeserializer / EnumDeserializer / VariantDeserializer with the visit_array / visit_object length checks (src/serde/de.rs), the latter driven by type descriptors that stand for serde's and serde-derive's Deserialize implementations; round trip proved by mutual structural induction over descriptors; model tied to the code by a recording serializer and a descriptor-interpreting deserialization client running the real code; end-to-end oracles on a family of derive-annotated types and through serde_json",
        level_text=("The round trip is a Lean theorem on the model: C16_round_trip — for every type descriptor (bool, the eight integer widths, f32/f64, char, String, unit, unit struct, Option, newtype struct, Vec, tuple / tuple struct, maps keyed by strings / integers / chars / unit variants, structs, externally tagged enums with unit / newtype / tuple / struct variants, nested without bound) and every datum of that type (HasTy), "
                    "to_value succeeds and deserializing its result at that type gives the datum back; C16_integers (every width, every in-range value: decimal text out, same integer in, via json-number's u64/i64 dispatch), C16_map_key_round_trip (to_string then str::parse for integer keys, one-char strings, variant names), C16_non_finite (non-finite floats become null, which no float type reads), "
                    "C16_shape / C16_struct / C16_map_keys (the JSON shape of every construct, as serde_json documents it). The side conditions of HasTy are explicit: names distinct and not the private number token, map keys distinct as spelled, no Some around a value that serializes to null, floats finite and stable under the json-number / lexical text conversion (an assumption on that dependency, checked bit-for-bit by the oracle on every run). "
                    "Tie to the code, both directions, on every run: (1) a recording serde::Serializer turns each generated Rust datum into SData and the model `ser` must return exactly json_syntax::to_value(datum); (2) a descriptor-interpreting client (harness/src/probe.rs) makes, for a run-time descriptor, exactly the deserialize_* request and visitor of the corresponding Rust type and runs the REAL Value deserializer; the model `de` must return the same datum or the same error class, on round trips of random descriptors x random well-typed data and on ill-typed / mutated values (type confusion, integer bounds of every width, key spellings, missing / duplicate / unknown fields, every variant payload kind); "
                    "(3) that client is itself compared with real #[derive(Deserialize)] types of the same shape on every generated and mutated value. "
                    "Not covered by a theorem: the serde_json clauses (shape agreement with serde_json, deserializing serde_json's rendering) and bit-exactness of floats — serde_json and lexical are dependencies; these clauses are decided by direct oracles on the real code for a type family covering every shape."),
        level_note="Trusted: Lean kernel; serde, serde-derive (their Deserialize implementations are represented by type descriptors: the representation is validated against real derive output on every run, not proved), serde_json, json-number / lexical (float text conversions enter the model as the parameter FEnv, evaluated by the harness from the dependency); the harness's recording serializer and descriptor client.",
        rule="request = SData recorded from one generated datum (reply = to_value(datum)), or a descriptor with a datum (reply = to_value and the datum deserialized back), or a descriptor with a value (reply = datum or error class). All cases non-trivial; distinct request lines. Round-trip oracles run on the datum itself",
        strength="round trip proved on the model of ser.rs and de.rs for every descriptor-described type; serde_json agreement and float bit-exactness by oracle (dependencies)",
        trusted_base=COMMON_TRUST + ["serde / serde-derive Deserialize implementations as represented by type descriptors (validated against real derive types on every run)", "serde_json", "json-number / lexical float conversions (parameter FEnv of the model)"],
        assumptions=["finite floats print to a text that parses back to the same float (lexical): hypothesis `env.f64 t = some t` of HasTy; checked bit-for-bit by the round-trip oracle"],
    ),
    "C17": dict(
        tables=[],
        determined=True,
        projection_determined=lambda case, reply: c17_projection(case, reply),
        technique="Lean 4 theorems by mutual induction over values: to_value(&value) = value with 64-bit integer literals re-rendered (model of Serialize for Value/Object/Number composed with the serializer model), and from_value::<Value>(value) = value with every number passed through the visitor dispatch u64 / i64 / f64 (model of Deserialize for Value driven by Deserializer for Value); both models tied to the real code by correspondence; serde_json text route and float values by direct oracles with class-predicate known findings",
        level_text=("Proved in Lean. Serialization (C17_serialize): for every value whose numbers are JSON numbers, without duplicate keys and without the private number token as a key, serializing it with the crate's own serializer returns the same structure, strings and key order, "
                    "every number byte-for-byte except plain 64-bit integer literals which are re-rendered from the integer (-0 loses its sign); C17_number_verbatim (fraction / exponent / beyond 64 bits: exact spelling — the latter two since a fix: commit); "
                    "kernel-checked witnesses for the duplicate-key collapse (first position, last value) and for the number-token key (a recorded known finding). "
                    "Deserialization (C17_deserialize): for every value in which no object has duplicate keys or starts with the private number token, from_value::<Value> returns the same structure, strings and key order with every number passed through the number dispatch of src/serde/de.rs; C17_numbers_same_integer: a number read as u64 (i64) comes back as a text read as the same u64 (i64), every other number becomes the text of the double it is parsed to — since the fix: commit 729bd83 the dispatch (u64, i64, str::parse::<f64>) is /repo's own code in src/serde/de.rs and the double is the correctly rounded one, so the >19-significant-digit one-ulp class named in the property is REPAIRED, not carried (the float conversion stays a parameter of the model, evaluated by the harness with std directly) — or null when that double is not finite; C17_magic_key_deserialize (number-token-first objects are read as numbers or rejected: same known finding). "
                    "Both models are run against the real code on every value generated (to_value, from_value::<Value>, including mutated and token-carrying objects). serde_json::from_str::<Value> (the ValueVisitor driven by serde_json's deserializer) is decided by direct oracle only."),
        level_note="Trusted: Lean kernel; str::parse::<i64/u64> = String.toInt?/toNat? with range check on number texts; i64/u64 to_string = Lean's toString; json-number, lexical (float conversions are a parameter of the model evaluated by the harness), serde_json for the text route.",
        rule="request = a Value (to_value / from_value::<Value>), reply = the value built or the error class. Non-trivial = successful; distinct request lines; oracle_only_cases counts the serde_json text-route cases the model does not cover",
        strength="serialization and Value-to-Value deserialization proved on the model; float values (std parse / ryu printing: parameter) and the serde_json text route by oracle; one known-finding class left (number-token key)",
        trusted_base=COMMON_TRUST + ["json-number / lexical float conversions (parameter of the model)", "serde_json (text route)"],
        assumptions=[],
    ),
    "C18": dict(
        tables=[],
        determined=False,
        technique="Lean 4 theorems over a model of both conversions with the code's number dispatch (as_u64, as_i64, float leg) and a BTreeMap model: serde_json -> json-syntax -> serde_json is the identity (integers with no hypothesis, floats given print/parse round trip of the dependency); json-syntax -> serde_json -> json-syntax is equal up to entry order and number respelling for every value without duplicate keys; model executed against the real code with the float leg shipped as a table computed from the dependencies alone; both directions under catch_unwind (direct oracles)",
        level_text=("FULL proof on the model up to the float dependency. Model: both conversions, BTreeMap insertion (mapInsert), String key order (strLt), serde_json::Number = PosInt | NegInt | Float (SjNum) and the number arm of into_serde_json (sjConv: str::parse::<u64>, then ::<i64> with From<i64> keeping the sign, then the float leg). "
                    "C18_from_into / C18_from_into_code: for every serde_json value (keys strictly ascending, numbers in their representation invariant) converting into a json-syntax value and back returns the same value; C18_integers_exact: every u64 and every negative i64 converts back to itself with NO hypothesis (u64::MAX and i64::MIN included); for floats the hypothesis is about serde_json/std alone (a double prints with '.' or an exponent and parses back to itself), tested on every run. "
                    "C18_into_from: for EVERY json-syntax value without duplicate keys at any depth, the value that comes back is equal up to entry order at every level (PermEq, the relation of C15) to the original with each number replaced by the text of the serde_json number it converts to (null exactly when it has none, i.e. outside the property's domain) — no hypothesis on the map order or on numbers; C18_number_same: the respelled number converts to the same serde_json number (same integer or same double); C18_conv_in_invariant; C18_into_total: the into direction is total, a number without serde_json counterpart becomes null (the former panic is repaired). "
                    "Tie to /repo: every case is executed on the real code and on the model — the model computes the whole there-and-back value itself (structure, key order, duplicate handling, integer dispatch), only the float leg being read from a table the harness computes with std's str::parse::<f64>, Number::from_f64 and Display directly, not through /repo's code; plus direct oracles under catch_unwind: both round trips on generated values incl. u64::MAX, i64::MIN, -0.0, subnormals, huge/tiny doubles, 1e400, plain decimals of every fraction length x leading-zero count, arbitrary strings/keys, nesting, and values built from serde_json::json! with random u64/i64/f64."),
        level_note="Trusted: Lean kernel; serde_json (Number printing/parsing, Map = BTreeMap) and std float parsing for the float leg (hypothesis FloatOk, tested); model validated by correspondence.",
        rule="request = a json-syntax value (also obtained from serde_json values) + the float-leg table of its non-integer numbers; reply = the value after json-syntax -> serde_json -> json-syntax, compared between the real code and the model; evaluations = cases executed; distinct request lines",
        strength="full on the model up to the float dependency (print/parse round trip of doubles in serde_json/std is a tested hypothesis)",
        trusted_base=COMMON_TRUST + ["serde_json"],
        assumptions=["float leg: serde_json prints a double with '.' or an exponent and str::parse::<f64> of that text gives the double back (SjNum.WF … (.float t))"],
    ),

    "C19": dict(
        tables=[],
        determined=True,
        technique="Lean 4 theorem by mutual structural induction over documents: the model of the json! TT munchers builds the denoted value for every literal (any depth, trailing commas, key styles, duplicates); generated programs compiled against the current tree, each constructed value compared with the model and with the parse of the matching text",
        level_text=("PARTIAL proof (the macro engine is modelled, not verified). The macro_rules! rules of src/macros.rs are modelled as functions over token trees (rules tried in order, first match fires); C19_macro proves for EVERY document — nested arrays/objects of any depth, optional trailing commas, "
                    "string/integer/float/boolean/null literals, literal, parenthesized or variable keys, duplicate keys — that the expansion builds exactly the value the text denotes, entries in written order, duplicates preserved; C19_trailing_comma, C19_order_and_duplicates, C19_rejects are corollaries/instances. "
                    "Tie to the code: each run generates a batch of ~300 documents (thorough: 8 batches incl. nesting depth 24), emits one json! invocation per document into a Rust source file, compiles it AGAINST THE CURRENT TREE, runs it, and compares every constructed value with the model's expansion and with Value::parse_str of the matching JSON text; a batch that stops compiling is a failing replay. "
                    "Float literals denote an f64: the 'corresponding JSON text' of a float literal is the rendering Value::try_from(f64) gives (lexical, opaque)."),
        level_note="Trusted: Lean kernel; rustc's macro_rules matcher (modelled by hand: first matching rule, tt/expr/literal fragments); lexical's float formatting (opaque); the C02 link 'parse(text) = denoted value' is tested here, proved elsewhere only for numbers/literals.",
        rule="request = token tree of one generated json! program; reply = the value the compiled program constructed. All programs non-trivial; distinct request lines; programs = number compiled and run",
        strength="partial: full theorem on the macro model; rustc's expander trusted; tie by compiling generated programs each run",
        trusted_base=COMMON_TRUST + ["rustc macro_rules! matcher"],
        assumptions=["integer literals are rendered by Display of the integer; variables used as keys are &str bindings"],
        timeout=3600,
    ),
}
