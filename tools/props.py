"""Per-property configuration of ./check (what to regenerate, what the evidence says)."""

COMMON_TRUST = [
    "rustc/cargo, the Rust standard library, and the crates json-syntax depends on (exercised, not modelled, unless stated)",
]

PROPS = {
    "C20": dict(
        tables=["kind"],
        determined=True,
        exhaustive=True,
        technique="Lean 4 theorems by kernel evaluation over the complete 64-set domain (decide +kernel) + induction over interleavings; model regenerated from kind.rs masks and tied by exhaustive differential execution",
        level_text=("Every clause of the property is a Lean theorem over the whole finite domain (all 64 sets, all operand pairs, all kinds), "
                    "checked by the kernel on a model whose mask table and row order are regenerated from src/kind.rs on every run; iteration is "
                    "lifted to every interleaving of front/back steps by induction. The model is tied to the code by executing the complete "
                    "domain through the public API and comparing every reply (exhaustive, not sampled). Full strength: the domain is finite."),
        level_note=("Trusted: Lean kernel (axioms: propext only), the regex table extractor, the hand-written transcription of the kind_set! macro body "
                    "(validated exhaustively against the real code on every run), derived Debug printing the raw bits."),
        rule=("complete finite domain through the public API: all 64 sets x 64 sets (| &), 64 x 6 set/kind in both operand "
              "orders, 6 x 6 kinds, and per set len/is_empty/three renderings/every front-back interleaving of |s|+1 steps; "
              "a case is non-trivial when no operand is the empty set (and operands differ for set pairs); distinct = distinct request lines"),
        strength="full: every clause is a kernel-checked theorem over the whole 64-set domain (decide +kernel), iteration lifted to all interleavings by induction",
        trusted_base=COMMON_TRUST + ["derived Debug of KindSet prints the raw bits (used as the canonical observable)"],
        assumptions=["KindSet values are only built through the public API (the u8 field is private), hence range over the 64 subsets"],
    ),
}
