#!/bin/bash
# tools/keep_seed.sh <Cxx> <seed-name> [checks…] (env SO=/tmp/seed_out WTP=/tmp/wt_) : confirm in scratch worktree, store under seeded/, remove worktree, run checks
set -u
id=$1; name=$2; shift 2
SO=${SO:-/tmp/seed_out}; WTP=${WTP:-/tmp/wt_}
out=$(tools/confirm_seed.sh $id $SO/$id $WTP$id | tail -2); echo "$out"
echo "$out" | grep -q '^CONFIRMED' || { echo "not kept"; exit 1; }
d=seeded/$name; mkdir -p $d; cp $SO/$id/{patch.diff,demo.rs,meta.json,confirm.json} $d/
python3 - $d <<'PY'
import json,sys
d=sys.argv[1]; m=json.load(open(d+'/meta.json')); c=json.load(open(d+'/confirm.json'))
m['confirmed']={'how':'tools/confirm_seed.sh in a scratch worktree under /tmp: patch.diff applied to HEAD, cargo test --workspace --no-fail-fast --offline (suite), demo.rs as tests/seed_demo.rs with and without the change', **c}
json.dump(m,open(d+'/meta.json','w'),indent=1)
PY
rm $d/confirm.json; git -C /repo worktree remove --force $WTP$id
python3 tools/seedcheck.py $d "$@" 2>&1 | grep -v "^    VIOLATION" ; grep -c VIOLATION $d/check_results.json
