#!/usr/bin/env python3
"""tools/seedcheck.py <seed dir> [Cxx …]  — apply a seeded change to /repo, run the named checks
(default: the property in meta.json), print their verdicts, and undo the change straight afterwards.
Never leaves /repo modified (git checkout -- . in a finally block)."""
import json, os, subprocess, sys
ROOT = os.path.dirname(os.path.dirname(os.path.abspath(__file__)))
seed = os.path.abspath(sys.argv[1])
meta = json.load(open(os.path.join(seed, "meta.json")))
props = sys.argv[2:] or [meta["property"]]
assert subprocess.run(["git", "-C", "/repo", "status", "--porcelain", "--untracked-files=no"], capture_output=True, text=True).stdout.strip() == "", "/repo is not clean"
subprocess.run(["git", "-C", "/repo", "apply", os.path.join(seed, "patch.diff")], check=True)
results = {}
try:
    for p in props:
        r = subprocess.run([os.path.join(ROOT, "check"), p], cwd=ROOT, capture_output=True, text=True)
        lines = [l for l in r.stdout.splitlines() if l.startswith(("VIOLATION", "OK ", "KNOWN", "[T]", "[R]", "[O]"))]
        results[p] = dict(exit=r.returncode, lines=lines[:12])
        print("==", p, "exit", r.returncode)
        for l in lines[:12]:
            print("   ", l)
finally:
    subprocess.run(["git", "-C", "/repo", "checkout", "--", "."], check=True)
json.dump(results, open(os.path.join(seed, "check_results.json"), "w"), indent=1)
