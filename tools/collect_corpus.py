#!/usr/bin/env python3
"""tools/collect_corpus.py [seed-name …] — for every kept seeded change: apply it to /repo, run the
check of its property, take up to 4 failing request lines from the replays (shortest first) and
store them in corpus/<prop>/<seed>.cases; undo the change straight afterwards. The corpus lines run
first in every check from then on (minimised past failures as regression inputs)."""
import glob, json, os, subprocess, sys
ROOT = os.path.dirname(os.path.dirname(os.path.abspath(__file__)))
names = sys.argv[1:] or sorted(os.listdir(os.path.join(ROOT, "seeded")))
pending = []
for name in names:
    d = os.path.join(ROOT, "seeded", name)
    meta = json.load(open(os.path.join(d, "meta.json")))
    prop = meta["property"]
    if prop == "C19":
        continue      # C19 cases are compiled programs, not request lines
    dest = os.path.join(ROOT, "corpus", prop, name + ".cases")
    if os.path.exists(dest):
        continue
    assert subprocess.run(["git", "-C", "/repo", "status", "--porcelain", "--untracked-files=no"], capture_output=True, text=True).stdout.strip() == ""
    subprocess.run(["git", "-C", "/repo", "apply", os.path.join(d, "patch.diff")], check=True)
    try:
        subprocess.run(["timeout", "2400", os.path.join(ROOT, "check"), prop], cwd=ROOT, capture_output=True, text=True)
        lines = []
        for f in glob.glob(os.path.join(ROOT, "replays", prop + "-*.json")):
            r = json.load(open(f))
            if r.get("kind") in ("oracle", "correspondence", "panic", "crash"):
                for c in r.get("cases", []):
                    if c and len(c) < 4000 and c not in lines:
                        lines.append(c)
        lines.sort(key=len)
        lines = lines[:4]
    finally:
        subprocess.run(["git", "-C", "/repo", "checkout", "--", "."], check=True)
    if lines:
        os.makedirs(os.path.dirname(dest), exist_ok=True)
        open(dest, "w").write("\n".join(lines) + "\n")
        pending.append(dest)
    print(name, prop, len(lines), flush=True)

# request lines may embed tables of dependency results (number canonicalizations, float texts) that
# were computed on the CHANGED tree: re-derive them with the harness built against the clean tree
if pending:
    subprocess.run(["cargo", "build", "--release", "--offline"], cwd=os.path.join(ROOT, "harness"), capture_output=True)
    jsv = os.path.join(ROOT, "harness", "target", "release", "jsv")
    for dest in pending:
        r = subprocess.run([jsv, "retable", dest], capture_output=True, text=True)
        if r.returncode == 0 and r.stdout.strip():
            open(dest, "w").write(r.stdout)
