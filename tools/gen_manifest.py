#!/usr/bin/env python3
"""Writes MANIFEST.json from tools/props.py (claimed checks) — keeps the file valid by construction."""
import json, os, sys
ROOT = os.path.dirname(os.path.dirname(os.path.abspath(__file__)))
sys.path.insert(0, os.path.join(ROOT, "tools"))
from props import PROPS

ids = [json.loads(l)["id"] for l in open(os.path.join(ROOT, "properties.jsonl"))]
checks = []
for pid in ids:
    if pid not in PROPS or not PROPS[pid].get("claimed", True):
        continue
    c = PROPS[pid]
    checks.append(dict(
        property_id=pid,
        quick_cmd="./check %s --tier quick" % pid,
        thorough_cmd="./check %s --tier thorough" % pid,
        evidence_file="evidence/%s.json" % pid,
        replay_cmd_template="./check %s --replay {path}" % pid,
        engine="lean4-model+correspondence",
        level_claimed=dict(category="proof", text=c["level_text"], design_ref=c.get("design_ref", "DESIGN.md §4 " + pid)),
        level_note=c["level_note"],
        technique=c["technique"],
    ))
na = [dict(property_id=pid, reason=PROPS.get(pid, {}).get("na_reason", "not claimed yet: model and theorems for this property are still under construction in this framework (no check is registered, so nothing is asserted)"))
      for pid in ids if pid not in PROPS or not PROPS[pid].get("claimed", True)]
m = dict(
    version=1,
    setup_cmd="./setup.sh",
    hooks=dict(
        guard="json_syntax_verif",
        enable="RUSTFLAGS='--cfg json_syntax_verif' (set in harness/.cargo/config.toml; the harness depends on /repo by path)",
        baseline_off_cmd="cd /repo && cargo test --workspace --no-fail-fast --offline",
        source_commits=["dda6746"],
        add_only=True,
    ),
    engines=[dict(name="lean4-model+correspondence", path="lean/ (model, specs, theorems, driver) + harness/ (real code) + check",
                  serves_properties=[c["property_id"] for c in checks],
                  kind_free_text="Lean 4 theorems about a hand-written executable model; the model is tied to /repo on every run by differential execution (compiled Lean driver vs the real code in-process) and by regenerating three literal tables from the source")],
    checks=checks,
    not_applicable=na,
    notes=("See DESIGN.md. known_findings.json lists recorded defects and the fix: commits made in /repo (12 repaired, 1 known finding). "
           "Every check prints four measured lines: [T] property theorems kernel-checked (axiom audit), [R] request lines executed on the real code and on the compiled Lean model, "
           "[O] direct oracle checks on the real code, [D] sampled request lines re-executed on an unoptimised build of the real code (debug assertions, overflow checks). "
           "The request streams of every property include: bounded-exhaustive small inputs, generated inputs, character-class aliasing, every public entry point / trait impl of the property, "
           "scale families around 2^8 / 2^12 / 2^16 / 2^18, cross-thread and abandoned-parse re-executions, and a regression corpus from 176 independently seeded changes (DESIGN.md §12)."),
)
json.dump(m, open(os.path.join(ROOT, "MANIFEST.json"), "w"), indent=1, ensure_ascii=False)
print("MANIFEST.json: %d checks, %d not_applicable" % (len(checks), len(na)))
