import Driver.C03Cmd
open Driver JsonVerif

def iter (n : Nat) (f : PS → PS) (s : PS) : PS := Id.run do
  let mut s := s
  for _ in [0:n] do
    s := f s
  return s

def mk (n : Nat) : PS := iter n PS.reserve { rest := "\"k\" : null ,".toList, bad := false, pos := 0, cm := #[] }

def time (name : String) (f : PS → PS) : IO Unit := do
  for n in [20000, 80000] do
    let s := mk n
    let t0 ← IO.monoMsNow
    let s' := iter 2000 f s
    IO.println s!"{name} cm={n}: size after {s'.cm.size}"
    let t1 ← IO.monoMsNow
    IO.println s!"   {t1 - t0} ms"

@[noinline] def reserveIdx (s : PS) : Nat × PS := (s.cm.size, s.reserve)

def lexNull2 (s : PS) : Except PErr PS :=
  match reserveIdx s with
  | (i, s0) =>
    match expectChars ['n', 'u', 'l', 'l'] s0 with
    | .error e => .error e
    | .ok s1 => s1.endFragment i

def lexNull3 (s : PS) : Except PErr PS :=
  let p := reserveIdx s
  match expectChars ['n', 'u', 'l', 'l'] p.2 with
  | .error e => .error e
  | .ok s1 => s1.endFragment p.1

def main : IO Unit := do
  time "lexNull" (fun s => let r := s.rest; match lexNull { s with rest := "null".toList } with | .ok s' => { s' with rest := r } | .error _ => default)
  time "lexNull2" (fun s => let r := s.rest; match lexNull2 { s with rest := "null".toList } with | .ok s' => { s' with rest := r } | .error _ => default)
  time "lexNull3" (fun s => let r := s.rest; match lexNull3 { s with rest := "null".toList } with | .ok s' => { s' with rest := r } | .error _ => default)
