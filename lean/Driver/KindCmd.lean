import JsonVerif.Model.Kind
import Driver.Codec
namespace Driver
open JsonVerif

def kindOfIdx? (i : Nat) : Option Kind := Kind.all[i]?

/-- abstract subset index (bit j ↔ j-th kind in declaration order) → model KindSet built from masks -/
def setOfIdx (i : Nat) : KindSet :=
  ⟨(Kind.all.filter (fun k => i.testBit k.idx)).foldl (fun a k => a ||| k.mask) 0⟩

def tokText : KTok → String
  | .kind k => Gen.kindName k
  | .comma => ", "
  | .or_ => " or "
  | .and_ => " and "
  | .nothing => "nothing"
  | .anything => "anything"

def toksText (l : List KTok) : String := String.join (l.map tokText)

def iterRun : Nat → List Char → List String
  | _, [] => []
  | bits, d :: ds =>
    match (if d = 'f' then KindSetIter.next bits else KindSetIter.nextBack bits) with
    | none => s!"-:{KindSetIter.sizeHint bits}" :: iterRun bits ds
    | some (k, b) => s!"{Gen.kindName k}:{KindSetIter.sizeHint b}" :: iterRun b ds

def kindCmd (args : List String) : String :=
  match args with
  | ["or", a, b] => match a.toNat?, b.toNat? with
    | some a, some b => toString ((setOfIdx a).or (setOfIdx b)).bits
    | _, _ => "bad-op"
  | ["and", a, b] => match a.toNat?, b.toNat? with
    | some a, some b => toString ((setOfIdx a).and (setOfIdx b)).bits
    | _, _ => "bad-op"
  | [op, a, k] => match a.toNat?, k.toNat?.bind kindOfIdx? with
    | some a, some k =>
      if op = "ork" then toString ((setOfIdx a).orKind k).bits
      else if op = "andk" then toString ((setOfIdx a).andKind k).bits
      else if op = "kor" then toString (k.orSet (setOfIdx a)).bits
      else if op = "kand" then toString (k.andSet (setOfIdx a)).bits
      else if op = "kkor" then match kindOfIdx? a with
        | some l => toString (l.or k).bits | none => "bad-op"
      else if op = "kkand" then match kindOfIdx? a with
        | some l => toString (l.and k).bits | none => "bad-op"
      else if op = "iter" then "bad-op"
      else "bad-op"
    | some a, none =>
      if op = "iter" then ",".intercalate (iterRun (setOfIdx a).bits (if k = "-" then [] else k.toList))
      else "bad-op"
    | _, _ => "bad-op"
  | ["set", a] => match a.toNat? with
    | some a =>
      let s := setOfIdx a
      s!"{s.bits} {s.len} {s.isEmpty} [{toksText s.display}] [{toksText (s.junction .or_)}] [{toksText (s.junction .and_)}]"
    | none => "bad-op"
  | ["consts"] =>
    " ".intercalate (Kind.all.map (fun k => toString (KindSet.ofKind k).bits)) ++
      s!" {KindSet.all.bits} {KindSet.none.bits}"
  | ["vkind", v] => match parseValue? v with
    | some v => Gen.kindName v.kind
    | none => "bad-op"
  | _ => "bad-op"

end Driver
