import JsonVerif.Model.Print
import JsonVerif.Gen.PrintPresets
import Driver.Codec
namespace Driver
open JsonVerif

def parseLimit? (s : String) : Option (Option Limit) :=
  match s.toList with
  | ['-'] => some none
  | ['A'] => some (some .always)
  | 'I' :: r => (String.ofList r).toNat?.map (fun n => some (.item n))
  | 'W' :: r => (String.ofList r).toNat?.map (fun n => some (.width n))
  | 'X' :: r => match (String.ofList r).splitOn "." with
    | [a, b] => match a.toNat?, b.toNat? with
      | some a, some b => some (some (.itemOrWidth a b))
      | _, _ => none
    | _ => none
  | _ => none

def parseIndent? (s : String) : Option Indent :=
  match s.toList with
  | 's' :: r => (String.ofList r).toNat?.map .spaces
  | 't' :: r => (String.ofList r).toNat?.map .tabs
  | _ => none

/-- `pretty` | `compact` | `inline` | 15 comma-separated fields in declaration order -/
def parsePrintOpts? (s : String) : Option PrintOptions :=
  if s = "pretty" then some Gen.prettyPreset
  else if s = "compact" then some Gen.compactPreset
  else if s = "inline" then some Gen.inlinePreset
  else match s.splitOn "," with
    | [ind, ab, ae, aem, abc, aac, alim, ob, oe, oem, obc, oac, obco, oaco, olim] =>
      match parseIndent? ind, ab.toNat?, ae.toNat?, aem.toNat?, abc.toNat?, aac.toNat?, parseLimit? alim,
            ob.toNat?, oe.toNat?, oem.toNat?, obc.toNat?, oac.toNat?, obco.toNat?, oaco.toNat?, parseLimit? olim with
      | some ind, some ab, some ae, some aem, some abc, some aac, some alim,
        some ob, some oe, some oem, some obc, some oac, some obco, some oaco, some olim =>
        some { indent := ind, arrayBegin := ab, arrayEnd := ae, arrayEmpty := aem, arrayBeforeComma := abc,
               arrayAfterComma := aac, arrayLimit := alim, objectBegin := ob, objectEnd := oe,
               objectEmpty := oem, objectBeforeComma := obc, objectAfterComma := oac,
               objectBeforeColon := obco, objectAfterColon := oaco, objectLimit := olim }
      | _, _, _, _, _, _, _, _, _, _, _, _, _, _, _ => none
    | _ => none

def printCmd (args : List String) : String :=
  match args with
  | [o, v] =>
    match parsePrintOpts? o, parseValue? v with
    | some o, some v =>
      match printWith o 0 v with
      | some t => showCps t
      | none => "PANIC"
    | _, _ => "bad-op"
  | [o, v, k] =>
    match parsePrintOpts? o, parseValue? v, k.toNat? with
    | some o, some v, some k =>
      match printWith o k v with
      | some t => showCps t
      | none => "PANIC"
    | _, _, _ => "bad-op"
  | _ => "bad-op"

end Driver
