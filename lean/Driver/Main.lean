import Driver.Codec
import Driver.KindCmd
import Driver.ParseCmd
import Driver.C03Cmd
import Driver.PrintCmd
import Driver.ObjCmd
import Driver.OrdCmd
import Driver.UeqCmd
import Driver.CanonCmd
import Driver.MappedCmd
import Driver.SerdeCmd
import Driver.DeCmd
import Driver.MacroCmd
/-!
Line-protocol driver: one request per line on stdin, one reply per line on stdout.
The first word selects the model component; see DESIGN.md §2.4.
-/
open Driver

def handle (line : String) : String :=
  match line.trimAscii.toString.splitOn " " with
  | "kind" :: args => kindCmd args
  | "parse" :: args => parseCmd args
  | "c03" :: args => c03Cmd args
  | "print" :: args => printCmd args
  | "obj" :: args => objCmd args
  | "ord" :: args => ordCmd args
  | "ueq" :: args => ueqCmd args
  | "canon" :: args => canonCmd args
  | "mapped" :: args => mappedCmd args
  | "serde" :: "rt" :: args => deCmd ("rt" :: args)
  | "serde" :: "de" :: args => deCmd ("de" :: args)
  | "serde" :: "fromvalm" :: args => deCmd ("fromvalm" :: args)
  | "serde" :: "fromobj" :: args => deCmd ("fromobj" :: args)
  | ["serde", "sj", v, tab] => deCmd ["sj", v, tab]
  | "serde" :: args => serdeCmd args
  | "macro" :: args => macroCmd args
  | _ => "bad-op"

partial def loop (hin : IO.FS.Stream) (hout : IO.FS.Stream) : IO Unit := do
  let line ← hin.getLine
  if line.isEmpty then return ()
  hout.putStrLn (handle line)
  loop hin hout

def main : IO Unit := do
  let hin ← IO.getStdin
  let hout ← IO.getStdout
  loop hin hout
  hout.flush
