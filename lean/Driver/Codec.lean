import JsonVerif.Model.Basic
/-!
Line-protocol codec (glue, not verified): hex code points, values in prefix notation.

  value   := n | t | f | #<hexcps>; | s<hexcps>; | [ value* ] | { (k<hexcps>; value)* }
  hexcps  := (hex ('.' hex)*)?      -- Unicode scalar values
-/
namespace Driver
open JsonVerif

def hexDigit (n : Nat) : Char :=
  if n < 10 then Char.ofNat (48 + n) else Char.ofNat (87 + n)

def toHex (n : Nat) : String :=
  if n = 0 then "0" else
    let rec go (fuel n : Nat) (acc : List Char) : List Char :=
      match fuel with
      | 0 => acc
      | fuel+1 => if n = 0 then acc else go fuel (n / 16) (hexDigit (n % 16) :: acc)
    String.ofList (go 16 n [])

def hexVal? (c : Char) : Option Nat :=
  if '0' ≤ c ∧ c ≤ '9' then some (c.toNat - 48)
  else if 'a' ≤ c ∧ c ≤ 'f' then some (c.toNat - 87)
  else if 'A' ≤ c ∧ c ≤ 'F' then some (c.toNat - 55)
  else none

def parseHex? (s : List Char) : Option Nat :=
  if s.isEmpty then none else
  s.foldl (fun acc c => match acc, hexVal? c with
    | some a, some d => some (a * 16 + d)
    | _, _ => none) (some 0)

/-- "61.62.1f600" → chars; "-" or "" → []. -/
def parseCps? (s : String) : Option (List Char) :=
  if s = "-" ∨ s = "" then some [] else
  (s.splitOn ".").foldr (fun p acc =>
    -- `hex*n` = that character n times (the scale streams keep their request lines short)
    match p.splitOn "*" with
    | [h, n] => match acc, parseHex? h.toList, n.toNat? with
      | some l, some c, some k => if k > 16777216 then none else some (List.replicate k (Char.ofNat c) ++ l)
      | _, _, _ => none
    | _ => match acc, parseHex? p.toList with
      | some l, some n => some (Char.ofNat n :: l)
      | _, _ => none) (some [])

def showCps (l : List Char) : String :=
  if l.isEmpty then "-" else ".".intercalate (l.map (fun c => toHex c.toNat))

def showCpsInner (l : List Char) : String :=
  ".".intercalate (l.map (fun c => toHex c.toNat))

/-- "00ff41" → bytes; "-" → []. -/
def parseBytes? (s : String) : Option (List UInt8) :=
  if s = "-" ∨ s = "" then some [] else
  let rec go : List Char → Option (List UInt8)
    | [] => some []
    | [_] => none
    | a :: b :: r => match hexVal? a, hexVal? b, go r with
      | some x, some y, some l => some (UInt8.ofNat (x * 16 + y) :: l)
      | _, _, _ => none
  go s.toList

mutual
partial def showValue : JValue → String
  | .null => "n"
  | .bool true => "t"
  | .bool false => "f"
  | .number s => "#" ++ showCpsInner s ++ ";"
  | .string s => "s" ++ showCpsInner s ++ ";"
  | .array xs => "[" ++ String.join (xs.map showValue) ++ "]"
  | .object es => "{" ++ String.join (es.map (fun e => "k" ++ showCpsInner e.1 ++ ";" ++ showValue e.2)) ++ "}"
end

/-- read hexcps up to ';' -/
def readCps (cs : List Char) : Option (List Char × List Char) :=
  let body := cs.takeWhile (· != ';')
  let rest := cs.dropWhile (· != ';')
  match rest with
  | ';' :: r => (parseCps? (String.ofList body)).map (fun l => (l, r))
  | _ => none

mutual
partial def readValue : List Char → Option (JValue × List Char)
  | 'n' :: r => some (.null, r)
  | 't' :: r => some (.bool true, r)
  | 'f' :: r => some (.bool false, r)
  | '#' :: r => (readCps r).map (fun (l, r) => (.number l, r))
  | 's' :: r => (readCps r).map (fun (l, r) => (.string l, r))
  | '[' :: r => readItems r []
  | '{' :: r => readMembers r []
  | _ => none
partial def readItems (cs : List Char) (acc : List JValue) : Option (JValue × List Char) :=
  match cs with
  | ']' :: r => some (.array acc.reverse, r)
  | _ => match readValue cs with
    | some (v, r) => readItems r (v :: acc)
    | none => none
partial def readMembers (cs : List Char) (acc : List (List Char × JValue)) : Option (JValue × List Char) :=
  match cs with
  | '}' :: r => some (.object acc.reverse, r)
  | 'k' :: r => match readCps r with
    | some (k, r) => match readValue r with
      | some (v, r) => readMembers r ((k, v) :: acc)
      | none => none
    | none => none
  | _ => none
end

def parseValue? (s : String) : Option JValue :=
  match readValue s.toList with
  | some (v, []) => some v
  | _ => none

end Driver
