import JsonVerif.Model.Canon
import Driver.Codec
namespace Driver
open JsonVerif

/-- `n1=c1,n2=c2` (ASCII number texts) -/
def parseNumTable (s : String) : List (List Char × List Char) :=
  if s = "-" then [] else
  (s.splitOn ",").filterMap (fun p => match p.splitOn "=" with
    | [a, b] => some (a.toList, b.toList)
    | _ => none)

def canonCmd (args : List String) : String :=
  match args with
  | [tbl, v] =>
    match parseValue? v with
    | some v =>
      let t := parseNumTable tbl
      let numCanon : List Char → List Char := fun n =>
        match t.find? (fun p => p.1 == n) with
        | some p => p.2
        | none => '?' :: n
      showValue (canon numCanon v)
    | none => "bad-op"
  | _ => "bad-op"

end Driver
