import JsonVerif.Model.Serde
import Driver.Codec
namespace Driver
open JsonVerif

/-- read up to ';' as raw ASCII text -/
def readRaw (cs : List Char) : Option (List Char × List Char) :=
  let body := cs.takeWhile (· != ';')
  match cs.dropWhile (· != ';') with
  | ';' :: r => some (body, r)
  | _ => none

mutual
partial def readSData : List Char → Option (SData × List Char)
  | 'b' :: '0' :: r => some (.bool false, r)
  | 'b' :: '1' :: r => some (.bool true, r)
  | 'i' :: r => (readRaw r).bind (fun (t, r) => (String.ofList t).toInt?.map (fun i => (.int i, r)))
  | 'u' :: r => (readRaw r).bind (fun (t, r) => (String.ofList t).toNat?.map (fun i => (.uint i, r)))
  | 'F' :: r => (readRaw r).map (fun (t, r) => (if t = "null".toList then .float none else .float (some t), r))
  | 'G' :: r => (readRaw r).map (fun (t, r) => (if t = "null".toList then .float none else .float (some t), r))
  | 'c' :: r => (readRaw r).bind (fun (t, r) => (parseHex? t).map (fun n => (.char (Char.ofNat n), r)))
  | 's' :: r => (readCps r).map (fun (t, r) => (.str t, r))
  | 'y' :: r => (readRaw r).bind (fun (t, r) => (parseBytes? (String.ofList t)).map (fun l => (.bytes (l.map (·.toNat)), r)))
  | 'N' :: r => some (.none, r)
  | 'S' :: r => (readSData r).map (fun (d, r) => (.some d, r))
  | 'U' :: r => some (.unit, r)
  | 'X' :: r => some (.unitStruct, r)
  | 'V' :: r => (readCps r).map (fun (t, r) => (.unitVariant t, r))
  | 'W' :: r => (readSData r).map (fun (d, r) => (.newtypeStruct d, r))
  | 'w' :: r => (readCps r).bind (fun (t, r) => (readSData r).map (fun (d, r) => (.newtypeVariant t d, r)))
  | 'q' :: '[' :: r => (readSeq r []).map (fun (l, r) => (.seq l, r))
  | 'T' :: r => (readCps r).bind (fun (t, r) => match r with
      | '[' :: r => (readSeq r []).map (fun (l, r) => (.tupleVariant t l, r))
      | _ => none)
  | 'm' :: '[' :: r => (readPairs r []).map (fun (l, r) => (.map l, r))
  | 'r' :: '[' :: r => (readFields r []).map (fun (l, r) => (.struct l, r))
  | 'R' :: r => (readCps r).bind (fun (t, r) => match r with
      | '[' :: r => (readFields r []).map (fun (l, r) => (.structVariant t l, r))
      | _ => none)
  | _ => none
partial def readSeq (cs : List Char) (acc : List SData) : Option (List SData × List Char) :=
  match cs with
  | ']' :: r => some (acc.reverse, r)
  | _ => (readSData cs).bind (fun (d, r) => readSeq r (d :: acc))
partial def readPairs (cs : List Char) (acc : List (SData × SData)) : Option (List (SData × SData) × List Char) :=
  match cs with
  | ']' :: r => some (acc.reverse, r)
  | _ => (readSData cs).bind (fun (k, r) => (readSData r).bind (fun (v, r) => readPairs r ((k, v) :: acc)))
partial def readFields (cs : List Char) (acc : List (List Char × SData)) : Option (List (List Char × SData) × List Char) :=
  match cs with
  | ']' :: r => some (acc.reverse, r)
  | _ => (readCps cs).bind (fun (k, r) => (readSData r).bind (fun (v, r) => readFields r ((k, v) :: acc)))
end

def showSer : Except SerErr JValue → String
  | .ok v => s!"ok {showValue v}"
  | .error .nonStringKey => "E nonstringkey"
  | .error .malformedNumber => "E malformed"
  | .error (.custom m) => s!"E custom {String.ofList (m.map (fun c => if c = ' ' then '_' else c))}"
  | .error .panic => "PANIC"

def serdeCmd (args : List String) : String :=
  match args with
  | ["ser", d] => match readSData d.toList with
    | some (d, []) => showSer (ser d)
    | _ => "bad-op"
  | ["toval", v] => match parseValue? v with
    | some v => showSer (toValue v)
    | none => "bad-op"
  | ["fromval", _] => "skip"    -- number texts after deserialization come from lexical (opaque): oracle only
  | ["sj", _] => "skip"         -- serde_json's number printing/parsing is opaque: oracle only
  | _ => "bad-op"

end Driver
