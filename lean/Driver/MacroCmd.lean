import JsonVerif.Model.Macro
import Driver.SerdeCmd
namespace Driver
open JsonVerif

mutual
partial def readTok : List Char → List (List Char × List Char) →
    Option (Tok × List Char × List (List Char × List Char))
  | 'n' :: r, env => some (.null, r, env)
  | 't' :: r, env => some (.true_, r, env)
  | 'f' :: r, env => some (.false_, r, env)
  | ',' :: r, env => some (.comma, r, env)
  | ':' :: r, env => some (.colon, r, env)
  | 's' :: r, env => (readCps r).map (fun (t, r) => (.lit (.str t), r, env))
  | 'i' :: r, env => (readRaw r).bind (fun (t, r) => (String.ofList t).toInt?.map (fun i => (.lit (.int i), r, env)))
  | 'F' :: r, env => (readRaw r).bind (fun (t, r) => match (String.ofList t).splitOn "=" with
      | [a, b] => some (.lit (.float a.toList b.toList), r, env)
      | _ => none)
  | 'v' :: r, env => (readRaw r).bind (fun (t, r) => match (String.ofList t).splitOn "=" with
      | [a, b] => (parseCps? b).map (fun v => (.ident a.toList, r, (a.toList, v) :: env))
      | _ => none)
  | '[' :: r, env => (readToks r ']' [] env).map (fun (ts, r, env) => (.bracket ts, r, env))
  | '{' :: r, env => (readToks r '}' [] env).map (fun (ts, r, env) => (.brace ts, r, env))
  | '(' :: r, env => (readToks r ')' [] env).map (fun (ts, r, env) => (.paren ts, r, env))
  | _, _ => none
partial def readToks (cs : List Char) (close : Char) (acc : List Tok) (env : List (List Char × List Char)) :
    Option (List Tok × List Char × List (List Char × List Char)) :=
  match cs with
  | c :: r => if c = close then some (acc.reverse, r, env) else
      (readTok cs env).bind (fun (t, r, env) => readToks r close (t :: acc) env)
  | [] => none
end

def macroCmd (args : List String) : String :=
  match args with
  | [toks] =>
    match readTok toks.toList [] with
    | some (t, [], env) =>
      match expandJson (fun x => (env.find? (fun p => p.1 == x)).map (·.2)) [t] with
      | some v => s!"ok {showValue v}"
      | none => "no-rule"
    | _ => "bad-op"
  | _ => "bad-op"

end Driver
