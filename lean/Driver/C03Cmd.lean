import Driver.ParseCmd
namespace Driver
open JsonVerif

def rep (n : Nat) (s : List Char) : List Char := Id.run do
  let mut out : Array Char := Array.mkEmpty (n * s.length)
  for _ in [0:n] do
    for c in s do
      out := out.push c
  return out.toList

/-- the same document family as `deep_doc` in harness/src/c03.rs -/
def deepDoc (kind : String) (depth : Nat) (closed : Bool) : List Char :=
  if kind = "arr" then
    rep depth ['['] ++ (if closed then rep depth [']'] else [])
  else if kind = "obj" then
    rep depth "{\"k\":".toList ++ (if closed then '0' :: rep depth ['}'] else [])
  else Id.run do
    let mut out : Array Char := #[]
    for i in [0:depth] do
      for c in (if i % 2 = 0 then "[1, " else "{\"a\":true,\"b\": ").toList do
        out := out.push c
    if closed then
      for c in "null".toList do out := out.push c
      for j in [0:depth] do
        let i := depth - 1 - j
        for c in (if i % 2 = 0 then " ]" else "}").toList do
          out := out.push c
    return out.toList

def c03Cmd (args : List String) : String :=
  match args with
  | ["deep", kind, d, closed] =>
    match d.toNat? with
    | some d =>
      match run ⟨false, false⟩ [] none { rest := deepDoc kind d (closed = "1"), bad := false, pos := 0, cm := #[] } with
      | .ok (_, s) => s!"ok {s.cm.size}"
      | .error e => showErr false e
    | none => "bad-op"
  | ["pull", o, inp] =>
    match parseOpts? o, parseCps? inp with
    | some o, some cs => showParse false (parseChars o cs false)
    | _, _ => "bad-op"
  | _ => "bad-op"

end Driver
