import Driver.ParseCmd
namespace Driver
open JsonVerif

def rep (n : Nat) (s : List Char) : List Char := Id.run do
  let mut out : Array Char := Array.mkEmpty (n * s.length)
  for _ in [0:n] do
    for c in s do
      out := out.push c
  return out.toList

/-- the same document family as `deep_doc` in harness/src/c03.rs -/
def deepDoc (kind : String) (depth : Nat) (closed : Bool) : List Char :=
  if kind = "arr" then
    rep depth ['['] ++ (if closed then rep depth [']'] else [])
  else if kind = "tail" then
    rep depth ['['] ++ rep depth [']'] ++ (if closed then [] else ['x'])
  else if kind = "mid" then Id.run do
    let mut out : Array Char := #['[', '1', ',']
    for i in [0:depth] do
      for c in (if i % 2 = 0 then "[" else "{\"a\":").toList do out := out.push c
    for c in "null".toList do out := out.push c
    for j in [0:depth] do
      let i := depth - 1 - j
      out := out.push (if i % 2 = 0 then ']' else '}')
    for c in (if closed then ",2]" else ",}").toList do out := out.push c
    return out.toList
  else if kind = "obj" then
    rep depth "{\"k\":".toList ++ (if closed then '0' :: rep depth ['}'] else [])
  else if kind = "ws" then Id.run do
    let w : List Char := (List.range depth).map fun i => [' ', '\n', '\t', '\r'][i % 4]!
    let mut out : Array Char := #[]
    for part in ["", "[", "1", ",", "{", "\"k\"", ":", "[]", ",", "\"l\"", ":", "\"s\""] do
      for c in part.toList do out := out.push c
      for c in w do out := out.push c
    if closed then
      out := out.push '}'
      for c in w do out := out.push c
      out := out.push ']'
      for c in w do out := out.push c
    return out.toList
  else if kind = "pretty" then Id.run do
    let d := Nat.sqrt depth + 1
    let mut out : Array Char := #[]
    for i in [0:d] do
      if i % 2 = 0 then out := out.push '['
      else
        for c in "{\"a\": 1,\n".toList do out := out.push c
        for _ in [0:i] do out := out.push ' '
        for c in "\"b\":".toList do out := out.push c
      out := out.push '\n'
      for _ in [0:i+1] do out := out.push ' '
    for c in "null".toList do out := out.push c
    if closed then
      for j in [0:d] do
        let i := d - 1 - j
        out := out.push '\n'
        for _ in [0:i] do out := out.push ' '
        out := out.push (if i % 2 = 0 then ']' else '}')
    return out.toList
  else if kind = "long" then Id.run do
    let mut out : Array Char := #['[', '"']
    for i in [0:depth] do
      let part := if i % 7 = 0 then "\\n" else if i % 7 = 1 then "\\u00e9" else if i % 7 = 2 then "\\ud83d\\ude00"
        else if i % 7 = 3 then "é" else "a"
      for c in part.toList do out := out.push c
    for c in "\",-".toList do out := out.push c
    for i in [0:depth] do out := out.push (Char.ofNat (49 + i % 9))
    out := out.push '.'
    for _ in [0:depth] do out := out.push '0'
    for c in "e+".toList do out := out.push c
    for _ in [0:depth] do out := out.push '7'
    for c in ",{".toList do out := out.push c
    for i in [0:depth] do
      if i > 0 then out := out.push ','
      for c in (if i % 2 = 0 then "\"k\":[]" else "\"k\":0").toList do out := out.push c
    out := out.push '}'
    for _ in [0:depth] do
      for c in ",null".toList do out := out.push c
    if closed then out := out.push ']'
    return out.toList
  else Id.run do
    let mut out : Array Char := #[]
    for i in [0:depth] do
      for c in (if i % 2 = 0 then "[1, " else "{\"a\":true,\"b\": ").toList do
        out := out.push c
    if closed then
      for c in "null".toList do out := out.push c
      for j in [0:depth] do
        let i := depth - 1 - j
        for c in (if i % 2 = 0 then " ]" else "}").toList do
          out := out.push c
    return out.toList

def c03Cmd (args : List String) : String :=
  match args with
  | ["deep", kind, d, closed] =>
    match d.toNat? with
    | some d =>
      -- the model's string and number buffers are lists extended at the end (quadratic): beyond
      -- this size the long-token family is checked by the direct oracle only
      if kind = "long" && d > 20000 then "skip" else
      match run ⟨false, false⟩ [] none { rest := deepDoc kind d (closed = "1"), bad := false, pos := 0, cm := #[] } with
      | .ok (_, s) => s!"ok {s.cm.size}"
      | .error e => showErr false e
    | none => "bad-op"
  | ["pull", o, inp] =>
    match parseOpts? o, parseCps? inp with
    | some o, some cs => showParse false (parseChars o cs false)
    | _, _ => "bad-op"
  | _ => "bad-op"

end Driver
