import JsonVerif.Model.Unordered
import Driver.Codec
namespace Driver
open JsonVerif
def ueqCmd (args : List String) : String :=
  match args with
  | [a, b] => match parseValue? a, parseValue? b with
    | some a, some b => toString (ueq a b)
    | _, _ => "bad-op"
  | _ => "bad-op"
end Driver
