import JsonVerif.Model.De
import JsonVerif.Model.SerdeJsonNum
import Driver.SerdeCmd
/-!
Line-protocol glue for the deserializer model (not verified):
  serde rt <DTy> <SData> <numtable> | serde de <DTy> <V> <numtable> | serde fromvalm <V> <numtable>
-/
namespace Driver
open JsonVerif

def readIntW : Char → Char → Option IntW
  | 'I', '1' => some .i8 | 'I', '2' => some .i16 | 'I', '4' => some .i32 | 'I', '8' => some .i64
  | 'U', '1' => some .u8 | 'U', '2' => some .u16 | 'U', '4' => some .u32 | 'U', '8' => some .u64
  | _, _ => none

mutual
partial def readDTy : List Char → Option (DTy × List Char)
  | 'b' :: r => some (.bool, r)
  | 'c' :: r => some (.char, r)
  | 's' :: r => some (.str, r)
  | 'n' :: r => some (.unit, r)
  | 'N' :: r => some (.unitStruct, r)
  | 'f' :: '4' :: r => some (.f32, r)
  | 'f' :: '8' :: r => some (.f64, r)
  | 'I' :: d :: r => (readIntW 'I' d).map (fun w => (.int w, r))
  | 'U' :: d :: r => (readIntW 'U' d).map (fun w => (.int w, r))
  | 'o' :: r => (readDTy r).map (fun (t, r) => (.opt t, r))
  | 'w' :: r => (readDTy r).map (fun (t, r) => (.newtype t, r))
  | 'q' :: r => (readDTy r).map (fun (t, r) => (.seq t, r))
  | 't' :: '[' :: r => (readDTys r []).map (fun (ts, r) => (.tuple ts, r))
  | 'T' :: '[' :: r => (readDTys r []).map (fun (ts, r) => (.tuple ts, r))   -- tuple struct: same behaviour
  | 'm' :: r => (readKTy r).bind (fun (k, r) => (readDTy r).map (fun (t, r) => (.map k t, r)))
  | 'r' :: '[' :: r => (readNamed r []).map (fun (fs, r) => (.struct fs, r))
  | 'e' :: '[' :: r => (readNamed r []).map (fun (fs, r) => (.enum fs, r))
  | _ => none
partial def readDTys (cs : List Char) (acc : List DTy) : Option (List DTy × List Char) :=
  match cs with
  | ']' :: r => some (acc.reverse, r)
  | _ => (readDTy cs).bind (fun (t, r) => readDTys r (t :: acc))
partial def readNamed (cs : List Char) (acc : List (List Char × DTy)) : Option (List (List Char × DTy) × List Char) :=
  match cs with
  | ']' :: r => some (acc.reverse, r)
  | _ => (readCps cs).bind (fun (n, r) => (readDTy r).bind (fun (t, r) => readNamed r ((n, t) :: acc)))
/-- key descriptors: the descriptors a `KTy` can express -/
partial def readKTy (cs : List Char) : Option (KTy × List Char) :=
  match readDTy cs with
  | some (t, r) =>
    let rec conv : DTy → Option KTy
      | .str => some .str
      | .int w => some (.int w)
      | .char => some .char
      | .newtype t => (conv t).map .newtype
      | .enum vs => if vs.all (fun v => match v.2 with | .unit => true | _ => false) then some (.unitEnum (vs.map (·.1))) else none
      | _ => none
    (conv t).map (fun k => (k, r))
  | none => none
end

def parseDTy? (s : String) : Option DTy :=
  match readDTy s.toList with
  | some (t, []) => some t
  | _ => none

def parseSData? (s : String) : Option SData :=
  match readSData s.toList with
  | some (d, []) => some d
  | _ => none

/-- `-` or `n=t32=t64,…` (texts as hex code points, `!` = not finite) -/
def parseTable? (s : String) : Option (List (List Char × Option (List Char) × Option (List Char))) :=
  if s = "-" then some [] else
  (s.splitOn ",").foldr (fun e acc =>
    match acc, e.splitOn "=" with
    | some l, [n, a, b] =>
      let tx (x : String) : Option (Option (List Char)) := if x = "!" then some none else (parseCps? x).map some
      match parseCps? n, tx a, tx b with
      | some n, some a, some b => some ((n, a, b) :: l)
      | _, _, _ => none
    | _, _ => none) (some [])

/-- `text=printed` pairs (`!` = none): the float leg of the serde_json number conversion -/
def parseTable2? (s : String) : Option (List (List Char × Option (List Char))) :=
  if s = "-" then some [] else
  (s.splitOn ",").foldr (fun e acc =>
    match acc, e.splitOn "=" with
    | some l, [n, a] =>
      let tx (x : String) : Option (Option (List Char)) := if x = "!" then some none else (parseCps? x).map some
      match parseCps? n, tx a with
      | some n, some a => some ((n, a) :: l)
      | _, _ => none
    | _, _ => none) (some [])

def envOf (tab : List (List Char × Option (List Char) × Option (List Char))) : FEnv where
  f32 n := match tab.find? (fun e => e.1 == n) with | some e => e.2.1 | none => none
  f64 n := match tab.find? (fun e => e.1 == n) with | some e => e.2.2 | none => none

def hexBytes (l : List Nat) : String :=
  if l.isEmpty then "-" else String.join (l.map (fun b => String.ofList [hexDigit (b / 16), hexDigit (b % 16)]))

mutual
partial def showSData : SData → String
  | .bool b => if b then "b1" else "b0"
  | .int i => s!"i{i};"
  | .uint n => s!"u{n};"
  | .float (some t) => "F" ++ String.ofList t ++ ";"
  | .float none => "Fnull;"
  | .char c => "c" ++ toHex c.toNat ++ ";"
  | .str s => "s" ++ showCpsInner s ++ ";"
  | .bytes l => "y" ++ hexBytes l ++ ";"
  | .none => "N"
  | .some d => "S" ++ showSData d
  | .unit => "U"
  | .unitStruct => "X"
  | .unitVariant v => "V" ++ showCpsInner v ++ ";"
  | .newtypeStruct d => "W" ++ showSData d
  | .newtypeVariant v d => "w" ++ showCpsInner v ++ ";" ++ showSData d
  | .seq l => "q[" ++ String.join (l.map showSData) ++ "]"
  | .tupleVariant v l => "T" ++ showCpsInner v ++ ";[" ++ String.join (l.map showSData) ++ "]"
  | .map l => "m[" ++ String.join (l.map (fun e => showSData e.1 ++ showSData e.2)) ++ "]"
  | .struct l => "r[" ++ String.join (l.map (fun e => showCpsInner e.1 ++ ";" ++ showSData e.2)) ++ "]"
  | .structVariant v l => "R" ++ showCpsInner v ++ ";[" ++ String.join (l.map (fun e => showCpsInner e.1 ++ ";" ++ showSData e.2)) ++ "]"
end

def showDeErr : DeErr → String
  | .invalidType => "invalidType" | .invalidValue => "invalidValue" | .invalidLength => "invalidLength"
  | .missingField => "missingField" | .duplicateField => "duplicateField" | .unknownVariant => "unknownVariant"
  | .custom => "custom"

def showDe (sep : String) : Except DeErr SData → String
  | .ok d => "ok" ++ sep ++ showSData d
  | .error e => "E" ++ sep ++ showDeErr e

mutual
partial def numbersOf : JValue → List (List Char)
  | .number n => [n]
  | .array xs => (xs.map numbersOf).flatten
  | .object es => (es.map (fun e => numbersOf e.2)).flatten
  | _ => []
end

def deCmd (args : List String) : String :=
  match args with
  | ["rt", ty, d, tab] =>
    match parseDTy? ty, parseSData? d, parseTable? tab with
    | some ty, some d, some tab =>
      match ser d with
      | .ok v => s!"ok {showValue v} {showDe "_" (de (envOf tab) ty v)}"
      | r => showSer r
    | _, _, _ => "bad-op"
  | ["de", ty, v, tab] =>
    match parseDTy? ty, parseValue? v, parseTable? tab with
    | some ty, some v, some tab => showDe " " (de (envOf tab) ty v)
    | _, _, _ => "bad-op"
  | ["fromvalm", v, tab] =>
    match parseValue? v, parseTable? tab with
    | some v, some tab =>
      match fromValue (envOf tab).f64 v with
      | .ok w => s!"ok {showValue w}"
      | .error e => s!"E {showDeErr e}"
    | _, _ => "bad-op"
  | ["fromobj", v, tab] =>
    match parseValue? v, parseTable? tab with
    | some v, some tab =>
      match fromValueObject (envOf tab).f64 v with
      | .ok w => s!"ok {showValue w}"
      | .error e => s!"E {showDeErr e}"
    | _, _ => "bad-op"
  | ["sj", v, tab] =>
    match parseValue? v, parseTable2? tab with
    | some v, some tab =>
      let ftbl (n : List Char) : Option (List Char) :=
        match tab.find? (fun e => e.1 == n) with | some e => e.2 | none => none
      s!"ok {showValue (sjThereAndBack ftbl v)}"
    | _, _ => "bad-op"
  | _ => "bad-op"

end Driver
