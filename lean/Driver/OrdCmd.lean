import JsonVerif.Model.Order
import Driver.ObjCmd
namespace Driver
open JsonVerif

def showOrd : Ordering → String
  | .lt => "lt" | .eq => "eq" | .gt => "gt"

/-- run a history (ops joined by `,`) on the model; `none` = panic / bad op -/
def runHistory (ops : List String) : Option Obj :=
  ops.foldlM (fun o op => (objStep o op).map (·.1)) Obj.empty

def ordCmd (args : List String) : String :=
  match args with
  | ["cmp", a, b] =>
    match parseValue? a, parseValue? b with
    | some a, some b => s!"eq={JValue.beq a b} cmp={showOrd (JValue.cmp a b)}"
    | _, _ => "bad-op"
  | ["cmp3", a, b, c] =>
    match parseValue? a, parseValue? b, parseValue? c with
    | some a, some b, some c => s!"{showOrd (JValue.cmp a b)} {showOrd (JValue.cmp b c)} {showOrd (JValue.cmp a c)}"
    | _, _, _ => "bad-op"
  | ["hist", h1, h2] =>
    match runHistory (h1.splitOn "+"), runHistory (h2.splitOn "+") with
    | some o1, some o2 =>
      s!"eq={JValue.beq (.object o1.entries) (.object o2.entries)} cmp={showOrd (cmpM o1.entries o2.entries)}"
    | _, _ => "PANIC"
  | _ => "bad-op"

end Driver
