import JsonVerif.Model.Mapped
import JsonVerif.Model.Machine
import Driver.ObjCmd
import Driver.ParseCmd
namespace Driver
open JsonVerif

def kindCode : JValue → String
  | .null => "n" | .bool _ => "b" | .number _ => "d" | .string _ => "s" | .array _ => "a" | .object _ => "o"

def fragCode : Frag → String
  | .value v => kindCode v
  | .entry _ _ => "e"
  | .key _ => "k"

def dedup (l : List Key) : List Key := l.foldl (fun acc k => if acc.contains k then acc else acc ++ [k]) []

def showTriples (l : List (Nat × Nat × Nat)) : String :=
  ";".intercalate (l.map (fun t => s!"{t.1}-{t.2.1}-{t.2.2}"))
def showQuads (l : List (Nat × Nat × Nat × Nat)) : String :=
  ";".intercalate (l.map (fun t => s!"{t.1}-{t.2.1}-{t.2.2.1}-{t.2.2.2}"))

/-- containers in pre-order, with their mapped iterators and keyed lookups -/
partial def walk (cm : List CMEntry) (v : JValue) (off : Nat) : List String × List String :=
  match v with
  | .array xs =>
    match arrayMapped cm off xs with
    | none => (["PANIC"], [])
    | some offs =>
      let sub := (xs.zip offs).map (fun p => walk cm p.1 p.2)
      (s!"A{off}:{showNats offs}" :: sub.flatMap (·.1), sub.flatMap (·.2))
  | .object es =>
    match objectMapped cm off es, Obj.fromVec es with
    | some tr, some o =>
      let keys := dedup (es.map (·.1)) ++ [['z', 'z']]
      let ks := keys.map (fun k => match mappedEntries cm off o k with
        | some q => s!"K{off}:{showCps k}:{showQuads q}"
        | none => "PANIC")
      let sub := (es.zip tr).map (fun p => walk cm p.1.2 p.2.2.2)
      (s!"O{off}:{showTriples tr}" :: sub.flatMap (·.1), ks ++ sub.flatMap (·.2))
    | _, _ => (["PANIC"], [])
  | _ => ([], [])

/-- `tryFrom <type code>`: model of the `TryFromJson` impls of src/try_from.rs on the leaf types
    B (bool), S (String), U (unit), N (u8) and the constructors V (Vec), M (BTreeMap<String,_>),
    O (Option); error = offset of the offending fragment; `none` = panic -/
partial def tryFrom (cm : List CMEntry) : List Char → JValue → Nat → Option (Except Nat Unit)
  | ['B'], v, off => some (match v with | .bool _ => .ok () | _ => .error off)
  | ['S'], v, off => some (match v with | .string _ => .ok () | _ => .error off)
  | ['U'], v, off => some (match v with | .null => .ok () | _ => .error off)
  | ['N'], v, off => some (match v with
      | .number n => if n.all Char.isDigit && (String.ofList n).toNat?.any (· ≤ 255) then .ok () else .error off
      | _ => .error off)
  | 'O' :: t, v, off => (match v with | .null => some (.ok ()) | _ => tryFrom cm t v off)
  | 'V' :: t, v, off =>
    match v with
    | .array xs =>
      match arrayMapped cm off xs with
      | none => none
      | some offs =>
        (xs.zip offs).foldl (fun acc p => match acc with
          | some (.ok ()) => tryFrom cm t p.1 p.2
          | other => other) (some (.ok ()))
    | _ => some (.error off)
  | 'M' :: t, v, off =>
    match v with
    | .object es =>
      match objectMapped cm off es with
      | none => none
      | some tr =>
        (es.zip tr).foldl (fun acc p => match acc with
          | some (.ok ()) => tryFrom cm t p.1.2 p.2.2.2
          | other => other) (some (.ok ()))
    | _ => some (.error off)
  | _, _, _ => none

def mappedCmd (args : List String) : String :=
  match args with
  | ["nav", doc] =>
    match parseCps? doc with
    | none => "bad-op"
    | some cs =>
      match parseChars ⟨false, false⟩ cs false with
      | .error e => showErr false e
      | .ok (v, cm) =>
        let (cs1, ks) := walk cm v 0
        let n := v.frags
        let fr := (List.range (n + 3)).map (fun i => match getFragment v i with
          | .inl f => fragCode f
          | .inr k => s!"!{k}")
        let tr := (traverse v).map fragCode
        s!"n={cm.length}|C:{",".intercalate cs1}|K:{",".intercalate ks}|F:{".".intercalate fr}|T:{String.join tr}|V:{volume v}"
  | ["conv", ty, doc] =>
    match parseCps? doc with
    | none => "bad-op"
    | some cs =>
      match parseChars ⟨false, false⟩ cs false with
      | .error e => showErr false e
      | .ok (v, cm) =>
        match tryFrom cm ty.toList v 0 with
        | some (.ok ()) => "ok"
        | some (.error off) => s!"err {off}"
        | none => "PANIC"
  | _ => "bad-op"

end Driver
