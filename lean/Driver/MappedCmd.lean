import JsonVerif.Model.Mapped
import JsonVerif.Model.TryFrom
import JsonVerif.Model.Machine
import Driver.ObjCmd
import Driver.ParseCmd
namespace Driver
open JsonVerif

def kindCode : JValue → String
  | .null => "n" | .bool _ => "b" | .number _ => "d" | .string _ => "s" | .array _ => "a" | .object _ => "o"

def fragCode : Frag → String
  | .value v => kindCode v
  | .entry _ _ => "e"
  | .key _ => "k"

def dedup (l : List Key) : List Key := l.foldl (fun acc k => if acc.contains k then acc else acc ++ [k]) []

def showTriples (l : List (Nat × Nat × Nat)) : String :=
  ";".intercalate (l.map (fun t => s!"{t.1}-{t.2.1}-{t.2.2}"))
def showQuads (l : List (Nat × Nat × Nat × Nat)) : String :=
  ";".intercalate (l.map (fun t => s!"{t.1}-{t.2.1}-{t.2.2.1}-{t.2.2.2}"))

/-- containers in pre-order, with their mapped iterators and keyed lookups -/
partial def walk (cm : List CMEntry) (v : JValue) (off : Nat) : List String × List String :=
  match v with
  | .array xs =>
    match arrayMapped cm off xs with
    | none => (["PANIC"], [])
    | some offs =>
      let sub := (xs.zip offs).map (fun p => walk cm p.1 p.2)
      (s!"A{off}:{showNats offs}" :: sub.flatMap (·.1), sub.flatMap (·.2))
  | .object es =>
    match objectMapped cm off es, Obj.fromVec es with
    | some tr, some o =>
      let keys := dedup (es.map (·.1)) ++ [['z', 'z']]
      let ks := keys.map (fun k => match mappedEntries cm off o k with
        | some q => s!"K{off}:{showCps k}:{showQuads q}"
        | none => "PANIC")
      let sub := (es.zip tr).map (fun p => walk cm p.1.2 p.2.2.2)
      (s!"O{off}:{showTriples tr}" :: sub.flatMap (·.1), ks ++ sub.flatMap (·.2))
    | _, _ => (["PANIC"], [])
  | _ => ([], [])

/-- type codes of the harness: B (bool), S (String), U (unit), N (u8), V (Vec), M (BTreeMap<String,_>),
    O (Option), X (Box) -/
def parseCTy : List Char → Option CTy
  | ['B'] => some .bool
  | ['S'] => some .str
  | ['U'] => some .unit
  | ['N'] => some .u8
  | 'O' :: t => (parseCTy t).map .opt
  | 'V' :: t => (parseCTy t).map .vec
  | 'M' :: t => (parseCTy t).map .map
  | 'X' :: t => (parseCTy t).map .box
  | _ => none

def mappedCmd (args : List String) : String :=
  match args with
  | ["nav", doc] =>
    match parseCps? doc with
    | none => "bad-op"
    | some cs =>
      if cs.length > 60000 then "skip" else   -- quadratic executable model: oracle-only beyond this size
      match parseChars ⟨false, false⟩ cs false with
      | .error e => showErr false e
      | .ok (v, cm) =>
        let (cs1, ks) := walk cm v 0
        let n := v.frags
        let fr := (List.range (n + 3)).map (fun i => match getFragment v i with
          | .inl f => fragCode f
          | .inr k => s!"!{k}")
        let tr := (traverse v).map fragCode
        s!"n={cm.length}|C:{",".intercalate cs1}|K:{",".intercalate ks}|F:{".".intercalate fr}|T:{String.join tr}|V:{volume v}"
  | ["conv", ty, doc] =>
    match parseCps? doc with
    | none => "bad-op"
    | some cs =>
      match parseChars ⟨false, false⟩ cs false with
      | .error e => showErr false e
      | .ok (v, cm) =>
        match parseCTy ty.toList with
        | none => "bad-op"
        | some t =>
          match tryFrom cm t v 0 with
          | some (.ok ()) => "ok"
          | some (.error off) => s!"err {off}"
          | none => "PANIC"
  | _ => "bad-op"

end Driver
