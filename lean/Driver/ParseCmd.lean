import JsonVerif.Model.Machine
import JsonVerif.Model.Utf8
import Driver.Codec
namespace Driver
open JsonVerif

def showOptChar : Option Char → String
  | none => "none"
  | some c => toHex c.toNat

def showErr (slice : Bool) : PErr → String
  | .stream p => if slice then s!"E utf8 {p}" else s!"E stream {p}"
  | .unexpected p c => s!"E unexpected {p} {showOptChar c}"
  | .invalidCodePoint s e cp => s!"E invcp {s} {e} {toHex cp}"
  | .missingLow s e hi => s!"E misslow {s} {e} {toHex hi}"
  | .invalidLow s e hi cp => s!"E invlow {s} {e} {toHex hi} {toHex cp}"
  | .panic => "PANIC"

def showCm (cm : List CMEntry) : String :=
  if cm.isEmpty then "-" else ",".intercalate (cm.map (fun e => s!"{e.start}-{e.stop}-{e.volume}"))

def showParse (slice : Bool) : Except PErr (JValue × List CMEntry) → String
  | .error e => showErr slice e
  | .ok (v, cm) => s!"ok {showValue v} {showCm cm}"

def parseOpts? (s : String) : Option ParseOptions :=
  match s.toList with
  | [t, i] => if (t = 't' ∨ t = 'f') ∧ (i = 't' ∨ i = 'f') then some ⟨t = 't', i = 't'⟩ else none
  | _ => none

/-- `parse str|cherr <opts> <cps>` / `parse bytes <opts> <hex>` -/
def parseCmd (args : List String) : String :=
  match args with
  | [mode, o, inp] =>
    match parseOpts? o with
    | none => "bad-op"
    | some o =>
      if mode = "str" then match parseCps? inp with
        | some cs =>
          -- the executable model appends to its accumulators (`acc ++ [c]`): quadratic in the length
          -- of a token / container. Beyond this size the case is decided by the oracles on the real
          -- code only (the theorems are about all sizes; the differential tie is bounded here)
          if cs.length > 4000000 then "skip" else showParse false (parseChars o cs false)
        | none => "bad-op"
      else if mode = "cherr" then match parseCps? inp with
        | some cs => showParse false (parseChars o cs true)
        | none => "bad-op"
      else if mode = "bytes" then match parseBytes? inp with
        | some bs =>
          if bs.length > 4000000 then "skip" else
          let d := utf8Dec bs
          showParse true (parseChars o d.1 d.2)
        | none => "bad-op"
      else "bad-op"
  | _ => "bad-op"

end Driver
