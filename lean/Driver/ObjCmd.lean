import JsonVerif.Model.Object
import Driver.Codec
namespace Driver
open JsonVerif

def showEntry (e : Key × JValue) : String := s!"k{showCpsInner e.1};{showValue e.2}"
def showEntries (es : List (Key × JValue)) : String := "{" ++ String.join (es.map showEntry) ++ "}"
def showOptNat : Option Nat → String
  | none => "-"
  | some n => toString n
def showNats (l : List Nat) : String := ".".intercalate (l.map toString)

/-- insertion sort of buckets by representative (canonical dump order) -/
def sortBuckets (bs : List Bucket) : List Bucket :=
  bs.foldl (fun acc b =>
    let (lo, hi) := acc.span (fun c => c.rep ≤ b.rep)
    lo ++ b :: hi) []

def showBuckets (bs : List Bucket) : String :=
  ",".intercalate ((sortBuckets bs).map (fun b => s!"{b.rep}>{showNats b.other}"))

def showQueries (o : Obj) (keys : List Key) : String :=
  ",".intercalate (keys.map (fun k =>
    let vals := match o.getEntries k with
      | some es => String.join (es.map (fun (e : Key × JValue) => showValue e.2))
      | none => "PANIC"
    s!"{showCps k}:{o.containsKey k}:{showOptNat (o.indexOf k)}:{showOptNat (o.redundantIndexOf k)}:{showNats (o.indexesOf k)}:[{vals}]"))

def parseEntryList? (s : String) : Option (List (Key × JValue)) :=
  if s = "-" ∨ s = "" then some [] else
  (s.splitOn ",").foldr (fun p acc =>
    match acc, p.splitOn "=" with
    | some l, [k, v] => match parseCps? k, parseValue? v with
      | some k, some v => some ((k, v) :: l)
      | _, _ => none
    | _, _ => none) (some [])

/-- keys mentioned by an op -/
def opKeys (op : String) : List Key :=
  match op.splitOn ":" with
  | [name, a] =>
    if name = "rmu" ∨ name = "q" then (parseCps? a).toList
    else if name = "new" ∨ name = "ext" then (parseEntryList? a).getD [] |>.map (·.1)
    else []
  | [name, a, _] =>
    if name = "push" ∨ name = "pushf" ∨ name = "rm" ∨ name = "getmut" ∨ name = "goi" then (parseCps? a).toList else []
  | [name, a, _, _] => if name = "ins" ∨ name = "insf" then (parseCps? a).toList else []
  | _ => []

def dedupKeys (l : List Key) : List Key :=
  l.foldl (fun acc k => if acc.contains k then acc else acc ++ [k]) []

def takeN (n : Nat) (l : List (Key × JValue)) : List (Key × JValue) := if n ≥ 9 then l else l.take n

/-- one op: new object (or none = panic) and the op's result text -/
def objStep (o : Obj) (op : String) : Option (Obj × String) :=
  match op.splitOn ":" with
  | ["sort"] => (o.sort).map (fun o' => (o', "ok"))
  | ["clone"] => some (o, "eq")
  | ["new", es] => (parseEntryList? es).bind (fun es => (Obj.fromVec es).map (fun o' => (o', "ok")))
  | ["ext", es] => (parseEntryList? es).bind (fun es => (o.extend es).map (fun o' => (o', "ok")))
  | ["rmat", i] => i.toNat?.bind (fun i => (o.removeAt i).map (fun r =>
      (r.1, match r.2 with | some e => showEntry e | none => "none")))
  | ["rmu", k] => (parseCps? k).bind (fun k => (o.removeUnique k).map (fun r =>
      (r.1, match r.2 with
        | .none => "none"
        | .one e => s!"one {showEntry e}"
        | .dup a b => s!"dup {showEntry a} {showEntry b}")))
  | ["push", k, v] => match parseCps? k, parseValue? v with
    | some k, some v => (o.push k v).map (fun r => (r.1, toString r.2))
    | _, _ => none
  | ["pushf", k, v] => match parseCps? k, parseValue? v with
    | some k, some v => (o.pushFront k v).map (fun r => (r.1, toString r.2))
    | _, _ => none
  | ["rm", k, n] => match parseCps? k, n.toNat? with
    | some k, some n => (o.remove k).map (fun r => (r.1, showEntries (takeN n r.2)))
    | _, _ => none
  | ["setv", i, v] => match i.toNat?, parseValue? v with
    | some i, some v => some (o.setValueAt i v, "ok")
    | _, _ => none
  | ["getmut", k, v] => match parseCps? k, parseValue? v with
    | some k, some v => (o.setValuesOf k v).map (fun o' => (o', toString (o.indexesOf k).length))
    | _, _ => none
  | ["goi", k, v] => match parseCps? k, parseValue? v with
    | some k, some v => (o.getOrInsertWith k v).map (fun r => (r.1, showValue r.2))
    | _, _ => none
  | ["ins", k, v, n] => match parseCps? k, parseValue? v, n.toNat? with
    | some k, some v, some n => (o.insert k v).map (fun r =>
        (r.1, match r.2 with | none => "fresh" | some l => showEntries (takeN n l)))
    | _, _, _ => none
  | ["insf", k, v, n] => match parseCps? k, parseValue? v, n.toNat? with
    | some k, some v, some n => (o.insertFront k v).map (fun r => (r.1, showEntries (takeN n r.2)))
    | _, _, _ => none
  | _ => none

/-- `obj <flags> op op …`: after every op, the op's result, the entries, every key query for every
    key of the history's universe (flag `q`), and the sorted bucket dump (flag `b`). -/
def objCmd (args : List String) : String :=
  match args with
  | flags :: ops =>
    let keys := dedupKeys (ops.flatMap opKeys)
    let rec go (o : Obj) (ops : List String) (acc : List String) : List String :=
      match ops with
      | [] => acc.reverse
      | op :: rest =>
        match objStep o op with
        | none => ("PANIC" :: acc).reverse
        | some (o', res) =>
          -- flag `x` (scale histories): the full state only after the last operation
          if flags.contains 'x' && !rest.isEmpty then go o' rest (res :: acc) else
          let q := if flags.contains 'q' then "#" ++ showQueries o' keys else ""
          let b := if flags.contains 'b' then "#" ++ showBuckets o'.buckets else ""
          go o' rest (s!"{res}#{showEntries o'.entries}#{o'.containsDuplicateKeys}{q}{b}" :: acc)
    " | ".intercalate (go Obj.empty ops [])
  | [] => "bad-op"

end Driver
