import JsonVerif.Model.Basic
import JsonVerif.Model.Kind
import JsonVerif.Props.C20
