/-!
# UTF-8 validation and decoding of the byte entry points

Models `core::str::from_utf8` as used by `parse_slice_with` (after the `fix:` for overlong forms):
the longest well-formed prefix is decoded, and `bad` tells whether an ill-formed sequence follows
(`Utf8Error::valid_up_to` = the UTF-8 length of the decoded prefix).
The table is the one of the Rust standard library (`run_utf8_validation`, RFC 3629 §4).
-/
namespace JsonVerif

def isCont (b : Nat) : Bool := 0x80 ≤ b && b ≤ 0xBF

/-- decoded prefix, `true` iff an ill-formed sequence follows it -/
def utf8Dec : List UInt8 → List Char × Bool
  | [] => ([], false)
  | b0 :: rest =>
    let x := b0.toNat
    if x < 0x80 then
      let r := utf8Dec rest
      (Char.ofNat x :: r.1, r.2)
    else if 0xC2 ≤ x && x ≤ 0xDF then
      match rest with
      | b1 :: rest1 =>
        let y := b1.toNat
        if isCont y then
          let r := utf8Dec rest1
          (Char.ofNat ((x - 0xC0) * 64 + (y - 0x80)) :: r.1, r.2)
        else ([], true)
      | [] => ([], true)
    else if 0xE0 ≤ x && x ≤ 0xEF then
      match rest with
      | b1 :: b2 :: rest2 =>
        let y := b1.toNat
        let z := b2.toNat
        let ok1 := (x = 0xE0 && 0xA0 ≤ y && y ≤ 0xBF) || (0xE1 ≤ x && x ≤ 0xEC && isCont y) ||
                   (x = 0xED && 0x80 ≤ y && y ≤ 0x9F) || (0xEE ≤ x && isCont y)
        if ok1 && isCont z then
          let r := utf8Dec rest2
          (Char.ofNat ((x - 0xE0) * 4096 + (y - 0x80) * 64 + (z - 0x80)) :: r.1, r.2)
        else ([], true)
      | _ => ([], true)
    else if 0xF0 ≤ x && x ≤ 0xF4 then
      match rest with
      | b1 :: b2 :: b3 :: rest3 =>
        let y := b1.toNat
        let z := b2.toNat
        let w := b3.toNat
        let ok1 := (x = 0xF0 && 0x90 ≤ y && y ≤ 0xBF) || (0xF1 ≤ x && x ≤ 0xF3 && isCont y) ||
                   (x = 0xF4 && 0x80 ≤ y && y ≤ 0x8F)
        if ok1 && isCont z && isCont w then
          let r := utf8Dec rest3
          (Char.ofNat ((x - 0xF0) * 262144 + (y - 0x80) * 4096 + (z - 0x80) * 64 + (w - 0x80)) :: r.1, r.2)
        else ([], true)
      | _ => ([], true)
    else ([], true)

end JsonVerif
