import JsonVerif.Model.PrintBasic
/-!
# Printer model (src/print/mod.rs), as the code is written

Two phases, like the code: `pre` (`PrecomputeSize::pre_compute_size`: one `Size` per container,
in pre-order — the functional reading of "push a placeholder, recurse, patch") and `emit`
(`PrintWithSize::fmt_with_size`: consumes the sizes in the same pre-order through `sizes[*index]`;
`none` = the indexing panicked).
-/
namespace JsonVerif

def Size.add : Size → Size → Size
  | .width a, .width b => .width (a + b)
  | _, _ => .expanded

/-- `Spaces(n)` -/
def spaces (n : Nat) : List Char := List.replicate n ' '

/-- `Indent` displayed once -/
def Indent.unit : Indent → List Char
  | .spaces n => List.replicate n ' '
  | .tabs n => List.replicate n '\t'

/-- `options.indent.by(n)` -/
def indentBy (o : PrintOptions) (n : Nat) : List Char := (List.replicate n o.indent.unit).flatten

/-- `digit` (lower-case hex) -/
def hexDigitLower (n : Nat) : Char :=
  if n < 10 then Char.ofNat (48 + n) else Char.ofNat (87 + n)

/-- one character of `string_literal` -/
def escapeChar (c : Char) : List Char :=
  if c = '\\' then ['\\', '\\']
  else if c = '"' then ['\\', '"']
  else if c = Char.ofNat 8 then ['\\', 'b']
  else if c = Char.ofNat 9 then ['\\', 't']
  else if c = Char.ofNat 10 then ['\\', 'n']
  else if c = Char.ofNat 12 then ['\\', 'f']
  else if c = Char.ofNat 13 then ['\\', 'r']
  else if c.toNat ≤ 0x1f then
    ['\\', 'u', hexDigitLower ((c.toNat / 4096) % 16), hexDigitLower ((c.toNat / 256) % 16),
      hexDigitLower ((c.toNat / 16) % 16), hexDigitLower (c.toNat % 16)]
  else [c]

/-- `string_literal` -/
def stringLiteral (s : List Char) : List Char := '"' :: s.flatMap escapeChar ++ ['"']

/-- per-character width of `printed_string_size` -/
def escapeWidth (c : Char) : Nat :=
  if c = '\\' || c = '"' || c = Char.ofNat 8 || c = Char.ofNat 9 || c = Char.ofNat 10 ||
     c = Char.ofNat 12 || c = Char.ofNat 13 then 2
  else if c.toNat ≤ 0x1f then 6
  else 1

/-- `printed_string_size` -/
def printedStringSize (s : List Char) : Nat := 2 + (s.map escapeWidth).sum

/-- the `match options.*_limit { … }` at the end of both pre-computations -/
def applyLimit (lim : Option Limit) (len : Nat) : Size → Size
  | .expanded => .expanded
  | .width w => match lim with
    | none => .width w
    | some .always => .expanded
    | some (.item i) => if len > i then .expanded else .width w
    | some (.itemOrWidth i ww) => if len > i ∨ w > ww then .expanded else .width w
    | some (.width ww) => if w > ww then .expanded else .width w

-- `pre_compute_size`: own size, and the sizes pushed for the subtree in push order
mutual
def pre (o : PrintOptions) : JValue → Size × List Size
  | .null => (.width 4, [])
  | .bool b => (.width (if b then 4 else 5), [])
  | .number n => (.width n.length, [])
  | .string s => (.width (printedStringSize s), [])
  | .array xs =>
    let r := preL o xs 0 (.width (2 + o.arrayBegin + o.arrayEnd))
    let sz := if xs.isEmpty then Size.width (2 + o.arrayEmpty) else r.1
    let own := applyLimit o.arrayLimit xs.length sz
    (own, own :: r.2)
  | .object es =>
    let r := preM o es 0 (.width (2 + o.objectBegin + o.objectEnd))
    let sz := if es.isEmpty then Size.width (2 + o.objectEmpty) else r.1
    let own := applyLimit o.objectLimit es.length sz
    (own, own :: r.2)
def preL (o : PrintOptions) : List JValue → Nat → Size → Size × List Size
  | [], _, acc => (acc, [])
  | x :: xs, i, acc =>
    let acc := if i > 0 then acc.add (.width (1 + o.arrayBeforeComma + o.arrayAfterComma)) else acc
    let px := pre o x
    let r := preL o xs (i + 1) (acc.add px.1)
    (r.1, px.2 ++ r.2)
def preM (o : PrintOptions) : List (List Char × JValue) → Nat → Size → Size × List Size
  | [], _, acc => (acc, [])
  | (k, x) :: es, i, acc =>
    let acc := if i > 0 then acc.add (.width (1 + o.objectBeforeComma + o.objectAfterComma)) else acc
    let acc := acc.add (.width (printedStringSize k + 1 + o.objectBeforeColon + o.objectAfterColon))
    let px := pre o x
    let r := preM o es (i + 1) (acc.add px.1)
    (r.1, px.2 ++ r.2)
end

def boolText (b : Bool) : List Char := if b then ['t', 'r', 'u', 'e'] else ['f', 'a', 'l', 's', 'e']
def nullText : List Char := ['n', 'u', 'l', 'l']

-- `fmt_with_size` / `print_array` / `print_object`
mutual
def emit (o : PrintOptions) (ind : Nat) : JValue → List Size → Option (List Char × List Size)
  | .null, ss => some (nullText, ss)
  | .bool b, ss => some (boolText b, ss)
  | .number n, ss => some (n, ss)
  | .string s, ss => some (stringLiteral s, ss)
  | .array xs, ss =>
    match ss with
    | [] => none                                        -- `sizes[*index]` out of bounds
    | sz :: ss =>
      if xs.isEmpty then
        match sz with
        | .expanded => some ('[' :: '\n' :: indentBy o ind ++ [']'], ss)
        | .width _ => some ('[' :: spaces o.arrayEmpty ++ [']'], ss)
      else match sz with
        | .expanded =>
          match emitL o ind true xs 0 ss with
          | none => none
          | some (t, ss') => some ('[' :: '\n' :: t ++ '\n' :: indentBy o ind ++ [']'], ss')
        | .width _ =>
          match emitL o ind false xs 0 ss with
          | none => none
          | some (t, ss') => some ('[' :: spaces o.arrayBegin ++ t ++ spaces o.arrayEnd ++ [']'], ss')
  | .object es, ss =>
    match ss with
    | [] => none
    | sz :: ss =>
      if es.isEmpty then
        match sz with
        | .expanded => some ('{' :: '\n' :: indentBy o ind ++ ['}'], ss)
        | .width _ => some ('{' :: spaces o.objectEmpty ++ ['}'], ss)
      else match sz with
        | .expanded =>
          match emitM o ind true es 0 ss with
          | none => none
          | some (t, ss') => some ('{' :: '\n' :: t ++ '\n' :: indentBy o ind ++ ['}'], ss')
        | .width _ =>
          match emitM o ind false es 0 ss with
          | none => none
          | some (t, ss') => some ('{' :: spaces o.objectBegin ++ t ++ spaces o.objectEnd ++ ['}'], ss')
def emitL (o : PrintOptions) (ind : Nat) (expanded : Bool) :
    List JValue → Nat → List Size → Option (List Char × List Size)
  | [], _, ss => some ([], ss)
  | x :: xs, i, ss =>
    let sep : List Char :=
      if i > 0 then
        (if expanded then spaces o.arrayBeforeComma ++ [',', '\n']
         else spaces o.arrayBeforeComma ++ ',' :: spaces o.arrayAfterComma)
      else []
    let lead : List Char := if expanded then indentBy o (ind + 1) else []
    match emit o (ind + 1) x ss with
    | none => none
    | some (tx, ss1) =>
      match emitL o ind expanded xs (i + 1) ss1 with
      | none => none
      | some (t, ss2) => some (sep ++ lead ++ tx ++ t, ss2)
def emitM (o : PrintOptions) (ind : Nat) (expanded : Bool) :
    List (List Char × JValue) → Nat → List Size → Option (List Char × List Size)
  | [], _, ss => some ([], ss)
  | (k, x) :: es, i, ss =>
    let sep : List Char :=
      if i > 0 then
        (if expanded then spaces o.objectBeforeComma ++ [',', '\n']
         else spaces o.objectBeforeComma ++ ',' :: spaces o.objectAfterComma)
      else []
    let lead : List Char := if expanded then indentBy o (ind + 1) else []
    let key : List Char :=
      stringLiteral k ++ spaces o.objectBeforeColon ++ ':' :: spaces o.objectAfterColon
    match emit o (ind + 1) x ss with
    | none => none
    | some (tx, ss1) =>
      match emitM o ind expanded es (i + 1) ss1 with
      | none => none
      | some (t, ss2) => some (sep ++ lead ++ key ++ tx ++ t, ss2)
end

/-- `impl Print for Value`: `fmt_with(f, options, indent)`; `none` = a panic in `sizes[*index]`. -/
def printWith (o : PrintOptions) (ind : Nat) (v : JValue) : Option (List Char) :=
  match emit o ind v (pre o v).2 with
  | some (t, _) => some t
  | none => none

end JsonVerif
