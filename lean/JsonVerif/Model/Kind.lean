import JsonVerif.Gen.KindTable
import JsonVerif.Model.Basic
/-!
# Model of `src/kind.rs`

`KindSet(u8)` and `KindSetIter(u8)` with every operator of the `kind_set!` macro, written over the
**regenerated** table `Gen.kindTable` (rows of the macro invocation in source order), so the
theorems of `Props/C20.lean` are re-checked against the masks and row order the code has now.
-/
namespace JsonVerif
open Gen

/-- `match other { Kind::$id => … $mask … }` -/
def Kind.mask (k : Kind) : Nat :=
  match kindTable.find? (fun r => r.1 == k) with
  | some r => r.2
  | none => 0

structure KindSet where
  bits : Nat          -- u8
deriving DecidableEq, Repr

namespace KindSet

def none : KindSet := ⟨0⟩
/-- `Self($($mask)|*)` -/
def all : KindSet := ⟨kindTable.foldl (fun a r => a ||| r.2) 0⟩
def ofKind (k : Kind) : KindSet := ⟨k.mask⟩
def or (a b : KindSet) : KindSet := ⟨a.bits ||| b.bits⟩
def and (a b : KindSet) : KindSet := ⟨a.bits &&& b.bits⟩
def orKind (s : KindSet) (k : Kind) : KindSet := ⟨s.bits ||| k.mask⟩
def andKind (s : KindSet) (k : Kind) : KindSet := ⟨s.bits &&& k.mask⟩

/-- `u8::count_ones` -/
def popcount8 (n : Nat) : Nat := ((List.range 8).filter (fun i => n.testBit i)).length

def len (s : KindSet) : Nat := popcount8 s.bits
def isEmpty (s : KindSet) : Bool := s.bits == 0

end KindSet

/-- `Kind | Kind`, `Kind | KindSet`, `Kind & Kind`, `Kind & KindSet` -/
def Kind.or (a b : Kind) : KindSet := (KindSet.ofKind a).or (KindSet.ofKind b)
def Kind.orSet (a : Kind) (s : KindSet) : KindSet := (KindSet.ofKind a).or s
def Kind.and (a b : Kind) : KindSet := (KindSet.ofKind a).and (KindSet.ofKind b)
def Kind.andSet (a : Kind) (s : KindSet) : KindSet := (KindSet.ofKind a).and s

namespace KindSetIter

/-- `!mask` on `u8` followed by `&=`. -/
def clear (bits m : Nat) : Nat := bits &&& (255 ^^^ m)

/-- `Iterator::next`: the first row (source order) whose mask is present. -/
def nextFrom (bits : Nat) : List (Kind × Nat) → Option (Kind × Nat)
  | [] => .none
  | (k, m) :: rows => if bits &&& m != 0 then some (k, clear bits m) else nextFrom bits rows

def next (bits : Nat) : Option (Kind × Nat) := nextFrom bits kindTable

/-- `DoubleEndedIterator::next_back`: the last row whose mask is present. -/
def nextBackFrom (bits : Nat) (result : Option (Kind × Nat)) : List (Kind × Nat) → Option (Kind × Nat)
  | [] => result.map (fun (k, m) => (k, clear bits m))
  | (k, m) :: rows =>
    if bits &&& m != 0 then nextBackFrom bits (some (k, m)) rows else nextBackFrom bits result rows

def nextBack (bits : Nat) : Option (Kind × Nat) := nextBackFrom bits .none kindTable

def sizeHint (bits : Nat) : Nat := KindSet.popcount8 bits

/-- `for k in iter { … }` — the iterator is fused and yields at most 8 items. -/
def drainFuel : Nat → Nat → List Kind
  | 0, _ => []
  | n+1, bits => match next bits with
    | some (k, b) => k :: drainFuel n b
    | .none => []

def drain (bits : Nat) : List Kind := drainFuel 9 bits

end KindSetIter

/-- Output tokens of the three renderings (the driver turns them into text). -/
inductive KTok | kind (k : Kind) | comma | or_ | and_ | nothing | anything
deriving DecidableEq, Repr

/-- `impl Display for KindSet` -/
def KindSet.display (s : KindSet) : List KTok :=
  match KindSetIter.drain s.bits with
  | [] => []
  | k :: ks => .kind k :: ks.flatMap (fun k => [.comma, .kind k])

/-- `impl Display for KindSetDisjunction / KindSetConjunction` (`sep` = " or " / " and "). -/
def KindSet.junction (sep : KTok) (s : KindSet) : List KTok :=
  if s == KindSet.all then [.anything]
  else match KindSetIter.nextBack s.bits with
    | some (last, b1) =>
      (match KindSetIter.next b1 with
        | some (first, b2) =>
          .kind first :: (KindSetIter.drain b2).flatMap (fun k => [.comma, .kind k]) ++ [sep]
        | .none => []) ++ [.kind last]
    | .none => [.nothing]

/-- `Value::kind` (src/lib.rs) -/
def JValue.kind : JValue → Kind
  | .null => .null | .bool _ => .boolean | .number _ => .number
  | .string _ => .string | .array _ => .array | .object _ => .object

end JsonVerif
