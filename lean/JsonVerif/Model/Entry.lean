import JsonVerif.Model.Machine
import JsonVerif.Model.Utf8
/-!
# Entry points of `trait Parse` (src/parse/mod.rs), as compositions over one `parseChars`

* `parse_str_with`, `parse_utf8_with` over `chars().map(Ok)`, `parse_utf8_infallible_with`,
  `parse_infallible_with`, `parse_with` and the strict variants / `FromStr` all feed the same
  `Parser` with the characters of the text: `parseStr`.
* `parse_slice_with`: `core::str::from_utf8`; well-formed → `parse_str_with`; otherwise the
  well-formed prefix followed by one stream error, `Stream(p)` mapped to `InvalidUtf8(p)`:
  `parseSlice` (the model keeps `PErr.stream`; the driver prints it as `utf8` for slices).
-/
namespace JsonVerif

def parseStr (o : ParseOptions) (cs : List Char) : Except PErr (JValue × List CMEntry) :=
  parseChars o cs false

def parseSlice (o : ParseOptions) (b : List UInt8) : Except PErr (JValue × List CMEntry) :=
  parseChars o (utf8Dec b).1 (utf8Dec b).2

end JsonVerif
