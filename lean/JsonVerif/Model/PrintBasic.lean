import JsonVerif.Model.Basic
/-! # Printer model — option types (src/print/mod.rs) -/
namespace JsonVerif

/-- `print::Indent` -/
inductive Indent | spaces (n : Nat) | tabs (n : Nat)
deriving Repr, DecidableEq, Inhabited

/-- `print::Limit` -/
inductive Limit | always | item (n : Nat) | width (w : Nat) | itemOrWidth (n w : Nat)
deriving Repr, DecidableEq, Inhabited

/-- `print::Options` -/
structure PrintOptions where
  indent : Indent
  arrayBegin : Nat
  arrayEnd : Nat
  arrayEmpty : Nat
  arrayBeforeComma : Nat
  arrayAfterComma : Nat
  arrayLimit : Option Limit
  objectBegin : Nat
  objectEnd : Nat
  objectEmpty : Nat
  objectBeforeComma : Nat
  objectAfterComma : Nat
  objectBeforeColon : Nat
  objectAfterColon : Nat
  objectLimit : Option Limit
deriving Repr, DecidableEq, Inhabited

/-- `print::Size` -/
inductive Size | expanded | width (n : Nat)
deriving Repr, DecidableEq, Inhabited

end JsonVerif
