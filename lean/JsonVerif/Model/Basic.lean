/-!
# Shared data model

`JValue` mirrors `json_syntax::Value` (src/lib.rs): strings and keys are lists of Unicode scalar
values (Rust `char`), numbers are kept in their source spelling, objects are entry *lists* (the
hash index of `Object` is modelled separately in `Model/Object.lean`).
-/
namespace JsonVerif

inductive JValue where
  | null
  | bool (b : Bool)
  | number (s : List Char)
  | string (s : List Char)
  | array (xs : List JValue)
  | object (es : List (List Char × JValue))
deriving Repr, Inhabited

abbrev JEntry := List Char × JValue

namespace JValue

mutual
def beq : JValue → JValue → Bool
  | .null, .null => true
  | .bool a, .bool b => a == b
  | .number a, .number b => a == b
  | .string a, .string b => a == b
  | .array a, .array b => beqL a b
  | .object a, .object b => beqM a b
  | _, _ => false
def beqL : List JValue → List JValue → Bool
  | [], [] => true
  | x :: xs, y :: ys => beq x y && beqL xs ys
  | _, _ => false
def beqM : List (List Char × JValue) → List (List Char × JValue) → Bool
  | [], [] => true
  | (k, x) :: xs, (l, y) :: ys => k == l && beq x y && beqM xs ys
  | _, _ => false
end

-- Number of fragments (values, entries, keys) of the subtree: lib.rs `traverse().count()`.
mutual
def frags : JValue → Nat
  | .array xs => 1 + fragsL xs
  | .object es => 1 + fragsM es
  | _ => 1
def fragsL : List JValue → Nat
  | [] => 0
  | x :: xs => frags x + fragsL xs
def fragsM : List (List Char × JValue) → Nat
  | [] => 0
  | (_, v) :: es => 2 + frags v + fragsM es
end

theorem frags_pos : ∀ v : JValue, 0 < frags v := by
  intro v; cases v <;> simp [frags] <;> omega

end JValue
end JsonVerif
