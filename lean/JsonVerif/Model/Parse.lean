import JsonVerif.Model.ParseBasic
/-!
# Parser model (src/parse/*.rs), as the code is written

Three layers (DESIGN.md §3.2):
* stream `PS`: remaining decoded characters, "the stream ends in a decoding error" flag, byte
  position (advanced by the UTF-8 length of each character, as `DecodedChar::from_utf8` does), and
  the code map under construction;
* lexical layer: `skipWs`, literals, number automaton, string scanner, `parseFragment`
  (`Fragment::parse_in`), `contArray` / `contObject` (`ContinueFragment::parse_in`);
* machine: `run`, one arm per arm of the `loop { match stack.pop() … }` of `Value::parse_in`
  (src/parse/value.rs). `run` is the only recursive definition of the layer and it is *tail*
  recursive with an explicit stack: no recursion in the nesting depth.

Every Rust `loop` is a non-recursive step function plus a well-founded driver; termination proofs
are the totality half of C03.
-/
namespace JsonVerif

/-- Parser state: `Parser { chars, pending, position, code_map }`.
    `pending`/`chars` are abstracted to the list of characters not yet consumed (`peek_char`
    only fills `pending`, which is observationally `rest.head?`). -/
structure PS where
  rest : List Char
  bad : Bool          -- the character stream yields `Err` after `rest`
  pos : Nat
  cm : Array CMEntry      -- `CodeMap(Vec<Entry>)`
deriving Repr, Inhabited

namespace PS

/-- What `next_char`/`peek_char` return at the end of `rest`. -/
def eofErr (s : PS) : PErr := if s.bad then .stream s.pos else .unexpected s.pos none

/-- `peek_char` -/
def peek (s : PS) : Except PErr (Option Char) :=
  match s.rest with
  | c :: _ => .ok (some c)
  | [] => if s.bad then .error (.stream s.pos) else .ok none

/-- consume one character -/
def adv (s : PS) (c : Char) (r : List Char) : PS := { s with rest := r, pos := s.pos + c.utf8Size }

/-- `begin_fragment` = `CodeMap::reserve(position)`: pushes a placeholder entry; the index it
    returns is the previous length `s.cm.size`. -/
def reserve (s : PS) : PS := { s with cm := s.cm.push ⟨s.pos, s.pos, 0⟩ }

/-- `let i = parser.begin_fragment();` — index and new state. (`noinline` only matters for the
    compiled driver: it keeps the code map uniquely referenced so that updates are in place.) -/
@[noinline] def beginFragment (s : PS) : Nat × PS := (s.cm.size, s.reserve)

@[simp] theorem beginFragment_fst (s : PS) : s.beginFragment.1 = s.cm.size := rfl
@[simp] theorem beginFragment_snd (s : PS) : s.beginFragment.2 = s.reserve := rfl

/-- `end_fragment(i)`: `get_mut(i).unwrap()` — `panic` when `i` is out of range. -/
def endFragment (s : PS) (i : Nat) : Except PErr PS :=
  match s.cm[i]? with
  | some e => .ok { s with cm := s.cm.setIfInBounds i ⟨e.start, s.pos, s.cm.size - i⟩ }
  | none => .error .panic

end PS

/-- `skip_whitespaces` on the raw character list -/
def skipWsL : List Char → Nat → List Char × Nat
  | [], pos => ([], pos)
  | c :: r, pos => if isWs c then skipWsL r (pos + c.utf8Size) else (c :: r, pos)

def skipWs (s : PS) : Except PErr PS :=
  let p := skipWsL s.rest s.pos
  if p.1.isEmpty && s.bad then .error (.stream p.2)
  else .ok { s with rest := p.1, pos := p.2 }

/-- `match parser.next_char()? { (_, Some(c)) => …, (p, unexpected) => Err(unexpected(p, unexpected)) }` -/
def expectChar (c : Char) (s : PS) : Except PErr PS :=
  match s.rest with
  | [] => .error s.eofErr
  | d :: r => if d = c then .ok (s.adv d r) else .error (.unexpected s.pos (some d))

/-! ## Literals (null.rs, boolean.rs) -/

/-- a chain of `match parser.next_char()? { (_, Some(c)) => …, (p, unexpected) => Err(…) }` -/
def expectChars : List Char → PS → Except PErr PS
  | [], s => .ok s
  | c :: cs, s =>
    match expectChar c s with
    | .error e => .error e
    | .ok s' => expectChars cs s'

def lexNull (s : PS) : Except PErr PS :=
  let bf := s.beginFragment
  let i := bf.1
  let s0 := bf.2
  match expectChars ['n', 'u', 'l', 'l'] s0 with
  | .error e => .error e
  | .ok s1 => s1.endFragment i

def lexBool (s : PS) : Except PErr (Bool × PS) :=
  let bf := s.beginFragment
  let i := bf.1
  let s0 := bf.2
  match s0.rest with
  | [] => .error s0.eofErr
  | d :: _ =>
    if d = 't' then
      match expectChars ['t', 'r', 'u', 'e'] s0 with
      | .error e => .error e
      | .ok s1 =>
        match s1.endFragment i with
        | .error e => .error e
        | .ok s2 => .ok (true, s2)
    else if d = 'f' then
      match expectChars ['f', 'a', 'l', 's', 'e'] s0 with
      | .error e => .error e
      | .ok s1 =>
        match s1.endFragment i with
        | .error e => .error e
        | .ok s2 => .ok (false, s2)
    else .error (.unexpected s0.pos (some d))

/-! ## Numbers (number.rs): nine-state automaton -/

inductive NumState
  | init | firstDigit | zero | nonZero | fracFirst | fracRest | expSign | expFirst | expRest
deriving Repr, DecidableEq

inductive NumTr | to (s : NumState) | stop | bad
deriving Repr, DecidableEq

def isDigit (c : Char) : Bool := '0' ≤ c && c ≤ '9'
def isDigit19 (c : Char) : Bool := '1' ≤ c && c ≤ '9'
def isE (c : Char) : Bool := c = 'e' || c = 'E'

/-- one `match state { … match c { … } }` of the `while let` loop -/
def numTrans (ctx : Ctx) (st : NumState) (c : Char) : NumTr :=
  let orFollow : NumTr := if ctx.follows c then .stop else .bad
  match st with
  | .init => if c = '-' then .to .firstDigit else if c = '0' then .to .zero
      else if isDigit19 c then .to .nonZero else .bad
  | .firstDigit => if c = '0' then .to .zero else if isDigit19 c then .to .nonZero else .bad
  | .zero => if c = '.' then .to .fracFirst else if isE c then .to .expSign else orFollow
  | .nonZero => if isDigit c then .to .nonZero else if c = '.' then .to .fracFirst
      else if isE c then .to .expSign else orFollow
  | .fracFirst => if isDigit c then .to .fracRest else .bad
  | .fracRest => if isDigit c then .to .fracRest else if isE c then .to .expSign else orFollow
  | .expSign => if c = '+' || c = '-' then .to .expFirst else if isDigit c then .to .expRest else .bad
  | .expFirst => if isDigit c then .to .expRest else .bad
  | .expRest => if isDigit c then .to .expRest else orFollow

def NumState.accepting : NumState → Bool
  | .zero | .nonZero | .fracRest | .expRest => true
  | _ => false

/-- the `while let Some(c) = parser.peek_char()?` loop; structural on the input -/
def numLoop (ctx : Ctx) : NumState → List Char → List Char → Nat →
    Except PErr (NumState × List Char × List Char × Nat)
  | st, buf, [], pos => .ok (st, buf, [], pos)
  | st, buf, c :: r, pos =>
    match numTrans ctx st c with
    | .to st' => numLoop ctx st' (buf ++ [c]) r (pos + c.utf8Size)
    | .stop => .ok (st, buf, c :: r, pos)
    | .bad => .error (.unexpected pos (some c))

/-! Linear executable twin of `numLoop` (the definition above appends to its buffer, which is
    quadratic in the length of the number when run): the buffer is kept reversed. Proved equal and
    installed with `@[csimp]`, so compiled code runs the twin while every theorem keeps speaking
    about `numLoop`. -/
def numLoopFast (ctx : Ctx) : NumState → List Char → List Char → Nat →
    Except PErr (NumState × List Char × List Char × Nat)
  | st, rbuf, [], pos => .ok (st, rbuf.reverse, [], pos)
  | st, rbuf, c :: r, pos =>
    match numTrans ctx st c with
    | .to st' => numLoopFast ctx st' (c :: rbuf) r (pos + c.utf8Size)
    | .stop => .ok (st, rbuf.reverse, c :: r, pos)
    | .bad => .error (.unexpected pos (some c))

theorem numLoopFast_eq (ctx : Ctx) : ∀ (l : List Char) (st : NumState) (rbuf : List Char) (pos : Nat),
    numLoopFast ctx st rbuf l pos = numLoop ctx st rbuf.reverse l pos
  | [], st, rbuf, pos => by simp [numLoopFast, numLoop]
  | c :: r, st, rbuf, pos => by
    simp only [numLoopFast, numLoop]
    split
    · rw [numLoopFast_eq ctx r]; simp
    · rfl
    · rfl

def numLoopImpl (ctx : Ctx) (st : NumState) (buf l : List Char) (pos : Nat) :
    Except PErr (NumState × List Char × List Char × Nat) :=
  numLoopFast ctx st buf.reverse l pos

@[csimp] theorem numLoop_eq_impl : @numLoop = @numLoopImpl := by
  funext ctx st buf l pos
  simp [numLoopImpl, numLoopFast_eq]

def lexNumber (ctx : Ctx) (s : PS) : Except PErr (List Char × PS) :=
  let bf := s.beginFragment
  let i := bf.1
  let s0 := bf.2
  match numLoop ctx .init [] s0.rest s0.pos with
  | .error e => .error e
  | .ok (st, buf, r, pos) =>
    -- `peek_char()?` at the end of a stream that ends in a decoding error
    match r.isEmpty && s0.bad with
    | true => .error (.stream pos)
    | false =>
      match st.accepting with
      | true =>
        match ({ s0 with rest := r, pos := pos } : PS).endFragment i with
        | .error e => .error e
        | .ok s2 => .ok (buf, s2)
      | false => .error (.unexpected pos none)

/-! ## Strings (string.rs) -/

/-- `char::to_digit(16)` -/
def hexVal (c : Char) : Option Nat :=
  if '0' ≤ c ∧ c ≤ '9' then some (c.toNat - 48)
  else if 'a' ≤ c ∧ c ≤ 'f' then some (c.toNat - 87)
  else if 'A' ≤ c ∧ c ≤ 'F' then some (c.toNat - 55)
  else none

def isHigh (cp : Nat) : Bool := 0xd800 ≤ cp && cp ≤ 0xdbff
def isLow (cp : Nat) : Bool := 0xdc00 ≤ cp && cp ≤ 0xdfff

/-- `char::from_u32` -/
def ofCp (cp : Nat) : Option Char :=
  if h : cp.isValidChar then some (Char.ofNatAux cp h) else none

def fffd : Char := Char.ofNat 0xfffd

/-- the two-character escapes -/
def esc2 (c : Char) : Option Char :=
  if c = '"' then some '"' else if c = '\\' then some '\\' else if c = '/' then some '/'
  else if c = 'b' then some (Char.ofNat 8) else if c = 't' then some (Char.ofNat 9)
  else if c = 'n' then some (Char.ofNat 10) else if c = 'f' then some (Char.ofNat 12)
  else if c = 'r' then some (Char.ofNat 13) else none

/-- `is_control` -/
def isControl (c : Char) : Bool := c.toNat ≤ 0x1f

def eofErrAt (bad : Bool) (pos : Nat) : PErr := if bad then .stream pos else .unexpected pos none

/-- one `next_char` + `to_digit(16)` of `parse_hex4` -/
def hexDigitAt (bad : Bool) : List Char → Nat → Except PErr (Nat × List Char × Nat)
  | [], pos => .error (eofErrAt bad pos)
  | c :: r, pos => match hexVal c with
    | some h => .ok (h, r, pos + c.utf8Size)
    | none => .error (.unexpected pos (some c))

/-- `parse_hex4` -/
def hex4 (bad : Bool) (l : List Char) (pos : Nat) : Except PErr (Nat × List Char × Nat) :=
  match hexDigitAt bad l pos with
  | .error e => .error e
  | .ok (h3, l1, p1) =>
    match hexDigitAt bad l1 p1 with
    | .error e => .error e
    | .ok (h2, l2, p2) =>
      match hexDigitAt bad l2 p2 with
      | .error e => .error e
      | .ok (h1, l3, p3) =>
        match hexDigitAt bad l3 p3 with
        | .error e => .error e
        | .ok (h0, l4, p4) => .ok (h3 * 4096 + h2 * 256 + h1 * 16 + h0, l4, p4)

/-- `((high - 0xd800) << 10 | (low - 0xdc00)) + 0x010000` -/
def pairCp (h l : Nat) : Nat := (h - 0xd800) * 1024 + (l - 0xdc00) + 0x10000

inductive StrStep where
  | done (acc : List Char) (rest : List Char) (pos : Nat) (qpos : Nat)
  | more (acc : List Char) (high : Option (Nat × Nat)) (rest : List Char) (pos : Nat)
  | err (e : PErr)

/-- the tail of the loop body: a pending high surrogate followed by an ordinary character
    (string.rs, `if let Some((p_high, high)) = high_surrogate.take() { … } result.push(c)`);
    `pn` = `p_next`, the offset at which the current element started -/
def flushChar (o : ParseOptions) (acc : List Char) (high : Option (Nat × Nat)) (c : Char)
    (r : List Char) (pos pn : Nat) : StrStep :=
  match high with
  | none => .more (acc ++ [c]) none r pos
  | some (ph, h) =>
    if o.trunc then .more (acc ++ [fffd, c]) none r pos else .err (.missingLow ph pn h)

/-- decoding of a `\uXXXX` code unit when no high surrogate is pending; `pe` = offset of the `u` -/
def noHigh (o : ParseOptions) (acc : List Char) (pe : Nat) (cp : Nat) (r : List Char) (pos : Nat) :
    StrStep :=
  if isHigh cp then .more acc (some (pe, cp)) r pos
  else match ofCp cp with
    | some ch => .more (acc ++ [ch]) none r pos
    | none => if o.inval then .more (acc ++ [fffd]) none r pos else .err (.invalidCodePoint pe pos cp)

/-- the `(p, Some('u')) => …` arm: `pe` = offset of the `u`, `pos` = offset after it -/
def strEscU (o : ParseOptions) (bad : Bool) (acc : List Char) (high : Option (Nat × Nat))
    (r2 : List Char) (pe pos : Nat) : StrStep :=
  match hex4 bad r2 pos with
  | .error x => .err x
  | .ok (cp, r3, pos3) =>
    match high with
    | some (ph, h) =>
      if isLow cp then
        match ofCp (pairCp h cp) with
        | some ch => .more (acc ++ [ch]) none r3 pos3
        | none =>
          if o.inval then .more (acc ++ [fffd]) none r3 pos3
          else .err (.invalidCodePoint ph pos3 (pairCp h cp))
      else if o.trunc then noHigh o (acc ++ [fffd]) pe cp r3 pos3
      else .err (.invalidLow pe pos3 h cp)
    | none => noHigh o acc pe cp r3 pos3

/-- the `(_, Some('\\')) => match parser.next_char()? { … }` arm; `pos` = offset after the backslash -/
def strEsc (o : ParseOptions) (bad : Bool) (acc : List Char) (high : Option (Nat × Nat))
    (r : List Char) (pos pn : Nat) : StrStep :=
  match r with
  | [] => .err (eofErrAt bad pos)
  | e :: r2 =>
    if e = 'u' then strEscU o bad acc high r2 pos (pos + e.utf8Size)
    else match esc2 e with
      | some ch => flushChar o acc high ch r2 (pos + e.utf8Size) pn
      | none => .err (.unexpected pos (some e))

/-- one iteration of the `loop` of `SmallString::parse_in` -/
def strStep (o : ParseOptions) (bad : Bool) (acc : List Char) (high : Option (Nat × Nat))
    (l : List Char) (pos : Nat) : StrStep :=
  match l with
  | [] => .err (eofErrAt bad pos)
  | c :: r =>
    if c = '"' then
      match high with
      | none => .done acc r (pos + c.utf8Size) pos
      | some (ph, h) =>
        if o.trunc then .done (acc ++ [fffd]) r (pos + c.utf8Size) pos
        else .err (.missingLow ph pos h)
    else if c = '\\' then strEsc o bad acc high r (pos + c.utf8Size) pos
    else if isControl c then .err (.unexpected pos (some c))
    else flushChar o acc high c r (pos + c.utf8Size) pos

theorem hexDigitAt_len {bad l pos h r p} (hh : hexDigitAt bad l pos = .ok (h, r, p)) :
    r.length + 1 = l.length := by
  unfold hexDigitAt at hh
  split at hh
  · cases hh
  · split at hh
    · cases hh; simp
    · cases hh

theorem hex4_len {bad l pos cp r p} (h : hex4 bad l pos = .ok (cp, r, p)) :
    r.length + 4 = l.length := by
  unfold hex4 at h
  split at h
  · cases h
  · rename_i e1
    split at h
    · cases h
    · rename_i e2
      split at h
      · cases h
      · rename_i e3
        split at h
        · cases h
        · rename_i e4
          have := hexDigitAt_len e1; have := hexDigitAt_len e2
          have := hexDigitAt_len e3; have := hexDigitAt_len e4
          cases h; omega

theorem noHigh_len {o acc pe cp r pos a hi r' p'} (h : noHigh o acc pe cp r pos = .more a hi r' p') :
    r' = r := by
  unfold noHigh at h
  repeat' (split at h)
  all_goals (first | cases h | skip)
  all_goals rfl

theorem flushChar_len {o acc high c r pos pn a hi r' p'}
    (h : flushChar o acc high c r pos pn = .more a hi r' p') : r' = r := by
  unfold flushChar at h
  repeat' (split at h)
  all_goals (first | cases h | skip)
  all_goals rfl

theorem strEscU_len {o bad acc high r2 pe pos a hi r p}
    (h : strEscU o bad acc high r2 pe pos = .more a hi r p) : r.length + 4 = r2.length := by
  unfold strEscU at h
  split at h
  · cases h
  · rename_i cp r3 pos3 h4
    have := hex4_len h4
    repeat' (split at h)
    all_goals (first | (cases h; done) | skip)
    all_goals (try (have h1 := noHigh_len h; subst h1))
    all_goals (try cases h)
    all_goals omega

theorem strEsc_len {o bad acc high r pos pn a hi r' p}
    (h : strEsc o bad acc high r pos pn = .more a hi r' p) : r'.length < r.length := by
  unfold strEsc at h
  split at h
  · cases h
  · split at h
    · have := strEscU_len h; simp; omega
    · split at h
      · have h1 := flushChar_len h; subst h1; simp
      · cases h

theorem strStep_len {o bad acc high l pos a hi r p}
    (h : strStep o bad acc high l pos = .more a hi r p) : r.length < l.length := by
  unfold strStep at h
  split at h
  · cases h
  · split at h
    · repeat' (split at h)
      all_goals cases h
    · split at h
      · have := strEsc_len h; simp; omega
      · split at h
        · cases h
        · have h1 := flushChar_len h; subst h1; simp

/-- the `loop` of the string scanner. Every iteration consumes at least one character
    (`strStep_len`), so the remaining input itself serves as fuel: the recursion is structural and
    the out-of-fuel branch is unreachable (`strLoopAux_np`). -/
def strLoopAux (o : ParseOptions) (bad : Bool) :
    List Char → List Char → Option (Nat × Nat) → List Char → Nat →
      Except PErr (List Char × List Char × Nat × Nat)
  | fuel, acc, high, l, pos =>
    match strStep o bad acc high l pos with
    | .done a r p q => .ok (a, r, p, q)
    | .err e => .error e
    | .more a hi r p =>
      match fuel with
      | [] => .error .panic
      | _ :: fuel' => strLoopAux o bad fuel' a hi r p

/-! Linear executable twin of `strLoopAux`. Every step only APPENDS to the accumulator
    (`strStep_acc`), so the twin runs each step on the empty accumulator and keeps what was
    accumulated before reversed; proved equal and installed with `@[csimp]`. -/
def StrStep.prep (pre : List Char) : StrStep → StrStep
  | .done a r p q => .done (pre ++ a) r p q
  | .more a h r p => .more (pre ++ a) h r p
  | .err e => .err e

theorem flushChar_acc (o : ParseOptions) (acc : List Char) (high : Option (Nat × Nat)) (c : Char)
    (r : List Char) (pos pn : Nat) :
    flushChar o acc high c r pos pn = (flushChar o [] high c r pos pn).prep acc := by
  unfold flushChar
  split
  · simp [StrStep.prep]
  · split <;> simp [StrStep.prep]

theorem noHigh_acc (o : ParseOptions) (acc : List Char) (pe cp : Nat) (r : List Char) (pos : Nat) :
    noHigh o acc pe cp r pos = (noHigh o [] pe cp r pos).prep acc := by
  unfold noHigh
  split
  · simp [StrStep.prep]
  · split
    · simp [StrStep.prep]
    · split <;> simp [StrStep.prep]

theorem strEscU_acc (o : ParseOptions) (bad : Bool) (acc : List Char) (high : Option (Nat × Nat))
    (r2 : List Char) (pe pos : Nat) :
    strEscU o bad acc high r2 pe pos = (strEscU o bad [] high r2 pe pos).prep acc := by
  unfold strEscU
  split
  · simp [StrStep.prep]
  · split
    · split
      · split
        · simp [StrStep.prep]
        · split <;> simp [StrStep.prep]
      · split
        · rw [noHigh_acc o (acc ++ [fffd]), noHigh_acc o ([] ++ [fffd])]
          cases noHigh o [] pe _ _ _ <;> simp [StrStep.prep]
        · simp [StrStep.prep]
    · exact noHigh_acc o acc pe _ _ _

theorem strEsc_acc (o : ParseOptions) (bad : Bool) (acc : List Char) (high : Option (Nat × Nat))
    (r : List Char) (pos pn : Nat) :
    strEsc o bad acc high r pos pn = (strEsc o bad [] high r pos pn).prep acc := by
  unfold strEsc
  split
  · simp [StrStep.prep]
  · split
    · exact strEscU_acc o bad acc high _ _ _
    · split
      · exact flushChar_acc o acc high _ _ _ _
      · simp [StrStep.prep]

theorem strStep_acc (o : ParseOptions) (bad : Bool) (acc : List Char) (high : Option (Nat × Nat))
    (l : List Char) (pos : Nat) :
    strStep o bad acc high l pos = (strStep o bad [] high l pos).prep acc := by
  unfold strStep
  split
  · simp [StrStep.prep]
  · split
    · split
      · simp [StrStep.prep]
      · split <;> simp [StrStep.prep]
    · split
      · exact strEsc_acc o bad acc high _ _ _
      · split
        · simp [StrStep.prep]
        · exact flushChar_acc o acc high _ _ _ _

def strLoopFast (o : ParseOptions) (bad : Bool) :
    List Char → List Char → Option (Nat × Nat) → List Char → Nat →
      Except PErr (List Char × List Char × Nat × Nat)
  | fuel, racc, high, l, pos =>
    match strStep o bad [] high l pos with
    | .done a r p q => .ok ((a.reverseAux racc).reverse, r, p, q)
    | .err e => .error e
    | .more a hi r p =>
      match fuel with
      | [] => .error .panic
      | _ :: fuel' => strLoopFast o bad fuel' (a.reverseAux racc) hi r p

theorem strLoopFast_eq (o : ParseOptions) (bad : Bool) :
    ∀ (fuel racc : List Char) (high : Option (Nat × Nat)) (l : List Char) (pos : Nat),
      strLoopFast o bad fuel racc high l pos = strLoopAux o bad fuel racc.reverse high l pos
  | [], racc, high, l, pos => by
    unfold strLoopFast strLoopAux
    rw [strStep_acc o bad racc.reverse]
    cases strStep o bad [] high l pos <;> simp [StrStep.prep, List.reverseAux_eq]
  | _ :: fuel, racc, high, l, pos => by
    unfold strLoopFast strLoopAux
    rw [strStep_acc o bad racc.reverse]
    cases h : strStep o bad [] high l pos with
    | done a r p q => simp [StrStep.prep, List.reverseAux_eq]
    | err e => simp [StrStep.prep]
    | more a hi r p =>
      simp only [StrStep.prep]
      rw [strLoopFast_eq o bad fuel]
      simp [List.reverseAux_eq]

def strLoopAuxImpl (o : ParseOptions) (bad : Bool) (fuel acc : List Char) (high : Option (Nat × Nat))
    (l : List Char) (pos : Nat) : Except PErr (List Char × List Char × Nat × Nat) :=
  strLoopFast o bad fuel acc.reverse high l pos

@[csimp] theorem strLoopAux_eq_impl : @strLoopAux = @strLoopAuxImpl := by
  funext o bad fuel acc high l pos
  simp [strLoopAuxImpl, strLoopFast_eq]

def strLoop (o : ParseOptions) (bad : Bool) (acc : List Char) (high : Option (Nat × Nat))
    (l : List Char) (pos : Nat) : Except PErr (List Char × List Char × Nat × Nat) :=
  strLoopAux o bad l acc high l pos

/-- `SmallString::parse_in` -/
def lexString (o : ParseOptions) (s : PS) : Except PErr (List Char × PS) :=
  let bf := s.beginFragment
  let i := bf.1
  let s0 := bf.2
  match s0.rest with
  | [] => .error s0.eofErr
  | d :: r =>
    if d = '"' then
      match strLoop o s0.bad [] none r (s0.pos + d.utf8Size) with
      | .error e => .error e
      | .ok (str, r', pos', _) =>
        match ({ s0 with rest := r', pos := pos' } : PS).endFragment i with
        | .error e => .error e
        | .ok s1 => .ok (str, s1)
    else .error (.unexpected s0.pos (some d))

/-! ## Fragments (value.rs, array.rs, object.rs) -/

/-- `value::Fragment` -/
inductive Fragment where
  | value (v : JValue)
  | beginArray (i : Nat)
  | beginObject (i : Nat) (key : List Char) (e : Nat)

/-- first key of an object / next key after a comma: `begin_fragment`, key, ws, `:` -/
def lexKeyColon (o : ParseOptions) (s : PS) : Except PErr (List Char × Nat × PS) :=
  let bf := s.beginFragment
  let i := bf.1
  let s0 := bf.2
  match lexString o s0 with
  | .error e => .error e
  | .ok (key, s1) =>
    match skipWs s1 with
    | .error e => .error e
    | .ok s2 =>
      match expectChar ':' s2 with
      | .error e => .error e
      | .ok s3 => .ok (key, i, s3)

/-- `array::StartFragment::parse_in` (the caller has peeked `[`) -/
def startArray (s : PS) : Except PErr (Fragment × PS) :=
  let bf := s.beginFragment
  let i := bf.1
  let s0 := bf.2
  match expectChar '[' s0 with
  | .error e => .error e
  | .ok s1 =>
    match skipWs s1 with
    | .error e => .error e
    | .ok s2 =>
      match s2.rest with
      | d :: r =>
        if d = ']' then
          match (s2.adv d r).endFragment i with
          | .error e => .error e
          | .ok s3 => .ok (.value (.array []), s3)
        else .ok (.beginArray i, s2)
      | [] => .ok (.beginArray i, s2)

/-- the `_ => { let e = begin_fragment(); let key = …; … ':' … NonEmpty }` arm -/
def startObjectKey (o : ParseOptions) (i : Nat) (s : PS) : Except PErr (Fragment × PS) :=
  match lexKeyColon o s with
  | .error e => .error e
  | .ok (key, e, s3) => .ok (.beginObject i key e, s3)

/-- `object::StartFragment::parse_in` (the caller has peeked `{`) -/
def startObject (o : ParseOptions) (s : PS) : Except PErr (Fragment × PS) :=
  let bf := s.beginFragment
  let i := bf.1
  let s0 := bf.2
  match expectChar '{' s0 with
  | .error e => .error e
  | .ok s1 =>
    match skipWs s1 with
    | .error e => .error e
    | .ok s2 =>
      match s2.rest with
      | d :: r =>
        if d = '}' then
          match (s2.adv d r).endFragment i with
          | .error e => .error e
          | .ok s3 => .ok (.value (.object []), s3)
        else startObjectKey o i s2
      | [] => startObjectKey o i s2

/-- `Fragment::parse_in` -/
def parseFragment (o : ParseOptions) (ctx : Ctx) (s : PS) : Except PErr (Fragment × PS) :=
  match skipWs s with
  | .error e => .error e
  | .ok s =>
    match s.rest with
    | [] => .error s.eofErr
    | c :: _ =>
      if c = 'n' then
        match lexNull s with
        | .error e => .error e
        | .ok s1 => .ok (.value .null, s1)
      else if c = 't' || c = 'f' then
        match lexBool s with
        | .error e => .error e
        | .ok (b, s1) => .ok (.value (.bool b), s1)
      else if isDigit c || c = '-' then
        match lexNumber ctx s with
        | .error e => .error e
        | .ok (n, s1) => .ok (.value (.number n), s1)
      else if c = '"' then
        match lexString o s with
        | .error e => .error e
        | .ok (str, s1) => .ok (.value (.string str), s1)
      else if c = '[' then startArray s
      else if c = '{' then startObject o s
      else .error (.unexpected s.pos (some c))

inductive ArrCont | item | end_
inductive ObjCont where
  | entry (key : List Char) (e : Nat)
  | end_

/-- `array::ContinueFragment::parse_in` -/
def contArray (i : Nat) (s : PS) : Except PErr (ArrCont × PS) :=
  match skipWs s with
  | .error e => .error e
  | .ok s =>
    match s.rest with
    | [] => .error s.eofErr
    | d :: r =>
      if d = ',' then .ok (.item, s.adv d r)
      else if d = ']' then
        match (s.adv d r).endFragment i with
        | .error e => .error e
        | .ok s1 => .ok (.end_, s1)
      else .error (.unexpected s.pos (some d))

/-- `object::ContinueFragment::parse_in` -/
def contObject (o : ParseOptions) (i : Nat) (s : PS) : Except PErr (ObjCont × PS) :=
  match skipWs s with
  | .error e => .error e
  | .ok s =>
    match s.rest with
    | [] => .error s.eofErr
    | d :: r =>
      if d = ',' then
        match skipWs (s.adv d r) with
        | .error e => .error e
        | .ok s1 =>
          match lexKeyColon o s1 with
          | .error e => .error e
          | .ok (key, e, s2) => .ok (.entry key e, s2)
      else if d = '}' then
        match (s.adv d r).endFragment i with
        | .error e => .error e
        | .ok s1 => .ok (.end_, s1)
      else .error (.unexpected s.pos (some d))

end JsonVerif
