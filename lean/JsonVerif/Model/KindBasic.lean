namespace JsonVerif

/-- `json_syntax::Kind` (src/kind.rs), in declaration order. -/
inductive Kind | null | boolean | number | string | array | object
deriving DecidableEq, Repr, Inhabited

def Kind.all : List Kind := [.null, .boolean, .number, .string, .array, .object]

def Kind.idx : Kind → Nat
  | .null => 0 | .boolean => 1 | .number => 2 | .string => 3 | .array => 4 | .object => 5

end JsonVerif
