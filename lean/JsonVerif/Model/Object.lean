import JsonVerif.Model.Basic
import JsonVerif.Model.Order
/-!
# Model of `Object` and its key index (src/object/mod.rs, src/object/index_map.rs)

`entries : Vec<Entry>` is a list; `indexes : IndexMap` (a hashbrown `RawTable<Indexes>` whose hash
and equality go *through* `entries[indexes.rep].key`) is a list of buckets. Each bucket carries the
ghost field `gkey`: the key under whose hash the bucket was inserted into the table. A lookup of `k`
finds a bucket only if it sits in `k`'s hash chain (`gkey = k`: hashing is assumed injective on the
keys in play, i.e. collisions are resolved by the equality test) **and** the equality test
`k == entries[rep].key` succeeds — this is what makes a stale index observable in the model.
`none` results stand for Rust panics (`entries[i]` out of bounds).
-/
namespace JsonVerif

abbrev Key := List Char

/-- `index_map::Indexes` + ghost key -/
structure Bucket where
  gkey : Key
  rep : Nat
  other : List Nat
deriving Repr, DecidableEq

structure Obj where
  entries : List (Key × JValue)
  buckets : List Bucket
deriving Repr

namespace Bucket

/-- insertion into the sorted `other` (`binary_search` → `Err(i)` → `insert(i, index)`) -/
def insertSorted (x : Nat) : List Nat → List Nat
  | [] => [x]
  | y :: ys => if x < y then x :: y :: ys else if x = y then y :: ys else y :: insertSorted x ys

/-- `Indexes::insert` -/
def insert (b : Bucket) (index : Nat) : Bucket :=
  if index = b.rep then b
  else if index < b.rep then { b with rep := index, other := insertSorted b.rep b.other }
  else { b with other := insertSorted index b.other }

/-- `Indexes::remove`: `none` = "was the last index, not removed" (`false`) -/
def remove (b : Bucket) (index : Nat) : Option Bucket :=
  if b.rep = index then
    match b.other with
    | [] => none
    | x :: xs => some { b with rep := x, other := xs }
  else some { b with other := b.other.erase index }

/-- `Indexes::shift_down` -/
def shiftDown (b : Bucket) (index : Nat) : Bucket :=
  { b with rep := if b.rep > index then b.rep - 1 else b.rep,
           other := b.other.map (fun i => if i > index then i - 1 else i) }

/-- `Indexes::shift_up` -/
def shiftUp (b : Bucket) (index : Nat) : Bucket :=
  { b with rep := if b.rep ≥ index then b.rep + 1 else b.rep,
           other := b.other.map (fun i => if i ≥ index then i + 1 else i) }

def all (b : Bucket) : List Nat := b.rep :: b.other

end Bucket

namespace Obj

def empty : Obj := ⟨[], []⟩

def keyAt (es : List (Key × JValue)) (i : Nat) : Option Key := (es[i]?).map (·.1)

/-- `IndexMap::get`: the bucket in `k`'s chain whose representative entry carries `k` -/
def findBucket (es : List (Key × JValue)) (bs : List Bucket) (k : Key) : Option Bucket :=
  bs.find? (fun b => b.gkey == k && keyAt es b.rep == some k)

/-- `IndexMap::insert(entries, index)`; returns the "fresh key" flag. `none` = panic. -/
def indexInsert (es : List (Key × JValue)) (bs : List Bucket) (index : Nat) :
    Option (List Bucket × Bool) :=
  match keyAt es index with
  | none => none
  | some k =>
    match findBucket es bs k with
    | some _ =>
      some (bs.map (fun b => if b.gkey == k && keyAt es b.rep == some k then b.insert index else b), false)
    | none => some (bs ++ [⟨k, index, []⟩], true)

/-- `IndexMap::remove(entries, index)` -/
def indexRemove (es : List (Key × JValue)) (bs : List Bucket) (index : Nat) : Option (List Bucket) :=
  match keyAt es index with
  | none => none
  | some k =>
    match findBucket es bs k with
    | none => some bs
    | some _ =>
      some (bs.filterMap (fun b =>
        if b.gkey == k && keyAt es b.rep == some k then b.remove index else some b))

def indexShiftDown (bs : List Bucket) (index : Nat) : List Bucket := bs.map (·.shiftDown index)
def indexShiftUp (bs : List Bucket) (index : Nat) : List Bucket := bs.map (·.shiftUp index)

/-- `for i in 0..entries.len() { indexes.insert(&entries, i) }` starting from `bs` -/
def indexInsertRange (es : List (Key × JValue)) : Nat → Nat → List Bucket → Option (List Bucket)
  | 0, _, bs => some bs
  | n + 1, i, bs =>
    match indexInsert es bs i with
    | none => none
    | some (bs', _) => indexInsertRange es n (i + 1) bs'

/-- `Object::from_vec` -/
def fromVec (es : List (Key × JValue)) : Option Obj :=
  (indexInsertRange es es.length 0 []).map (fun bs => ⟨es, bs⟩)

/-- `push_entry` -/
def push (o : Obj) (k : Key) (v : JValue) : Option (Obj × Bool) :=
  let es := o.entries ++ [(k, v)]
  (indexInsert es o.buckets o.entries.length).map (fun r => (⟨es, r.1⟩, r.2))

/-- `push_entry_front` -/
def pushFront (o : Obj) (k : Key) (v : JValue) : Option (Obj × Bool) :=
  let es := (k, v) :: o.entries
  (indexInsert es (indexShiftUp o.buckets 0) 0).map (fun r => (⟨es, r.1⟩, r.2))

/-- `remove_at` -/
def removeAt (o : Obj) (index : Nat) : Option (Obj × Option (Key × JValue)) :=
  if index < o.entries.length then
    match indexRemove o.entries o.buckets index with
    | none => none
    | some bs => some (⟨o.entries.eraseIdx index, indexShiftDown bs index⟩, o.entries[index]?)
  else some (o, none)

/-- `index_of` / `redundant_index_of` / `indexes_of` -/
def indexOf (o : Obj) (k : Key) : Option Nat := (findBucket o.entries o.buckets k).map (·.rep)
def redundantIndexOf (o : Obj) (k : Key) : Option Nat :=
  (findBucket o.entries o.buckets k).bind (fun b => b.other.head?)
def indexesOf (o : Obj) (k : Key) : List Nat :=
  match findBucket o.entries o.buckets k with
  | some b => b.all
  | none => []
def containsKey (o : Obj) (k : Key) : Bool := (findBucket o.entries o.buckets k).isSome
def containsDuplicateKeys (o : Obj) : Bool := o.buckets.any (fun b => !b.other.isEmpty)

/-- `get` / `get_entries` (values / entries at the indexes of the bucket; `none` = panic) -/
def getEntries (o : Obj) (k : Key) : Option (List (Key × JValue)) :=
  (indexesOf o k).mapM (fun i => o.entries[i]?)

/-- drain loop shared by the three removal iterators: while `pick` yields an index, `remove_at` it.
    Terminates because every removal shortens `entries` (fuel = length). `none` = panic. -/
def drain (pick : Obj → Option Nat) : Nat → Obj → List (Key × JValue) → Option (Obj × List (Key × JValue))
  | 0, o, acc => some (o, acc)
  | n + 1, o, acc =>
    match pick o with
    | none => some (o, acc)
    | some i =>
      match removeAt o i with
      | none => none
      | some (o', some e) => drain pick n o' (acc ++ [e])
      | some (o', none) => some (o', acc)

/-- `Object::remove(key)` with the iterator consumed or dropped (Drop finishes the removal):
    final object and the entries the iterator yields in order. -/
def remove (o : Obj) (k : Key) : Option (Obj × List (Key × JValue)) :=
  drain (fun o => o.indexOf k) o.entries.length o []

/-- `Object::insert(key, value)`: `none` result list = `None` (fresh key). -/
def insert (o : Obj) (k : Key) (v : JValue) : Option (Obj × Option (List (Key × JValue))) :=
  match o.indexOf k with
  | some index =>
    match o.entries[index]? with
    | none => none                                  -- `self.entries[index]` out of bounds
    | some old =>
      let o1 : Obj := ⟨o.entries.set index (k, v), o.buckets⟩
      -- RemovedByInsertion: `key = entries[self.index].key; redundant_index_of(key) → remove_at`
      match drain (fun o => (keyAt o.entries index).bind (fun key => o.redundantIndexOf key))
          o1.entries.length o1 [old] with
      | none => none
      | some (o2, removed) => some (o2, some removed)
  | none => (o.push k v).map (fun r => (r.1, none))

/-- `Object::insert_front(key, value)` -/
def insertFront (o : Obj) (k : Key) (v : JValue) : Option (Obj × List (Key × JValue)) :=
  let pick : Obj → Option Nat := fun o => (keyAt o.entries 0).bind (fun key => o.redundantIndexOf key)
  match o.entries with
  | (k0, v0) :: rest =>
    if k0 = k then
      drain pick o.entries.length ⟨(k, v) :: rest, o.buckets⟩ [(k0, v0)]
    else
      match o.pushFront k v with
      | none => none
      | some (o1, _) => drain pick o1.entries.length o1 []
  | [] =>
    match o.pushFront k v with
    | none => none
    | some (o1, _) => drain pick o1.entries.length o1 []

/-- `Result<Option<Entry>, Duplicate<Entry>>` -/
inductive Unique where
  | none
  | one (e : Key × JValue)
  | dup (a b : Key × JValue)
deriving Repr

/-- `Object::remove_unique` (the iterator is dropped after at most two `next()`: all matching
    entries are removed in every case) -/
def removeUnique (o : Obj) (k : Key) : Option (Obj × Unique) :=
  (o.remove k).map (fun r =>
    (r.1, match r.2 with
      | [] => .none
      | [e] => .one e
      | a :: b :: _ => .dup a b))

/-- `Object::sort`: stable sort by (key, value), then the index is rebuilt from scratch -/
def sort (o : Obj) : Option Obj := fromVec (sortEntries o.entries)

/-- `Extend<Entry>` -/
def extend (o : Obj) : List (Key × JValue) → Option Obj
  | [] => some o
  | (k, v) :: r =>
    match o.push k v with
    | none => none
    | some (o', _) => extend o' r

/-- value mutation through `iter_mut` / `get_mut`: keys and index untouched -/
def setValueAt (o : Obj) (i : Nat) (v : JValue) : Obj :=
  match o.entries[i]? with
  | some (k, _) => ⟨o.entries.set i (k, v), o.buckets⟩
  | none => o

/-- `get_mut(key)`: assign `v` to every value carrying `k` (`none` = panic) -/
def setValuesOf (o : Obj) (k : Key) (v : JValue) : Option Obj :=
  (indexesOf o k).foldlM (fun (o : Obj) i =>
    match o.entries[i]? with
    | some (k', _) => some ⟨o.entries.set i (k', v), o.buckets⟩
    | none => none) o

/-- `get_or_insert_with` -/
def getOrInsertWith (o : Obj) (k : Key) (v : JValue) : Option (Obj × JValue) :=
  match o.indexOf k with
  | some i => (o.entries[i]?).map (fun e => (o, e.2))
  | none => (o.push k v).map (fun r => (r.1, v))

end Obj
end JsonVerif
