import JsonVerif.Model.Basic
/-!
# Parser model — basic types (src/parse/mod.rs, src/code_map.rs)
-/
namespace JsonVerif

/-- `parse::Options` -/
structure ParseOptions where
  trunc : Bool      -- accept_truncated_surrogate_pair
  inval : Bool      -- accept_invalid_codepoints
deriving Repr, DecidableEq, Inhabited

/-- `code_map::Entry` (span.start, span.end, volume) -/
structure CMEntry where
  start : Nat
  stop : Nat
  volume : Nat
deriving Repr, DecidableEq, Inhabited

/-- `parse::Error`, plus `panic` for the `unwrap()` in `end_fragment`
    (so that "never panics" is a theorem and not an artefact of totalisation). -/
inductive PErr where
  | stream (pos : Nat)                         -- Error::Stream(position, e)  (→ InvalidUtf8 for slices)
  | unexpected (pos : Nat) (c : Option Char)
  | invalidCodePoint (s e : Nat) (cp : Nat)
  | missingLow (s e : Nat) (hi : Nat)
  | invalidLow (s e : Nat) (hi : Nat) (cp : Nat)
  | panic
deriving Repr, DecidableEq, Inhabited

/-- `parse::Context` -/
inductive Ctx | none | array | objectKey | objectValue
deriving Repr, DecidableEq, Inhabited

/-- `is_whitespace` -/
def isWs (c : Char) : Bool := c = ' ' || c = '\t' || c = '\r' || c = '\n'

/-- `Context::follows` -/
def Ctx.follows (ctx : Ctx) (c : Char) : Bool :=
  match ctx with
  | .none => isWs c
  | .array => isWs c || c = ',' || c = ']'
  | .objectKey => isWs c || c = ':'
  | .objectValue => isWs c || c = ',' || c = '}'

theorem bind_ok {ε α β} {x : Except ε α} {f : α → Except ε β} {b : β} :
    (x >>= f) = .ok b ↔ ∃ a, x = .ok a ∧ f a = .ok b := by
  cases x <;> simp [bind, Except.bind]

end JsonVerif
