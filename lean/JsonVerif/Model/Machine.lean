import JsonVerif.Model.ParseLen
/-!
# The parsing machine (`impl Parse for Value`, src/parse/value.rs) and the entry points
-/
namespace JsonVerif

/-- `StackItem` of `Value::parse_in`; `i` is the code-map index of the container,
    `e` the index of the pending entry. -/
inductive StackItem where
  | array (a : List JValue) (i : Nat)
  | arrayItem (a : List JValue) (i : Nat)
  | object (es : List JEntry) (i : Nat)
  | objectEntry (es : List JEntry) (i : Nat) (key : List Char) (e : Nat)

def machineMeasure (value : Option JValue) (s : PS) : Nat :=
  2 * s.rest.length + (if value.isSome then 1 else 0)

/-- `loop { match stack.pop() { … } }` — one arm per arm of the Rust loop. The only recursion is
    this tail call: the nesting of the document lives in `stack`, not in the call stack.
    (The code-map index carried by `value: Option<Meta<Value, usize>>` is never read, so `value`
    is modelled as `Option JValue`.) -/
def run (o : ParseOptions) (stack : List StackItem) (value : Option JValue) (s : PS) :
    Except PErr (JValue × PS) :=
  match stack, value with
  | [], some v =>
    -- Fragment::value_or_parse returns the pending value; then trailing whitespace and EOF
    match skipWs s with
    | .error e => .error e
    | .ok s1 =>
      match s1.rest with
      | c :: _ => .error (.unexpected s1.pos (some c))
      | [] => .ok (v, s1)
  | [], none =>
    match h : parseFragment o .none s with
    | .error e => .error e
    | .ok (.value v, s') => run o [] (some v) s'
    | .ok (.beginArray i, s') => run o [.arrayItem [] i] none s'
    | .ok (.beginObject i key e, s') => run o [.objectEntry [] i key e] none s'
  | .array a i :: k, _ =>
    match h : contArray i s with
    | .error e => .error e
    | .ok (.item, s') => run o (.arrayItem a i :: k) none s'
    | .ok (.end_, s') => run o k (some (.array a)) s'
  | .arrayItem a i :: k, some v => run o (.array (a ++ [v]) i :: k) none s
  | .arrayItem a i :: k, none =>
    match h : parseFragment o .array s with
    | .error e => .error e
    | .ok (.value v, s') => run o (.array (a ++ [v]) i :: k) none s'
    | .ok (.beginArray j, s') => run o (.arrayItem [] j :: .arrayItem a i :: k) none s'
    | .ok (.beginObject j key e, s') => run o (.objectEntry [] j key e :: .arrayItem a i :: k) none s'
  | .object es i :: k, _ =>
    match h : contObject o i s with
    | .error e => .error e
    | .ok (.entry key e, s') => run o (.objectEntry es i key e :: k) none s'
    | .ok (.end_, s') => run o k (some (.object es)) s'
  | .objectEntry es i key e :: k, some v =>
    match h : s.endFragment e with
    | .error x => .error x
    | .ok s' => run o (.object (es ++ [(key, v)]) i :: k) none s'
  | .objectEntry es i key e :: k, none =>
    match h : parseFragment o .objectValue s with
    | .error x => .error x
    | .ok (.value v, s') =>
      match h2 : s'.endFragment e with
      | .error x => .error x
      | .ok s'' => run o (.object (es ++ [(key, v)]) i :: k) none s''
    | .ok (.beginArray j, s') => run o (.arrayItem [] j :: .objectEntry es i key e :: k) none s'
    | .ok (.beginObject j key' e', s') =>
      run o (.objectEntry [] j key' e' :: .objectEntry es i key e :: k) none s'
termination_by (machineMeasure value s, stack.length)
decreasing_by
  all_goals simp_wf
  all_goals (try (have := parseFragment_len h))
  all_goals (try (have := contArray_len h))
  all_goals (try (have := contObject_len h))
  all_goals (try (have := endFragment_len h))
  all_goals (try (have := endFragment_len h2))
  all_goals simp only [machineMeasure, Prod.lex_def] <;> simp <;> omega

/-! Linear executable twin of `run`: the items / entries of the containers under construction are
    kept in reverse (`v :: a` instead of `a ++ [v]`) and reversed once when the container is closed.
    Proved equal to `run` on the un-reversed stack and installed with `@[csimp]`: compiled code runs
    the twin, every theorem keeps speaking about `run`. -/
def StackItem.unrev : StackItem → StackItem
  | .array a i => .array a.reverse i
  | .arrayItem a i => .arrayItem a.reverse i
  | .object es i => .object es.reverse i
  | .objectEntry es i key e => .objectEntry es.reverse i key e

def runR (o : ParseOptions) (stack : List StackItem) (value : Option JValue) (s : PS) :
    Except PErr (JValue × PS) :=
  match stack, value with
  | [], some v =>
    match skipWs s with
    | .error e => .error e
    | .ok s1 =>
      match s1.rest with
      | c :: _ => .error (.unexpected s1.pos (some c))
      | [] => .ok (v, s1)
  | [], none =>
    match h : parseFragment o .none s with
    | .error e => .error e
    | .ok (.value v, s') => runR o [] (some v) s'
    | .ok (.beginArray i, s') => runR o [.arrayItem [] i] none s'
    | .ok (.beginObject i key e, s') => runR o [.objectEntry [] i key e] none s'
  | .array a i :: k, _ =>
    match h : contArray i s with
    | .error e => .error e
    | .ok (.item, s') => runR o (.arrayItem a i :: k) none s'
    | .ok (.end_, s') => runR o k (some (.array a.reverse)) s'
  | .arrayItem a i :: k, some v => runR o (.array (v :: a) i :: k) none s
  | .arrayItem a i :: k, none =>
    match h : parseFragment o .array s with
    | .error e => .error e
    | .ok (.value v, s') => runR o (.array (v :: a) i :: k) none s'
    | .ok (.beginArray j, s') => runR o (.arrayItem [] j :: .arrayItem a i :: k) none s'
    | .ok (.beginObject j key e, s') => runR o (.objectEntry [] j key e :: .arrayItem a i :: k) none s'
  | .object es i :: k, _ =>
    match h : contObject o i s with
    | .error e => .error e
    | .ok (.entry key e, s') => runR o (.objectEntry es i key e :: k) none s'
    | .ok (.end_, s') => runR o k (some (.object es.reverse)) s'
  | .objectEntry es i key e :: k, some v =>
    match h : s.endFragment e with
    | .error x => .error x
    | .ok s' => runR o (.object ((key, v) :: es) i :: k) none s'
  | .objectEntry es i key e :: k, none =>
    match h : parseFragment o .objectValue s with
    | .error x => .error x
    | .ok (.value v, s') =>
      match h2 : s'.endFragment e with
      | .error x => .error x
      | .ok s'' => runR o (.object ((key, v) :: es) i :: k) none s''
    | .ok (.beginArray j, s') => runR o (.arrayItem [] j :: .objectEntry es i key e :: k) none s'
    | .ok (.beginObject j key' e', s') =>
      runR o (.objectEntry [] j key' e' :: .objectEntry es i key e :: k) none s'
termination_by (machineMeasure value s, stack.length)
decreasing_by
  all_goals simp_wf
  all_goals (try (have := parseFragment_len h))
  all_goals (try (have := contArray_len h))
  all_goals (try (have := contObject_len h))
  all_goals (try (have := endFragment_len h))
  all_goals (try (have := endFragment_len h2))
  all_goals simp only [machineMeasure, Prod.lex_def] <;> simp <;> omega

theorem runR_eq (o : ParseOptions) (stack : List StackItem) (value : Option JValue) (s : PS) :
    runR o stack value s = run o (stack.map StackItem.unrev) value s := by
  fun_induction runR o stack value s <;>
    simp only [List.map_cons, List.map_nil, StackItem.unrev] <;> rw [run]
  all_goals (repeat' split)
  all_goals (first | rfl | (simp_all [StackItem.unrev]; done) | skip)

def runImpl (o : ParseOptions) (stack : List StackItem) (value : Option JValue) (s : PS) :
    Except PErr (JValue × PS) :=
  runR o (stack.map StackItem.unrev) value s

theorem StackItem.unrev_unrev (x : StackItem) : x.unrev.unrev = x := by
  cases x <;> simp [StackItem.unrev]

@[csimp] theorem run_eq_impl : @run = @runImpl := by
  funext o stack value s
  simp only [runImpl, runR_eq, List.map_map]
  congr 1
  induction stack with
  | nil => rfl
  | cons x xs ih => simp [StackItem.unrev_unrev, ← ih]

/-- `Parse::parse_with` on a decoded character stream: `chars` are the characters the stream
    yields before it ends (`bad = false`) or fails (`bad = true`). -/
def parseChars (o : ParseOptions) (chars : List Char) (bad : Bool) :
    Except PErr (JValue × List CMEntry) :=
  match run o [] none { rest := chars, bad := bad, pos := 0, cm := #[] } with
  | .error e => .error e
  | .ok (v, s) => .ok (v, s.cm.toList)

end JsonVerif

namespace JsonVerif

/-- The same loop with an explicit iteration budget (`none` = budget exhausted). It is structurally
    recursive, hence evaluable by the kernel, and `runF_eq_run` (Lemmas/Steps.lean) shows that
    `2·|input| + 2` iterations always suffice: the step bound of C03. -/
def runF (o : ParseOptions) : Nat → List StackItem → Option JValue → PS →
    Option (Except PErr (JValue × PS))
  | 0, _, _, _ => none
  | n + 1, stack, value, s =>
    match stack, value with
    | [], some v =>
      match skipWs s with
      | .error e => some (.error e)
      | .ok s1 =>
        match s1.rest with
        | c :: _ => some (.error (.unexpected s1.pos (some c)))
        | [] => some (.ok (v, s1))
    | [], none =>
      match parseFragment o .none s with
      | .error e => some (.error e)
      | .ok (.value v, s') => runF o n [] (some v) s'
      | .ok (.beginArray i, s') => runF o n [.arrayItem [] i] none s'
      | .ok (.beginObject i key e, s') => runF o n [.objectEntry [] i key e] none s'
    | .array a i :: k, _ =>
      match contArray i s with
      | .error e => some (.error e)
      | .ok (.item, s') => runF o n (.arrayItem a i :: k) none s'
      | .ok (.end_, s') => runF o n k (some (.array a)) s'
    | .arrayItem a i :: k, some v => runF o n (.array (a ++ [v]) i :: k) none s
    | .arrayItem a i :: k, none =>
      match parseFragment o .array s with
      | .error e => some (.error e)
      | .ok (.value v, s') => runF o n (.array (a ++ [v]) i :: k) none s'
      | .ok (.beginArray j, s') => runF o n (.arrayItem [] j :: .arrayItem a i :: k) none s'
      | .ok (.beginObject j key e, s') =>
        runF o n (.objectEntry [] j key e :: .arrayItem a i :: k) none s'
    | .object es i :: k, _ =>
      match contObject o i s with
      | .error e => some (.error e)
      | .ok (.entry key e, s') => runF o n (.objectEntry es i key e :: k) none s'
      | .ok (.end_, s') => runF o n k (some (.object es)) s'
    | .objectEntry es i key e :: k, some v =>
      match s.endFragment e with
      | .error x => some (.error x)
      | .ok s' => runF o n (.object (es ++ [(key, v)]) i :: k) none s'
    | .objectEntry es i key e :: k, none =>
      match parseFragment o .objectValue s with
      | .error x => some (.error x)
      | .ok (.value v, s') =>
        match s'.endFragment e with
        | .error x => some (.error x)
        | .ok s'' => runF o n (.object (es ++ [(key, v)]) i :: k) none s''
      | .ok (.beginArray j, s') => runF o n (.arrayItem [] j :: .objectEntry es i key e :: k) none s'
      | .ok (.beginObject j key' e', s') =>
        runF o n (.objectEntry [] j key' e' :: .objectEntry es i key e :: k) none s'

end JsonVerif
