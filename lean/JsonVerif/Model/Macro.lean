import JsonVerif.Model.Basic
/-!
# Model of the `json!` macro (src/macros.rs)

Token trees as `macro_rules!` sees them, restricted to the shapes a JSON literal can contain:
`null` `true` `false`, literals (string, integer, float — a float literal denotes an `f64` whose
rendering by `Value::try_from(f64)` is supplied, lexical being opaque), `,` `:`, the three
delimited groups, and identifiers (variables bound to strings, usable in parenthesized keys).
`macro_rules!` semantics assumed: rules are tried in order, the first one whose matcher accepts
the input fires (rustc's matcher is modelled, not verified — DESIGN.md §6). `none` = no rule
applies / an error rule fires (the program does not compile).
-/
namespace JsonVerif

inductive MLit where
  | str (s : List Char)
  | int (i : Int)                               -- `Value::try_from(i)` = `Value::from(i32/i64/…)`
  | float (src rendered : List Char)            -- `Value::try_from(f64).unwrap()`

inductive Tok where
  | null | true_ | false_
  | lit (l : MLit)
  | comma | colon
  | bracket (ts : List Tok)
  | brace (ts : List Tok)
  | paren (ts : List Tok)
  | ident (name : List Char)

/-- `$crate::Value::try_from($lit).unwrap()` -/
def litValue : MLit → JValue
  | .str s => .string s
  | .int i => .number (toString i).toList
  | .float _ r => .number r

/-- `json!(@key (…))`: `$key.into()` for a string literal, a parenthesized expression or a variable
    (identifiers are looked up in `env`) -/
def keyOf (env : List Char → Option (List Char)) : List Tok → Option (List Char)
  | [.lit (.str s)] => some s
  | [.ident x] => env x
  | [.paren [.lit (.str s)]] => some s        -- the "fully parenthesized key" rule leaves `($key)` = the expr
  | [.paren [.ident x]] => env x
  | _ => none

-- the TT munchers, by structural recursion on the token trees
mutual
/-- the main rules applied to one token tree -/
def expandTok (env : List Char → Option (List Char)) : Tok → Option JValue
  | .null => some .null
  | .true_ => some (.bool true)
  | .false_ => some (.bool false)
  | .lit l => some (litValue l)
  | .bracket ts => (munchArray env [] false ts).map .array     -- `([])` and `([ $($tt)+ ])`
  | .brace ts => (munchObject env [] false ts).map .object     -- `({})` and `({ $($tt)+ })`
  | _ => none                                                 -- `Value::from($other)`: not a JSON literal
/-- `json!(@array [elems] rest…)`; `tight` = the accumulated list ends with an element (no comma
    yet): only the "comma after the most recent element" rule or the end may follow -/
def munchArray (env : List Char → Option (List Char)) :
    List JValue → Bool → List Tok → Option (List JValue)
  | acc, _, [] => some acc                                      -- done (with or without trailing comma)
  | acc, true, .comma :: rest => munchArray env acc false rest
  | _, true, _ :: _ => none                                     -- unexpected token after an element
  | _, false, .comma :: _ => none                               -- `,` where an element is expected
  | _, false, .colon :: _ => none
  | acc, false, t :: rest =>
    match expandTok env t with
    | some v => munchArray env (acc ++ [v]) true rest
    | none => none
/-- `json!(@object [elems] (key…) (rest…) copy)` restricted to single-token-tree keys -/
def munchObject (env : List Char → Option (List Char)) :
    List (List Char × JValue) → Bool → List Tok → Option (List (List Char × JValue))
  | acc, _, [] => some acc
  | acc, true, .comma :: rest => munchObject env acc false rest
  | _, true, _ :: _ => none
  | acc, false, k :: .colon :: t :: rest =>
    match keyOf env [k], expandTok env t with
    | some key, some v => munchObject env (acc ++ [(key, v)]) true rest
    | _, _ => none
  | _, false, _ => none
end

/-- `json!( tokens )` — a JSON literal is a single token tree; `Object::from_vec` keeps the
    entries as listed (duplicates preserved) -/
def expandJson (env : List Char → Option (List Char)) (ts : List Tok) : Option JValue :=
  match ts with
  | [t] => expandTok env t
  | _ => none

end JsonVerif
