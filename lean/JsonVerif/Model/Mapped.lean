import JsonVerif.Model.Object
import JsonVerif.Model.ParseBasic
import JsonVerif.Model.Kind
/-!
# Code-map navigation (src/array.rs, src/object/mod.rs mapped iterators, src/lib.rs get_fragment /
# traverse / volume / count, src/try_from.rs)

`cm.get(i).unwrap().volume` is `volAt cm i : Option Nat` (`none` = the unwrap panicked).
-/
namespace JsonVerif

def volAt (cm : List CMEntry) (i : Nat) : Option Nat := (cm[i]?).map (·.volume)

/-- `array::IterMapped`: starts at `offset + 1`; each item yields the current offset, then skips
    the item's volume. `none` = panic. -/
def arrayMappedFrom (cm : List CMEntry) : Nat → List JValue → Option (List Nat)
  | _, [] => some []
  | o, _ :: xs =>
    match volAt cm o with
    | none => none
    | some v => (arrayMappedFrom cm (o + v) xs).map (o :: ·)

def arrayMapped (cm : List CMEntry) (offset : Nat) (xs : List JValue) : Option (List Nat) :=
  arrayMappedFrom cm (offset + 1) xs

/-- `object::IterMapped`: entry at `o`, key at `o+1`, value at `o+2`; skip `2 + volume(value)`. -/
def objectMappedFrom (cm : List CMEntry) : Nat → List (Key × JValue) → Option (List (Nat × Nat × Nat))
  | _, [] => some []
  | o, _ :: es =>
    match volAt cm (o + 2) with
    | none => none
    | some v => (objectMappedFrom cm (o + 2 + v) es).map ((o, o + 1, o + 2) :: ·)

def objectMapped (cm : List CMEntry) (offset : Nat) (es : List (Key × JValue)) :
    Option (List (Nat × Nat × Nat)) :=
  objectMappedFrom cm (offset + 1) es

/-- the `while self.last_index < index { … }` loop of the `mapped_entries_iter!` iterators:
    advance `(last_index, offset)` to `index` -/
def advanceTo (cm : List CMEntry) (index : Nat) : Nat → Nat → Nat → Option (Nat × Nat)
  | 0, last, o => some (last, o)
  | fuel + 1, last, o =>
    if last < index then
      match volAt cm (o + 2) with
      | none => none
      | some v => advanceTo cm index fuel (last + 1) (o + 2 + v)
    else some (last, o)

/-- `get_mapped_entries(code_map, offset, key)`: for each index of the key (ascending), the entry
    offset triple -/
def mappedEntriesFrom (cm : List CMEntry) : List Nat → Nat → Nat → Option (List (Nat × Nat × Nat × Nat))
  | [], _, _ => some []
  | i :: is, last, o =>
    match advanceTo cm i (i + 1) last o with
    | none => none
    | some (last', o') => (mappedEntriesFrom cm is last' o').map ((i, o', o' + 1, o' + 2) :: ·)

def mappedEntries (cm : List CMEntry) (offset : Nat) (o : Obj) (k : Key) :
    Option (List (Nat × Nat × Nat × Nat)) :=
  mappedEntriesFrom cm (o.indexesOf k) 0 (offset + 1)

/-- fragments: `FragmentRef` -/
inductive Frag where
  | value (v : JValue)
  | entry (k : Key) (v : JValue)
  | key (k : Key)
deriving Repr

-- `Value::get_fragment` / `get_array_fragment` / `Object::get_fragment` / `Entry::get_fragment`:
-- `inl f` = `Ok(f)`, `inr n` = `Err(n)` (remaining distance)
mutual
def getFragment : JValue → Nat → Frag ⊕ Nat
  | v, 0 => .inl (.value v)
  | .array xs, i + 1 => getFragmentL xs i
  | .object es, i + 1 => getFragmentM es i
  | _, i + 1 => .inr i
def getFragmentL : List JValue → Nat → Frag ⊕ Nat
  | [], i => .inr i
  | x :: xs, i =>
    match getFragment x i with
    | .inl f => .inl f
    | .inr j => getFragmentL xs j
def getFragmentM : List (Key × JValue) → Nat → Frag ⊕ Nat
  | [], i => .inr i
  | (k, x) :: es, i =>
    match i with
    | 0 => .inl (.entry k x)
    | 1 => .inl (.key k)
    | j + 2 =>
      match getFragment x j with
      | .inl f => .inl f
      | .inr j' => getFragmentM es j'
end

/-- `FragmentRef::sub_fragments` -/
def Frag.subs : Frag → List Frag
  | .value (.array xs) => xs.map .value
  | .value (.object es) => es.map (fun e => .entry e.1 e.2)
  | .entry k v => [.key k, .value v]
  | _ => []

/-- `Traverse::next` iterated: pop, push the sub-fragments (reversed onto a Vec = prepended in
    order onto a list whose head is the top), yield. Fuel = number of fragments. -/
def traverseFuel : Nat → List Frag → List Frag
  | 0, _ => []
  | _, [] => []
  | n + 1, f :: st => f :: traverseFuel n (f.subs ++ st)

def traverse (v : JValue) : List Frag := traverseFuel v.frags [.value v]

/-- `Value::volume` = traversal entries that are values; `count(f)` = filtered traversal -/
def volume (v : JValue) : Nat := ((traverse v).filter (fun f => match f with | .value _ => true | _ => false)).length

end JsonVerif
