import JsonVerif.Model.Basic
/-!
# Model of the conversion to and from `serde_json::Value` (src/convert/serde_json.rs)

`serde_json::Value` with default features: numbers are `u64 | i64 | finite f64` (`SNum`, opaque
here), objects are `BTreeMap<String, Value>` — keys sorted and unique. Number conversions are
parameters: `disp : SNum → text` (`n.to_string()`, then `NumberBuf::new`, which would panic on an
invalid text: `none`), `conv : text → Option SNum` (the `into` direction after the `fix:`; `none` =
magnitude beyond f64 ↦ `Value::Null`).
-/
namespace JsonVerif

inductive SJ (SNum : Type) where
  | null
  | bool (b : Bool)
  | number (n : SNum)
  | string (s : List Char)
  | array (xs : List (SJ SNum))
  | object (es : List (List Char × SJ SNum))     -- in map order (sorted, unique keys)

variable {SNum : Type}

-- `Value::from_serde_json`
mutual
def fromSj (disp : SNum → List Char) : SJ SNum → JValue
  | .null => .null
  | .bool b => .bool b
  | .number n => .number (disp n)
  | .string s => .string s
  | .array xs => .array (fromSjL disp xs)
  | .object es => .object (fromSjM disp es)
def fromSjL (disp : SNum → List Char) : List (SJ SNum) → List JValue
  | [] => []
  | x :: xs => fromSj disp x :: fromSjL disp xs
def fromSjM (disp : SNum → List Char) : List (List Char × SJ SNum) → List (List Char × JValue)
  | [] => []
  | (k, x) :: es => (k, fromSj disp x) :: fromSjM disp es
end

/-- `BTreeMap::insert`: replace the value of an existing key, or insert at the sorted position
    (`lt` = the order of `String`) -/
def mapInsert (lt : List Char → List Char → Bool) (k : List Char) (v : SJ SNum) :
    List (List Char × SJ SNum) → List (List Char × SJ SNum)
  | [] => [(k, v)]
  | (l, w) :: r => if lt k l then (k, v) :: (l, w) :: r else if k == l then (k, v) :: r else (l, w) :: mapInsert lt k v r

-- `Value::into_serde_json`: `.collect()` into the map = insert one entry after the other
mutual
def intoSj (lt : List Char → List Char → Bool) (conv : List Char → Option SNum) : JValue → SJ SNum
  | .null => .null
  | .bool b => .bool b
  | .number n => match conv n with | some m => .number m | none => .null
  | .string s => .string s
  | .array xs => .array (intoSjL lt conv xs)
  | .object es => .object (intoSjM lt conv es [])
def intoSjL (lt : List Char → List Char → Bool) (conv : List Char → Option SNum) : List JValue → List (SJ SNum)
  | [] => []
  | x :: xs => intoSj lt conv x :: intoSjL lt conv xs
def intoSjM (lt : List Char → List Char → Bool) (conv : List Char → Option SNum) :
    List (List Char × JValue) → List (List Char × SJ SNum) → List (List Char × SJ SNum)
  | [], acc => acc
  | (k, x) :: es, acc => intoSjM lt conv es (mapInsert lt k (intoSj lt conv x) acc)
end

end JsonVerif
