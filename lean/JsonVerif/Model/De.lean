import JsonVerif.Model.Serde
/-!
# Model of the serde deserializer (src/serde/de.rs)

`impl Deserializer for Value`, `MapKeyDeserializer`, `EnumDeserializer` / `VariantDeserializer`,
the `visit_array` / `visit_object` length checks, and `impl Deserialize for Value` (`ValueVisitor`).

A Rust type is represented by a **type descriptor** `DTy`: which `deserialize_*` request its
`Deserialize` implementation makes and what its visitor accepts (serde's implementations for the
primitive types, `Option`, `Vec`, tuples, `BTreeMap`, and serde-derive's generated visitors for
structs and externally tagged enums). The harness drives the real `Value` deserializer with a
descriptor-interpreting client (harness/src/probe.rs), so that arbitrary descriptors — not a fixed
family of Rust types — exercise every entry point; the same client is compared with real
`#[derive(Deserialize)]` types.

The result of deserialization is the datum in `SData` notation (the notation of the serializer's
input), so that the round trip `de ty (ser d) = d` can be stated directly.

Numbers reach a visitor through json-number's `deserialize_any`: `visit_u64` if the text parses as
u64, else `visit_i64` if it parses as i64, else `visit_f64(as_f64_lossy)`. A float datum is
identified by the number text it was read from / written as (lexical's conversions are opaque).
-/
namespace JsonVerif

inductive DeErr
  | invalidType | invalidValue | invalidLength | missingField | duplicateField | unknownVariant
  | custom
deriving Repr, DecidableEq

/-- the eight integer types with a dedicated `deserialize_*` entry point (8–64 bit) -/
inductive IntW | i8 | i16 | i32 | i64 | u8 | u16 | u32 | u64
deriving Repr, DecidableEq

def IntW.signed : IntW → Bool
  | .i8 | .i16 | .i32 | .i64 => true
  | _ => false
def IntW.lo : IntW → Int
  | .i8 => -128 | .i16 => -32768 | .i32 => -2147483648 | .i64 => -9223372036854775808
  | _ => 0
def IntW.hi : IntW → Int
  | .i8 => 127 | .i16 => 32767 | .i32 => 2147483647 | .i64 => 9223372036854775807
  | .u8 => 255 | .u16 => 65535 | .u32 => 4294967295 | .u64 => 18446744073709551615

/-- the datum an integer visitor of width `w` builds from an in-range integer -/
def IntW.mk (w : IntW) (i : Int) : SData := if w.signed then .int i else .uint i.toNat

/-- key types of maps -/
inductive KTy
  | str | int (w : IntW) | char
  | unitEnum (names : List (List Char))
  | newtype (k : KTy)
deriving Repr

/-- type descriptors. In the payload position of an `enum` variant: `unit` = unit variant,
    `newtype t` = newtype variant holding a `t`, `tuple ts` = tuple variant, `struct fs` = struct
    variant. -/
inductive DTy
  | bool | int (w : IntW) | f32 | f64 | char | str | unit | unitStruct
  | opt (t : DTy) | newtype (t : DTy) | seq (t : DTy)
  | tuple (ts : List DTy)
  | map (k : KTy) (t : DTy)
  | struct (fs : List (List Char × DTy))
  | enum (vs : List (List Char × DTy))
deriving Inhabited

/-- what json-number's `deserialize_any` calls on the visitor -/
inductive NumEv | u64 (u : Nat) | i64 (i : Int) | f64
deriving Repr, DecidableEq

def numEvent (n : List Char) : NumEv :=
  match asU64 n with
  | some u => .u64 u
  | none => match asI64 n with
    | some i => .i64 i
    | none => .f64

/-- serde's primitive integer visitors: any integer visit that fits the type -/
def intVisit (w : IntW) (n : List Char) : Except DeErr SData :=
  match numEvent n with
  | .u64 u => if (u : Int) ≤ w.hi then .ok (w.mk u) else .error .invalidValue
  | .i64 i => if w.lo ≤ i ∧ i ≤ w.hi then .ok (w.mk i) else .error .invalidValue
  | .f64 => .error .invalidType

/-- Rust's `str::parse::<uN/iN>()` (`from_str_radix(_, 10)`): an optional sign (`-` only for the
    signed types), then one or more ASCII digits; no other character, no overflow -/
def parseNatR (cs : List Char) : Option Nat :=
  if !cs.isEmpty && cs.all Char.isDigit then some (Nat.ofDigitChars 10 cs 0) else none
def parseIntR (signed : Bool) : List Char → Option Int
  | '+' :: r => (parseNatR r).map Int.ofNat
  | '-' :: r => if signed then (parseNatR r).map (fun n => -Int.ofNat n) else none
  | cs => (parseNatR cs).map Int.ofNat
def parseKeyInt (w : IntW) (k : List Char) : Option Int :=
  match parseIntR w.signed k with
  | some i => if w.lo ≤ i ∧ i ≤ w.hi then some i else none
  | none => none

/-- `MapKeyDeserializer` seen by the key type's `Deserialize` implementation -/
def deKey : KTy → List Char → Except DeErr SData
  | .str, k => .ok (.str k)                          -- deserialize_string → visit_string
  | .int w, k =>                                     -- deserialize_iN: parse, else visit_string
    match parseKeyInt w k with
    | some i => .ok (w.mk i)
    | none => .error .invalidType
  | .char, k =>                                      -- deserialize_char → visit_string
    match k with
    | [c] => .ok (.char c)
    | _ => .error .invalidValue
  | .unitEnum names, k =>                            -- deserialize_enum on the key text
    if names.contains k then .ok (.unitVariant k) else .error .unknownVariant
  | .newtype t, k =>                                 -- visit_newtype_struct(self)
    match deKey t k with
    | .ok d => .ok (.newtypeStruct d)
    | .error e => .error e

/-- the json-number / lexical dependency as a parameter: `f64 n` (`f32 n`) = the text of
    `NumberBuf::try_from` of the double (float) that json-number's `deserialize_any` hands to a
    float visitor for the number text `n`; `none` when that value is not finite. A float datum is
    identified by that text, as on the serializer's side. -/
structure FEnv where
  f32 : List Char → Option (List Char)
  f64 : List Char → Option (List Char)

/-- run `f` over the list, stopping at the first error -/
def mapE {α β : Type} (f : α → Except DeErr β) : List α → Except DeErr (List β)
  | [] => .ok []
  | x :: xs =>
    match f x with
    | .error e => .error e
    | .ok y =>
      match mapE f xs with
      | .error e => .error e
      | .ok ys => .ok (y :: ys)

/-- one map entry: `next_key_seed` then `next_value_seed` (`f` = the value type's deserializer) -/
def deEntry (k : KTy) (f : JValue → Except DeErr SData) (e : List Char × JValue) :
    Except DeErr (SData × SData) :=
  match deKey k e.1 with
  | .error err => .error err
  | .ok kd => match f e.2 with
    | .error err => .error err
    | .ok d => .ok (kd, d)

/-- serde-derive's `visit_map` for a struct: one slot per field; a key that names no field is
    skipped (`IgnoredAny`), a second value for a filled slot is `duplicate_field` (detected before
    the value is looked at). `look k x` = index of the field named `k` and the result of
    deserializing `x` at that field's type. -/
def fillSlots (look : List Char → JValue → Option (Nat × Except DeErr SData)) :
    List (List Char × JValue) → List (Option SData) → Except DeErr (List (Option SData))
  | [], slots => .ok slots
  | (k, x) :: es, slots =>
    match look k x with
    | none => fillSlots look es slots
    | some (i, r) =>
      match slots[i]? with
      | some (some _) => .error .duplicateField
      | _ =>
        match r with
        | .error e => .error e
        | .ok d => fillSlots look es (slots.set i (some d))

/-- after the loop: an unfilled slot is `missing_field`, which is `None` for an `Option` field -/
def closeSlots : List (List Char × DTy) → List (Option SData) → Except DeErr (List (List Char × SData))
  | [], _ => .ok []
  | (n, t) :: fs, slots =>
    let this : Except DeErr SData :=
      match slots.head? with
      | some (some d) => .ok d
      | _ => match t with
        | .opt _ => .ok .none
        | _ => .error .missingField
    match this with
    | .error e => .error e
    | .ok d =>
      match closeSlots fs slots.tail with
      | .error e => .error e
      | .ok l => .ok ((n, d) :: l)

/-- the result of a visitor that pulled elements from a `SeqAccess`: the data built and the elements
    left (`visit_array` fails with `invalid_length` when some are left) -/
def seqDone {α : Type} (r : Except DeErr (α × List JValue)) (mk : α → SData) : Except DeErr SData :=
  match r with
  | .error e => .error e
  | .ok (a, rest) => if rest.isEmpty then .ok (mk a) else .error .invalidLength

mutual
/-- `T::deserialize(value)` for the type described by the descriptor -/
def de (env : FEnv) : DTy → JValue → Except DeErr SData
  | .bool, v => (match v with | .bool b => .ok (.bool b) | _ => .error .invalidType)
  | .int w, v => (match v with | .number n => intVisit w n | _ => .error .invalidType)
  | .f32, v => (match v with | .number n => .ok (.float (env.f32 n)) | _ => .error .invalidType)
  | .f64, v => (match v with | .number n => .ok (.float (env.f64 n)) | _ => .error .invalidType)
  | .char, v =>
    (match v with
     | .string [c] => .ok (.char c)
     | .string _ => .error .invalidValue
     | _ => .error .invalidType)
  | .str, v => (match v with | .string s => .ok (.str s) | _ => .error .invalidType)
  | .unit, v => (match v with | .null => .ok .unit | _ => .error .invalidType)
  | .unitStruct, v => (match v with | .null => .ok .unitStruct | _ => .error .invalidType)
  | .opt t, v =>
    (match v with
     | .null => .ok .none
     | _ => match de env t v with
       | .ok d => .ok (.some d)
       | .error e => .error e)
  | .newtype t, v =>
    (match de env t v with
     | .ok d => .ok (.newtypeStruct d)
     | .error e => .error e)
  | .seq t, v =>
    (match v with
     | .array xs => (match mapE (de env t) xs with | .ok ds => .ok (.seq ds) | .error e => .error e)
     | _ => .error .invalidType)
  | .tuple ts, v =>
    (match v with
     | .array xs => seqDone (deTuple env ts xs) .seq
     | _ => .error .invalidType)
  | .map k t, v =>
    (match v with
     | .object es =>
       (match mapE (deEntry k (de env t)) es with
        | .ok l => .ok (.map l)
        | .error e => .error e)
     | _ => .error .invalidType)
  | .struct fs, v =>
    (match v with
     | .object es =>
       (match fillSlots (deField env fs 0) es (fs.map (fun _ => none)) with
        | .error e => .error e
        | .ok slots => match closeSlots fs slots with
          | .error e => .error e
          | .ok l => .ok (.struct l))
     | .array xs => seqDone (deFieldsSeq env fs xs) .struct
     | _ => .error .invalidType)
  | .enum vs, v =>
    (match v with
     | .string s => deVariant env vs s none
     | .object [(k, x)] => deVariant env vs k (some x)
     | .object _ => .error .invalidValue
     | _ => .error .invalidType)
/-- a tuple visitor: one `next_element` per component; `None` early is `invalid_length` -/
def deTuple (env : FEnv) : List DTy → List JValue → Except DeErr (List SData × List JValue)
  | [], xs => .ok ([], xs)
  | _ :: _, [] => .error .invalidLength
  | t :: ts, x :: xs =>
    match de env t x with
    | .error e => .error e
    | .ok d =>
      match deTuple env ts xs with
      | .error e => .error e
      | .ok (ds, rest) => .ok (d :: ds, rest)
/-- serde-derive's `visit_seq` for a struct: positional -/
def deFieldsSeq (env : FEnv) : List (List Char × DTy) → List JValue →
    Except DeErr (List (List Char × SData) × List JValue)
  | [], xs => .ok ([], xs)
  | _ :: _, [] => .error .invalidLength
  | (n, t) :: fs, x :: xs =>
    match de env t x with
    | .error e => .error e
    | .ok d =>
      match deFieldsSeq env fs xs with
      | .error e => .error e
      | .ok (ds, rest) => .ok ((n, d) :: ds, rest)
/-- field identifier lookup (`deserialize_identifier` → `visit_str`), with the value deserialized
    at the field's type -/
def deField (env : FEnv) : List (List Char × DTy) → Nat → List Char → JValue → Option (Nat × Except DeErr SData)
  | [], _, _, _ => none
  | (n, t) :: fs, i, k, x => if n == k then some (i, de env t x) else deField env fs (i + 1) k x
/-- `visit_enum`: the variant identifier, then the `VariantAccess` method for that variant's kind.
    `payload = none` for a string (`"V"`), `some x` for a single-entry object (`{"V": x}`). -/
def deVariant (env : FEnv) : List (List Char × DTy) → List Char → Option JValue → Except DeErr SData
  | [], _, _ => .error .unknownVariant
  | (n, p) :: vs, k, payload =>
    if n == k then
      match p with
      | .unit =>                               -- unit_variant: `()` from the payload, if any
        (match payload with
         | none => .ok (.unitVariant n)
         | some .null => .ok (.unitVariant n)
         | some _ => .error .invalidType)
      | .newtype t =>                          -- newtype_variant_seed
        (match payload with
         | none => .error .invalidType
         | some x => match de env t x with
           | .ok d => .ok (.newtypeVariant n d)
           | .error e => .error e)
      | .tuple ts =>                           -- tuple_variant: an empty array is `visit_unit`
        (match payload with
         | some (.array []) => .error .invalidType
         | some (.array xs) => seqDone (deTuple env ts xs) (.tupleVariant n)
         | _ => .error .invalidType)
      | .struct fs =>                          -- struct_variant: objects only
        (match payload with
         | some (.object es) =>
           (match fillSlots (deField env fs 0) es (fs.map (fun _ => none)) with
            | .error e => .error e
            | .ok slots => match closeSlots fs slots with
              | .error e => .error e
              | .ok l => .ok (.structVariant n l))
         | _ => .error .invalidType)
      | _ => .error .custom                    -- not a variant descriptor
    else deVariant env vs k payload
end

/-! ## `impl Deserialize for Value` driven by a `Value` (`from_value::<Value>`) -/

/-- `ft n` = the text of `NumberBuf::try_from(n.as_f64_lossy())` (`none` when that double is not
    finite): lexical's parser and printer, not modelled -/
def numBack (ft : List Char → Option (List Char)) (n : List Char) : JValue :=
  match numEvent n with
  | .u64 u => .number (natText u)
  | .i64 i => .number (intText i)
  | .f64 => match ft n with
    | some t => .number t
    | none => .null

mutual
def fromValue (ft : List Char → Option (List Char)) : JValue → Except DeErr JValue
  | .null => .ok .null
  | .bool b => .ok (.bool b)
  | .number n => .ok (numBack ft n)
  | .string s => .ok (.string s)
  | .array xs =>
    (match fromValueL ft xs with
     | .ok l => .ok (.array l)
     | .error e => .error e)
  | .object [] => .ok (.object [])
  | .object ((k, x) :: es) =>
    if k == numberToken then
      -- MapTag::Number: `next_value::<String>()`, `NumberBuf::new`, then visit_object's length check
      match x with
      | .string s =>
        if numberOk s then (if es.isEmpty then .ok (.number s) else .error .invalidLength)
        else .error .custom
      | _ => .error .invalidType
    else
      match fromValue ft x with
      | .error e => .error e
      | .ok y => fromValueM ft es [(k, y)]
def fromValueL (ft : List Char → Option (List Char)) : List JValue → Except DeErr (List JValue)
  | [] => .ok []
  | x :: xs =>
    match fromValue ft x with
    | .error e => .error e
    | .ok y =>
      match fromValueL ft xs with
      | .error e => .error e
      | .ok ys => .ok (y :: ys)
/-- `while let Some((key, value)) = next_entry()? { object.insert(key, value) }` -/
def fromValueM (ft : List Char → Option (List Char)) :
    List (List Char × JValue) → List (List Char × JValue) → Except DeErr JValue
  | [], acc => .ok (.object acc)
  | (k, x) :: es, acc =>
    match fromValue ft x with
    | .error e => .error e
    | .ok y => fromValueM ft es (listInsert acc k y)
end

/-- `impl Deserialize for Object` from a `Value`: `deserialize_map`, then `insert` entry by entry -/
def fromValueObject (ft : List Char → Option (List Char)) : JValue → Except DeErr JValue
  | .object es => fromValueM ft es []
  | _ => .error .invalidType

/-- decidable comparison of two deserialization results -/
def deResEq : Except DeErr JValue → Except DeErr JValue → Bool
  | .ok a, .ok b => a.beq b
  | .error e, .error f => e == f
  | _, _ => false

end JsonVerif
