import JsonVerif.Model.Parse
/-!
# Model of the serde serializer (src/serde/ser.rs) and of `Serialize for Value / Object / Number`

`SData` is the serde data model as seen by a `Serializer`: one constructor per `serialize_*` entry
point (integer widths are merged: the serializer forwards them to the 64-bit methods). Floats carry
the text `NumberBuf::try_from(f)` produced (lexical's formatting is opaque; `none` = non-finite).
`ser` mirrors `Serializer`, `KeySerializer`, `StringNumberSerializer` and the compound serializers,
including the `$serde_json::private::Number` channel of `SerializeMap` and the
`Object::insert` (replace-first, purge later duplicates) used for map entries.
-/
namespace JsonVerif

inductive SData where
  | bool (b : Bool)
  | int (i : Int)                       -- serialize_i8 … i64
  | uint (n : Nat)                      -- serialize_u8 … u64
  | float (text : Option (List Char))   -- serialize_f32 / f64
  | char (c : Char)
  | str (s : List Char)
  | bytes (l : List Nat)
  | none
  | some (d : SData)
  | unit
  | unitStruct
  | unitVariant (v : List Char)
  | newtypeStruct (d : SData)
  | newtypeVariant (v : List Char) (d : SData)
  | seq (l : List SData)                -- seq / tuple / tuple struct
  | tupleVariant (v : List Char) (l : List SData)
  | map (l : List (SData × SData))
  | struct (l : List (List Char × SData))
  | structVariant (v : List Char) (l : List (List Char × SData))
deriving Inhabited

inductive SerErr | nonStringKey | malformedNumber | custom (msg : List Char) | panic
deriving Repr, DecidableEq

def numberToken : List Char := "$serde_json::private::Number".toList

/-- `NumberBuf::new(bytes).is_ok()` — the json-number automaton, which is the parser's automaton
    run to the end of the text -/
def numberOk (n : List Char) : Bool :=
  match numLoop .none .init [] n 0 with
  | .ok (st, _, r, _) => r.isEmpty && st.accepting
  | .error _ => false

/-- `Object::insert` on the entry list: replace the first entry with that key and purge the later
    ones, or append -/
def listInsert (es : List (List Char × JValue)) (k : List Char) (v : JValue) : List (List Char × JValue) :=
  if es.any (fun e => e.1 == k) then
    let rec go : List (List Char × JValue) → Bool → List (List Char × JValue)
      | [], _ => []
      | e :: r, seen => if e.1 == k then (if seen then go r true else (k, v) :: go r true) else e :: go r seen
    go es false
  else es ++ [(k, v)]

def natText (n : Nat) : List Char := (toString n).toList
def intText (i : Int) : List Char := (toString i).toList

-- `KeySerializer`
def serKey : SData → Except SerErr (List Char)
  | .unitVariant v => .ok v
  | .newtypeStruct d => serKey d
  | .int i => .ok (intText i)
  | .uint n => .ok (natText n)
  | .char c => .ok [c]
  | .str s => .ok s
  | _ => .error .nonStringKey

/-- `StringNumberSerializer` -/
def serStrNum : SData → Except SerErr (List Char)
  | .str s => if numberOk s then .ok s else .error .malformedNumber
  | _ => .error .malformedNumber

/-- state of `SerializeMap` -/
inductive MapState where
  | object (es : List (List Char × JValue))
  | number (n : Option (List Char))

mutual
/-- `impl serde::Serializer for Serializer` -/
def ser : SData → Except SerErr JValue
  | .bool b => .ok (.bool b)
  | .int i => .ok (.number (intText i))
  | .uint n => .ok (.number (natText n))
  | .float (.some t) => .ok (.number t)
  | .float .none => .ok .null
  | .char c => .ok (.string [c])
  | .str s => .ok (.string s)
  | .bytes l => .ok (.array (l.map (fun b => .number (natText b))))
  | .none => .ok .null
  | .some d => ser d
  | .unit => .ok .null
  | .unitStruct => .ok .null
  | .unitVariant v => .ok (.string v)
  | .newtypeStruct d => ser d
  | .newtypeVariant v d =>
    match ser d with
    | .error e => .error e
    | .ok x => .ok (.object [(v, x)])
  | .seq l =>
    match serL l with
    | .error e => .error e
    | .ok xs => .ok (.array xs)
  | .tupleVariant v l =>
    match serL l with
    | .error e => .error e
    | .ok xs => .ok (.object [(v, .array xs)])
  | .map l => serMap l (.object [])
  | .struct l => serFields l (.object [])
  | .structVariant v l =>
    match serFieldsPlain l [] with
    | .error e => .error e
    | .ok es => .ok (.object [(v, .object es)])
def serL : List SData → Except SerErr (List JValue)
  | [] => .ok []
  | d :: r =>
    match ser d with
    | .error e => .error e
    | .ok x =>
      match serL r with
      | .error e => .error e
      | .ok xs => .ok (x :: xs)
/-- `SerializeMap::{serialize_key, serialize_value, end}` over the entries in order -/
def serMap : List (SData × SData) → MapState → Except SerErr JValue
  | [], .object es => .ok (.object es)
  | [], .number (.some n) => .ok (.number n)
  | [], .number .none => .error .malformedNumber
  | (_, _) :: _, .number _ => .error .malformedNumber        -- serialize_key in Number mode
  | (k, v) :: r, .object es =>
    match serKey k with
    | .error e => .error e
    | .ok key =>
      if es.isEmpty && key == numberToken then
        match serStrNum v with
        | .error e => .error e
        | .ok n => serMap r (.number (.some n))
      else
        match ser v with
        | .error e => .error e
        | .ok x => serMap r (.object (listInsert es key x))
/-- `SerializeStruct for SerializeMap`: `serialize_field = serialize_entry(key, value)` -/
def serFields : List (List Char × SData) → MapState → Except SerErr JValue
  | [], .object es => .ok (.object es)
  | [], .number (.some n) => .ok (.number n)
  | [], .number .none => .error .malformedNumber
  | (_, _) :: _, .number _ => .error .malformedNumber
  | (key, v) :: r, .object es =>
    if es.isEmpty && key == numberToken then
      match serStrNum v with
      | .error e => .error e
      | .ok n => serFields r (.number (.some n))
    else
      match ser v with
      | .error e => .error e
      | .ok x => serFields r (.object (listInsert es key x))
/-- `SerializeStructVariant::serialize_field`: plain `obj.insert(key, value)` -/
def serFieldsPlain : List (List Char × SData) → List (List Char × JValue) →
    Except SerErr (List (List Char × JValue))
  | [], es => .ok es
  | (key, v) :: r, es =>
    match ser v with
    | .error e => .error e
    | .ok x => serFieldsPlain r (listInsert es key x)
end

/-- `as_i64` / `as_u64`: `str::parse` of the number text -/
def asI64 (n : List Char) : Option Int :=
  match (String.ofList n).toInt? with
  | .some i => if -(2 ^ 63 : Int) ≤ i ∧ i < 2 ^ 63 then .some i else .none
  | .none => .none
def asU64 (n : List Char) : Option Nat :=
  match (String.ofList n).toNat? with
  | .some i => if i < 2 ^ 64 then .some i else .none
  | .none => .none

/-- `Value::Number(n)` arm of `impl Serialize for Value` (after the `fix:` commit), together with
    json-number's `impl Serialize for Number`: plain 64-bit integer literals go through
    `serialize_i64` / `serialize_u64`; every other number (fraction, exponent form, integer beyond
    64 bits) through the `$serde_json::private::Number` struct channel. -/
def numberData (n : List Char) : Except SerErr SData :=
  if n.contains '.' then .ok (.struct [(numberToken, .str n)])
  else match asI64 n with
    | .some i => .ok (.int i)
    | .none => match asU64 n with
      | .some u => .ok (.uint u)
      | .none => .ok (.struct [(numberToken, .str n)])

-- `impl Serialize for Value / Object`: the calls made on the serializer
mutual
def valueData : JValue → Except SerErr SData
  | .null => .ok .unit
  | .bool b => .ok (.bool b)
  | .number n => numberData n
  | .string s => .ok (.str s)
  | .array xs =>
    match valueDataL xs with
    | .error e => .error e
    | .ok l => .ok (.seq l)
  | .object es =>
    match valueDataM es with
    | .error e => .error e
    | .ok l => .ok (.map l)
def valueDataL : List JValue → Except SerErr (List SData)
  | [] => .ok []
  | x :: xs =>
    match valueData x with
    | .error e => .error e
    | .ok d =>
      match valueDataL xs with
      | .error e => .error e
      | .ok l => .ok (d :: l)
def valueDataM : List (List Char × JValue) → Except SerErr (List (SData × SData))
  | [] => .ok []
  | (k, x) :: es =>
    match valueData x with
    | .error e => .error e
    | .ok d =>
      match valueDataM es with
      | .error e => .error e
      | .ok l => .ok ((.str k, d) :: l)
end

/-- decidable comparison of a serializer result with an expected value -/
def okEq (r : Except SerErr JValue) (w : JValue) : Bool :=
  match r with
  | .ok v => v.beq w
  | .error _ => false

/-- `json_syntax::to_value(&value)` -/
def toValue (v : JValue) : Except SerErr JValue :=
  match valueData v with
  | .error e => .error e
  | .ok d => ser d

end JsonVerif
