import JsonVerif.Model.Basic
/-!
# Model of `unordered_eq` (src/unordered.rs, src/lib.rs, src/object/mod.rs)

`Object::unordered_eq` (after the `fix:` for duplicate multiplicities): equal lengths, and every
entry of `self`, in order, is paired with the first not-yet-paired entry of `other` that has the
same key and an unordered-equal value (`matched[i]` flags; the model removes the paired entry).
Key lookups go through the index; under the C06 invariant `get_entries_with_index(key)` visits the
entries carrying `key` in ascending position, which is the scan the model performs.
-/
namespace JsonVerif

/-- first entry of `b` with key `k` whose value satisfies `f`, removed -/
def ueqPick (f : JValue → Bool) (k : List Char) :
    List (List Char × JValue) → Option (List (List Char × JValue))
  | [] => none
  | (l, y) :: b => if l == k && f y then some b else (ueqPick f k b).map ((l, y) :: ·)

mutual
def ueq : JValue → JValue → Bool
  | .null, .null => true
  | .bool a, .bool b => a == b
  | .number a, .number b => a == b
  | .string a, .string b => a == b
  | .array a, .array b => ueqL a b
  | .object a, .object b => a.length == b.length && ueqM a b
  | _, _ => false
/-- `Vec<T>::unordered_eq`: same length, pointwise -/
def ueqL : List JValue → List JValue → Bool
  | [], [] => true
  | x :: xs, y :: ys => ueq x y && ueqL xs ys
  | _, _ => false
/-- the `self.iter().all(…)` loop with the `matched` flags -/
def ueqM : List (List Char × JValue) → List (List Char × JValue) → Bool
  | [], _ => true
  | (k, x) :: a, b =>
    match ueqPick (ueq x) k b with
    | none => false
    | some b' => ueqM a b'
end

end JsonVerif
