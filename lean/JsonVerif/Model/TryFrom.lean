import JsonVerif.Model.Mapped
/-!
# Model of the code-map-carrying conversions (src/try_from.rs)

`TryFromJson::try_from_json_at(json, code_map, offset)` for the leaf types bool / String / unit /
u8 and the constructors `Vec<T>` (over `iter_mapped`), `BTreeMap<String, T>` (over the object's
`iter_mapped`), `Option<T>` and `Box<T>`. A kind mismatch is reported with the code-map offset of
the offending fragment; `none` = a panic (`code_map.get(..).unwrap()`).
-/
namespace JsonVerif

inductive CTy where
  | bool | str | unit | u8
  | opt (t : CTy) | vec (t : CTy) | map (t : CTy) | box (t : CTy)
deriving Repr, Inhabited

/-- `u8::try_from_json_at`: an unsigned integer literal ≤ 255 -/
def isU8 (n : List Char) : Bool :=
  n.all Char.isDigit && (String.ofList n).toNat?.any (· ≤ 255)

/-- the leaf decisions -/
def leafOk : CTy → JValue → Bool
  | .bool, .bool _ => true
  | .str, .string _ => true
  | .unit, .null => true
  | .u8, .number n => isU8 n
  | _, _ => false

/-- fold over the items with their code-map offsets, stopping at the first failure -/
def convItems (f : JValue → Nat → Option (Except Nat Unit)) :
    List (JValue × Nat) → Option (Except Nat Unit)
  | [] => some (.ok ())
  | (x, o) :: r =>
    match f x o with
    | some (.ok ()) => convItems f r
    | other => other

def tryFrom (cm : List CMEntry) : CTy → JValue → Nat → Option (Except Nat Unit)
  | .bool, v, off => some (if leafOk .bool v then .ok () else .error off)
  | .str, v, off => some (if leafOk .str v then .ok () else .error off)
  | .unit, v, off => some (if leafOk .unit v then .ok () else .error off)
  | .u8, v, off => some (if leafOk .u8 v then .ok () else .error off)
  | .opt t, v, off => (match v with | .null => some (.ok ()) | _ => tryFrom cm t v off)
  | .box t, v, off => tryFrom cm t v off
  | .vec t, v, off =>
    match v with
    | .array xs =>
      match arrayMapped cm off xs with
      | none => none
      | some offs => convItems (tryFrom cm t) (xs.zip offs)
    | _ => some (.error off)
  | .map t, v, off =>
    match v with
    | .object es =>
      match objectMapped cm off es with
      | none => none
      | some tr => convItems (tryFrom cm t) ((es.map (·.2)).zip (tr.map (·.2.2)))
    | _ => some (.error off)

end JsonVerif
