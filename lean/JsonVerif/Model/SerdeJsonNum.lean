import JsonVerif.Model.SerdeJson
import JsonVerif.Model.De
import JsonVerif.Model.Canon
/-!
# The number dispatch of `Value::into_serde_json` and serde_json's number representations

`serde_json::Number` (default features) is `PosInt(u64) | NegInt(i64) | Float(f64)`. The `into`
direction of src/convert/serde_json.rs tries `n.as_u64()`, then `n.as_i64()` (both are
`str::parse` in json-number, modelled by `parseKeyInt`), then `str::parse::<f64>` followed by
`Number::from_f64` (`None` for a non-finite result ↦ `Value::Null`). `From<i64> for Number` stores
a non-negative `i64` as `PosInt`. The way back prints the number (`Display`) into a `NumberBuf`.

Only the float leg depends on code outside /repo's logic: it is the parameter `ftbl` (text ↦ the
text serde_json prints for the parsed double, `none` when there is none); a float is represented
by its printed text.
-/
namespace JsonVerif

inductive SjNum
  | pos (n : Nat)              -- PosInt
  | neg (i : Int)              -- NegInt (i < 0)
  | float (txt : List Char)    -- Float, by its `Display` text
deriving DecidableEq, Repr

/-- `Display for serde_json::Number` -/
def SjNum.disp : SjNum → List Char
  | .pos n => natText n
  | .neg i => intText i
  | .float t => t

/-- the number arm of `into_serde_json` -/
def sjConv (ftbl : List Char → Option (List Char)) (n : List Char) : Option SjNum :=
  match parseKeyInt .u64 n with
  | some u => some (.pos u.toNat)
  | none =>
    match parseKeyInt .i64 n with
    | some i => some (if i < 0 then .neg i else .pos i.toNat)
    | none => (ftbl n).map .float

/-- the order of `String` keys in the `BTreeMap` (bytes of the UTF-8 encoding = scalar values) -/
def strLt (a b : List Char) : Bool := cmpNats (a.map Char.toNat) (b.map Char.toNat) == .lt

/-- there and back, as the harness observes it: `Value::from_serde_json(v.into_serde_json())` -/
def sjThereAndBack (ftbl : List Char → Option (List Char)) (v : JValue) : JValue :=
  fromSj SjNum.disp (intoSj strLt (sjConv ftbl) v)

end JsonVerif
