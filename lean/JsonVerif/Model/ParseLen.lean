import JsonVerif.Model.Parse
/-!
Length lemmas: every lexical function that succeeds consumes input (the termination argument of
the machine, i.e. the totality half of C03).
-/
namespace JsonVerif

theorem skipWsL_len (l : List Char) (p : Nat) : (skipWsL l p).1.length ≤ l.length := by
  induction l generalizing p with
  | nil => simp [skipWsL]
  | cons c r ih =>
    simp only [skipWsL]
    split
    · have := ih (p + c.utf8Size); simp; omega
    · simp

theorem skipWs_len {s s' : PS} (h : skipWs s = .ok s') : s'.rest.length ≤ s.rest.length := by
  unfold skipWs at h
  simp only at h
  split at h
  · cases h
  · cases h; exact skipWsL_len _ _

theorem expectChar_len {c : Char} {s s' : PS} (h : expectChar c s = .ok s') :
    s'.rest.length + 1 = s.rest.length := by
  unfold expectChar at h
  split at h
  · cases h
  · rename_i d r hr
    split at h
    · cases h; simp [PS.adv, hr]
    · cases h

theorem expectChars_len {cs : List Char} {s s' : PS} (h : expectChars cs s = .ok s') :
    s'.rest.length + cs.length = s.rest.length := by
  induction cs generalizing s with
  | nil => simp [expectChars] at h; subst h; simp
  | cons c cs ih =>
    simp only [expectChars] at h
    split at h
    · cases h
    · rename_i s1 h1
      have := expectChar_len h1; have := ih h
      simp; omega

@[simp] theorem beginFragment_rest (s : PS) : s.reserve.rest = s.rest := rfl
@[simp] theorem beginFragment_bad (s : PS) : s.reserve.bad = s.bad := rfl
@[simp] theorem beginFragment_pos (s : PS) : s.reserve.pos = s.pos := rfl

theorem endFragment_rest {s : PS} {i : Nat} {s' : PS} (h : s.endFragment i = .ok s') :
    s'.rest = s.rest ∧ s'.pos = s.pos ∧ s'.bad = s.bad := by
  unfold PS.endFragment at h
  split at h
  · cases h; exact ⟨rfl, rfl, rfl⟩
  · cases h

theorem endFragment_len {s : PS} {i : Nat} {s' : PS} (h : s.endFragment i = .ok s') :
    s'.rest.length = s.rest.length := by rw [(endFragment_rest h).1]

theorem lexNull_len {s s' : PS} (h : lexNull s = .ok s') : s'.rest.length < s.rest.length := by
  unfold lexNull at h
  simp only [PS.beginFragment_fst, PS.beginFragment_snd] at h
  split at h
  · cases h
  · rename_i s1 h1
    have := expectChars_len h1; have := endFragment_len h
    simp at *; omega

theorem lexBool_len {s : PS} {b : Bool} {s' : PS} (h : lexBool s = .ok (b, s')) :
    s'.rest.length < s.rest.length := by
  unfold lexBool at h
  simp only [PS.beginFragment_fst, PS.beginFragment_snd] at h
  split at h
  · cases h
  · split at h
    · split at h
      · cases h
      · rename_i s1 h1
        split at h
        · cases h
        · rename_i s2 h2
          cases h
          have := expectChars_len h1; have := endFragment_len h2
          simp at *; omega
    · split at h
      · split at h
        · cases h
        · rename_i s1 h1
          split at h
          · cases h
          · rename_i s2 h2
            cases h
            have := expectChars_len h1; have := endFragment_len h2
            simp at *; omega
      · cases h

theorem numLoop_len {ctx : Ctx} {st : NumState} {buf l : List Char} {pos : Nat}
    {st' : NumState} {buf' r : List Char} {pos' : Nat}
    (h : numLoop ctx st buf l pos = .ok (st', buf', r, pos')) : r.length ≤ l.length := by
  induction l generalizing st buf pos with
  | nil => simp [numLoop] at h; obtain ⟨_, _, rfl, _⟩ := h; simp
  | cons c r0 ih =>
    simp only [numLoop] at h
    split at h
    · have := ih h; simp; omega
    · cases h; simp
    · cases h

theorem numLoop_init_len {ctx : Ctx} {buf l : List Char} {pos : Nat}
    {st' : NumState} {buf' r : List Char} {pos' : Nat}
    (h : numLoop ctx .init buf l pos = .ok (st', buf', r, pos')) (ha : st'.accepting = true) :
    r.length < l.length := by
  cases l with
  | nil => simp [numLoop] at h; obtain ⟨rfl, _⟩ := h; simp [NumState.accepting] at ha
  | cons c r0 =>
    simp only [numLoop] at h
    split at h
    · have := numLoop_len h; simp; omega
    · rename_i ht
      simp only [numTrans] at ht
      repeat' (split at ht)
      all_goals cases ht
    · cases h

theorem lexNumber_len {ctx : Ctx} {s : PS} {n : List Char} {s' : PS}
    (h : lexNumber ctx s = .ok (n, s')) : s'.rest.length < s.rest.length := by
  unfold lexNumber at h
  simp only [PS.beginFragment_fst, PS.beginFragment_snd] at h
  split at h
  · cases h
  · rename_i st buf r pos hv
    split at h
    · cases h
    · split at h
      · rename_i ha
        split at h
        · cases h
        · rename_i s2 h2
          cases h
          have := endFragment_len h2
          have := numLoop_init_len hv ha
          simp at *; omega
      · cases h

theorem strStep_done_len {o : ParseOptions} {bad : Bool} {acc : List Char} {high : Option (Nat × Nat)}
    {l : List Char} {pos : Nat} {a r : List Char} {p q : Nat}
    (h : strStep o bad acc high l pos = .done a r p q) : r.length < l.length := by
  unfold strStep at h
  split at h
  · cases h
  · split at h
    · repeat' (split at h)
      all_goals (first | (cases h; simp) | cases h)
    · split at h
      · unfold strEsc at h
        repeat' (split at h)
        all_goals (first | cases h | skip)
        · unfold strEscU at h
          repeat' (split at h)
          all_goals (first | cases h | skip)
          all_goals (unfold noHigh at h; repeat' (split at h))
          all_goals cases h
        · unfold flushChar at h
          repeat' (split at h)
          all_goals cases h
      · split at h
        · cases h
        · unfold flushChar at h
          repeat' (split at h)
          all_goals cases h

theorem strLoopAux_len {o : ParseOptions} {bad : Bool} (fuel : List Char) :
    ∀ {acc : List Char} {high : Option (Nat × Nat)} {l : List Char} {pos : Nat}
      {a r : List Char} {p q : Nat},
      strLoopAux o bad fuel acc high l pos = .ok (a, r, p, q) → r.length < l.length := by
  induction fuel with
  | nil =>
    intro acc high l pos a r p q h
    rw [strLoopAux] at h
    split at h
    · rename_i hs; cases h; exact strStep_done_len hs
    · cases h
    · cases h
  | cons c fuel ih =>
    intro acc high l pos a r p q h
    rw [strLoopAux] at h
    split at h
    · rename_i hs; cases h; exact strStep_done_len hs
    · cases h
    · rename_i hs
      have h1 := strStep_len hs
      have := ih h
      omega

theorem strLoop_len {o : ParseOptions} {bad : Bool}
    {acc : List Char} {high : Option (Nat × Nat)} {l : List Char} {pos : Nat}
    {a r : List Char} {p q : Nat}
    (h : strLoop o bad acc high l pos = .ok (a, r, p, q)) : r.length < l.length :=
  strLoopAux_len _ h

theorem lexString_len {o : ParseOptions} {s : PS} {str : List Char} {s' : PS}
    (h : lexString o s = .ok (str, s')) : s'.rest.length < s.rest.length := by
  unfold lexString at h
  simp only [PS.beginFragment_fst, PS.beginFragment_snd] at h
  split at h
  · cases h
  · rename_i d r hr
    simp only [beginFragment_rest] at hr
    split at h
    · split at h
      · cases h
      · rename_i str' r' pos' q hv
        split at h
        · cases h
        · rename_i s1 h1
          cases h
          have := endFragment_len h1
          have := strLoop_len hv
          simp [hr] at *; omega
    · cases h

theorem lexKeyColon_len {o : ParseOptions} {s : PS} {k : List Char} {e : Nat} {s' : PS}
    (h : lexKeyColon o s = .ok (k, e, s')) : s'.rest.length < s.rest.length := by
  unfold lexKeyColon at h
  simp only [PS.beginFragment_fst, PS.beginFragment_snd] at h
  split at h
  · cases h
  · rename_i key s1 hv
    split at h
    · cases h
    · rename_i s2 h2
      split at h
      · cases h
      · rename_i s3 h3
        cases h
        have := lexString_len hv; have := skipWs_len h2; have := expectChar_len h3
        simp at *; omega

theorem startArray_len {s : PS} {f : Fragment} {s' : PS} (h : startArray s = .ok (f, s')) :
    s'.rest.length < s.rest.length := by
  unfold startArray at h
  simp only [PS.beginFragment_fst, PS.beginFragment_snd] at h
  split at h
  · cases h
  · rename_i s1 h1
    have l1 := expectChar_len h1
    split at h
    · cases h
    · rename_i s2 h2
      have l2 := skipWs_len h2
      split at h
      · rename_i d r hr
        split at h
        · split at h
          · cases h
          · rename_i s3 h3
            cases h
            have := endFragment_len h3
            simp [PS.adv, hr] at *; omega
        · cases h; simp at *; omega
      · cases h; simp at *; omega

theorem startObjectKey_len {o : ParseOptions} {i : Nat} {s : PS} {f : Fragment} {s' : PS}
    (h : startObjectKey o i s = .ok (f, s')) : s'.rest.length < s.rest.length := by
  unfold startObjectKey at h
  split at h
  · cases h
  · rename_i k e s3 h3
    cases h
    exact lexKeyColon_len h3

theorem startObject_len {o : ParseOptions} {s : PS} {f : Fragment} {s' : PS}
    (h : startObject o s = .ok (f, s')) : s'.rest.length < s.rest.length := by
  unfold startObject at h
  simp only [PS.beginFragment_fst, PS.beginFragment_snd] at h
  split at h
  · cases h
  · rename_i s1 h1
    have l1 := expectChar_len h1
    split at h
    · cases h
    · rename_i s2 h2
      have l2 := skipWs_len h2
      split at h
      · rename_i d r hr
        split at h
        · split at h
          · cases h
          · rename_i s3 h3
            cases h
            have := endFragment_len h3
            simp [PS.adv, hr] at *; omega
        · have := startObjectKey_len h
          simp at *; omega
      · have := startObjectKey_len h
        simp at *; omega

theorem parseFragment_len {o : ParseOptions} {ctx : Ctx} {s : PS} {f : Fragment} {s' : PS}
    (h : parseFragment o ctx s = .ok (f, s')) : s'.rest.length < s.rest.length := by
  unfold parseFragment at h
  split at h
  · cases h
  · rename_i s0 h0
    have l0 := skipWs_len h0
    split at h
    · cases h
    · repeat' (split at h)
      all_goals (first | (cases h; done) | skip)
      · rename_i h1; cases h; have := lexNull_len h1; omega
      · rename_i h1; cases h; have := lexBool_len h1; omega
      · rename_i h1; cases h; have := lexNumber_len h1; omega
      · rename_i h1; cases h; have := lexString_len h1; omega
      · have := startArray_len h; omega
      · have := startObject_len h; omega

theorem contArray_len {i : Nat} {s : PS} {c : ArrCont} {s' : PS}
    (h : contArray i s = .ok (c, s')) : s'.rest.length < s.rest.length := by
  unfold contArray at h
  split at h
  · cases h
  · rename_i s0 h0
    have l0 := skipWs_len h0
    split at h
    · cases h
    · rename_i d r hr
      split at h
      · cases h; simp [PS.adv, hr] at *; omega
      · split at h
        · split at h
          · cases h
          · rename_i s1 h1
            cases h
            have := endFragment_len h1
            simp [PS.adv, hr] at *; omega
        · cases h

theorem contObject_len {o : ParseOptions} {i : Nat} {s : PS} {c : ObjCont} {s' : PS}
    (h : contObject o i s = .ok (c, s')) : s'.rest.length < s.rest.length := by
  unfold contObject at h
  split at h
  · cases h
  · rename_i s0 h0
    have l0 := skipWs_len h0
    split at h
    · cases h
    · rename_i d r hr
      split at h
      · split at h
        · cases h
        · rename_i s1 h1
          have l1 := skipWs_len h1
          split at h
          · cases h
          · rename_i k e s2 h2
            cases h
            have := lexKeyColon_len h2
            simp [PS.adv, hr] at *; omega
      · split at h
        · split at h
          · cases h
          · rename_i s1 h1
            cases h
            have := endFragment_len h1
            simp [PS.adv, hr] at *; omega
        · cases h

end JsonVerif
