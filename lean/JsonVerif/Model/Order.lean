import JsonVerif.Model.Basic
/-!
# The derived ordering of `Value` (`#[derive(PartialOrd, Ord)]`, src/lib.rs) and of entries

Variant rank in declaration order (Null < Boolean < Number < String < Array < Object);
`false < true`; numbers and strings by their bytes (lexicographic; for strings UTF-8 byte order is
code-point order); arrays and objects lexicographically, a proper prefix first; entries by key, then
value (`#[derive(Ord)]` on `Entry { key, value }`).
-/
namespace JsonVerif

def cmpNat (a b : Nat) : Ordering := if a < b then .lt else if a = b then .eq else .gt

/-- lexicographic order on code points -/
def cmpChars : List Char → List Char → Ordering
  | [], [] => .eq
  | [], _ :: _ => .lt
  | _ :: _, [] => .gt
  | a :: as, b :: bs =>
    match cmpNat a.toNat b.toNat with
    | .eq => cmpChars as bs
    | o => o

def JValue.rank : JValue → Nat
  | .null => 0 | .bool _ => 1 | .number _ => 2 | .string _ => 3 | .array _ => 4 | .object _ => 5

def cmpBool (a b : Bool) : Ordering :=
  match a, b with
  | false, true => .lt
  | true, false => .gt
  | _, _ => .eq

mutual
def JValue.cmp : JValue → JValue → Ordering
  | .null, .null => .eq
  | .bool a, .bool b => cmpBool a b
  | .number a, .number b => cmpChars a b
  | .string a, .string b => cmpChars a b
  | .array a, .array b => cmpL a b
  | .object a, .object b => cmpM a b
  | a, b => cmpNat a.rank b.rank
def cmpL : List JValue → List JValue → Ordering
  | [], [] => .eq
  | [], _ :: _ => .lt
  | _ :: _, [] => .gt
  | x :: xs, y :: ys =>
    match JValue.cmp x y with
    | .eq => cmpL xs ys
    | o => o
def cmpM : List (List Char × JValue) → List (List Char × JValue) → Ordering
  | [], [] => .eq
  | [], _ :: _ => .lt
  | _ :: _, [] => .gt
  | (k, x) :: xs, (l, y) :: ys =>
    match cmpChars k l with
    | .eq =>
      match JValue.cmp x y with
      | .eq => cmpM xs ys
      | o => o
    | o => o
end

/-- `Entry: Ord` -/
def entryCmp (a b : List Char × JValue) : Ordering :=
  match cmpChars a.1 b.1 with
  | .eq => JValue.cmp a.2 b.2
  | o => o

def entryLe (a b : List Char × JValue) : Bool := entryCmp a b != .gt

/-- `entries.sort_by(|a, b| a.cmp(b))` — Rust's `sort_by` is a stable sort -/
def sortEntries (es : List (List Char × JValue)) : List (List Char × JValue) :=
  es.mergeSort entryLe

end JsonVerif
