import JsonVerif.Model.Order
/-!
# Model of canonicalization (RFC 8785; src/lib.rs `canonicalize_with`, src/object/mod.rs)

Numbers go through `numCanon` — json-number / ryu-js: ES6 shortest round-trip rendering of the
nearest double — which is an **opaque parameter** here (see DESIGN.md §6); arrays item-wise;
objects: canonicalize the values, then a stable sort by (key as UTF-16 code units, value) and the
index is rebuilt (`Object` part: C06).
-/
namespace JsonVerif

/-- `char::encode_utf16` -/
def utf16Units (c : Char) : List Nat :=
  if c.toNat < 0x10000 then [c.toNat]
  else [0xD800 + (c.toNat - 0x10000) / 1024, 0xDC00 + (c.toNat - 0x10000) % 1024]

/-- `str::encode_utf16` -/
def utf16 (s : List Char) : List Nat := s.flatMap utf16Units

def cmpNats : List Nat → List Nat → Ordering
  | [], [] => .eq
  | [], _ :: _ => .lt
  | _ :: _, [] => .gt
  | a :: as, b :: bs =>
    match cmpNat a b with
    | .eq => cmpNats as bs
    | o => o

/-- `a.key.encode_utf16().cmp(b.key.encode_utf16()).then_with(|| a.value.cmp(&b.value))` -/
def canonEntryCmp (a b : List Char × JValue) : Ordering :=
  match cmpNats (utf16 a.1) (utf16 b.1) with
  | .eq => JValue.cmp a.2 b.2
  | o => o

def canonEntryLe (a b : List Char × JValue) : Bool := canonEntryCmp a b != .gt

mutual
def canon (numCanon : List Char → List Char) : JValue → JValue
  | .number n => .number (numCanon n)
  | .array xs => .array (canonL numCanon xs)
  | .object es => .object ((canonM numCanon es).mergeSort canonEntryLe)
  | v => v
def canonL (numCanon : List Char → List Char) : List JValue → List JValue
  | [] => []
  | x :: xs => canon numCanon x :: canonL numCanon xs
def canonM (numCanon : List Char → List Char) :
    List (List Char × JValue) → List (List Char × JValue)
  | [] => []
  | (k, x) :: es => (k, canon numCanon x) :: canonM numCanon es
end

end JsonVerif
