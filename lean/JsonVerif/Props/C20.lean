import JsonVerif.Model.Kind
/-!
# C20 — KindSet is a faithful finite set of value kinds

Statement (properties.jsonl): KindSet behaves as a mathematical set over the six value kinds:
union and intersection in all operand combinations, length, emptiness, forward and backward
iteration (ascending kind order, double-ended consistent, exact remaining size) and the textual
renderings agree with set semantics for all 64 sets and all operand pairs. The kind reported for a
value matches its variant.

The domain is finite (64 sets), so each clause is decided by kernel evaluation over the *whole*
domain (`decide +kernel`), over the table regenerated from `src/kind.rs`; the iteration clause is
then lifted to every interleaving of front/back steps by induction.
-/
namespace JsonVerif.C20
open JsonVerif

/-- The abstract set denoted by a `KindSet`: membership by mask, listed in ascending kind order. -/
def mem (s : KindSet) (k : Kind) : Bool := s.bits &&& k.mask != 0
def toList (s : KindSet) : List Kind := Kind.all.filter (mem s)

/-- The 64 values a `KindSet` can take through the public API. -/
def ofFin (i : Fin 64) : KindSet := ⟨i.val⟩
def kindOf (i : Fin 6) : Kind := Kind.all[i.val]'(by simp [Kind.all])

theorem kindOf_surj (k : Kind) : ∃ i, kindOf i = k := by
  cases k
  · exact ⟨0, rfl⟩
  · exact ⟨1, rfl⟩
  · exact ⟨2, rfl⟩
  · exact ⟨3, rfl⟩
  · exact ⟨4, rfl⟩
  · exact ⟨5, rfl⟩

theorem kindOf_inj : ∀ j i : Fin 6, decide (kindOf j = kindOf i) = decide (j = i) := by
  decide +kernel

/-! ## The table: rows in ascending kind order; the masks are six distinct single bits
    (which kind owns which bit is irrelevant: iteration follows the row order) -/

theorem C20_table :
    Gen.kindTable.map (·.1) = Kind.all ∧ Gen.kindDeclOrder = Kind.all ∧
    (Gen.kindTable.map (·.2)).length = 6 ∧
    (∀ m ∈ [1, 2, 4, 8, 16, 32], m ∈ Gen.kindTable.map (·.2)) ∧ KindSet.all = ⟨63⟩ := by
  decide +kernel

/-! ## Closure: the API never leaves the 64-set domain -/

theorem C20_closed :
    (∀ a b : Fin 64, ((ofFin a).or (ofFin b)).bits < 64 ∧ ((ofFin a).and (ofFin b)).bits < 64) ∧
    (∀ (a : Fin 64) (k : Fin 6), ((ofFin a).orKind (kindOf k)).bits < 64 ∧
        ((ofFin a).andKind (kindOf k)).bits < 64 ∧ ((kindOf k).orSet (ofFin a)).bits < 64 ∧
        ((kindOf k).andSet (ofFin a)).bits < 64) ∧
    (∀ k l : Fin 6, ((kindOf k).or (kindOf l)).bits < 64 ∧ ((kindOf k).and (kindOf l)).bits < 64 ∧
        (KindSet.ofKind (kindOf k)).bits < 64) ∧
    KindSet.none.bits < 64 ∧ KindSet.all.bits < 64 := by decide +kernel

/-! ## Faithfulness: a set is determined by its members (derived `PartialEq` on the bits) -/

theorem C20_ext' : ∀ a b : Fin 64, toList (ofFin a) = toList (ofFin b) → a = b := by decide +kernel

theorem C20_ext (a b : Fin 64) : toList (ofFin a) = toList (ofFin b) ↔ ofFin a = ofFin b := by
  constructor
  · intro h; rw [C20_ext' a b h]
  · intro h; rw [h]

/-! ## Constructors -/

theorem C20_none_all : toList KindSet.none = [] ∧ toList KindSet.all = Kind.all := by decide +kernel

theorem C20_ofKind' : ∀ k : Fin 6, toList (KindSet.ofKind (kindOf k)) = [kindOf k] := by
  decide +kernel
theorem C20_ofKind (k : Kind) : toList (KindSet.ofKind k) = [k] := by
  obtain ⟨i, rfl⟩ := kindOf_surj k; exact C20_ofKind' i

/-! ## Union and intersection, all operand combinations -/

theorem C20_set_set' : ∀ (a b : Fin 64) (k : Fin 6),
    mem ((ofFin a).or (ofFin b)) (kindOf k) = (mem (ofFin a) (kindOf k) || mem (ofFin b) (kindOf k)) ∧
    mem ((ofFin a).and (ofFin b)) (kindOf k) = (mem (ofFin a) (kindOf k) && mem (ofFin b) (kindOf k)) := by
  decide +kernel
theorem C20_set_set (a b : Fin 64) (k : Kind) :
    mem ((ofFin a).or (ofFin b)) k = (mem (ofFin a) k || mem (ofFin b) k) ∧
    mem ((ofFin a).and (ofFin b)) k = (mem (ofFin a) k && mem (ofFin b) k) := by
  obtain ⟨i, rfl⟩ := kindOf_surj k; exact C20_set_set' a b i

theorem C20_set_kind' : ∀ (a : Fin 64) (l k : Fin 6),
    mem ((ofFin a).orKind (kindOf l)) (kindOf k) = (mem (ofFin a) (kindOf k) || decide (l = k)) ∧
    mem ((ofFin a).andKind (kindOf l)) (kindOf k) = (mem (ofFin a) (kindOf k) && decide (l = k)) ∧
    mem ((kindOf l).orSet (ofFin a)) (kindOf k) = (mem (ofFin a) (kindOf k) || decide (l = k)) ∧
    mem ((kindOf l).andSet (ofFin a)) (kindOf k) = (mem (ofFin a) (kindOf k) && decide (l = k)) := by
  decide +kernel

theorem C20_set_kind (a : Fin 64) (l k : Kind) :
    mem ((ofFin a).orKind l) k = (mem (ofFin a) k || decide (l = k)) ∧
    mem ((ofFin a).andKind l) k = (mem (ofFin a) k && decide (l = k)) ∧
    mem (l.orSet (ofFin a)) k = (mem (ofFin a) k || decide (l = k)) ∧
    mem (l.andSet (ofFin a)) k = (mem (ofFin a) k && decide (l = k)) := by
  obtain ⟨i, rfl⟩ := kindOf_surj k; obtain ⟨j, rfl⟩ := kindOf_surj l
  have h := C20_set_kind' a j i
  have e : decide (kindOf j = kindOf i) = decide (j = i) := kindOf_inj j i
  simpa [e] using h

theorem C20_kind_kind' : ∀ (l m k : Fin 6),
    mem ((kindOf l).or (kindOf m)) (kindOf k) = (decide (l = k) || decide (m = k)) ∧
    mem ((kindOf l).and (kindOf m)) (kindOf k) = (decide (l = k) && decide (m = k)) := by
  decide +kernel

theorem C20_kind_kind (l m k : Kind) :
    mem (l.or m) k = (decide (l = k) || decide (m = k)) ∧
    mem (l.and m) k = (decide (l = k) && decide (m = k)) := by
  obtain ⟨i, rfl⟩ := kindOf_surj k; obtain ⟨j, rfl⟩ := kindOf_surj l; obtain ⟨n, rfl⟩ := kindOf_surj m
  have h := C20_kind_kind' j n i
  simpa [kindOf_inj] using h

/-! ## Length and emptiness -/

theorem C20_len : ∀ a : Fin 64, (ofFin a).len = (toList (ofFin a)).length ∧
    ((ofFin a).isEmpty = (toList (ofFin a)).isEmpty) := by decide +kernel

/-! ## Iteration -/

/-- One front step yields the least remaining kind and leaves exactly the others (still inside the
    domain); one back step the greatest; `size_hint` is exact. -/
def FrontOk (n : Option (Kind × Nat)) (l : List Kind) : Prop :=
  match n, l with
  | Option.none, [] => True
  | some (k, b), k' :: r => k = k' ∧ b < 64 ∧ toList ⟨b⟩ = r
  | _, _ => False

instance (n : Option (Kind × Nat)) (l : List Kind) : Decidable (FrontOk n l) := by
  unfold FrontOk; split <;> infer_instance

theorem C20_front : ∀ a : Fin 64, FrontOk (KindSetIter.next a.val) (toList (ofFin a)) := by
  decide +kernel

def BackOk (n : Option (Kind × Nat)) (l : List Kind) : Prop :=
  match n, l.reverse with
  | Option.none, [] => True
  | some (k, b), k' :: r => k = k' ∧ b < 64 ∧ toList ⟨b⟩ = r.reverse
  | _, _ => False

instance (n : Option (Kind × Nat)) (l : List Kind) : Decidable (BackOk n l) := by
  unfold BackOk; split <;> infer_instance

theorem C20_back : ∀ a : Fin 64, BackOk (KindSetIter.nextBack a.val) (toList (ofFin a)) := by
  decide +kernel

theorem C20_size_hint : ∀ a : Fin 64, KindSetIter.sizeHint a.val = (toList (ofFin a)).length := by
  decide +kernel

/-- Abstract double-ended iteration over a list: each step reports the yielded item and the number
    of items remaining afterwards. -/
def specRun : List Kind → List Bool → List (Option Kind × Nat)
  | _, [] => []
  | l, true :: ds => match l with          -- front
    | [] => (Option.none, 0) :: specRun [] ds
    | k :: r => (some k, r.length) :: specRun r ds
  | l, false :: ds => match l.reverse with  -- back
    | [] => (Option.none, 0) :: specRun [] ds
    | k :: r => (some k, r.length) :: specRun r.reverse ds

/-- The model iterator driven by an arbitrary sequence of front (`true`) / back (`false`) steps,
    reporting each yielded item and the `size_hint` after the step. -/
def implRun : Nat → List Bool → List (Option Kind × Nat)
  | _, [] => []
  | bits, d :: ds =>
    match (if d then KindSetIter.next bits else KindSetIter.nextBack bits) with
    | Option.none => (Option.none, KindSetIter.sizeHint bits) :: implRun bits ds
    | some (k, b) => (some k, KindSetIter.sizeHint b) :: implRun b ds

/-- **Every interleaving** of front/back steps (of any length, including steps past exhaustion:
    the iterator is fused) enumerates the abstract set consistently with exact remaining size. -/
theorem C20_iter (ds : List Bool) :
    ∀ a : Fin 64, implRun a.val ds = specRun (toList (ofFin a)) ds := by
  induction ds with
  | nil => intro a; simp [implRun, specRun]
  | cons d ds ih =>
    intro a
    have hs := C20_size_hint a
    cases d with
    | true =>
      have hf := C20_front a
      cases hn : KindSetIter.next a.val with
      | none =>
        cases hl : toList (ofFin a) with
        | nil =>
          have h := ih a
          rw [hl] at h hs
          simp [implRun, specRun, hn, hs, h]
        | cons k r => simp [FrontOk, hn, hl] at hf
      | some r =>
        obtain ⟨k, b⟩ := r
        cases hl : toList (ofFin a) with
        | nil => simp [FrontOk, hn, hl] at hf
        | cons k' r' =>
          simp only [FrontOk, hn, hl] at hf
          obtain ⟨rfl, hlt, hr⟩ := hf
          have h := ih ⟨b, hlt⟩
          have hs' := C20_size_hint ⟨b, hlt⟩
          simp only [ofFin] at h hs'
          rw [hr] at h hs'
          simp [implRun, specRun, hn, hs', h]
    | false =>
      have hb := C20_back a
      cases hn : KindSetIter.nextBack a.val with
      | none =>
        cases hl : (toList (ofFin a)).reverse with
        | nil =>
          have hl' : toList (ofFin a) = [] := by simpa using hl
          have h := ih a
          rw [hl'] at h hs
          simp [implRun, specRun, hn, hs, h, hl']
        | cons k r => simp [BackOk, hn, hl] at hb
      | some r =>
        obtain ⟨k, b⟩ := r
        cases hl : (toList (ofFin a)).reverse with
        | nil => simp [BackOk, hn, hl] at hb
        | cons k' r' =>
          simp only [BackOk, hn, hl] at hb
          obtain ⟨rfl, hlt, hr⟩ := hb
          have h := ih ⟨b, hlt⟩
          have hs' := C20_size_hint ⟨b, hlt⟩
          simp only [ofFin] at h hs'
          rw [hr] at h hs'
          simp [implRun, specRun, hn, hs', h, hl]

/-! ## Renderings -/

def specDisplay : List Kind → List KTok
  | [] => []
  | k :: ks => .kind k :: ks.flatMap (fun k => [.comma, .kind k])

/-- "nothing" / a single kind / "a, b or c" / "anything". -/
def specJunction (sep : KTok) (l : List Kind) : List KTok :=
  if l = Kind.all then [.anything]
  else match l.reverse with
    | [] => [.nothing]
    | [k] => [.kind k]
    | last :: initRev => specDisplay initRev.reverse ++ [sep, .kind last]

theorem C20_render : ∀ a : Fin 64,
    (ofFin a).display = specDisplay (toList (ofFin a)) ∧
    (ofFin a).junction .or_ = specJunction .or_ (toList (ofFin a)) ∧
    (ofFin a).junction .and_ = specJunction .and_ (toList (ofFin a)) := by decide +kernel

/-! ## `Value::kind` -/

theorem C20_value_kind (v : JValue) :
    v.kind = match v with
      | .null => .null | .bool _ => .boolean | .number _ => .number
      | .string _ => .string | .array _ => .array | .object _ => .object := by
  cases v <;> rfl

/-! ## Non-vacuity -/
example : toList (ofFin 41) = [.null, .string, .object] := by decide +kernel
example : (ofFin 41).junction .or_ = [.kind .null, .comma, .kind .string, .or_, .kind .object] := by
  decide +kernel

end JsonVerif.C20
