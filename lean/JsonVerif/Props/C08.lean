import JsonVerif.Lemmas.PrintOneLine
/-!
# C08 — Compact output is the unique minimal serialization of the value

Statement: compact printing (equally Display, to_string and conversion into a String) emits no
whitespace outside strings, only ',' and ':' as separators, numbers verbatim, and strings with
exactly the RFC 8785 escaping: \" and \\, the short forms \b \t \n \f \r, lowercase \u00xx for the
other characters below U+0020, and every other character raw. Compact output is thus a
deterministic function of the value, byte-for-byte equal to an independent reference serializer.

`refSerialize` (Spec/Print.lean) is that reference serializer, written directly.
-/
namespace JsonVerif.C08
open JsonVerif

/-- The compact preset, regenerated from `Options::compact()` in src/print/mod.rs on every run,
    has every spacing equal to zero and no limit. -/
theorem C08_preset : IsCompact Gen.compactPreset := by unfold IsCompact; decide

/-- **C08.** Compact printing of any value is the reference serialization (for any starting
    indentation: `Display`, `to_string` and `String::from` all print with the compact preset). -/
theorem C08_compact (v : JValue) (ind : Nat) :
    printWith Gen.compactPreset ind v = some (refSerialize v) := by
  rw [printer_eq_spec, spec_nolimit _ C08_preset.2.2.2.2.2.1 C08_preset.2.2.2.2.2.2.2.2.2.2.2.2.2,
    oneLine_compact _ C08_preset]

/-- The escaping table, character by character: exactly RFC 8785 §3.2.2.2. -/
theorem C08_escape (c : Char) :
    escapeChar c =
      if c = '\\' then ['\\', '\\'] else if c = '"' then ['\\', '"']
      else if c.toNat = 8 then ['\\', 'b'] else if c.toNat = 9 then ['\\', 't']
      else if c.toNat = 10 then ['\\', 'n'] else if c.toNat = 12 then ['\\', 'f']
      else if c.toNat = 13 then ['\\', 'r']
      else if c.toNat < 0x20 then
        ['\\', 'u', '0', '0', hexDigitLower (c.toNat / 16), hexDigitLower (c.toNat % 16)]
      else [c] := by
  have hc : ∀ n : Nat, (Char.ofNat n).toNat = n → (c = Char.ofNat n ↔ c.toNat = n) := by
    intro n hn; rw [← Char.toNat_inj, hn]
  unfold escapeChar
  simp only [hc 8 (by decide), hc 9 (by decide), hc 10 (by decide), hc 12 (by decide),
    hc 13 (by decide)]
  repeat' split
  all_goals (first | rfl | omega | skip)
  rename_i h _
  have h1 : c.toNat / 4096 % 16 = 0 := by omega
  have h2 : c.toNat / 256 % 16 = 0 := by omega
  have h3 : c.toNat / 16 % 16 = c.toNat / 16 := by omega
  simp [h1, h2, h3, hexDigitLower]

/-! Non-vacuity: controls, quote, backslash, DEL, U+2028, non-BMP, duplicate keys. -/
example : printWith Gen.compactPreset 0
    (.object [(['a'], .array [.string [Char.ofNat 1, '"', '\\', '/', Char.ofNat 0x7f, Char.ofNat 0x2028, Char.ofNat 0x1F600, '\n'], .number "-1.50E+3".toList]), (['a'], .null)]) =
    some ("{\"a\":[\"\\u0001\\\"\\\\/".toList ++ [Char.ofNat 0x7f, Char.ofNat 0x2028, Char.ofNat 0x1F600] ++ "\\n\",-1.50E+3],\"a\":null}".toList) := by
  decide +kernel

end JsonVerif.C08
