import JsonVerif.Lemmas.ObjOps
import JsonVerif.Lemmas.ObjFront
/-!
# C06 — Objects are insertion-ordered multimaps whose key index never goes stale

Statement: after any sequence of object operations the object's entries are exactly those of a
plain ordered list of key/value pairs subjected to the documented semantics of the same
operations, and each operation's result matches that model. Every key-based query (contains, first
index, all indexes, values, entries, unique lookups) returns what a linear scan of the entries
would.

`Inv o` (Lemmas/ObjInv.lean): bucket keys pairwise distinct; every bucket lists exactly the
positions of its key, ascending, representative first; every key present has a bucket.
-/
namespace JsonVerif.C06
open JsonVerif Obj

/-- The empty object satisfies the invariant. -/
theorem C06_init : Inv Obj.empty := inv_empty

/-- **Queries = linear scan.** Under the invariant every key-based query is a function of the
    entry list alone: the positions of the key found by scanning the entries. -/
theorem C06_queries (o : Obj) (h : Inv o) (k : Key) :
    o.indexesOf k = posOf k o.entries ∧
    o.indexOf k = (posOf k o.entries).head? ∧
    o.redundantIndexOf k = (posOf k o.entries)[1]? ∧
    o.containsKey k = !(posOf k o.entries).isEmpty ∧
    o.getEntries k = some (o.entries.filter (fun e => e.1 == k)) :=
  ⟨indexesOf_eq h k, indexOf_eq h k, redundantIndexOf_eq h k, containsKey_eq h k, getEntries_eq h k⟩

/-- `posOf` really is the linear scan: `i` is listed iff entry `i` carries the key; ascending. -/
theorem C06_scan (k : Key) (es : List (Key × JValue)) :
    (∀ i, i ∈ posOf k es ↔ (es[i]?).map (·.1) = some k) ∧ (posOf k es).Pairwise (· < ·) :=
  ⟨fun _ => mem_posOf, posOf_sorted k es⟩

/-- **push / push_entry**: no panic; entries = old entries with the pair appended; the index stays
    exact; the flag is `true` iff the key was absent. -/
theorem C06_push (o : Obj) (h : Inv o) (k : Key) (v : JValue) :
    ∃ o' fresh, o.push k v = some (o', fresh) ∧ Inv o' ∧ o'.entries = o.entries ++ [(k, v)] ∧
      (fresh = true ↔ posOf k o.entries = []) := push_inv h k v

/-- **from_vec / From<Vec<Entry>>**: any entry vector, duplicates included. -/
theorem C06_from_vec (es : List (Key × JValue)) :
    ∃ o, Obj.fromVec es = some o ∧ Inv o ∧ o.entries = es := fromVec_inv es

/-- **extend / FromIterator** -/
theorem C06_extend (o : Obj) (h : Inv o) (l : List (Key × JValue)) :
    ∃ o', o.extend l = some o' ∧ Inv o' ∧ o'.entries = o.entries ++ l := extend_inv l h

/-- **sort**: stable sort by (key, value); the rebuilt index is exact. -/
theorem C06_sort (o : Obj) :
    ∃ o', o.sort = some o' ∧ Inv o' ∧ o'.entries = sortEntries o.entries := sort_inv o

/-- **in-place mutation of a value** (iter_mut / get_mut): the index is unaffected. -/
theorem C06_set_value (o : Obj) (h : Inv o) (i : Nat) (v : JValue) : Inv (o.setValueAt i v) :=
  setValueAt_inv h i v

/-- **push_front / push_entry_front** -/
theorem C06_push_front (o : Obj) (h : Inv o) (k : Key) (v : JValue) :
    ∃ o' fresh, o.pushFront k v = some (o', fresh) ∧ Inv o' ∧ o'.entries = (k, v) :: o.entries ∧
      (fresh = true ↔ posOf k o.entries = []) := pushFront_inv h k v

/-- **remove_at**: any index (in range or not); returns the entry that was there. -/
theorem C06_remove_at (o : Obj) (h : Inv o) (i : Nat) :
    ∃ o', o.removeAt i = some (o', o.entries[i]?) ∧ Inv o' ∧ o'.entries = o.entries.eraseIdx i :=
  removeAt_inv h i

/-- **remove(key)** — the iterator consumed or dropped half-way (its `Drop` finishes the job):
    exactly the entries carrying the key are removed and yielded, in entry order. -/
theorem C06_remove (o : Obj) (h : Inv o) (k : Key) :
    ∃ o', o.remove k = some (o', o.entries.filter (hasKey k)) ∧ Inv o' ∧
      o'.entries = o.entries.filter (fun e => !hasKey k e) := remove_inv h k

/-- **remove_unique(key)**: `Ok(None)` / `Ok(Some(e))` / `Err(Duplicate(first, second))`; all the
    entries carrying the key are gone in every case. -/
theorem C06_remove_unique (o : Obj) (h : Inv o) (k : Key) :
    ∃ o', o.removeUnique k = some (o', match o.entries.filter (hasKey k) with
        | [] => .none
        | [e] => .one e
        | a :: b :: _ => .dup a b) ∧ Inv o' ∧
      o'.entries = o.entries.filter (fun e => !hasKey k e) := removeUnique_inv h k

/-- **insert(key, value)** -/
theorem C06_insert (o : Obj) (h : Inv o) (k : Key) (v : JValue) :
    (posOf k o.entries = [] → ∃ o', o.insert k v = some (o', none) ∧ Inv o' ∧
        o'.entries = o.entries ++ [(k, v)]) ∧
    (∀ p, (posOf k o.entries).head? = some p → ∃ o' old, o.entries[p]? = some old ∧
        o.insert k v = some (o', some (old :: (o.entries.drop (p + 1)).filter (hasKey k))) ∧ Inv o' ∧
        o'.entries = o.entries.take p ++ (k, v) :: (o.entries.drop (p + 1)).filter (fun e => !hasKey k e)) :=
  insert_inv h k v

/-- **insert_front(key, value)** -/
theorem C06_insert_front (o : Obj) (h : Inv o) (k : Key) (v : JValue) :
    ∃ o', o.insertFront k v = some (o', o.entries.filter (hasKey k)) ∧ Inv o' ∧
      o'.entries = (k, v) :: o.entries.filter (fun e => !hasKey k e) := insertFront_inv h k v

/-- **get_or_insert_with / get_mut_or_insert_with** -/
theorem C06_get_or_insert (o : Obj) (h : Inv o) (k : Key) (v : JValue) :
    ∃ o' r, o.getOrInsertWith k v = some (o', r) ∧ Inv o' ∧
      ((posOf k o.entries = [] ∧ o'.entries = o.entries ++ [(k, v)] ∧ r = v) ∨
       (∃ p e, (posOf k o.entries).head? = some p ∧ o.entries[p]? = some e ∧ o' = o ∧ r = e.2)) :=
  getOrInsertWith_inv h k v

/-- the mutating operations of the public API -/
inductive Op where
  | push (k : Key) (v : JValue) | pushFront (k : Key) (v : JValue) | removeAt (i : Nat)
  | remove (k : Key) | removeUnique (k : Key) | insert (k : Key) (v : JValue)
  | insertFront (k : Key) (v : JValue) | sort | extend (l : List (Key × JValue))
  | setValue (i : Nat) (v : JValue) | getOrInsert (k : Key) (v : JValue)

/-- one operation; `none` = the real code would panic -/
def step (o : Obj) : Op → Option Obj
  | .push k v => (o.push k v).map (·.1)
  | .pushFront k v => (o.pushFront k v).map (·.1)
  | .removeAt i => (o.removeAt i).map (·.1)
  | .remove k => (o.remove k).map (·.1)
  | .removeUnique k => (o.removeUnique k).map (·.1)
  | .insert k v => (o.insert k v).map (·.1)
  | .insertFront k v => (o.insertFront k v).map (·.1)
  | .sort => o.sort
  | .extend l => o.extend l
  | .setValue i v => some (o.setValueAt i v)
  | .getOrInsert k v => (o.getOrInsertWith k v).map (·.1)

def runOps : Obj → List Op → Option Obj
  | o, [] => some o
  | o, op :: ops => (step o op).bind (fun o' => runOps o' ops)

theorem step_inv (o : Obj) (h : Inv o) (op : Op) : ∃ o', step o op = some o' ∧ Inv o' := by
  cases op with
  | push k v => obtain ⟨o', f, h1, h2, _⟩ := push_inv h k v; exact ⟨o', by simp [step, h1], h2⟩
  | pushFront k v => obtain ⟨o', f, h1, h2, _⟩ := pushFront_inv h k v; exact ⟨o', by simp [step, h1], h2⟩
  | removeAt i => obtain ⟨o', h1, h2, _⟩ := removeAt_inv h i; exact ⟨o', by simp [step, h1], h2⟩
  | remove k => obtain ⟨o', h1, h2, _⟩ := remove_inv h k; exact ⟨o', by simp [step, h1], h2⟩
  | removeUnique k => obtain ⟨o', h1, h2, _⟩ := removeUnique_inv h k; exact ⟨o', by simp [step, h1], h2⟩
  | insert k v =>
    cases hp : (posOf k o.entries).head? with
    | none =>
      have hnil : posOf k o.entries = [] := by
        cases hl : posOf k o.entries with
        | nil => rfl
        | cons a r => rw [hl] at hp; cases hp
      obtain ⟨o', h1, h2, _⟩ := (insert_inv h k v).1 hnil
      exact ⟨o', by simp [step, h1], h2⟩
    | some p =>
      obtain ⟨o', old, _, h1, h2, _⟩ := (insert_inv h k v).2 p hp
      exact ⟨o', by simp [step, h1], h2⟩
  | insertFront k v => obtain ⟨o', h1, h2, _⟩ := insertFront_inv h k v; exact ⟨o', by simp [step, h1], h2⟩
  | sort => obtain ⟨o', h1, h2, _⟩ := sort_inv o; exact ⟨o', by simp [step, h1], h2⟩
  | extend l => obtain ⟨o', h1, h2, _⟩ := extend_inv l h; exact ⟨o', by simp [step, h1], h2⟩
  | setValue i v => exact ⟨_, rfl, setValueAt_inv h i v⟩
  | getOrInsert k v => obtain ⟨o', r, h1, h2, _⟩ := getOrInsertWith_inv h k v; exact ⟨o', by simp [step, h1], h2⟩

/-- **Every reachable object**: starting from the empty object (or from any entry vector), no
    sequence of operations ever panics, and after each of them the key index is exact — so
    (C06_queries) every key-based query of every reachable object is the linear scan. -/
theorem C06_reachable (ops : List Op) (o : Obj) (h : Inv o) : ∃ o', runOps o ops = some o' ∧ Inv o' := by
  induction ops generalizing o with
  | nil => exact ⟨o, rfl, h⟩
  | cons op ops ih =>
    obtain ⟨o1, h1, hi1⟩ := step_inv o h op
    obtain ⟨o', h2, hi'⟩ := ih o1 hi1
    exact ⟨o', by simp [runOps, h1, h2], hi'⟩

/-! Non-vacuity: an object with duplicate keys built by `from_vec`, queried. -/
example : (Obj.fromVec [(['a'], .null), (['b'], .bool true), (['a'], .bool false)]).map
    (fun o => (o.indexesOf ['a'], o.redundantIndexOf ['a'], o.containsKey ['c'])) =
    some ([0, 2], some 2, false) := by decide +kernel

end JsonVerif.C06
