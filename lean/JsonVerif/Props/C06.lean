import JsonVerif.Lemmas.ObjOps
/-!
# C06 — Objects are insertion-ordered multimaps whose key index never goes stale

Statement: after any sequence of object operations the object's entries are exactly those of a
plain ordered list of key/value pairs subjected to the documented semantics of the same
operations, and each operation's result matches that model. Every key-based query (contains, first
index, all indexes, values, entries, unique lookups) returns what a linear scan of the entries
would.

`Inv o` (Lemmas/ObjInv.lean): bucket keys pairwise distinct; every bucket lists exactly the
positions of its key, ascending, representative first; every key present has a bucket.
-/
namespace JsonVerif.C06
open JsonVerif Obj

/-- The empty object satisfies the invariant. -/
theorem C06_init : Inv Obj.empty := inv_empty

/-- **Queries = linear scan.** Under the invariant every key-based query is a function of the
    entry list alone: the positions of the key found by scanning the entries. -/
theorem C06_queries (o : Obj) (h : Inv o) (k : Key) :
    o.indexesOf k = posOf k o.entries ∧
    o.indexOf k = (posOf k o.entries).head? ∧
    o.redundantIndexOf k = (posOf k o.entries)[1]? ∧
    o.containsKey k = !(posOf k o.entries).isEmpty ∧
    o.getEntries k = some (o.entries.filter (fun e => e.1 == k)) :=
  ⟨indexesOf_eq h k, indexOf_eq h k, redundantIndexOf_eq h k, containsKey_eq h k, getEntries_eq h k⟩

/-- `posOf` really is the linear scan: `i` is listed iff entry `i` carries the key; ascending. -/
theorem C06_scan (k : Key) (es : List (Key × JValue)) :
    (∀ i, i ∈ posOf k es ↔ (es[i]?).map (·.1) = some k) ∧ (posOf k es).Pairwise (· < ·) :=
  ⟨fun _ => mem_posOf, posOf_sorted k es⟩

/-- **push / push_entry**: no panic; entries = old entries with the pair appended; the index stays
    exact; the flag is `true` iff the key was absent. -/
theorem C06_push (o : Obj) (h : Inv o) (k : Key) (v : JValue) :
    ∃ o' fresh, o.push k v = some (o', fresh) ∧ Inv o' ∧ o'.entries = o.entries ++ [(k, v)] ∧
      (fresh = true ↔ posOf k o.entries = []) := push_inv h k v

/-- **from_vec / From<Vec<Entry>>**: any entry vector, duplicates included. -/
theorem C06_from_vec (es : List (Key × JValue)) :
    ∃ o, Obj.fromVec es = some o ∧ Inv o ∧ o.entries = es := fromVec_inv es

/-- **extend / FromIterator** -/
theorem C06_extend (o : Obj) (h : Inv o) (l : List (Key × JValue)) :
    ∃ o', o.extend l = some o' ∧ Inv o' ∧ o'.entries = o.entries ++ l := extend_inv l h

/-- **sort**: stable sort by (key, value); the rebuilt index is exact. -/
theorem C06_sort (o : Obj) :
    ∃ o', o.sort = some o' ∧ Inv o' ∧ o'.entries = sortEntries o.entries := sort_inv o

/-- **in-place mutation of a value** (iter_mut / get_mut): the index is unaffected. -/
theorem C06_set_value (o : Obj) (h : Inv o) (i : Nat) (v : JValue) : Inv (o.setValueAt i v) :=
  setValueAt_inv h i v

/-- Full statement for the remaining operations (push_front, remove_at and the three removal
    iterators built on it: remove, insert, insert_front, remove_unique): each preserves `Inv` and
    refines the list semantics. Not yet proved in Lean — covered by the exhaustive-history
    correspondence, which compares entries, results, every key query and the bucket dump after
    every operation. -/
def C06_remaining_full : Prop :=
  ∀ (o : Obj), Inv o →
    (∀ k v, ∃ o' f, o.pushFront k v = some (o', f) ∧ Inv o' ∧ o'.entries = (k, v) :: o.entries) ∧
    (∀ i, ∃ o' r, o.removeAt i = some (o', r) ∧ Inv o' ∧ o'.entries = o.entries.eraseIdx i ∧
      r = o.entries[i]?) ∧
    (∀ k, ∃ o' ys, o.remove k = some (o', ys) ∧ Inv o' ∧
      o'.entries = o.entries.filter (fun e => e.1 != k) ∧ ys = o.entries.filter (fun e => e.1 == k))

/-! Non-vacuity: an object with duplicate keys built by `from_vec`, queried. -/
example : (Obj.fromVec [(['a'], .null), (['b'], .bool true), (['a'], .bool false)]).map
    (fun o => (o.indexesOf ['a'], o.redundantIndexOf ['a'], o.containsKey ['c'])) =
    some ([0, 2], some 2, false) := by decide +kernel

end JsonVerif.C06
