import JsonVerif.Lemmas.Serde
import JsonVerif.Lemmas.DeSer
import JsonVerif.Lemmas.DePerm
/-!
# C16 — serde: typed data round-trips through Value and agrees with serde_json

Statement: for data of serde-derivable Rust types converting to a Value and back yields the
original datum, with finite floats preserved bit-exactly (except that negative zero may come back
as positive zero) and non-finite floats becoming null. The Value produced has the same JSON shape
as serde_json produces for the same datum, and converting serde_json's rendering of the datum into
a Value and deserializing that yields the datum as well.

`SData` = what a datum looks like to a `Serializer` (recorded by the harness from real derive
output); `ser` = model of src/serde/ser.rs.
-/
namespace JsonVerif.C16
open JsonVerif

/-- **JSON shape** of every data-model construct, as serde_json documents it: unit/none → null;
    some/newtype struct → transparent; unit variant → its name; newtype/tuple/struct variants →
    externally tagged single-entry objects; sequences/tuples → arrays; non-finite floats → null;
    bytes → array of numbers; chars → one-character strings. -/
theorem C16_shape (v : List Char) (d : SData) (x : JValue) (h : ser d = .ok x) :
    ser .unit = .ok .null ∧ ser .none = .ok .null ∧ ser .unitStruct = .ok .null ∧
    ser (.float none) = .ok .null ∧
    ser (.some d) = .ok x ∧ ser (.newtypeStruct d) = .ok x ∧
    ser (.unitVariant v) = .ok (.string v) ∧
    ser (.newtypeVariant v d) = .ok (.object [(v, x)]) ∧
    ser (.tupleVariant v [d, d]) = .ok (.object [(v, .array [x, x])]) ∧
    ser (.seq [d, d]) = .ok (.array [x, x]) ∧
    (∀ c, ser (.char c) = .ok (.string [c])) ∧
    (∀ i, ser (.int i) = .ok (.number (intText i))) ∧ (∀ n, ser (.uint n) = .ok (.number (natText n))) := by
  simp [ser, serL, h]

/-- **Structs** with pairwise distinct field names (guaranteed by rustc), none of them the private
    number token: an object with the fields in declaration order. -/
theorem C16_struct (fields : List (List Char × SData)) (vals : List JValue)
    (hv : fields.map (fun f => ser f.2) = vals.map Except.ok)
    (hnd : (fields.map (·.1)).Nodup) (hnt : numberToken ∉ fields.map (·.1)) :
    ser (.struct fields) = .ok (.object ((fields.map (·.1)).zip vals)) := by
  have key : ∀ (fs : List (List Char × SData)) (vs : List JValue) (acc : List (List Char × JValue)),
      fs.map (fun f => ser f.2) = vs.map Except.ok → ((acc.map (·.1)) ++ fs.map (·.1)).Nodup →
      numberToken ∉ fs.map (·.1) →
      serFields fs (.object acc) = .ok (.object (acc ++ (fs.map (·.1)).zip vs)) := by
    intro fs
    induction fs with
    | nil => intro vs acc _ _ _; simp [serFields]
    | cons f fs ih =>
      intro vs acc hv hnd hnt
      obtain ⟨k, d⟩ := f
      cases vs with
      | nil => simp at hv
      | cons x vs =>
        simp only [List.map_cons, List.cons.injEq] at hv
        have hk : k ≠ numberToken := by intro e; apply hnt; simp [e]
        have hfresh : k ∉ acc.map (·.1) := by
          have := (List.nodup_append.mp hnd).2.2
          intro hk'; exact this k hk' k (by simp) rfl
        have hcond : (acc.isEmpty && k == numberToken) = false := by simp [hk]
        simp only [serFields, hcond, Bool.false_eq_true, ↓reduceIte, hv.1, listInsert_fresh acc k x hfresh]
        rw [ih vs (acc ++ [(k, x)]) hv.2 (by simpa using hnd) (by intro h; apply hnt; simp [h])]
        simp
  have := key fields vals [] hv (by simpa using hnd) hnt
  simpa [ser] using this

/-- **Maps** keyed by strings, integers, chars or unit variants: the key is the string form
    (`to_string` of the integer, the char, the variant name); other key types are rejected. -/
theorem C16_map_keys :
    (∀ s, serKey (.str s) = .ok s) ∧ (∀ i, serKey (.int i) = .ok (intText i)) ∧
    (∀ n, serKey (.uint n) = .ok (natText n)) ∧ (∀ c, serKey (.char c) = .ok [c]) ∧
    (∀ v, serKey (.unitVariant v) = .ok v) ∧ (∀ d, serKey (.newtypeStruct d) = serKey d) ∧
    serKey (.bool true) = .error .nonStringKey ∧ serKey .unit = .error .nonStringKey ∧
    serKey (.float none) = .error .nonStringKey ∧ serKey (.seq []) = .error .nonStringKey := by
  simp [serKey]

/-- **Round trip** (the first sentence of the property, on the model of src/serde/ser.rs and
    src/serde/de.rs): for every type descriptor `t` — bool, the eight integer widths, f32/f64, char,
    String, unit, unit struct, Option, newtype struct, Vec, tuple / tuple struct, map keyed by
    strings / integers / chars / unit variants (possibly behind newtypes), struct, externally
    tagged enum with unit / newtype / tuple / struct variants, nested without bound — and every
    datum `d` of that type (`HasTy`), `to_value` succeeds and deserializing its result at `t` gives
    `d` back.

    `HasTy` spells out the side conditions: integers within the width's range; field and variant
    names distinct and no struct field spelled like the private number token; map keys distinct as
    the key serializer spells them and none of them that token; no `Some(x)` where `x` itself
    serializes to `null` (`Option<()>`, `Option<Option<_>>`: serde_json's own limitation); floats
    finite and stable under the text conversion of the json-number / lexical dependency
    (`env.f64 t = some t`: an explicit assumption on that dependency, checked bit-for-bit by the
    harness's oracle on every run). -/
theorem C16_round_trip (env : FEnv) (t : DTy) (d : SData) (h : HasTy env t d) :
    ∃ v, ser d = .ok v ∧ de env t v = .ok d :=
  de_ser env t d h

/-- Integers of every width at every value in range, alone: decimal text out, the same integer in. -/
theorem C16_integers (w : IntW) (i : Int) (h1 : w.lo ≤ i) (h2 : i ≤ w.hi) :
    ∃ n, ser (w.mk i) = .ok (.number n) ∧ intVisit w n = .ok (w.mk i) :=
  int_rt w i h1 h2

/-- Map keys of every supported key type: the key serializer's spelling is read back as the key
    (`str::parse` on `to_string` for integers, one-character strings for chars, the variant name
    for unit variants). -/
theorem C16_map_key_round_trip (k : KTy) (kd : SData) (h : HasKey k kd) :
    ∃ n, serKey kd = .ok n ∧ deKey k n = .ok kd :=
  key_rt k kd h

/-- **Blind to member order** (towards the third sentence of the property: serde_json renders
    structs through a sorted map, so its rendering lists the members in another order): for every
    descriptor without map types, a successful typed deserialization returns the same datum on
    every value equal to the given one up to permutation of object members at any depth (`PermEq`,
    the specification relation of C15). Map types are left out because a map datum is a list in the
    model while a Rust map has no order. -/
theorem C16_member_order_blind (env : FEnv) (t : DTy) (hn : NoMap t) (v w : JValue) (d : SData)
    (hp : PermEq v w) (h : de env t v = .ok d) : de env t w = .ok d :=
  de_perm env t hn v w d hp h

/-- … hence the round trip survives any reordering of the members of what `to_value` built. -/
theorem C16_round_trip_reordered (env : FEnv) (t : DTy) (hn : NoMap t) (d : SData) (h : HasTy env t d) :
    ∃ v, ser d = .ok v ∧ ∀ w, PermEq v w → de env t w = .ok d := by
  obtain ⟨v, hs, hd⟩ := de_ser env t d h
  exact ⟨v, hs, fun w hp => de_perm env t hn v w d hp hd⟩

/-- The side condition on map keys in `HasTy` is what Rust maps guarantee: keys that are pairwise
    distinct data of one key type are spelled differently by the key serializer (`serKey_inj`:
    `to_string` of integers, one-character strings, variant names are injective), so only "no key is
    spelled like the private number token" remains. -/
theorem C16_distinct_keys_suffice (k : KTy) (l : List (SData × SData))
    (hk : ∀ e ∈ l, HasKey k e.1) (hd : (l.map (·.1)).Pairwise (· ≠ ·))
    (hnt : ∀ e ∈ l, serKey e.1 ≠ .ok numberToken) : KeysOk l :=
  keysOk_of_nodup k l hk hd hnt

/-- Non-finite floats are outside `HasTy`: they serialize to `null`, which no float type reads. -/
theorem C16_non_finite (env : FEnv) :
    ser (.float none) = .ok .null ∧ de env .f64 .null = .error .invalidType ∧
    de env (.opt .f64) .null = .ok .none := by
  simp [ser, de]

/-! Non-vacuity of `HasTy`: a struct with an integer, an option, a map keyed by integers and an
    enum-typed field holding a struct variant. -/
example (env : FEnv) (hf : env.f64 ['1', '.', '5'] = some ['1', '.', '5']) :
    HasTy env (.struct [(['a'], .int .i8), (['b'], .opt .bool), (['c'], .f64),
        (['e'], .enum [(['U'], .unit), (['S'], .struct [(['x'], .str)])])])
      (.struct [(['a'], IntW.i8.mk (-5)), (['b'], .some (.bool true)), (['c'], .float (some ['1', '.', '5'])),
        (['e'], .structVariant ['S'] [(['x'], .str ['h', 'i'])])]) := by
  refine ⟨_, rfl, ⟨_, _, rfl, ⟨-5, by decide, by decide, rfl⟩, _, _, rfl,
    Or.inr ⟨_, rfl, ⟨true, rfl⟩, by simp [ser]⟩, _, _, rfl, ⟨_, rfl, hf⟩, _, _, rfl, ?_, rfl⟩, by decide, by decide⟩
  refine Or.inr ⟨by simp [variantOf], Or.inl ⟨_, rfl, ⟨_, _, rfl, ⟨_, rfl⟩, rfl⟩, by decide⟩⟩

/-! Non-vacuity: a struct with an enum field and a map, kernel-evaluated. -/
example : okEq (ser (.struct [(['a'], .int (-5)), (['b'], .structVariant ['S'] [(['x'], .bool true)]),
    (['c'], .map [(.uint 7, .none), (.char 'k', .seq [.float (some ['1', '.', '5']), .float none])])]))
    (.object [(['a'], .number ['-', '5']), (['b'], .object [(['S'], .object [(['x'], .bool true)])]),
      (['c'], .object [(['7'], .null), (['k'], .array [.number ['1', '.', '5'], .null])])]) = true := by
  decide +kernel

end JsonVerif.C16
