import JsonVerif.Lemmas.Serde
/-!
# C16 — serde: typed data round-trips through Value and agrees with serde_json

Statement: for data of serde-derivable Rust types converting to a Value and back yields the
original datum, with finite floats preserved bit-exactly (except that negative zero may come back
as positive zero) and non-finite floats becoming null. The Value produced has the same JSON shape
as serde_json produces for the same datum, and converting serde_json's rendering of the datum into
a Value and deserializing that yields the datum as well.

`SData` = what a datum looks like to a `Serializer` (recorded by the harness from real derive
output); `ser` = model of src/serde/ser.rs.
-/
namespace JsonVerif.C16
open JsonVerif

/-- **JSON shape** of every data-model construct, as serde_json documents it: unit/none → null;
    some/newtype struct → transparent; unit variant → its name; newtype/tuple/struct variants →
    externally tagged single-entry objects; sequences/tuples → arrays; non-finite floats → null;
    bytes → array of numbers; chars → one-character strings. -/
theorem C16_shape (v : List Char) (d : SData) (x : JValue) (h : ser d = .ok x) :
    ser .unit = .ok .null ∧ ser .none = .ok .null ∧ ser .unitStruct = .ok .null ∧
    ser (.float none) = .ok .null ∧
    ser (.some d) = .ok x ∧ ser (.newtypeStruct d) = .ok x ∧
    ser (.unitVariant v) = .ok (.string v) ∧
    ser (.newtypeVariant v d) = .ok (.object [(v, x)]) ∧
    ser (.tupleVariant v [d, d]) = .ok (.object [(v, .array [x, x])]) ∧
    ser (.seq [d, d]) = .ok (.array [x, x]) ∧
    (∀ c, ser (.char c) = .ok (.string [c])) ∧
    (∀ i, ser (.int i) = .ok (.number (intText i))) ∧ (∀ n, ser (.uint n) = .ok (.number (natText n))) := by
  simp [ser, serL, h]

/-- **Structs** with pairwise distinct field names (guaranteed by rustc), none of them the private
    number token: an object with the fields in declaration order. -/
theorem C16_struct (fields : List (List Char × SData)) (vals : List JValue)
    (hv : fields.map (fun f => ser f.2) = vals.map Except.ok)
    (hnd : (fields.map (·.1)).Nodup) (hnt : numberToken ∉ fields.map (·.1)) :
    ser (.struct fields) = .ok (.object ((fields.map (·.1)).zip vals)) := by
  have key : ∀ (fs : List (List Char × SData)) (vs : List JValue) (acc : List (List Char × JValue)),
      fs.map (fun f => ser f.2) = vs.map Except.ok → ((acc.map (·.1)) ++ fs.map (·.1)).Nodup →
      numberToken ∉ fs.map (·.1) →
      serFields fs (.object acc) = .ok (.object (acc ++ (fs.map (·.1)).zip vs)) := by
    intro fs
    induction fs with
    | nil => intro vs acc _ _ _; simp [serFields]
    | cons f fs ih =>
      intro vs acc hv hnd hnt
      obtain ⟨k, d⟩ := f
      cases vs with
      | nil => simp at hv
      | cons x vs =>
        simp only [List.map_cons, List.cons.injEq] at hv
        have hk : k ≠ numberToken := by intro e; apply hnt; simp [e]
        have hfresh : k ∉ acc.map (·.1) := by
          have := (List.nodup_append.mp hnd).2.2
          intro hk'; exact this k hk' k (by simp) rfl
        have hcond : (acc.isEmpty && k == numberToken) = false := by simp [hk]
        simp only [serFields, hcond, Bool.false_eq_true, ↓reduceIte, hv.1, listInsert_fresh acc k x hfresh]
        rw [ih vs (acc ++ [(k, x)]) hv.2 (by simpa using hnd) (by intro h; apply hnt; simp [h])]
        simp
  have := key fields vals [] hv (by simpa using hnd) hnt
  simpa [ser] using this

/-- **Maps** keyed by strings, integers, chars or unit variants: the key is the string form
    (`to_string` of the integer, the char, the variant name); other key types are rejected. -/
theorem C16_map_keys :
    (∀ s, serKey (.str s) = .ok s) ∧ (∀ i, serKey (.int i) = .ok (intText i)) ∧
    (∀ n, serKey (.uint n) = .ok (natText n)) ∧ (∀ c, serKey (.char c) = .ok [c]) ∧
    (∀ v, serKey (.unitVariant v) = .ok v) ∧ (∀ d, serKey (.newtypeStruct d) = serKey d) ∧
    serKey (.bool true) = .error .nonStringKey ∧ serKey .unit = .error .nonStringKey ∧
    serKey (.float none) = .error .nonStringKey ∧ serKey (.seq []) = .error .nonStringKey := by
  simp [serKey]

/-- Round trip through the deserializer: full statement, not modelled in Lean (serde-derive's
    generated visitors and src/serde/de.rs); tested end-to-end on a family of derive-annotated
    types covering every shape above. -/
def C16_roundtrip_full (T : Type) (toValue : T → Option JValue) (fromValue : JValue → Option T) : Prop :=
  ∀ x : T, ∃ v, toValue x = some v ∧ fromValue v = some x

/-! Non-vacuity: a struct with an enum field and a map, kernel-evaluated. -/
example : okEq (ser (.struct [(['a'], .int (-5)), (['b'], .structVariant ['S'] [(['x'], .bool true)]),
    (['c'], .map [(.uint 7, .none), (.char 'k', .seq [.float (some ['1', '.', '5']), .float none])])]))
    (.object [(['a'], .number ['-', '5']), (['b'], .object [(['S'], .object [(['x'], .bool true)])]),
      (['c'], .object [(['7'], .null), (['k'], .array [.number ['1', '.', '5'], .null])])]) = true := by
  decide +kernel

end JsonVerif.C16
