import JsonVerif.Lemmas.Mapped
import JsonVerif.Lemmas.Spans
import JsonVerif.Lemmas.MappedKeyed
import JsonVerif.Lemmas.TryFrom
import JsonVerif.Model.Entry
/-!
# C11 — Code-map offsets navigate correctly (mapped iterators, fragment index, TryFrom)

Statement: given a parsed value and its code map, the mapped iterators over arrays and objects and
the key-based mapped lookups yield, for every item, entry, key and value, the code-map index whose
span is exactly that element's source text; looking up fragment i returns the i-th fragment of the
traversal and indices past the end are rejected with the remaining distance; volume and counting
agree with the traversal. Conversions that carry code-map information report a kind mismatch at
the index of the offending fragment.

Setting: `preV root` is the pre-order list of fragments (entry i of a well-formed code map belongs
to fragment i — C05) and the volume column of the code map is `volsV root`. Every statement below
takes the container's own slice of that column as hypothesis:
`volumes cm = pre ++ volsV container ++ post`, the container being fragment number `pre.length`.
-/
namespace JsonVerif.C11
open JsonVerif

/-- **Array `iter_mapped`** never panics and yields for the k-th item the offset
    `off + 1 + Σ_{j<k} fragments(item j)` … -/
theorem C11_array (cm : List CMEntry) (xs : List JValue) (pre post : List Nat)
    (h : volumes cm = pre ++ volsV (.array xs) ++ post) :
    arrayMapped cm pre.length xs = some (offsetsL (pre.length + 1) xs) := arrayMapped_eq cm xs pre post h

/-- … and the fragment found at that offset in the pre-order is exactly that item. -/
theorem C11_array_fragments (xs : List JValue) (preT postT : List Frag) :
    (offsetsL (preT.length + 1) xs).map (fun i => (preT ++ preV (.array xs) ++ postT)[i]?) =
      xs.map (fun x => some (Frag.value x)) := by
  have := poL_offsets xs (preT ++ preV (.array xs) ++ postT) (preT ++ [Frag.value (.array xs)]) postT
    (by simp [preV])
  simpa using this

/-- **Object `iter_mapped`**: the triple (entry, key, value) = (o, o+1, o+2) with
    `o = off + 1 + Σ_{j<k} (2 + fragments(value j))`; never panics. -/
theorem C11_object (cm : List CMEntry) (es : List (Key × JValue)) (pre post : List Nat)
    (h : volumes cm = pre ++ volsV (.object es) ++ post) :
    objectMapped cm pre.length es = some (offsetsM (pre.length + 1) es) := objectMapped_eq cm es pre post h

/-- **`get_fragment i`** is the i-th fragment of the pre-order when `i` is in range, and otherwise
    `Err(i − number of fragments)`. -/
theorem C11_get_fragment (v : JValue) (i : Nat) :
    getFragment v i =
      if h : i < (preV v).length then .inl ((preV v)[i]) else .inr (i - (preV v).length) :=
  getFragment_eq v i

/-- **Traversal** (explicit stack, one step per fragment) yields exactly the pre-order; the number
    of fragments is the length a well-formed code map has. -/
theorem C11_traverse (v : JValue) : traverse v = preV v ∧ (traverse v).length = v.frags := by
  rw [traverse_eq_preorder]; exact ⟨rfl, preV_length v⟩

/-- The volume column itself has one entry per fragment. -/
theorem C11_volumes_length (v : JValue) : (volsV v).length = (preV v).length := by
  rw [volsV_length, preV_length]

/-- **On parsed documents** the hypothesis of the navigation theorems holds (C05: the volume column
    of the parser's code map is `volsV`), so for every document the strict parser accepts, the mapped
    iterators over the root container return exactly the fragment offsets — parser and navigation
    compose. -/
theorem C11_parsed_array (cs : List Char) (xs : List JValue) (cm : List CMEntry)
    (h : parseStr ⟨false, false⟩ cs = .ok (.array xs, cm)) :
    arrayMapped cm 0 xs = some (offsetsL 1 xs) := by
  have := C11_array cm xs [] [] (by simpa using parse_volumes h)
  simpa using this

theorem C11_parsed_object (cs : List Char) (es : List (Key × JValue)) (cm : List CMEntry)
    (h : parseStr ⟨false, false⟩ cs = .ok (.object es, cm)) :
    objectMapped cm 0 es = some (offsetsM 1 es) := by
  have := C11_object cm es [] [] (by simpa using parse_volumes h)
  simpa using this

/-- **Typed conversions** (`TryFromJson` for bool / String / unit / u8, `Vec<T>`, `BTreeMap<String,T>`,
    `Option<T>`, `Box<T>`, nested at will): on a well-formed code map the conversion never panics
    and is the fragment-counting specification `convSpec` … -/
theorem C11_conversion (cm : List CMEntry) (t : CTy) (v : JValue) (pre post : List Nat)
    (h : volumes cm = pre ++ volsV v ++ post) :
    tryFrom cm t v pre.length = some (convSpec t v pre.length) := tryFrom_eq cm t v pre post h

/-- … and when it fails, the reported offset is that of the offending fragment: `offset` plus the
    pre-order index of a value fragment which the sub-conversion reaching it rejects at its root
    (wrong kind, or not a `u8`). -/
theorem C11_conversion_error (t : CTy) (v : JValue) (off e : Nat) (h : convSpec t v off = .error e) :
    ∃ i w t', e = off + i ∧ (preV v)[i]? = some (.value w) ∧ headOk t' w = false :=
  convSpec_bad t v off e h

/-- On parsed documents (C05 supplies the hypothesis). -/
theorem C11_parsed_conversion (cs : List Char) (v : JValue) (cm : List CMEntry) (t : CTy)
    (h : parseStr ⟨false, false⟩ cs = .ok (v, cm)) : tryFrom cm t v 0 = some (convSpec t v 0) := by
  have := C11_conversion cm t v [] [] (by simpa using parse_volumes h)
  simpa using this

/-- **Keyed mapped lookups** (`get_mapped*`, `get_unique_mapped*`, `get_mapped_entries*`): under the
    C06 invariant (which every reachable object satisfies: C06_reachable) and a well-formed volume
    column, they never panic and yield, for exactly the entries carrying the key and in entry
    order, the entry index and the offsets of the entry, its key and its value … -/
theorem C11_keyed (cm : List CMEntry) (o : Obj) (hinv : Inv o) (pre post : List Nat) (k : Key)
    (h : volumes cm = pre ++ volsV (.object o.entries) ++ post) :
    mappedEntries cm pre.length o k =
      some ((posOf k o.entries).map (fun i =>
        (i, entryOff (pre.length + 1) o.entries i, entryOff (pre.length + 1) o.entries i + 1,
          entryOff (pre.length + 1) o.entries i + 2))) := mappedEntries_eq cm o hinv pre post k h

/-- … which are the very offsets `iter_mapped` assigns to entry `i`. -/
theorem C11_keyed_offsets (es : List (Key × JValue)) (o i : Nat) (hi : i < es.length) :
    (offsetsM o es)[i]? = some (entryOff o es i, entryOff o es i + 1, entryOff o es i + 2) :=
  offsetsM_get es o i hi

/-! Non-vacuity: the repository's `mapped_entries` unit test, on the model. -/
example :
    let v : JValue := .object [(['0'], .array [.null, .null]), (['1'], .object [(['f'], .number ['0']), (['b'], .number ['1'])]), (['0'], .null)]
    objectMapped ((volsV v).map (fun n => ⟨0, 0, n⟩)) 0 [(['0'], .array [.null, .null]), (['1'], .object [(['f'], .number ['0']), (['b'], .number ['1'])]), (['0'], .null)]
      = some [(1, 2, 3), (6, 7, 8), (15, 16, 17)] := by decide +kernel

end JsonVerif.C11
