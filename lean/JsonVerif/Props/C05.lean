import JsonVerif.Lemmas.Leaf
import JsonVerif.Lemmas.Run
import JsonVerif.Lemmas.Steps
import JsonVerif.Model.Entry
import JsonVerif.Lemmas.Spans
import JsonVerif.Lemmas.Hub
/-!
# C05 — Code map: one exact source span and volume per fragment, in pre-order

Statement: a successful parse returns a code map with exactly one entry per fragment of the value
(every value, every object entry, every key) in pre-order. Entry i's byte span is exactly the
source text of fragment i, from its first to its last significant character with no surrounding
whitespace, and its volume is the number of fragments in the subtree rooted there, so the root's
volume equals the map's length and every volume is at least 1.
-/
namespace JsonVerif.C05
open JsonVerif

/-- **The code map is the one the grammar induces**, full statement. `SDoc text v cm`
    (Spec/Spans.lean) lays the RFC 8259 derivation of `text` over byte offsets: `cm` lists, in
    pre-order, one entry per value, per object entry and per key; each span is exactly the bytes of
    that fragment's own text (an object entry: first byte of its key to last byte of its value),
    never the whitespace around it; each volume is the number of entries of that subtree. Whatever
    the strict parser returns is that code map — every text, every nesting, no bound. -/
theorem C05_codemap_is_spec (cs : List Char) (v : JValue) (cm : List CMEntry)
    (h : parseStr ⟨false, false⟩ cs = .ok (v, cm)) : SDoc cs v cm := parse_codemap h

/-- … and every valid document gets it, under every option record. -/
theorem C05_every_document (o : ParseOptions) (cs : List Char) (v : JValue) (hg : GDoc cs v) :
    ∃ cm, parseStr o cs = .ok (v, cm) ∧ SDoc cs v cm := by
  obtain ⟨cm, hc⟩ := parse_complete_strict hg
  refine ⟨cm, ?_, parse_codemap hc⟩
  unfold parseChars at hc
  unfold parseStr parseChars
  split at hc
  · cases hc
  · rename_i v' s' hr
    rw [so_eq] at hr
    rw [run_mono (o := o) hr]
    exact hc

/-- **Volumes**: the volume column is the pre-order list of subtree sizes (`volsV`, the hypothesis
    of the navigation theorems of C11); one entry per fragment; the root's volume is the map's
    length. -/
theorem C05_volumes (cs : List Char) (v : JValue) (cm : List CMEntry)
    (h : parseStr ⟨false, false⟩ cs = .ok (v, cm)) :
    volumes cm = volsV v ∧ cm.length = v.frags ∧ (cm.head?.map (·.volume)) = some cm.length := by
  have hv := parse_volumes h
  have hl : cm.length = v.frags := by rw [← volsV_length v, ← hv]; simp [volumes]
  refine ⟨hv, hl, ?_⟩
  obtain ⟨t, ht⟩ := volsV_head v
  rw [ht] at hv
  cases cm with
  | nil => simp [volumes] at hv
  | cons e r =>
    simp only [volumes, List.map_cons, List.cons.injEq] at hv
    simp [hv.1, ← hl]

/-- The root entry spans exactly the value's text: it starts after the leading whitespace and ends
    before the trailing whitespace. -/
theorem C05_root_span (cs : List Char) (v : JValue) (cm : List CMEntry)
    (h : parseStr ⟨false, false⟩ cs = .ok (v, cm)) :
    ∃ w1 t w2 rest, cs = w1 ++ t ++ w2 ∧ IsWsL w1 ∧ IsWsL w2 ∧ GValue t v ∧
      cm = ⟨utf8Len w1, utf8Len w1 + utf8Len t, cm.length⟩ :: rest := by
  obtain ⟨w1, t, w2, e, h1, hs, h2⟩ := parse_codemap h
  refine ⟨w1, t, w2, cm.tail, e, h1, h2, hs.erase, ?_⟩
  cases hs with
  | null b => rw [utf8Len_null]; rfl
  | true b => rw [utf8Len_true]; rfl
  | false b => rw [utf8Len_false]; rfl
  | number b n hn => rfl
  | string b t cs hs => rfl
  | arrEmpty b w hw => simp; omega
  | arr b t vs cm hi => simp; omega
  | objEmpty b w hw => simp; omega
  | obj b w1 k w2 tl key es cm h1 hk h2 ht => simp; omega

/-- **Leaf fragments** (`null`, `true`/`false`, numbers, strings and keys), in every context and
    under every option record: lexing one appends exactly ONE code-map entry — pre-order position =
    reservation order — whose span starts at the fragment's first character, ends right after its
    last one (positions are byte offsets: `Adv`), and whose volume is 1. -/
theorem C05_leaf_partial :
    (∀ (s s' : PS), lexNull s = .ok s' → s'.cm = s.cm.push ⟨s.pos, s'.pos, 1⟩) ∧
    (∀ (s s' : PS) b, lexBool s = .ok (b, s') → s'.cm = s.cm.push ⟨s.pos, s'.pos, 1⟩) ∧
    (∀ ctx (s s' : PS) n, lexNumber ctx s = .ok (n, s') →
        s'.cm = s.cm.push ⟨s.pos, s'.pos, 1⟩ ∧ s'.pos = s.pos + utf8Len n) ∧
    (∀ o (s s' : PS) str, lexString o s = .ok (str, s') → s'.cm = s.cm.push ⟨s.pos, s'.pos, 1⟩) :=
  ⟨fun _ _ h => (lexNull_spec h).2, fun _ _ _ h => (lexBool_spec h).2,
   fun _ _ _ _ h => ⟨(lexNumber_spec h).2.2, (lexNumber_spec h).2.1⟩, fun _ _ _ _ h => lexString_cm h⟩

/-- Spans are measured in bytes of the UTF-8 text: on success the final position is the UTF-8
    length of the whole input (so the root span can end at most there). -/
theorem C05_positions_are_bytes (o : ParseOptions) (cs : List Char) (v : JValue) (s' : PS)
    (h : run o [] none { rest := cs, bad := false, pos := 0, cm := #[] } = .ok (v, s')) :
    s'.pos = utf8Len cs := by
  obtain ⟨⟨⟨w, e, q⟩, _, _⟩, hr, _⟩ := run_ok h
  simp only at e q
  rw [hr] at e; simp at e; subst e; simpa using q

/-! Non-vacuity: the code map of the repository's own unit test `code_map_t1`, kernel-evaluated on
    the model, plus an empty object (the case repaired by a `fix:` commit) and a multi-byte string. -/
example : (parseChars ⟨false, false⟩ "{ \"a\": 0, \"b\": [1, 2] }".toList false).toOption.map (·.2) =
    some [⟨0, 23, 9⟩, ⟨2, 8, 3⟩, ⟨2, 5, 1⟩, ⟨7, 8, 1⟩, ⟨10, 21, 5⟩, ⟨10, 13, 1⟩, ⟨15, 21, 3⟩, ⟨16, 17, 1⟩, ⟨19, 20, 1⟩] := by
  rw [← parseCharsF_eq]; decide +kernel
example : (parseChars ⟨false, false⟩ " [ {} , \"é\" ] ".toList false).toOption.map (·.2) =
    some [⟨1, 14, 3⟩, ⟨3, 5, 1⟩, ⟨8, 12, 1⟩] := by
  rw [← parseCharsF_eq]; decide +kernel

end JsonVerif.C05
