import JsonVerif.Lemmas.Leaf
import JsonVerif.Lemmas.Run
import JsonVerif.Lemmas.Steps
import JsonVerif.Model.Entry
/-!
# C05 — Code map: one exact source span and volume per fragment, in pre-order

Statement: a successful parse returns a code map with exactly one entry per fragment of the value
(every value, every object entry, every key) in pre-order. Entry i's byte span is exactly the
source text of fragment i, from its first to its last significant character with no surrounding
whitespace, and its volume is the number of fragments in the subtree rooted there, so the root's
volume equals the map's length and every volume is at least 1.
-/
namespace JsonVerif.C05
open JsonVerif

/-- Full statement (not yet proved for containers; needs the machine-vs-recursive-descent theorem):
    stated through the reference semantics `Spans v text` = the list of (start, end, volume)
    obtained by laying `v`'s fragments over `text`. -/
def C05_full (WfCm : JValue → List Char → List CMEntry → Prop) : Prop :=
  ∀ cs v cm, parseStr ⟨false, false⟩ cs = .ok (v, cm) → WfCm v cs cm

/-- **Leaf fragments** (`null`, `true`/`false`, numbers, strings and keys), in every context and
    under every option record: lexing one appends exactly ONE code-map entry — pre-order position =
    reservation order — whose span starts at the fragment's first character, ends right after its
    last one (positions are byte offsets: `Adv`), and whose volume is 1. -/
theorem C05_leaf_partial :
    (∀ (s s' : PS), lexNull s = .ok s' → s'.cm = s.cm.push ⟨s.pos, s'.pos, 1⟩) ∧
    (∀ (s s' : PS) b, lexBool s = .ok (b, s') → s'.cm = s.cm.push ⟨s.pos, s'.pos, 1⟩) ∧
    (∀ ctx (s s' : PS) n, lexNumber ctx s = .ok (n, s') →
        s'.cm = s.cm.push ⟨s.pos, s'.pos, 1⟩ ∧ s'.pos = s.pos + utf8Len n) ∧
    (∀ o (s s' : PS) str, lexString o s = .ok (str, s') → s'.cm = s.cm.push ⟨s.pos, s'.pos, 1⟩) :=
  ⟨fun _ _ h => (lexNull_spec h).2, fun _ _ _ h => (lexBool_spec h).2,
   fun _ _ _ _ h => ⟨(lexNumber_spec h).2.2, (lexNumber_spec h).2.1⟩, fun _ _ _ _ h => lexString_cm h⟩

/-- Spans are measured in bytes of the UTF-8 text: on success the final position is the UTF-8
    length of the whole input (so the root span can end at most there). -/
theorem C05_positions_are_bytes (o : ParseOptions) (cs : List Char) (v : JValue) (s' : PS)
    (h : run o [] none { rest := cs, bad := false, pos := 0, cm := #[] } = .ok (v, s')) :
    s'.pos = utf8Len cs := by
  obtain ⟨⟨⟨w, e, q⟩, _, _⟩, hr, _⟩ := run_ok h
  simp only at e q
  rw [hr] at e; simp at e; subst e; simpa using q

/-! Non-vacuity: the code map of the repository's own unit test `code_map_t1`, kernel-evaluated on
    the model, plus an empty object (the case repaired by a `fix:` commit) and a multi-byte string. -/
example : (parseChars ⟨false, false⟩ "{ \"a\": 0, \"b\": [1, 2] }".toList false).toOption.map (·.2) =
    some [⟨0, 23, 9⟩, ⟨2, 8, 3⟩, ⟨2, 5, 1⟩, ⟨7, 8, 1⟩, ⟨10, 21, 5⟩, ⟨10, 13, 1⟩, ⟨15, 21, 3⟩, ⟨16, 17, 1⟩, ⟨19, 20, 1⟩] := by
  rw [← parseCharsF_eq]; decide +kernel
example : (parseChars ⟨false, false⟩ " [ {} , \"é\" ] ".toList false).toOption.map (·.2) =
    some [⟨1, 14, 3⟩, ⟨3, 5, 1⟩, ⟨8, 12, 1⟩] := by
  rw [← parseCharsF_eq]; decide +kernel

end JsonVerif.C05
