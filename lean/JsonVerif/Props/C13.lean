import JsonVerif.Lemmas.PrintOneLine
/-!
# C13 — Pretty-print layout follows the documented options and limits exactly

Statement: for every value and option record the output equals the documented layout: a container
is printed on one line iff all of its children are and its one-line form respects the configured
item and width limits, where width is the number of characters actually printed (empty containers
use the dedicated empty spacing); otherwise each child goes on its own line indented by depth
times the indent unit. The configured numbers of spaces after the opening and before the closing
bracket, around commas and around colons are emitted exactly, and the inline and compact presets
never emit a line break.

`specPrint` (Spec/Print.lean) *is* that documented layout, written directly; `printWith`
(Model/Print.lean) is the code's two-phase printer (size pre-computation, then emission).
-/
namespace JsonVerif.C13
open JsonVerif

/-- **C13.** For every value, every option record and every starting indentation, the printer's
    output is the documented layout — and the size-table indexing of the emission phase cannot
    panic. -/
theorem C13_layout (o : PrintOptions) (v : JValue) (ind : Nat) :
    printWith o ind v = some (specPrint o ind v) := printer_eq_spec o v ind

/-- The width that is compared with the limits is the number of characters actually printed for
    the one-line form (the clause repaired by the `fix:` for arrays / empty containers). -/
theorem C13_width (o : PrintOptions) (v : JValue) :
    (pre o v).1 = if inl o v then .width (oneLine o v).length else .expanded := pre_fst o v

/-- Records without limits (in particular the regenerated `inline` and `compact` presets) print
    everything on one line: no line break is ever added by the layout. -/
theorem C13_nolimit (o : PrintOptions) (ha : o.arrayLimit = none) (hb : o.objectLimit = none)
    (v : JValue) (ind : Nat) : printWith o ind v = some (oneLine o v) := by
  rw [printer_eq_spec, spec_nolimit o ha hb]

theorem C13_presets :
    Gen.inlinePreset.arrayLimit = none ∧ Gen.inlinePreset.objectLimit = none ∧
    Gen.compactPreset.arrayLimit = none ∧ Gen.compactPreset.objectLimit = none := by decide

/-! Non-vacuity: a record whose array and object spacings differ, with a width limit that the
    one-line form of the inner array respects and the outer one exceeds. -/
def demoOpts : PrintOptions :=
  { indent := .tabs 1, arrayBegin := 3, arrayEnd := 3, arrayEmpty := 2, arrayBeforeComma := 1,
    arrayAfterComma := 0, arrayLimit := some (.width 12), objectBegin := 0, objectEnd := 1,
    objectEmpty := 1, objectBeforeComma := 0, objectAfterComma := 2, objectBeforeColon := 1,
    objectAfterColon := 0, objectLimit := some (.itemOrWidth 1 30) }

example : printWith demoOpts 0 (.array [.number ['1'], .array [], .object [(['k'], .null)]]) =
    some "[\n\t1 ,\n\t[  ] ,\n\t{\"k\" :null }\n]".toList := by decide +kernel

end JsonVerif.C13
