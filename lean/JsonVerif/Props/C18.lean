import JsonVerif.Lemmas.SerdeJson
import JsonVerif.Lemmas.SerdeJsonBack
import JsonVerif.Lemmas.SerdeJsonNum
/-!
# C18 — Conversion to and from serde_json::Value round-trips without loss or panic

Statement: converting any serde_json value into a json-syntax value and back returns an equal
serde_json value. Converting a json-syntax value without duplicate keys whose numbers are 64-bit
integers or finite doubles into serde_json and back yields a value equal up to object entry order
and number spelling (same integer or same double). Neither direction panics on any value.
-/
namespace JsonVerif.C18
open JsonVerif

/-- Hypothesis on the two number conversions, for the numbers satisfying the representation
    invariant `P`: converting a serde_json number to its text and back gives the same number. -/
def NumRoundTrip {SNum : Type} (P : SNum → Prop) (disp : SNum → List Char) (conv : List Char → Option SNum) : Prop :=
  ∀ n, P n → conv (disp n) = some n

/-- **serde_json → json-syntax → serde_json is the identity**, for every serde_json value
    (objects are BTreeMaps: keys strictly ascending in any strict order `lt`; numbers in `P`),
    given the number hypothesis. Entry order, strings, structure are reproduced exactly. Generic
    in the number type; instantiated below. -/
theorem C18_from_into {SNum : Type} (lt : List Char → List Char → Bool) (disp : SNum → List Char)
    (conv : List Char → Option SNum) (P : SNum → Prop)
    (hirr : ∀ a, lt a a = false) (hasym : ∀ a b, lt a b = true → lt b a = false)
    (htr : ∀ a b c, lt a b = true → lt b c = true → lt a c = true)
    (hnum : NumRoundTrip P disp conv) (x : SJ SNum) (hx : SJ.WF lt P x) :
    intoSj lt conv (fromSj disp x) = x :=
  into_from lt disp conv hirr hasym htr P hnum x hx

/-- **The same with the number dispatch of the code** (`sjConv`: `as_u64`, then `as_i64`, then the
    float leg `ftbl`; `SjNum` = `PosInt | NegInt | Float`; keys ordered as `String`s): the identity
    on every serde_json value whose integers are in range and whose floats print to a text that is
    not an integer literal and that the float leg sends to itself — the only hypothesis left, and
    one about serde_json and std alone (a double is printed with `.` or an exponent; parsing what
    was printed gives the double back), checked on every run over random doubles. -/
theorem C18_from_into_code (ftbl : List Char → Option (List Char)) (x : SJ SjNum)
    (hx : SJ.WF strLt (SjNum.WF ftbl) x) :
    intoSj strLt (sjConv ftbl) (fromSj SjNum.disp x) = x := sj_from_into ftbl x hx

/-- **Integers are exact, with no hypothesis at all**: every `u64` and every negative `i64` is
    printed and converted back to itself whatever the float leg does (u64::MAX, i64::MIN included:
    `as_u64` is tried first, a negative text is no `u64`, `From<i64>` keeps the sign). -/
theorem C18_integers_exact (ftbl : List Char → Option (List Char)) :
    (∀ n : Nat, n < 2 ^ 64 → sjConv ftbl (SjNum.disp (.pos n)) = some (.pos n)) ∧
    (∀ i : Int, -(2 ^ 63 : Int) ≤ i → i < 0 → sjConv ftbl (SjNum.disp (.neg i)) = some (.neg i)) :=
  ⟨fun n h => sjConv_disp ftbl (.pos n) h, fun i h1 h2 => sjConv_disp ftbl (.neg i) ⟨h1, h2⟩⟩

/-- What the `into` direction produces is always a serde_json number in its representation
    invariant (so the value that comes back from a there-and-back trip is a fixed point of it). -/
theorem C18_conv_in_invariant (ftbl : List Char → Option (List Char))
    (hf : ∀ t r, ftbl t = some r → SjNum.WF ftbl (.float r)) (n : List Char) (m : SjNum)
    (h : sjConv ftbl n = some m) : SjNum.WF ftbl m := sjConv_wf ftbl hf n m h

/-- **No panic in the `into` direction** (after the `fix:`): the conversion is a total function —
    a number without serde_json counterpart becomes null instead of unwinding. In the model this
    is the totality of `intoSj`; the former panic site (`from_f64(inf).unwrap()` in json-number) is
    no longer reached, which the harness checks under `catch_unwind` for every generated value. -/
theorem C18_into_total {SNum : Type} (lt : List Char → List Char → Bool) (conv : List Char → Option SNum)
    (n : List Char) (h : conv n = none) : intoSj lt conv (.number n) = (.null : SJ SNum) := by
  simp [intoSj, h]

/-- The `from` direction on numbers relies on `NumberBuf::new(n.to_string())` succeeding
    (`expect("invalid serde_json::Number")`): full no-panic statement for that direction. -/
def C18_from_no_panic_full {SNum : Type} (disp : SNum → List Char) (numberOk : List Char → Bool) : Prop :=
  ∀ n, numberOk (disp n) = true

/-- **json-syntax → serde_json → json-syntax**: for every value whose objects have no duplicate
    keys (at any depth), the value that comes back is equal, up to the order of entries at every
    level (`PermEq`, the relation of C15), to the original with each number replaced by the text
    of the serde_json number it was converted to (`numImg`; `null` exactly when the number has no
    serde_json counterpart, i.e. lies outside the property's domain). Structure, strings, keys,
    booleans and nulls are reproduced; no entry is lost or duplicated. No assumption on the key
    order of the map or on the number conversions is needed. -/
theorem C18_into_from {SNum : Type} (lt : List Char → List Char → Bool) (disp : SNum → List Char)
    (conv : List Char → Option SNum) (v : JValue) (h : DistinctKeys v) :
    PermEq (substNum (numImg disp conv) v) (fromSj disp (intoSj lt conv v)) :=
  back_permEq lt disp conv v h

/-- … and the respelled number is **the same integer or the same double**: under the number
    hypothesis the text that comes back converts to the very serde_json number (`u64`, `i64` or
    finite `f64`) the original text converted to. -/
theorem C18_number_same {SNum : Type} (disp : SNum → List Char) (conv : List Char → Option SNum)
    (P : SNum → Prop) (hnum : NumRoundTrip P disp conv) (n : List Char) (m : SNum) (h : conv n = some m)
    (hm : P m) : numImg disp conv n = .number (disp m) ∧ conv (disp m) = conv n := by
  simp [numImg, h, hnum m hm]

/-- A second trip changes nothing more: what came back goes there and back to itself up to entry
    order again (its numbers are already in serde_json's spelling). -/
theorem C18_number_stable {SNum : Type} (disp : SNum → List Char) (conv : List Char → Option SNum)
    (P : SNum → Prop) (hnum : NumRoundTrip P disp conv) (m : SNum) (hm : P m) :
    numImg disp conv (disp m) = .number (disp m) := by
  simp [numImg, hnum m hm]

/-! Non-vacuity: an instance of the hypotheses (numbers = Nat rendered in decimal, keys ordered by
    length then …) is not needed for the theorem's content; a concrete well-formed value: -/
example : SJ.WF (fun a b => decide (a.length < b.length)) (fun _ => True)
    (.object [(['a'], .array [.null, .number (1 : Nat)]), (['b', 'b'], .object [])] : SJ Nat) := by
  simp [SJ.WF, SJ.WFM, SJ.WFL]
example : SJ.WF strLt (SjNum.WF (fun _ => none))
    (.object [(['a'], .array [.number (.pos 18446744073709551615), .number (.neg (-9223372036854775808))]),
              (['a', 'b'], .object [])] : SJ SjNum) := by
  simp only [SJ.WF, SJ.WFM, SJ.WFL, SjNum.WF, List.map_cons, List.map_nil, List.Pairwise.nil,
    and_true, true_and]
  refine ⟨⟨by decide, by decide, by decide⟩, ?_⟩
  simp only [List.pairwise_cons, List.mem_cons, List.mem_nil_iff, or_false, forall_eq,
    List.Pairwise.nil, and_true, false_imp_iff, implies_true]
  decide +kernel
example : DistinctKeys (.object [(['b'], .array [.number ['1'], .object []]), (['a'], .object [(['b'], .null)])]) := by
  simp [DistinctKeys, DistinctKeysM, DistinctKeysL]

end JsonVerif.C18
