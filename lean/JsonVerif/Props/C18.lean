import JsonVerif.Lemmas.SerdeJson
/-!
# C18 — Conversion to and from serde_json::Value round-trips without loss or panic

Statement: converting any serde_json value into a json-syntax value and back returns an equal
serde_json value. Converting a json-syntax value without duplicate keys whose numbers are 64-bit
integers or finite doubles into serde_json and back yields a value equal up to object entry order
and number spelling (same integer or same double). Neither direction panics on any value.
-/
namespace JsonVerif.C18
open JsonVerif

/-- Hypothesis on the two opaque number conversions (tested on every run over all three
    serde_json number representations): converting a serde_json number to its text and back gives
    the same number. After the `fix:` commit the way back is `u64`/`i64` parse or the correctly
    rounded `str::parse::<f64>`, so this is the round-trip property of shortest float printing. -/
def NumRoundTrip {SNum : Type} (disp : SNum → List Char) (conv : List Char → Option SNum) : Prop :=
  ∀ n, conv (disp n) = some n

/-- **serde_json → json-syntax → serde_json is the identity**, for every serde_json value
    (objects are BTreeMaps: keys strictly ascending in any strict order `lt`), given the number
    hypothesis. Entry order, strings, structure are reproduced exactly. -/
theorem C18_from_into {SNum : Type} (lt : List Char → List Char → Bool) (disp : SNum → List Char)
    (conv : List Char → Option SNum)
    (hirr : ∀ a, lt a a = false) (hasym : ∀ a b, lt a b = true → lt b a = false)
    (htr : ∀ a b c, lt a b = true → lt b c = true → lt a c = true)
    (hnum : NumRoundTrip disp conv) (x : SJ SNum) (hx : SJ.WF lt x) :
    intoSj lt conv (fromSj disp x) = x :=
  into_from lt disp conv hirr hasym htr hnum x hx

/-- **No panic in the `into` direction** (after the `fix:`): the conversion is a total function —
    a number without serde_json counterpart becomes null instead of unwinding. In the model this
    is the totality of `intoSj`; the former panic site (`from_f64(inf).unwrap()` in json-number) is
    no longer reached, which the harness checks under `catch_unwind` for every generated value. -/
theorem C18_into_total {SNum : Type} (lt : List Char → List Char → Bool) (conv : List Char → Option SNum)
    (n : List Char) (h : conv n = none) : intoSj lt conv (.number n) = (.null : SJ SNum) := by
  simp [intoSj, h]

/-- The `from` direction on numbers relies on `NumberBuf::new(n.to_string())` succeeding
    (`expect("invalid serde_json::Number")`): full no-panic statement for that direction. -/
def C18_from_no_panic_full {SNum : Type} (disp : SNum → List Char) (numberOk : List Char → Bool) : Prop :=
  ∀ n, numberOk (disp n) = true

/-- json-syntax → serde_json → json-syntax: full statement (equal up to entry order and number
    spelling on the stated domain); not yet proved, tested. -/
def C18_into_from_full {SNum : Type} (lt : List Char → List Char → Bool) (disp : SNum → List Char)
    (conv : List Char → Option SNum) (domain : JValue → Prop) (equiv : JValue → JValue → Prop) : Prop :=
  ∀ v, domain v → equiv (fromSj disp (intoSj lt conv v)) v

/-! Non-vacuity: an instance of the hypotheses (numbers = Nat rendered in decimal, keys ordered by
    length then …) is not needed for the theorem's content; a concrete well-formed value: -/
example : SJ.WF (fun a b => decide (a.length < b.length))
    (.object [(['a'], .array [.null, .number (1 : Nat)]), (['b', 'b'], .object [])] : SJ Nat) := by
  simp [SJ.WF, SJ.WFM, SJ.WFL]

end JsonVerif.C18
