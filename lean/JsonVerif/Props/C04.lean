import JsonVerif.Lemmas.PrintTokens
import JsonVerif.Lemmas.PrintOneLine
import JsonVerif.Lemmas.Steps
import JsonVerif.Model.Entry
import JsonVerif.Lemmas.Hub
/-!
# C04 — Printing round-trips: any value under any print options re-parses to itself

Statement: for every value and every combination of print options the printed text is a valid
strict RFC 8259 document that parses back to a value equal to the original, including entry order,
duplicate keys, every string's exact characters and the exact spelling of every number. Formatting
options therefore only ever change insignificant whitespace.
-/
namespace JsonVerif.C04
open JsonVerif

/-- **Round trip**, full statement: for every value whose numbers are JSON numbers (`NumsOk`: the
    guard the API enforces through `NumberBuf::new`), every print option record, every starting
    indentation and every parse option record, the printer produces a text (it never panics) and
    the parser maps that text back to the very same value — entry order, duplicate keys, every
    character of every string, every number spelling. -/
theorem C04_round_trip (po : PrintOptions) (ind : Nat) (o : ParseOptions) (v : JValue)
    (hn : NumsOk v) :
    ∃ t cm, printWith po ind v = some t ∧ parseStr o t = .ok (v, cm) := print_parse po ind o hn

/-- … in particular the printed text is always a valid strict RFC 8259 document denoting `v`. -/
theorem C04_printed_is_json (po : PrintOptions) (ind : Nat) (v : JValue) (hn : NumsOk v) :
    ∃ t, printWith po ind v = some t ∧ GDoc t v :=
  ⟨_, printer_eq_spec po v ind, interleave_gdoc hn (spec_interleave po v ind)⟩

/-- **Printing never panics and only adds insignificant whitespace**: under every option record and
    indentation, the output is the value's own token sequence (the one the compact serializer
    concatenates) with JSON whitespace — spaces, tabs, line feeds — inserted between tokens only.
    Never inside a string literal, a number or a literal name; no token is dropped, added or
    reordered. -/
theorem C04_only_whitespace_partial (o : PrintOptions) (ind : Nat) (v : JValue) :
    ∃ t, printWith o ind v = some t ∧ Interleave (toks v) t :=
  ⟨_, printer_eq_spec o v ind, spec_interleave o v ind⟩

/-- … and the compact output is that token sequence with no whitespace at all. -/
theorem C04_compact_is_tokens (v : JValue) (ind : Nat) :
    printWith Gen.compactPreset ind v = some (toks v).flatten := by
  have hc : IsCompact Gen.compactPreset := by unfold IsCompact; decide
  rw [printer_eq_spec, spec_nolimit _ hc.2.2.2.2.2.1 hc.2.2.2.2.2.2.2.2.2.2.2.2.2,
    oneLine_compact _ hc, refSerialize_flatten]

/-! Non-vacuity, and one kernel-evaluated round trip through the model of the strict parser. -/
def demo : JValue :=
  .object [(['a', '"'], .array [.number "-1.50E+3".toList, .string ['\n', Char.ofNat 0x1F600], .object []]),
           (['a', '"'], .bool true)]

example : NumsOk demo := by
  refine ⟨⟨?_, trivial, trivial, trivial⟩, trivial, trivial⟩
  have := GNumber.neg ['1'] ['.', '5', '0'] ['E', '+', '3'] (.nz '1' [] (by decide) (by intro c h; cases h))
    (.some '5' ['0'] (by decide) (by intro c h; simp at h; subst h; decide))
    (.signed 'E' '+' '3' [] (by decide) (.inl rfl) (by decide) (by intro c h; cases h))
  simpa [NumsOk] using this

example : (printWith Gen.prettyPreset 0 demo).map (fun t => isOk (parseStr ⟨false, false⟩ t)) = some true := by
  unfold parseStr; simp only [← parseCharsF_eq]; decide +kernel

end JsonVerif.C04
