import JsonVerif.Lemmas.Unordered
import JsonVerif.Lemmas.UnorderedComplete
/-!
# C15 — Unordered equality is exactly equality up to permutation of object entries

Statement: unordered comparison holds between two values if and only if one can be turned into the
other by permuting object entries at any depth: arrays stay ordered, scalars must be equal, and
entries with duplicate keys are matched one-to-one so multiplicities count. It is an equivalence
relation and is implied by ordinary equality.

`PermEq` (Spec/PermEq.lean) is that relation; `ueq` (Model/Unordered.lean) is the code.
-/
namespace JsonVerif.C15
open JsonVerif

/-- **Exactly equality up to permutation**, full statement, for all values, any nesting, any
    duplicates: `unordered_eq` holds if and only if one value can be turned into the other by
    permuting object entries at any depth (entries matched one-to-one). The ⇐ half is the
    completeness of the greedy matching: the first not-yet-paired entry with the same key and a
    related value is as good as any, because related values form equivalence classes. -/
theorem C15_exact (a b : JValue) : ueq a b = true ↔ PermEq a b := ueq_iff a b

/-- **It is an equivalence relation**: reflexive (`C15_of_eq`), symmetric, transitive. -/
theorem C15_equivalence :
    (∀ a, ueq a a = true) ∧ (∀ a b, ueq a b = true → ueq b a = true) ∧
    (∀ a b c, ueq a b = true → ueq b c = true → ueq a c = true) :=
  ⟨ueq_refl,
   fun a b h => (ueq_iff b a).mpr (PermEq.symm a b ((ueq_iff a b).mp h)),
   fun a b c h1 h2 => (ueq_iff a c).mpr (PermEq.trans a b c ((ueq_iff a b).mp h1) ((ueq_iff b c).mp h2))⟩

/-- **Soundness** (for all values, any nesting, any duplicates): `unordered_eq` never relates two
    values that are not equal up to a one-to-one permutation of object entries at every depth. -/
theorem C15_sound_partial (a b : JValue) (h : ueq a b = true) : PermEq a b := ueq_sound a b h

/-- Implied by ordinary equality (reflexivity of the implementation). -/
theorem C15_of_eq (a b : JValue) (h : a = b) : ueq a b = true := by rw [h]; exact ueq_refl b

/-! Kernel-checked regression for the repaired defect (multiplicities count), and a positive case. -/
def k1 : List Char × JValue := (['k'], .number ['1'])
def k2 : List Char × JValue := (['k'], .number ['2'])
example : ueq (.object [k1, k1, k2]) (.object [k1, k2, k2]) = false := by decide +kernel
example : ueq (.object [k1, k2, k2]) (.object [k1, k1, k2]) = false := by decide +kernel
example : ueq (.object [k1, k2, (['j'], .object [k2, k1])]) (.object [(['j'], .object [k1, k2]), k2, k1]) = true := by
  decide +kernel
example : ueq (.array [.number ['1'], .number ['2']]) (.array [.number ['2'], .number ['1']]) = false := by
  decide +kernel

end JsonVerif.C15
