import JsonVerif.Lemmas.CanonThm
import JsonVerif.Lemmas.CanonNum
import JsonVerif.Lemmas.PrintOneLine
/-!
# C09 — Canonicalization conforms to RFC 8785 (JSON Canonicalization Scheme)

Statement: for every I-JSON value, canonicalizing and then compact-printing yields exactly the
RFC 8785 canonical form: at every level members are sorted by their keys compared as sequences of
UTF-16 code units, every number is replaced by the ECMAScript shortest round-trip rendering of the
double nearest to its exact decimal value, strings are minimally escaped and there is no
whitespace.

`canon nc` is the code (`nc` = the number canonicalizer of json-number/ryu-js, opaque here).
What is proved is everything except the number rendering itself: see `C09_number_hypothesis`.
-/
namespace JsonVerif.C09
open JsonVerif

/-- The part that cannot be proved with what is installed (no formalisation of IEEE-754
    round-to-nearest on arbitrary-length decimals nor of shortest round-trip digit generation):
    the opaque `nc` is `es6 ∘ nearestDouble`. It is tested on every run against an independent
    reference (correctly rounded `str::parse`, ECMA-262 layout, exact tie resolution). -/
def C09_number_hypothesis (nc es6OfNearest : List Char → List Char) : Prop := ∀ n, nc n = es6OfNearest n

/-- **Ordering**: in the canonical value the members of every object, at every depth, are in
    ascending order of their keys compared as UTF-16 code-unit sequences (ties — duplicate keys,
    outside I-JSON — by value). -/
theorem C09_sorted_partial (nc : List Char → List Char) (v : JValue) : AllSorted (canon nc v) :=
  canon_allSorted nc v

/-- … and each canonical object is a rearrangement of the canonicalized members: nothing is
    dropped, added or duplicated. -/
theorem C09_members_partial (nc : List Char → List Char) (es : List (List Char × JValue)) :
    ∃ l, canon nc (.object es) = .object l ∧ l.Perm (es.map (fun e => (e.1, canon nc e.2))) :=
  ⟨_, rfl, by rw [← canonM_eq_map]; exact List.mergeSort_perm _ _⟩

/-- **Declarative characterisation** (everything of RFC 8785 §3.2 except how a number is rendered,
    which is `nc`): the canonical value is (1) the input with every number replaced by its `nc`
    spelling, up to the order of members at every depth — nothing dropped, added, merged or
    changed otherwise —, (2) with all numbers in canonical spelling, (3) with the members of every
    object sorted by UTF-16 code units; and (4) it is the ONLY value with these three properties.
    (`nc` idempotent: a canonical spelling is its own canonical spelling.) -/
theorem C09_characterisation (nc : List Char → List Char) (hnc : ∀ n, nc (nc n) = nc n) (v : JValue) :
    PermEq (mapNumbers nc v) (canon nc v) ∧ NumsFixed nc (canon nc v) ∧ AllSorted (canon nc v) ∧
    ∀ w, PermEq (mapNumbers nc v) w → NumsFixed nc w → AllSorted w → w = canon nc v :=
  ⟨canon_permEq_mapNumbers nc v, canon_numsFixed nc hnc v, canon_allSorted nc v,
   fun w hp hn hs => canon_unique nc hnc v w hp hs hn⟩

/-- The order really is the UTF-16 one, not code-point order: U+10000 (units D800 DC00) sorts
    before U+E000 although its code point is larger (the case repaired by a `fix:` commit). -/
theorem C09_utf16_witness :
    canonEntryLe ([Char.ofNat 0x10000], .null) ([Char.ofNat 0xE000], .null) = true ∧
    canonEntryLe ([Char.ofNat 0xE000], .null) ([Char.ofNat 0x10000], .null) = false := by
  decide +kernel

/-- The order is a total order on entries (so the canonical member sequence is unique). -/
theorem C09_total_order (a b c : List Char × JValue) :
    ((canonEntryLe a b || canonEntryLe b a) = true) ∧
    (canonEntryLe a b = true → canonEntryLe b c = true → canonEntryLe a c = true) ∧
    (canonEntryLe a b = true → canonEntryLe b a = true → a = b) :=
  ⟨canonEntryLe_total a b, canonEntryLe_trans a b c, canonEntryLe_antisymm a b⟩

/-- Strings minimally escaped and no whitespace: compact printing of the canonical value is the
    reference serializer (C08) applied to it. -/
theorem C09_print (nc : List Char → List Char) (v : JValue) :
    printWith Gen.compactPreset 0 (canon nc v) = some (refSerialize (canon nc v)) := by
  have hc : IsCompact Gen.compactPreset := by unfold IsCompact; decide
  rw [printer_eq_spec, spec_nolimit _ hc.2.2.2.2.2.1 hc.2.2.2.2.2.2.2.2.2.2.2.2.2, oneLine_compact _ hc]

/-! Non-vacuity: the comparison that decides the member order, kernel-evaluated on the keys of
    RFC 8785 §3.2.3's example (expected order: "\r", "1", U+0080, U+00F6, U+20AC, U+1F600, U+FB33). -/
example :
    let ks : List (List Char) := [[Char.ofNat 0xD], ['1'], [Char.ofNat 0x80], [Char.ofNat 0xF6],
      [Char.ofNat 0x20AC], [Char.ofNat 0x1F600], [Char.ofNat 0xFB33]]
    (ks.zip ks.tail).all (fun p => canonEntryLe (p.1, .null) (p.2, .null) && !canonEntryLe (p.2, .null) (p.1, .null)) = true := by
  decide +kernel

end JsonVerif.C09
