import JsonVerif.Lemmas.ErrAt
import JsonVerif.Lemmas.Steps
import JsonVerif.Model.Entry
import JsonVerif.Lemmas.Hub
import JsonVerif.Lemmas.Viable
import JsonVerif.Lemmas.RunComplete
import JsonVerif.Lemmas.SurrIn
/-!
# C07 — Parse errors point at the first offending character

Statement: when strict parsing fails with an unexpected-character error, the reported byte offset
equals the length of the longest prefix of the input that can still be extended to a text matching
the RFC 8259 grammar (any \uXXXX escape syntactically allowed), and the reported character is the
input character at that offset (none exactly when the offset is the input length). Ill-formed
UTF-8 in byte input is reported at the offset of the first ill-formed sequence unless a syntax
error occurs strictly before it; surrogate errors carry the offending code units and a span lying
inside the offending escape sequence(s). All reported offsets are character boundaries within the
input.
-/
namespace JsonVerif.C07
open JsonVerif

/-- **Boundary clause, all errors, all option records**: every offset carried by an error is the
    UTF-8 length of a prefix of the input (a character boundary inside the input); spans are
    ordered; an `Unexpected(p, c)` carries exactly the character of the input found at offset `p`,
    and `None` exactly when `p` is the end of the input; a stream error (→ `InvalidUtf8` for byte
    slices) is reported at the end of the well-formed characters delivered before the failure. -/
theorem C07_boundary_partial (o : ParseOptions) (cs : List Char) (bad : Bool) (e : PErr)
    (h : parseChars o cs bad = .error e) : ErrOk cs 0 bad e := by
  unfold parseChars at h
  split at h
  · rename_i e' he; cases h; exact run_err he
  · cases h

/-- Spelled out for `Unexpected`. -/
theorem C07_unexpected (o : ParseOptions) (cs : List Char) (bad : Bool) (p : Nat) (c : Option Char)
    (h : parseChars o cs bad = .error (.unexpected p c)) :
    ∃ pre rest, cs = pre ++ rest ∧ p = utf8Len pre ∧ c = rest.head? := by
  obtain ⟨w, r, e, q, hc⟩ := C07_boundary_partial o cs bad _ h
  exact ⟨w, r, e, by simpa using q, hc⟩

/-- `None` is reported exactly at the end of the input. -/
theorem C07_eof (o : ParseOptions) (cs : List Char) (bad : Bool) (p : Nat) (c : Option Char)
    (h : parseChars o cs bad = .error (.unexpected p c)) : c = none ↔ p = utf8Len cs := by
  obtain ⟨pre, rest, e, q, hc⟩ := C07_unexpected o cs bad p c h
  subst e q hc
  constructor
  · intro hn
    cases rest with
    | nil => simp
    | cons a r => simp at hn
  · intro hp
    cases rest with
    | nil => rfl
    | cons a r =>
      simp at hp
      have : 0 < a.utf8Size := Char.utf8Size_pos a
      omega

/-- Ill-formed UTF-8 (stream error): reported at the offset where the well-formed prefix ends,
    i.e. at the first ill-formed sequence — this *is* `valid_up_to` — and only for failing input. -/
theorem C07_invalid_utf8 (o : ParseOptions) (b : List UInt8) (p : Nat)
    (h : parseSlice o b = .error (.stream p)) :
    (utf8Dec b).2 = true ∧ p = utf8Len (utf8Dec b).1 := by
  have := C07_boundary_partial o _ _ _ h
  simpa [ErrOk] using this

/-- Surrogate errors: both ends of the span are character boundaries inside the input, in order. -/
theorem C07_surrogate_spans (o : ParseOptions) (cs : List Char) (bad : Bool) (s e hi cp : Nat)
    (h : parseChars o cs bad = .error (.missingLow s e hi) ∨
         parseChars o cs bad = .error (.invalidLow s e hi cp) ∨
         parseChars o cs bad = .error (.invalidCodePoint s e cp)) :
    Bdry cs 0 s ∧ Bdry cs 0 e ∧ s ≤ e := by
  rcases h with h | h | h <;> exact C07_boundary_partial o cs bad _ h

/-- An error is never reported for a valid document (completeness of the strict parser, read
    backwards): whenever strict parsing of a well-formed character stream fails — with whatever
    error — the text is not an RFC 8259 JSON-text. Together with the boundary clause: the reported
    offset is a character boundary of a text that really is invalid. -/
theorem C07_error_only_if_invalid (cs : List Char) (e : PErr)
    (h : parseStr ⟨false, false⟩ cs = .error e) : ¬ ∃ v, GDoc cs v := by
  rintro ⟨v, hg⟩
  obtain ⟨cm, hc⟩ := parse_complete_strict hg
  unfold parseStr at h
  rw [hc] at h
  cases h

/-- `Viable pre`: some continuation of `pre` is a JSON text of the grammar in which any `\\uXXXX`
    escape is syntactically allowed (`LDoc ⟨true, true⟩`, Spec/LGrammar.lean). -/
def Viable (pre : List Char) : Prop := ∃ suffix v, LDoc allOpts (pre ++ suffix) v

/-- **Upper bound of the viable prefix** (half of the first clause): when strict parsing fails
    with an unexpected-character error at offset `p` on the character `a`, the input up to and
    including `a` is NOT viable — no continuation of it is a JSON text, even with every `\\uXXXX`
    escape allowed. So the longest viable prefix is at most `p` bytes long.
    Proof: the error is raised on an option-independent branch (`run_emono`), and what the machine
    does before it has looked past a prefix does not depend on what follows (`run_local_err`: one
    locality lemma per lexical function, Lemmas/Local.lean), so every text with that prefix gets
    the same error; by completeness (`parse_complete_o`) none of them is in the grammar. -/
theorem C07_no_longer_prefix_viable (cs : List Char) (p : Nat) (a : Char)
    (h : parseChars ⟨false, false⟩ cs false = .error (.unexpected p (some a))) :
    ∃ pre rest, cs = pre ++ a :: rest ∧ p = utf8Len pre ∧ ¬ Viable (pre ++ [a]) := by
  obtain ⟨pre, rest, e, hp, hc⟩ := C07_unexpected _ cs false p (some a) h
  cases rest with
  | nil => simp at hc
  | cons b rest =>
    simp only [List.head?_cons, Option.some.injEq] at hc
    subst hc
    refine ⟨pre, rest, e, hp, ?_⟩
    rintro ⟨suffix, v, hd⟩
    subst e hp
    have := not_viable_beyond pre a rest h suffix v
    apply this
    simpa using hd

/-- The same error is reported whatever follows the offending character, under every option record. -/
theorem C07_error_is_local (o : ParseOptions) (pre : List Char) (a : Char) (rest rest' : List Char)
    (h : parseChars ⟨false, false⟩ (pre ++ a :: rest) false = .error (.unexpected (utf8Len pre) (some a))) :
    parseChars o (pre ++ a :: rest') false = .error (.unexpected (utf8Len pre) (some a)) :=
  parse_error_local o pre a rest rest' h

/-- **Lower bound of the viable prefix** (the other half): the input before the reported offset IS
    viable — some continuation of it is a JSON text. Proof: every step of the machine that touches
    the reported offset (fails there, or stops exactly there) can be completed — partial numbers,
    literals, strings, keys by explicit completions (Lemmas/TokComplete.lean, StepComplete.lean) —
    and from any well-formed configuration the run on the closing brackets succeeds
    (`run_close`); the steps strictly before are replayed by locality (`run_viable`). -/
theorem C07_prefix_viable (cs : List Char) (p : Nat) (c : Option Char)
    (h : parseChars ⟨false, false⟩ cs false = .error (.unexpected p c)) :
    ∃ pre rest, cs = pre ++ rest ∧ p = utf8Len pre ∧ Viable pre := by
  obtain ⟨pre, rest, e, hp, _⟩ := C07_unexpected _ cs false p c h
  subst e hp
  exact ⟨pre, rest, rfl, rfl, viable_before pre rest c h⟩

/-- **The first clause of the property in full**: when strict parsing fails with an
    unexpected-character error, the reported byte offset is the length of the LONGEST prefix of the
    input that can still be extended to a text of the grammar in which any `\\uXXXX` escape is
    allowed: that prefix is viable, and the prefix one character longer is not (hence no longer
    one is: a prefix of a viable prefix is viable). -/
theorem C07_longest_viable_prefix (cs : List Char) (p : Nat) (c : Option Char)
    (h : parseChars ⟨false, false⟩ cs false = .error (.unexpected p c)) :
    ∃ pre rest, cs = pre ++ rest ∧ p = utf8Len pre ∧ Viable pre ∧
      (∀ a, rest.head? = some a → ¬ Viable (pre ++ [a])) := by
  obtain ⟨pre, rest, e, hp, hc⟩ := C07_unexpected _ cs false p c h
  subst e hp
  refine ⟨pre, rest, rfl, rfl, viable_before pre rest c h, ?_⟩
  intro a ha
  cases rest with
  | nil => simp at ha
  | cons b rest =>
    simp only [List.head?_cons, Option.some.injEq] at ha hc
    subst ha hc
    rintro ⟨suffix, v, hd⟩
    exact not_viable_beyond pre b rest h suffix v (by simpa using hd)

/-- **Surrogate errors blame exactly the escape(s) at fault** (last clause), for every input and
    option record. `EscAt cs 0 s e cu` = the input contains an escape `\\uXXXX` writing the code unit
    `cu`, and `[s, e)` is exactly its `uXXXX` part (`e = s + 5`; reported spans start at the `u`).
    * `MissingLowSurrogate(s, e, hi)`: the span is the escape that wrote the high surrogate `hi`;
    * `InvalidLowSurrogate(s, e, hi, cu)`: the span is the escape that wrote `cu`, and `hi` was
      written by the escape directly before it (`[s-6, s-1)`);
    * `InvalidUnicodeCodePoint(s, e, cu)`: the span is the escape that wrote `cu`.
    (The fourth place where the code can raise `InvalidUnicodeCodePoint` — a combined pair that is
    not a scalar value — is unreachable: `ofCp_pair_some`.) -/
theorem C07_surrogate_inside (o : ParseOptions) (cs : List Char) (bad : Bool) :
    (∀ s e hi, parseChars o cs bad = .error (.missingLow s e hi) → EscAt cs 0 s e hi) ∧
    (∀ s e hi cu, parseChars o cs bad = .error (.invalidLow s e hi cu) →
      EscAt cs 0 s e cu ∧ 6 ≤ s ∧ EscAt cs 0 (s - 6) (s - 1) hi) ∧
    (∀ s e cu, parseChars o cs bad = .error (.invalidCodePoint s e cu) → EscAt cs 0 s e cu) := by
  have key : ∀ e, parseChars o cs bad = .error e → ErrIn cs 0 e := by
    intro e h
    exact run_in (run_of_parseChars_err h)
  exact ⟨fun s e hi h => key _ h, fun s e hi cu h => key _ h, fun s e cu h => key _ h⟩

/-- a prefix of a viable prefix is viable -/
theorem C07_viable_prefix_closed (a b : List Char) (h : Viable (a ++ b)) : Viable a := by
  obtain ⟨suffix, v, hd⟩ := h
  exact ⟨b ++ suffix, v, by simpa using hd⟩

/-! Non-vacuity (kernel-evaluated): an unexpected-character error inside an array, and a surrogate
    error with its span. -/
example : parseChars ⟨false, false⟩ "[1,]".toList false = .error (.unexpected 3 (some ']')) := by
  rw [← parseCharsF_eq]; rfl
example : parseChars ⟨false, false⟩ "\"\\ud800x\"".toList false = .error (.missingLow 2 7 0xd800) := by
  rw [← parseCharsF_eq]; rfl

end JsonVerif.C07
