import JsonVerif.Lemmas.Macro
/-!
# C19 — The json! macro builds the same value as parsing the same literal text

Statement: for any JSON document written as a json! literal (nested arrays and objects, optional
trailing commas, string, integer, float, boolean and null literals, parenthesized or expression
keys, duplicate keys) the value constructed by the macro equals the value obtained by parsing the
corresponding JSON text, with entries in written order and duplicates preserved.

`Doc` = such documents; `docTok d` = the token tree handed to `json!`; `docValue d` = the value
the same text denotes as JSON (by C02 that is what parsing the text yields); `expandJson` = model of
the `macro_rules!` TT munchers of src/macros.rs.
-/
namespace JsonVerif.C19
open JsonVerif

/-- **C19** on the model of the macro: every document, any nesting depth, any mix of trailing
    commas and key styles. `env` binds the variables used as parenthesized keys. -/
theorem C19_macro (env : List Char → Option (List Char)) (d : Doc) (h : EnvOk env d) :
    expandJson env [docTok d] = some (docValue d) := json_macro_eq env d h

/-- Entries come out in written order with duplicates preserved (no de-duplication anywhere:
    `Object::from_vec` — C06 — keeps the vector as given). -/
theorem C19_order_and_duplicates (env : List Char → Option (List Char))
    (es : List (KeyStyle × List Char × Doc)) (tr : Bool) (h : EnvOkM env es) :
    expandJson env [docTok (.obj es tr)] = some (.object (entriesValues es)) :=
  json_macro_eq env (.obj es tr) h

/-- A trailing comma changes nothing. -/
theorem C19_trailing_comma (env : List Char → Option (List Char)) (items : List Doc) (h : EnvOkL env items) :
    expandJson env [docTok (.arr items true)] = expandJson env [docTok (.arr items false)] := by
  rw [json_macro_eq env (.arr items true) h, json_macro_eq env (.arr items false) h]; rfl

/-- What is not a JSON literal is not silently accepted by the literal rules: a stray comma or a
    missing comma matches no element rule (rustc reports an error; `none` in the model). -/
theorem C19_rejects :
    expandJson (fun _ => none) [.bracket [.comma]] = none ∧
    expandJson (fun _ => none) [.bracket [.null, .null]] = none ∧
    expandJson (fun _ => none) [.brace [.lit (.str ['a']), .null]] = none := by
  decide +kernel

/-! Non-vacuity: a concrete document with every feature (kernel-evaluated through `expandJson`). -/
def demo : Doc :=
  .obj [(.lit, ['a'], .arr [.int 1, .str ['s'], .null, .bool true, .arr [] true, .obj [] false] true),
        (.var ['k'], ['x'], .float "1.5".toList "1.5".toList),
        (.paren, ['a'], .obj [(.lit, ['b'], .bool false)] true)] true
example : EnvOk (fun x => if x = ['k'] then some ['x'] else none) demo := by
  simp [demo, EnvOk, EnvOkM, EnvOkL]

end JsonVerif.C19
