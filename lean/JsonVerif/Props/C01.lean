import JsonVerif.Lemmas.Run
import JsonVerif.Lemmas.Steps
import JsonVerif.Model.Entry
import JsonVerif.Lemmas.Hub
/-!
# C01 — Strict acceptance: a text parses iff it is valid RFC 8259 JSON (valid UTF-8)

Statement: with default (strict) options every parsing entry point accepts an input if and only if
it is exactly one RFC 8259 JSON value surrounded only by JSON whitespace; byte input must in
addition be well-formed UTF-8. All entry points give the same verdict on the same text.
-/
namespace JsonVerif.C01
open JsonVerif

/-- A character stream that ends in a decoding error is never accepted, whatever precedes the
    error and whatever the options. -/
theorem C01_failing_stream_rejected (o : ParseOptions) (cs : List Char) (r : JValue × List CMEntry) :
    parseChars o cs true ≠ .ok r := by
  unfold parseChars
  split
  · simp
  · rename_i v s hv
    have := (run_ok hv).2.2
    simp at this

/-- Byte input that is not well-formed UTF-8 is rejected (by every option record). -/
theorem C01_illformed_rejected (o : ParseOptions) (b : List UInt8) (r : JValue × List CMEntry)
    (h : (utf8Dec b).2 = true) : parseSlice o b ≠ .ok r := by
  unfold parseSlice; rw [h]; exact C01_failing_stream_rejected o _ r

/-- Well-formed byte input gets exactly the verdict, value and code map of the decoded text:
    the byte-slice and string entry points agree. -/
theorem C01_slice_eq_str (o : ParseOptions) (b : List UInt8) (h : (utf8Dec b).2 = false) :
    parseSlice o b = parseStr o (utf8Dec b).1 := by
  unfold parseSlice parseStr; rw [h]

/-- Acceptance means the *whole* text was consumed (nothing but the one value and whitespace). -/
theorem C01_accept_consumes_all (o : ParseOptions) (cs : List Char) (v : JValue) (s' : PS)
    (h : run o [] none { rest := cs, bad := false, pos := 0, cm := #[] } = .ok (v, s')) :
    s'.rest = [] := (run_ok h).2.1

/-- **Strict acceptance is exactly RFC 8259** (`GDoc`, Spec/Grammar.lean: `ws value ws`, the ABNF
    transcribed production by production, `\u` escapes read as UTF-16): the string entry point
    accepts a text if and only if it is a JSON-text. Both directions, every text, no bound. -/
theorem C01_accepts_iff_rfc8259 (cs : List Char) :
    (∃ r, parseStr ⟨false, false⟩ cs = .ok r) ↔ ∃ v, GDoc cs v := accepts_iff cs

/-- … and the byte entry point accepts exactly the well-formed UTF-8 encodings of JSON-texts. -/
theorem C01_slice_accepts_iff (b : List UInt8) :
    (∃ r, parseSlice ⟨false, false⟩ b = .ok r) ↔ (utf8Dec b).2 = false ∧ ∃ v, GDoc (utf8Dec b).1 v := by
  constructor
  · rintro ⟨r, h⟩
    cases hb : (utf8Dec b).2 with
    | true => exact absurd h (C01_illformed_rejected _ b r hb)
    | false =>
      rw [C01_slice_eq_str _ b hb] at h
      exact ⟨rfl, (accepts_iff _).mp ⟨r, h⟩⟩
  · rintro ⟨hb, hv⟩
    rw [C01_slice_eq_str _ b hb]
    exact (accepts_iff _).mpr hv

/-! Non-vacuity -/
example : isOk (parseStr ⟨false, false⟩ " {\"a\" : [1, -0.5e+3, true, null, \"\\u00e9\"]} ".toList) = true := by
  unfold parseStr; rw [← parseCharsF_eq]; decide +kernel
example : isOk (parseSlice ⟨false, false⟩ [0x22, 0xC1, 0x81, 0x22]) = false := by
  unfold parseSlice; rw [← parseCharsF_eq]; decide +kernel

end JsonVerif.C01
