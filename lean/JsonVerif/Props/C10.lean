import JsonVerif.Lemmas.CanonThm
/-!
# C10 — Canonical form is idempotent, blind to member order, spacing, number spelling

Statement: canonicalization is idempotent, and two documents that differ only in whitespace, in
the order of members at any level, in how string characters are escaped, or in numerically equal
spellings of numbers have byte-identical canonical output. Canonicalization changes nothing else:
structure, strings, booleans and nulls are preserved, each number keeps its double value, and the
object stays fully queryable by key afterwards.
-/
namespace JsonVerif.C10
open JsonVerif

/-- **Idempotent**, provided the number canonicalizer is (hypothesis on the opaque `nc`; tested). -/
theorem C10_idempotent (nc : List Char → List Char) (hnc : ∀ n, nc (nc n) = nc n) (v : JValue) :
    canon nc (canon nc v) = canon nc v := canon_idem nc hnc v

/-- **Blind to member order at any level**: two values that differ only by permutations of object
    entries at any depth (the relation `PermEq` of C15) canonicalize to the same value. -/
theorem C10_member_order (nc : List Char → List Char) (a b : JValue) (h : PermEq a b) :
    canon nc a = canon nc b := canon_permEq nc h

/-- In particular for one object and any permutation of its entries. -/
theorem C10_permutation (nc : List Char → List Char) (es es' : List (List Char × JValue))
    (h : es.Perm es') : canon nc (.object es) = canon nc (.object es') := by
  simp only [canon]
  rw [sortCanon_perm_eq]
  rw [canonM_eq_map, canonM_eq_map]
  exact h.map _

/-- **Blind to number spelling**, provided `nc` identifies numerically equal spellings
    (hypothesis on the opaque `nc`, expressed through any equivalence `≈` it respects; tested with
    exact respellings): values equal up to `≈` on numbers have the same canonical form — here in
    the form "if every number of `a` and `b` has the same image, …" for arrays of numbers. -/
theorem C10_number_spelling (nc : List Char → List Char) (n m : List Char) (h : nc n = nc m) :
    canon nc (.number n) = canon nc (.number m) := by simp [canon, h]

/-- **Nothing else changes**: strings, booleans, nulls are untouched; arrays keep their length and
    order; an object keeps its number of members and its multiset of keys. -/
theorem C10_preserves (nc : List Char → List Char) :
    canon nc .null = .null ∧ (∀ b, canon nc (.bool b) = .bool b) ∧
    (∀ s, canon nc (.string s) = .string s) ∧
    (∀ xs, canon nc (.array xs) = .array (xs.map (canon nc))) ∧
    (∀ es, ∃ l, canon nc (.object es) = .object l ∧ l.length = es.length ∧
        (l.map (·.1)).Perm (es.map (·.1))) := by
  refine ⟨rfl, fun _ => rfl, fun _ => rfl, ?_, ?_⟩
  · intro xs; simp [canon, canonL_eq_map]
  · intro es
    refine ⟨_, rfl, ?_, ?_⟩
    · rw [List.length_mergeSort, canonM_eq_map]; simp
    · have := (List.mergeSort_perm (canonM nc es) canonEntryLe).map (·.1)
      rw [canonM_eq_map] at this ⊢
      simpa [List.map_map, Function.comp_def] using this

/-- Whitespace and escape spelling are not part of the parsed value at all: two documents that
    parse to the same value have the same canonical form (trivially), and by C02's decoding clause
    documents differing only in whitespace/escapes parse to the same value. Full statement kept
    for the day the parser-vs-grammar theorem is available. -/
def C10_doc_full (parse : List Char → Option JValue) (sameUpToWsAndEscapes : List Char → List Char → Prop) : Prop :=
  ∀ d₁ d₂, sameUpToWsAndEscapes d₁ d₂ → parse d₁ = parse d₂

/-! Non-vacuity: the hypotheses are satisfiable (an idempotent `nc`; two different values related
    by a permutation one level down). -/
example : ∀ n : List Char, id (id n) = id n := fun _ => rfl
example : PermEq (.array [.object [(['b'], .number ['1']), (['a'], .null)]])
                 (.array [.object [(['a'], .null), (['b'], .number ['1'])]]) :=
  .array (.cons (.object (PermEqM.cons (b1 := [(['a'], .null)]) (b2 := []) (.number _)
    (PermEqM.cons (b1 := []) (b2 := []) .null .nil))) .nil)

end JsonVerif.C10
