import JsonVerif.Lemmas.CanonThm
import JsonVerif.Lemmas.CanonNum
import JsonVerif.Lemmas.Hub
import JsonVerif.Lemmas.Steps
import JsonVerif.Lemmas.PrintOneLine
/-!
# C10 — Canonical form is idempotent, blind to member order, spacing, number spelling

Statement: canonicalization is idempotent, and two documents that differ only in whitespace, in
the order of members at any level, in how string characters are escaped, or in numerically equal
spellings of numbers have byte-identical canonical output. Canonicalization changes nothing else:
structure, strings, booleans and nulls are preserved, each number keeps its double value, and the
object stays fully queryable by key afterwards.
-/
namespace JsonVerif.C10
open JsonVerif

/-- **Idempotent**, provided the number canonicalizer is (hypothesis on the opaque `nc`; tested). -/
theorem C10_idempotent (nc : List Char → List Char) (hnc : ∀ n, nc (nc n) = nc n) (v : JValue) :
    canon nc (canon nc v) = canon nc v := canon_idem nc hnc v

/-- **Blind to member order at any level**: two values that differ only by permutations of object
    entries at any depth (the relation `PermEq` of C15) canonicalize to the same value. -/
theorem C10_member_order (nc : List Char → List Char) (a b : JValue) (h : PermEq a b) :
    canon nc a = canon nc b := canon_permEq nc h

/-- In particular for one object and any permutation of its entries. -/
theorem C10_permutation (nc : List Char → List Char) (es es' : List (List Char × JValue))
    (h : es.Perm es') : canon nc (.object es) = canon nc (.object es') := by
  simp only [canon]
  rw [sortCanon_perm_eq]
  rw [canonM_eq_map, canonM_eq_map]
  exact h.map _

/-- **Blind to number spelling**, provided `nc` identifies numerically equal spellings
    (hypothesis on the opaque `nc`, expressed through any equivalence `≈` it respects; tested with
    exact respellings): values equal up to `≈` on numbers have the same canonical form — here in
    the form "if every number of `a` and `b` has the same image, …" for arrays of numbers. -/
theorem C10_number_spelling (nc : List Char → List Char) (n m : List Char) (h : nc n = nc m) :
    canon nc (.number n) = canon nc (.number m) := by simp [canon, h]

/-- **Nothing else changes**: strings, booleans, nulls are untouched; arrays keep their length and
    order; an object keeps its number of members and its multiset of keys. -/
theorem C10_preserves (nc : List Char → List Char) :
    canon nc .null = .null ∧ (∀ b, canon nc (.bool b) = .bool b) ∧
    (∀ s, canon nc (.string s) = .string s) ∧
    (∀ xs, canon nc (.array xs) = .array (xs.map (canon nc))) ∧
    (∀ es, ∃ l, canon nc (.object es) = .object l ∧ l.length = es.length ∧
        (l.map (·.1)).Perm (es.map (·.1))) := by
  refine ⟨rfl, fun _ => rfl, fun _ => rfl, ?_, ?_⟩
  · intro xs; simp [canon, canonL_eq_map]
  · intro es
    refine ⟨_, rfl, ?_, ?_⟩
    · rw [List.length_mergeSort, canonM_eq_map]; simp
    · have := (List.mergeSort_perm (canonM nc es) canonEntryLe).map (·.1)
      rw [canonM_eq_map] at this ⊢
      simpa [List.map_map, Function.comp_def] using this

/-- **Member order and number spelling together, at every depth**: two values that become equal up
    to the order of entries (`PermEq`) once each number is replaced by the spelling `nc` gives it
    have the same canonical form — for an idempotent `nc` (hypothesis on the opaque number
    canonicalizer; tested). -/
theorem C10_order_and_numbers (nc : List Char → List Char) (hnc : ∀ n, nc (nc n) = nc n)
    (a b : JValue) (h : SameUpToOrderAndNumbers nc a b) : canon nc a = canon nc b :=
  canon_blind nc hnc h

/-- **Documents**: whitespace and the way string characters are escaped are not part of a
    document's content at all — `GDoc text v` (RFC 8259's grammar with its value semantics,
    Spec/Grammar.lean; C01/C02) relates every spelling of a document to the one value `v` it
    denotes, the `ws` productions and the choice between a character and its escapes being the only
    freedom left once `v` is fixed. So for two documents whose contents are equal up to member
    order and number spelling — in particular two spellings of the SAME content — parsing (under
    any option record) succeeds on both and canonicalize-then-print gives byte-identical output. -/
theorem C10_documents (o : ParseOptions) (nc : List Char → List Char) (hnc : ∀ n, nc (nc n) = nc n)
    (d₁ d₂ : List Char) (v₁ v₂ : JValue) (h₁ : GDoc d₁ v₁) (h₂ : GDoc d₂ v₂)
    (h : SameUpToOrderAndNumbers nc v₁ v₂) :
    ∃ cm₁ cm₂, parseStr o d₁ = .ok (v₁, cm₁) ∧ parseStr o d₂ = .ok (v₂, cm₂) ∧
      printWith Gen.compactPreset 0 (canon nc v₁) = printWith Gen.compactPreset 0 (canon nc v₂) := by
  obtain ⟨cm₁, e₁⟩ := parse_complete o h₁
  obtain ⟨cm₂, e₂⟩ := parse_complete o h₂
  exact ⟨cm₁, cm₂, e₁, e₂, by rw [canon_blind nc hnc h]⟩

/-- Two spellings of the same content (whitespace, escapes): same parsed value. -/
theorem C10_whitespace_and_escapes (o : ParseOptions) (d₁ d₂ : List Char) (v : JValue)
    (h₁ : GDoc d₁ v) (h₂ : GDoc d₂ v) :
    ∃ cm₁ cm₂, parseStr o d₁ = .ok (v, cm₁) ∧ parseStr o d₂ = .ok (v, cm₂) := by
  obtain ⟨cm₁, e₁⟩ := parse_complete o h₁
  obtain ⟨cm₂, e₂⟩ := parse_complete o h₂
  exact ⟨cm₁, cm₂, e₁, e₂⟩

/-! Non-vacuity: the hypotheses are satisfiable (an idempotent `nc`; two different values related
    by a permutation one level down). -/
example : ∀ n : List Char, id (id n) = id n := fun _ => rfl
example : PermEq (.array [.object [(['b'], .number ['1']), (['a'], .null)]])
                 (.array [.object [(['a'], .null), (['b'], .number ['1'])]]) :=
  .array (.cons (.object (PermEqM.cons (b1 := [(['a'], .null)]) (b2 := []) (.number _)
    (PermEqM.cons (b1 := []) (b2 := []) .null .nil))) .nil)

/-! … and two different spellings of one content (whitespace, `\u0061` for `a`, `\/` for `/`),
    kernel-evaluated on the model of the parser. -/
example :
    ((parseChars ⟨false, false⟩ " { \"\\u0061\" : [ 1 , \"\\/\" ] } ".toList false).toOption.map (fun r => JValue.beq r.1
        (.object [(['a'], .array [.number ['1'], .string ['/']])])) = some true) ∧
    ((parseChars ⟨false, false⟩ "{\"a\":[1,\"/\"]}".toList false).toOption.map (fun r => JValue.beq r.1
        (.object [(['a'], .array [.number ['1'], .string ['/']])])) = some true) := by
  rw [← parseCharsF_eq, ← parseCharsF_eq]; decide +kernel

end JsonVerif.C10
