import JsonVerif.Lemmas.Conservative
import JsonVerif.Lemmas.Steps
import JsonVerif.Model.Entry
import JsonVerif.Gen.ParsePresets
/-!
# C12 — Lenient options: conservative extension relaxing only surrogate escapes

Statement: any document accepted in strict mode parses to the identical value and code map under
every option combination. Enabling the lenient options makes the parser accept only documents
that are strict-valid except for \u escapes denoting unpaired high surrogates (truncated-pair
option) or lone low surrogates (invalid-code-point option); each such escape decodes to exactly
one U+FFFD, correctly paired surrogates still combine into one scalar, and each option acts
independently of the other.
-/
namespace JsonVerif.C12
open JsonVerif

/-- The presets regenerated from src/parse/mod.rs: `strict()` is all-false, `default()` is strict,
    `flexible()` is all-true. -/
theorem C12_presets :
    Gen.strictPreset = strictOpts ∧ Gen.defaultPreset = Gen.strictPreset ∧
    Gen.flexiblePreset = ⟨true, true⟩ := by decide

/-- **Conservative extension** (first sentence of the property), for every character stream —
    well-formed or ending in a decoding error — and every option record: same value, same code map. -/
theorem C12_conservative (o : ParseOptions) (cs : List Char) (bad : Bool)
    (r : JValue × List CMEntry) (h : parseChars strictOpts cs bad = .ok r) :
    parseChars o cs bad = .ok r := by
  unfold parseChars at h ⊢
  split at h
  · cases h
  · rename_i v s hv
    rw [run_mono hv]
    exact h

theorem C12_conservative_str (o : ParseOptions) (cs : List Char) (r : JValue × List CMEntry)
    (h : parseStr strictOpts cs = .ok r) : parseStr o cs = .ok r :=
  C12_conservative o cs false r h

theorem C12_conservative_slice (o : ParseOptions) (b : List UInt8) (r : JValue × List CMEntry)
    (h : parseSlice strictOpts b = .ok r) : parseSlice o b = .ok r :=
  C12_conservative o _ _ r h

/-! Non-vacuity: a strict-valid document with a surrogate pair and duplicate keys. -/
example : ∃ r, parseStr strictOpts "{\"a\":\"\\ud834\\udd1e\",\"a\":[1e2]}".toList = .ok r := by
  unfold parseStr; rw [← parseCharsF_eq]; exact ⟨_, rfl⟩

end JsonVerif.C12
