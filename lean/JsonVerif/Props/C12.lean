import JsonVerif.Lemmas.Conservative
import JsonVerif.Lemmas.Steps
import JsonVerif.Model.Entry
import JsonVerif.Gen.ParsePresets
import JsonVerif.Lemmas.LenientStr
import JsonVerif.Lemmas.LHub
/-!
# C12 — Lenient options: conservative extension relaxing only surrogate escapes

Statement: any document accepted in strict mode parses to the identical value and code map under
every option combination. Enabling the lenient options makes the parser accept only documents
that are strict-valid except for \u escapes denoting unpaired high surrogates (truncated-pair
option) or lone low surrogates (invalid-code-point option); each such escape decodes to exactly
one U+FFFD, correctly paired surrogates still combine into one scalar, and each option acts
independently of the other.
-/
namespace JsonVerif.C12
open JsonVerif

/-- The presets regenerated from src/parse/mod.rs: `strict()` is all-false, `default()` is strict,
    `flexible()` is all-true. -/
theorem C12_presets :
    Gen.strictPreset = strictOpts ∧ Gen.defaultPreset = Gen.strictPreset ∧
    Gen.flexiblePreset = ⟨true, true⟩ := by decide

/-- **Conservative extension** (first sentence of the property), for every character stream —
    well-formed or ending in a decoding error — and every option record: same value, same code map. -/
theorem C12_conservative (o : ParseOptions) (cs : List Char) (bad : Bool)
    (r : JValue × List CMEntry) (h : parseChars strictOpts cs bad = .ok r) :
    parseChars o cs bad = .ok r := by
  unfold parseChars at h ⊢
  split at h
  · cases h
  · rename_i v s hv
    rw [run_mono hv]
    exact h

theorem C12_conservative_str (o : ParseOptions) (cs : List Char) (r : JValue × List CMEntry)
    (h : parseStr strictOpts cs = .ok r) : parseStr o cs = .ok r :=
  C12_conservative o cs false r h

theorem C12_conservative_slice (o : ParseOptions) (b : List UInt8) (r : JValue × List CMEntry)
    (h : parseSlice strictOpts b = .ok r) : parseSlice o b = .ok r :=
  C12_conservative o _ _ r h

/-- **Exactness** (second sentence of the property), at the only place where the options are
    consulted — the string scanner, for values and keys alike: under ANY option record the scanner
    accepts a string literal and returns `str` if and only if the literal is an `LString o`
    (Spec/Lenient.lean) denoting `str`. `LString o` is the RFC 8259 `string` production extended by
    exactly two element kinds: a high-surrogate escape not directly followed by a low-surrogate
    escape (iff `accept_truncated_surrogate_pair`) and a low-surrogate escape not preceded by a high
    one (iff `accept_invalid_codepoints`), each denoting exactly one U+FFFD; a high escape directly
    followed by a low escape is one scalar value under every option record. Both directions, every
    string, no bound. -/
theorem C12_string_exact (o : ParseOptions) (s : PS) (str r : List Char) :
    (∃ s', lexString o s = .ok (str, s') ∧ s'.rest = r) ↔ ∃ t, s.rest = t ++ r ∧ LString o t str :=
  lexString_iff o s str r

/-- with both options off `LString` adds nothing to RFC 8259 … -/
theorem C12_strict_adds_nothing (t cs : List Char) : LBody ⟨false, false⟩ t cs ↔ GBody t cs :=
  ⟨LBody.strict, GBody.lenient _⟩

/-- … the two options act independently and monotonically: switching an option on never changes the
    meaning of a string that was already accepted (each rule mentions exactly one option). -/
theorem C12_monotone (o o' : ParseOptions) (ht : o.trunc = true → o'.trunc = true)
    (hi : o.inval = true → o'.inval = true) (t cs : List Char) (h : LBody o t cs) : LBody o' t cs := by
  induction h with
  | nil => exact .nil
  | elem t c ts cs he _ ih => exact .elem t c ts cs he ih
  | loneHigh a b c d hi' ts cs h0 h1 h2 h3 _ ih => exact .loneHigh a b c d hi' ts cs (ht h0) h1 h2 h3 ih
  | loneLow a b c d lo ts cs h0 h1 h2 _ ih => exact .loneLow a b c d lo ts cs (hi h0) h1 h2 ih

/-- an unpaired high surrogate needs `accept_truncated_surrogate_pair`, whatever the other option -/
theorem C12_lone_high_needs_trunc (i : Bool) (a b c d : Char) (hi : Nat) (h1 : hexCp a b c d = some hi)
    (h2 : isHigh hi = true) (cs : List Char) : ¬ LBody ⟨false, i⟩ ['\\', 'u', a, b, c, d] cs := by
  intro h
  generalize ht : (['\\', 'u', a, b, c, d] : List Char) = t at h
  cases h with
  | nil => cases ht
  | elem t c1 ts cs1 he hb =>
    cases he with
    | raw c2 r1 r2 r3 => simp at ht; exact r2 ht.1.symm
    | esc e ch e1 e2 => simp at ht; exact e1 ht.1.symm
    | u a1 b1 c2 d1 cp ch u1 u2 u3 =>
      simp at ht
      obtain ⟨rfl, rfl, rfl, rfl, _⟩ := ht
      rw [h1] at u1; cases u1
      rw [h2] at u2; cases u2
    | pair a1 b1 c2 d1 a2 b2 c3 d2 hi1 lo ch p1 p2 p3 p4 p5 => simp at ht
  | loneHigh a1 b1 c1 d1 hi1 ts cs1 h0 => cases h0
  | loneLow a1 b1 c1 d1 lo ts cs1 h0 l1 l2 hb =>
    simp at ht
    obtain ⟨rfl, rfl, rfl, rfl, _⟩ := ht
    rw [h1] at l1; cases l1
    have := isLow_not_high l2
    rw [h2] at this; cases this

/-- **Exactness at the document level** (second sentence of the property, whole documents): under
    ANY option record `o` the parser accepts a text with value `v` if and only if the text is an
    `LDoc o` with content `v` — the RFC 8259 grammar of Spec/Grammar.lean, word for word, in which
    every string (value or key, at any depth) is an `LString o` literal. So what the lenient
    options add is exactly: documents that are strict-valid except for unpaired high-surrogate
    escapes (truncated-pair option) and lone low-surrogate escapes (invalid-code-point option),
    each decoded to one U+FFFD. Both directions, every text, every record, no bound (hub theorems
    `machine_eq_rd`, `Len.rd_sound`, `Len.rd_complete`). -/
theorem C12_document_exact (o : ParseOptions) (cs : List Char) (v : JValue) :
    (∃ cm, parseStr o cs = .ok (v, cm)) ↔ LDoc o cs v :=
  accepts_iff_o o cs v

/-- with both options off that grammar is RFC 8259 itself … -/
theorem C12_strict_is_rfc8259 (cs : List Char) (v : JValue) : LDoc ⟨false, false⟩ cs v ↔ GDoc cs v :=
  ldoc_strict cs v

/-- … every RFC 8259 text keeps its content under every record, and the content of a text under a
    record is unique. -/
theorem C12_document_conservative (o : ParseOptions) (cs : List Char) (v : JValue) (h : GDoc cs v) :
    LDoc o cs v ∧ ∀ v', LDoc o cs v' → v' = v :=
  ⟨gdoc_ldoc o h, fun _ h' => ldoc_unique o h' (gdoc_ldoc o h)⟩

/-! Non-vacuity of the lenient grammar: a lone high surrogate in a key and a lone low surrogate in
    a value, accepted with one U+FFFD each under the record that allows both. -/
example : LDoc ⟨true, true⟩ "{\"\\ud800k\":[\"\\udc00\"]}".toList
    (.object [([fffd, 'k'], .array [.string [fffd]])]) := by
  apply (C12_document_exact _ _ _).1
  unfold parseStr; rw [← parseCharsF_eq]; exact ⟨_, rfl⟩

/-! Non-vacuity: a strict-valid document with a surrogate pair and duplicate keys. -/
example : ∃ r, parseStr strictOpts "{\"a\":\"\\ud834\\udd1e\",\"a\":[1e2]}".toList = .ok r := by
  unfold parseStr; rw [← parseCharsF_eq]; exact ⟨_, rfl⟩

end JsonVerif.C12
