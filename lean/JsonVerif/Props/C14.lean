import JsonVerif.Lemmas.OrderLaws
import JsonVerif.Model.Object
/-!
# C14 — Equality, ordering and hashing are coherent and depend only on content

Statement: equality, ordering and hashing of values and objects depend only on the sequence of
items and entries, never on how an object was built or on the internal state of its key index:
objects with the same entries reached through different operation histories are equal, compare as
Equal and hash identically, and clones equal their originals. The ordering is a total order
consistent with equality (reflexive, antisymmetric, transitive; Equal exactly when equal).
-/
namespace JsonVerif.C14
open JsonVerif

/-- `impl PartialEq / Ord / Hash for Object` (src/object/mod.rs): all three read `self.entries`
    only. The hash is `entries.hash(state)`: `hashInput` is what is fed to the hasher. -/
def Obj.eq (a b : Obj) : Bool := decide (JValue.cmp (.object a.entries) (.object b.entries) = .eq)
def Obj.cmp (a b : Obj) : Ordering := cmpM a.entries b.entries
def Obj.hashInput (a : Obj) : List (Key × JValue) := a.entries

/-- **Content only**: two objects with the same entry list — whatever their index buckets, i.e.
    whatever history produced them — are interchangeable for equality, ordering and hashing. -/
theorem C14_content (a b c : Obj) (h : a.entries = b.entries) :
    Obj.eq a c = Obj.eq b c ∧ Obj.cmp a c = Obj.cmp b c ∧ Obj.cmp c a = Obj.cmp c b ∧
    Obj.hashInput a = Obj.hashInput b ∧ Obj.cmp a b = .eq := by
  simp [Obj.eq, Obj.cmp, Obj.hashInput, h, cmpM_refl]

/-- `Equal` exactly when equal. -/
theorem C14_eq_iff (a b : JValue) : JValue.cmp a b = .eq ↔ a = b :=
  ⟨cmp_eq, fun h => by rw [h]; exact cmp_refl b⟩

/-- Reflexive. -/
theorem C14_refl (a : JValue) : JValue.cmp a a = .eq := cmp_refl a

/-- Antisymmetric / total: comparing in the other direction gives the opposite answer, so exactly
    one of `<`, `=`, `>` holds for every pair. -/
theorem C14_antisymm (a b : JValue) : JValue.cmp b a = (JValue.cmp a b).swap := cmp_swap a b

/-- Transitive. -/
theorem C14_trans (a b c : JValue) (h1 : JValue.cmp a b = .lt) (h2 : JValue.cmp b c = .lt) :
    JValue.cmp a c = .lt := cmp_trans h1 h2

/-- `≤` is transitive too (mixed cases follow from `Equal ⇒ equal`). -/
theorem C14_le_trans (a b c : JValue) (h1 : JValue.cmp a b ≠ .gt) (h2 : JValue.cmp b c ≠ .gt) :
    JValue.cmp a c ≠ .gt := by
  cases h : JValue.cmp a b with
  | gt => exact absurd h h1
  | eq => rw [cmp_eq h]; exact h2
  | lt =>
    cases h' : JValue.cmp b c with
    | gt => exact absurd h' h2
    | eq => rw [← cmp_eq h', h]; simp
    | lt => rw [cmp_trans h h']; simp

/-- The order of entries is the lexicographic (key, value) order used by `sort`. -/
theorem C14_entry_order (a b : List Char × JValue) :
    entryCmp a b = (match cmpChars a.1 b.1 with | .eq => JValue.cmp a.2 b.2 | o => o) := rfl

/-! Non-vacuity -/
example : JValue.cmp (.object [(['a'], .number ['1']), (['a'], .null)])
                     (.object [(['a'], .number ['1']), (['a'], .bool false)]) = .lt := by decide +kernel
example : JValue.cmp (.array [.null]) (.array [.null, .null]) = .lt := by decide +kernel

end JsonVerif.C14
