import JsonVerif.Lemmas.Serde
/-!
# C17 — Value's own Serialize/Deserialize implementations preserve the JSON value

Statement: serializing a Value with the crate's own serializer reproduces it exactly (same
structure, strings, key order and number spelling, except that negative zero may lose its sign)
for objects without duplicate keys, while duplicate keys collapse to the first position holding
the last value. Deserializing a Value from another Value, or from JSON text through a
self-describing deserializer, yields the same structure with every number denoting the same
integer or double.
-/
namespace JsonVerif.C17
open JsonVerif

/-- **`to_value(&value)` reproduces the value**, for every value whose numbers are JSON numbers
    (enforced by `NumberBuf`), without duplicate keys and without the private number token as a key:
    same structure, strings and key order; every number keeps its exact spelling except plain
    64-bit integer literals, which are re-rendered from the integer (`numNorm`: this is where `-0`
    loses its sign). Since the `fix:` commit this includes exponent forms and integers beyond
    64 bits. -/
theorem C17_serialize (v : JValue) (h : Plain v) : toValue v = .ok (mapNumbers numNorm v) :=
  toValue_plain v h

/-- Numbers with a fraction, an exponent, or beyond 64 bits are reproduced byte-for-byte. -/
theorem C17_number_verbatim (n : List Char) (hn : numberOk n = true)
    (h : n.contains '.' = true ∨ (asI64 n = none ∧ asU64 n = none)) :
    toValue (.number n) = .ok (.number n) := by
  rw [toValue_plain (.number n) hn]
  simp only [mapNumbers, numNorm]
  rcases h with h | ⟨h1, h2⟩
  · rw [if_pos h]
  · simp [h1, h2]

/-- The hypothesis "no key is the private number token" cannot be dropped: an object whose first
    key is `$serde_json::private::Number` is (mis)read as a number — serde_json's own convention.
    Recorded as a known finding, replayed on the real code on every run. -/
theorem C17_magic_key_witness :
    okEq (toValue (.object [(numberToken, .string ['1', '.', '5'])])) (.number ['1', '.', '5']) = true := by
  decide +kernel

/-- Duplicate keys collapse to the first position holding the last value (kernel-evaluated
    instance of the `Object::insert` semantics used by the map serializer). -/
theorem C17_duplicates_witness :
    okEq (toValue (.object [(['a'], .null), (['b'], .bool true), (['a'], .bool false), (['a'], .string ['z'])]))
      (.object [(['a'], .string ['z']), (['b'], .bool true)]) = true := by decide +kernel

/-- Deserialization clause: full statement (not modelled in Lean: `Deserialize for Value` hands
    numbers to json-number's deserializer, whose float path is lexical's lossy parser). Tested
    against the numbers themselves; the >19-digit one-ulp class is a known finding. -/
def C17_deserialize_full (fromValue : JValue → Option JValue) (sameNumbers : JValue → JValue → Prop) : Prop :=
  ∀ v, ∃ w, fromValue v = some w ∧ sameNumbers v w

/-! Non-vacuity of `Plain` (kernel-evaluated for numbers with a fraction; the integer path goes
    through `String.toInt?`, which the kernel does not unfold — it is exercised by the
    correspondence run). -/
example : okEq (toValue (.object [(['k'], .array [.number "-0.0".toList, .number "1.5e300".toList, .string ['é']]), (['l'], .null)]))
    (.object [(['k'], .array [.number "-0.0".toList, .number "1.5e300".toList, .string ['é']]), (['l'], .null)]) = true := by
  decide +kernel

end JsonVerif.C17
