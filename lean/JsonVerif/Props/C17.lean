import JsonVerif.Lemmas.FromValue
import JsonVerif.Lemmas.Serde
/-!
# C17 — Value's own Serialize/Deserialize implementations preserve the JSON value

Statement: serializing a Value with the crate's own serializer reproduces it exactly (same
structure, strings, key order and number spelling, except that negative zero may lose its sign)
for objects without duplicate keys, while duplicate keys collapse to the first position holding
the last value. Deserializing a Value from another Value, or from JSON text through a
self-describing deserializer, yields the same structure with every number denoting the same
integer or double.
-/
namespace JsonVerif.C17
open JsonVerif

/-- **`to_value(&value)` reproduces the value**, for every value whose numbers are JSON numbers
    (enforced by `NumberBuf`), without duplicate keys and without the private number token as a key:
    same structure, strings and key order; every number keeps its exact spelling except plain
    64-bit integer literals, which are re-rendered from the integer (`numNorm`: this is where `-0`
    loses its sign). Since the `fix:` commit this includes exponent forms and integers beyond
    64 bits. -/
theorem C17_serialize (v : JValue) (h : Plain v) : toValue v = .ok (mapNumbers numNorm v) :=
  toValue_plain v h

/-- Numbers with a fraction, an exponent, or beyond 64 bits are reproduced byte-for-byte. -/
theorem C17_number_verbatim (n : List Char) (hn : numberOk n = true)
    (h : n.contains '.' = true ∨ (asI64 n = none ∧ asU64 n = none)) :
    toValue (.number n) = .ok (.number n) := by
  rw [toValue_plain (.number n) hn]
  simp only [mapNumbers, numNorm]
  rcases h with h | ⟨h1, h2⟩
  · rw [if_pos h]
  · simp [h1, h2]

/-- The hypothesis "no key is the private number token" cannot be dropped: an object whose first
    key is `$serde_json::private::Number` is (mis)read as a number — serde_json's own convention.
    Recorded as a known finding, replayed on the real code on every run. -/
theorem C17_magic_key_witness :
    okEq (toValue (.object [(numberToken, .string ['1', '.', '5'])])) (.number ['1', '.', '5']) = true := by
  decide +kernel

/-- Duplicate keys collapse to the first position holding the last value (kernel-evaluated
    instance of the `Object::insert` semantics used by the map serializer). -/
theorem C17_duplicates_witness :
    okEq (toValue (.object [(['a'], .null), (['b'], .bool true), (['a'], .bool false), (['a'], .string ['z'])]))
      (.object [(['a'], .string ['z']), (['b'], .bool true)]) = true := by decide +kernel

/-- **Deserialization** (`from_value::<Value>`, model of `Deserialize for Value` driven by
    `Deserializer for Value`): a value in which no object has duplicate keys or starts with the
    private number token comes back with the same structure, strings, booleans, nulls and key order,
    every number passed through json-number's visitor round trip (`numBack`). -/
theorem C17_deserialize (ft : List Char → Option (List Char)) (v : JValue) (h : DePlain v) :
    fromValue ft v = .ok (backValue ft v) :=
  fromValue_plain ft v h

/-- … and that round trip keeps the integer: a number json-number reads as a u64 (an i64) comes back
    as a text it reads as the same u64 (i64). Every other number goes through the double nearest to
    it as lexical computes it (`ft`, a parameter: the known finding C17-de-lossy-ulp lives there). -/
theorem C17_numbers_same_integer (ft : List Char → Option (List Char)) (n : List Char) :
    (∀ u, asU64 n = some u → ∃ t, numBack ft n = .number t ∧ asU64 t = some u) ∧
    (∀ i, asU64 n = none → asI64 n = some i → ∃ t, numBack ft n = .number t ∧ asI64 t = some i) ∧
    (asU64 n = none → asI64 n = none →
      (∀ t, ft n = some t → numBack ft n = .number t) ∧ (ft n = none → numBack ft n = .null)) :=
  ⟨fun u h => numBack_u64 ft n u h, fun i h0 h => numBack_i64 ft n i h0 h, fun h0 h1 => numBack_f64 ft n h0 h1⟩

/-- **Both directions composed**: a plain value serialized with the crate's own serializer and
    deserialized again is the value with its 64-bit integer literals re-rendered and every number
    passed through json-number's dispatch — nothing else changes. -/
theorem C17_value_round_trip (ft : List Char → Option (List Char)) (v : JValue) (h : Plain v) :
    ∃ w, toValue v = .ok w ∧ fromValue ft w = .ok (backValue ft (mapNumbers numNorm v)) :=
  fromValue_toValue ft v h

/-- `from_value::<Object>`: the entries in order, values deserialized as above. -/
theorem C17_object_deserialize (ft : List Char → Option (List Char)) (es : List (List Char × JValue))
    (h : DePlainM es) (hnd : (es.map (·.1)).Nodup) :
    fromValueObject ft (.object es) = .ok (.object (backValueM ft es)) :=
  fromValueObject_plain ft es h hnd

/-- The hypothesis on the first key cannot be dropped here either: an object starting with the
    private number token is read as that number, or rejected (same known finding). -/
theorem C17_magic_key_deserialize :
    deResEq (fromValue (fun _ => none) (.object [(numberToken, .string ['1', '.', '5'])])) (.ok (.number ['1', '.', '5'])) = true ∧
    deResEq (fromValue (fun _ => none) (.object [(numberToken, .null)])) (.error .invalidType) = true ∧
    deResEq (fromValue (fun _ => none) (.object [(numberToken, .string ['1']), (['a'], .null)])) (.error .invalidLength) = true := by
  decide +kernel

example : DePlain (.object [(['k'], .array [.number ['1'], .object []]), (numberToken, .null)]) := by
  simp only [DePlain, DePlainM, DePlainL, List.map_cons, List.map_nil, List.head?_cons, List.head?_nil, true_and, and_true]
  decide +kernel

/-! Non-vacuity of `Plain` (kernel-evaluated for numbers with a fraction; the integer path goes
    through `String.toInt?`, which the kernel does not unfold — it is exercised by the
    correspondence run). -/
example : okEq (toValue (.object [(['k'], .array [.number "-0.0".toList, .number "1.5e300".toList, .string ['é']]), (['l'], .null)]))
    (.object [(['k'], .array [.number "-0.0".toList, .number "1.5e300".toList, .string ['é']]), (['l'], .null)]) = true := by
  decide +kernel

end JsonVerif.C17
