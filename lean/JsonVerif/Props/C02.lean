import JsonVerif.Lemmas.Leaf
import JsonVerif.Lemmas.Steps
import JsonVerif.Lemmas.ObjOps
import JsonVerif.Model.Entry
import JsonVerif.Lemmas.Hub
/-!
# C02 — Faithful decoding: the parsed value is the document's abstract content

Statement: when parsing succeeds the returned value has exactly the document's content: array
items and object entries in source order with duplicate keys preserved, every string and key
decoded per RFC 8259 section 7, every number kept byte-for-byte in its source spelling with
unlimited precision, and the literals mapped to null/true/false. Key lookups on a parsed object
return exactly the values of the entries carrying that key, in source order.
-/
namespace JsonVerif.C02
open JsonVerif Obj

/-- **The parsed value is the document's content**: `GDoc text v` (Spec/Grammar.lean) assigns to a
    JSON-text its abstract content — items and members in source order, duplicates kept, strings
    as the characters their `char` productions denote (two-character escapes, `\uXXXX`, surrogate
    pairs combined), numbers as their spelling, literals as themselves. Whatever the strict parser
    returns is that content … -/
theorem C02_value_is_content (cs : List Char) (v : JValue) (cm : List CMEntry)
    (h : parseStr ⟨false, false⟩ cs = .ok (v, cm)) : GDoc cs v := parse_sound h

/-- … every valid document is parsed to its content, under every option record … -/
theorem C02_content_is_parsed (o : ParseOptions) (cs : List Char) (v : JValue) (h : GDoc cs v) :
    ∃ cm, parseStr o cs = .ok (v, cm) := parse_complete o h

/-- … and that content is unique, so "the document's abstract content" is well defined. -/
theorem C02_content_unique (cs : List Char) (v v' : JValue) (h : GDoc cs v) (h' : GDoc cs v') :
    v = v' := gdoc_unique h h'

/-- **Numbers byte-for-byte, unlimited precision**: in every context and under every option record
    the number value returned by the lexer is exactly the sequence of characters it consumed — no
    normalisation, no truncation, whatever the length. -/
theorem C02_number_verbatim_partial (ctx : Ctx) (s s' : PS) (n : List Char)
    (h : lexNumber ctx s = .ok (n, s')) : s.rest = n ++ s'.rest := (lexNumber_spec h).1

/-- **Literals**: `null`, `true`, `false` are recognised from exactly those spellings. -/
theorem C02_literals_partial :
    (∀ (s s' : PS), lexNull s = .ok s' → s.rest = ['n', 'u', 'l', 'l'] ++ s'.rest) ∧
    (∀ (s s' : PS) b, lexBool s = .ok (b, s') →
      s.rest = (if b then ['t', 'r', 'u', 'e'] else ['f', 'a', 'l', 's', 'e']) ++ s'.rest) :=
  ⟨fun _ _ h => (lexNull_spec h).1, fun _ _ _ h => (lexBool_spec h).1⟩

/-- **Key lookups on a parsed object** (an object built by pushing the entries in source order, as
    the parser does): `get`/`get_entries` return exactly the entries carrying the key, in source
    order; `index_of` the first of them — duplicates preserved. -/
theorem C02_lookup (es : List (Key × JValue)) (k : Key) :
    ∃ o, Obj.empty.extend es = some o ∧ o.entries = es ∧
      o.getEntries k = some (es.filter (fun e => e.1 == k)) ∧
      o.indexOf k = (posOf k es).head? := by
  obtain ⟨o, ho, hinv, he⟩ := extend_inv es inv_empty
  simp only [Obj.empty, List.nil_append] at he
  exact ⟨o, ho, he, by rw [getEntries_eq hinv k, he], by rw [indexOf_eq hinv k, he]⟩

/-! Non-vacuity / decoding examples, kernel-evaluated on the model: order, duplicates, every escape
    form, a surrogate pair, raw non-BMP, exotic number spellings. -/
example : (parseChars ⟨false, false⟩
      "{\"k\":[-0.0e+00, 1E400, 12345678901234567890123], \"k\":\"\\\"\\\\\\/\\b\\f\\n\\r\\t\\u00e9\\ud834\\udd1e😀\", \"\":null}".toList false).toOption.map
      (fun r => JValue.beq r.1 (.object [
        (['k'], .array [.number "-0.0e+00".toList, .number "1E400".toList, .number "12345678901234567890123".toList]),
        (['k'], .string ['"', '\\', '/', Char.ofNat 8, Char.ofNat 12, '\n', '\r', '\t', 'é', Char.ofNat 0x1D11E, Char.ofNat 0x1F600]),
        ([], .null)])) = some true := by
  rw [← parseCharsF_eq]; decide +kernel

end JsonVerif.C02
