import JsonVerif.Lemmas.NoPanic
import JsonVerif.Lemmas.Steps
import JsonVerif.Model.Entry
/-!
# C03 — Parsing is total, single-pass and uses stack independent of nesting depth

Statement: for every input (arbitrary bytes, arbitrary character sequences, any options) parsing
returns Ok or Err: it never panics, aborts, loops or overflows the stack, pulls each input
character at most once, and its stack use does not grow with nesting depth. Traversing the
resulting value fragment by fragment is likewise iterative.

What is a theorem here (about the model, tied to the code by the correspondence run):
* totality — `run` (one arm per arm of the Rust loop, the only recursion of the parser being its
  tail call) is accepted by Lean with the measure `(2·|rest| + [value pending], |stack|)`;
* the loop needs at most `2·|input| + 2` iterations (`C03_steps`), each of which consumes input or
  resolves a pending value: linear time, single pass over the characters;
* the only panic site of the parser, `code_map.get_mut(i).unwrap()` in `end_fragment`, is never
  reached (`C03_no_panic`), for every input and every option record.
What cannot be a theorem about a model — the real stack depth of the compiled code, aborts inside
dependencies — is observed by the harness (depth 10^3 … 2·10^6 in a 256 KiB-stack thread).
-/
namespace JsonVerif.C03
open JsonVerif

/-- The parser's iteration budget: `2·|input| + 2` iterations of the machine loop always suffice,
    for every option record, every character stream (well-formed or failing), i.e. the budgeted
    machine never runs out. -/
theorem C03_steps (o : ParseOptions) (cs : List Char) (bad : Bool) :
    runF o (2 * cs.length + 2) [] none { rest := cs, bad := bad, pos := 0, cm := #[] } =
      some (run o [] none { rest := cs, bad := bad, pos := 0, cm := #[] }) :=
  runF_eq_run _ (by simp [machineMeasure])

/-- Never a panic: `end_fragment`'s `unwrap()` cannot fail, on any input under any options. -/
theorem C03_no_panic (o : ParseOptions) (cs : List Char) (bad : Bool) :
    parseChars o cs bad ≠ .error .panic := by
  unfold parseChars
  have h := run_np (o := o) (stack := []) (value := none)
    (s := { rest := cs, bad := bad, pos := 0, cm := #[] }) trivial
  split
  · rename_i e he; intro hh; cases hh; exact h he
  · simp

theorem C03_no_panic_slice (o : ParseOptions) (b : List UInt8) : parseSlice o b ≠ .error .panic :=
  C03_no_panic o _ _

/-- A successful parse has consumed every character exactly once: the position reached is the
    UTF-8 length of the whole input. -/
theorem C03_single_pass (o : ParseOptions) (cs : List Char) (bad : Bool) (v : JValue) (s' : PS)
    (h : run o [] none { rest := cs, bad := bad, pos := 0, cm := #[] } = .ok (v, s')) :
    s'.rest = [] ∧ s'.pos = utf8Len cs ∧ bad = false := by
  obtain ⟨⟨⟨w, e, q⟩, _, _⟩, hr, hb⟩ := run_ok h
  simp only at e q hb
  rw [hr] at e
  simp at e
  subst e
  exact ⟨hr, by simpa using q, hb⟩

/-! Non-vacuity: deep nesting is handled by the same loop (here depth 8, kernel-evaluated). -/
example : isOk (parseChars ⟨false, false⟩ "[[[[[[[[{\"k\":[]}]]]]]]]]".toList false) = true := by
  rw [← parseCharsF_eq]; decide +kernel

end JsonVerif.C03
