import JsonVerif.Spec.Lenient
/-!
# The RFC 8259 grammar with the strings of an option record (specification of C12, document level)

`LDoc o text v`: `text` is a JSON-text in which every string (value or key) is an `LString o`
literal — a strict string, except that with `accept_truncated_surrogate_pair` a high-surrogate escape
not followed by a low-surrogate escape, and with `accept_invalid_codepoints` a lone low-surrogate
escape, are allowed and denote one U+FFFD each — and `v` is the content it denotes. Everything
else (literals, numbers, whitespace, the container productions) is the strict grammar of
Spec/Grammar.lean, word for word.
-/
namespace JsonVerif

mutual
inductive LValue (o : ParseOptions) : List Char → JValue → Prop
  | null : LValue o ['n', 'u', 'l', 'l'] .null
  | true : LValue o ['t', 'r', 'u', 'e'] (.bool true)
  | false : LValue o ['f', 'a', 'l', 's', 'e'] (.bool false)
  | number (n : List Char) : GNumber n → LValue o n (.number n)
  | string (t cs : List Char) : LString o t cs → LValue o t (.string cs)
  | arrEmpty (w : List Char) : IsWsL w → LValue o ('[' :: (w ++ [']'])) (.array [])
  | arr (t : List Char) (vs : List JValue) : LItems o t vs → LValue o ('[' :: (t ++ [']'])) (.array vs)
  | objEmpty (w : List Char) : IsWsL w → LValue o ('{' :: (w ++ ['}'])) (.object [])
  | obj (t : List Char) (es : List JEntry) : LMembers o t es → LValue o ('{' :: (t ++ ['}'])) (.object es)
inductive LItems (o : ParseOptions) : List Char → List JValue → Prop
  | one (w1 t w2 : List Char) (v : JValue) : IsWsL w1 → LValue o t v → IsWsL w2 →
      LItems o (w1 ++ t ++ w2) [v]
  | cons (w1 t w2 ts : List Char) (v : JValue) (vs : List JValue) :
      IsWsL w1 → LValue o t v → IsWsL w2 → LItems o ts vs →
      LItems o (w1 ++ t ++ w2 ++ ',' :: ts) (v :: vs)
inductive LMembers (o : ParseOptions) : List Char → List JEntry → Prop
  | one (w1 k w2 w3 t w4 : List Char) (key : List Char) (v : JValue) :
      IsWsL w1 → LString o k key → IsWsL w2 → IsWsL w3 → LValue o t v → IsWsL w4 →
      LMembers o (w1 ++ k ++ w2 ++ ':' :: (w3 ++ t ++ w4)) [(key, v)]
  | cons (w1 k w2 w3 t w4 ts : List Char) (key : List Char) (v : JValue) (es : List JEntry) :
      IsWsL w1 → LString o k key → IsWsL w2 → IsWsL w3 → LValue o t v → IsWsL w4 → LMembers o ts es →
      LMembers o (w1 ++ k ++ w2 ++ ':' :: (w3 ++ t ++ w4 ++ ',' :: ts)) ((key, v) :: es)
end

/-- JSON-text under the option record `o` -/
def LDoc (o : ParseOptions) (text : List Char) (v : JValue) : Prop :=
  ∃ w1 t w2, text = w1 ++ t ++ w2 ∧ IsWsL w1 ∧ LValue o t v ∧ IsWsL w2

end JsonVerif
