import JsonVerif.Model.Print
/-!
# The documented print layout, written directly (specification side of C13 / C08)

A container is printed on one line iff all of its children are and its one-line form respects the
configured limit (`len > n`, `width > w`, width = number of characters of the one-line form; empty
containers use the `*_empty` spacing); otherwise one child per line at `(indent+1)·unit`, closing
bracket at `indent·unit`.
-/
namespace JsonVerif

/-- `Limit` as documented: "expanded if more than n items / more than w characters" -/
def withinLimit (lim : Option Limit) (len w : Nat) : Bool :=
  match lim with
  | none => true
  | some .always => false
  | some (.item i) => !(len > i)
  | some (.itemOrWidth i ww) => !(len > i ∨ w > ww)
  | some (.width ww) => !(w > ww)

def arrSep (o : PrintOptions) : List Char := spaces o.arrayBeforeComma ++ ',' :: spaces o.arrayAfterComma
def objSep (o : PrintOptions) : List Char := spaces o.objectBeforeComma ++ ',' :: spaces o.objectAfterComma
def keyText (o : PrintOptions) (k : List Char) : List Char :=
  stringLiteral k ++ spaces o.objectBeforeColon ++ ':' :: spaces o.objectAfterColon

-- the one-line form
mutual
def oneLine (o : PrintOptions) : JValue → List Char
  | .null => nullText
  | .bool b => boolText b
  | .number n => n
  | .string s => stringLiteral s
  | .array xs =>
    if xs.isEmpty then '[' :: spaces o.arrayEmpty ++ [']']
    else '[' :: spaces o.arrayBegin ++ oneLineL o xs 0 ++ spaces o.arrayEnd ++ [']']
  | .object es =>
    if es.isEmpty then '{' :: spaces o.objectEmpty ++ ['}']
    else '{' :: spaces o.objectBegin ++ oneLineM o es 0 ++ spaces o.objectEnd ++ ['}']
def oneLineL (o : PrintOptions) : List JValue → Nat → List Char
  | [], _ => []
  | x :: xs, i => (if i > 0 then arrSep o else []) ++ oneLine o x ++ oneLineL o xs (i + 1)
def oneLineM (o : PrintOptions) : List (List Char × JValue) → Nat → List Char
  | [], _ => []
  | (k, x) :: es, i =>
    (if i > 0 then objSep o else []) ++ keyText o k ++ oneLine o x ++ oneLineM o es (i + 1)
end

-- is the value printed on one line?
mutual
def inl (o : PrintOptions) : JValue → Bool
  | .array xs => inlL o xs && withinLimit o.arrayLimit xs.length (oneLine o (.array xs)).length
  | .object es => inlM o es && withinLimit o.objectLimit es.length (oneLine o (.object es)).length
  | _ => true
def inlL (o : PrintOptions) : List JValue → Bool
  | [] => true
  | x :: xs => inl o x && inlL o xs
def inlM (o : PrintOptions) : List (List Char × JValue) → Bool
  | [] => true
  | (_, x) :: es => inl o x && inlM o es
end

-- the documented layout
mutual
def specPrint (o : PrintOptions) (ind : Nat) : JValue → List Char
  | .null => nullText
  | .bool b => boolText b
  | .number n => n
  | .string s => stringLiteral s
  | .array xs =>
    if inl o (.array xs) then oneLine o (.array xs)
    else if xs.isEmpty then '[' :: '\n' :: indentBy o ind ++ [']']
    else '[' :: '\n' :: specL o ind xs 0 ++ '\n' :: indentBy o ind ++ [']']
  | .object es =>
    if inl o (.object es) then oneLine o (.object es)
    else if es.isEmpty then '{' :: '\n' :: indentBy o ind ++ ['}']
    else '{' :: '\n' :: specM o ind es 0 ++ '\n' :: indentBy o ind ++ ['}']
def specL (o : PrintOptions) (ind : Nat) : List JValue → Nat → List Char
  | [], _ => []
  | x :: xs, i =>
    (if i > 0 then spaces o.arrayBeforeComma ++ [',', '\n'] else []) ++ indentBy o (ind + 1) ++
      specPrint o (ind + 1) x ++ specL o ind xs (i + 1)
def specM (o : PrintOptions) (ind : Nat) : List (List Char × JValue) → Nat → List Char
  | [], _ => []
  | (k, x) :: es, i =>
    (if i > 0 then spaces o.objectBeforeComma ++ [',', '\n'] else []) ++ indentBy o (ind + 1) ++
      keyText o k ++ specPrint o (ind + 1) x ++ specM o ind es (i + 1)
end

-- RFC 8785 §3.2.2-style reference serializer: no whitespace, `,` `:`, numbers verbatim,
-- strings minimally escaped.
mutual
def refSerialize : JValue → List Char
  | .null => nullText
  | .bool b => boolText b
  | .number n => n
  | .string s => stringLiteral s
  | .array xs => '[' :: refSerializeL xs 0 ++ [']']
  | .object es => '{' :: refSerializeM es 0 ++ ['}']
def refSerializeL : List JValue → Nat → List Char
  | [], _ => []
  | x :: xs, i => (if i > 0 then [','] else []) ++ refSerialize x ++ refSerializeL xs (i + 1)
def refSerializeM : List (List Char × JValue) → Nat → List Char
  | [], _ => []
  | (k, x) :: es, i =>
    (if i > 0 then [','] else []) ++ stringLiteral k ++ ':' :: refSerialize x ++ refSerializeM es (i + 1)
end

end JsonVerif
