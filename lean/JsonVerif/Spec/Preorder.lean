import JsonVerif.Model.Mapped
/-! # Pre-order of fragments and the volume column of a well-formed code map -/
namespace JsonVerif

mutual
def preV : JValue → List Frag
  | .array xs => .value (.array xs) :: poL xs
  | .object es => .value (.object es) :: poM es
  | v => [.value v]
def poL : List JValue → List Frag
  | [] => []
  | x :: xs => preV x ++ poL xs
def poM : List (Key × JValue) → List Frag
  | [] => []
  | (k, v) :: es => (.entry k v :: .key k :: preV v) ++ poM es
end

-- the volumes a well-formed code map carries (C05): number of fragments of each subtree, pre-order
mutual
def volsV : JValue → List Nat
  | .array xs => (1 + JValue.fragsL xs) :: volsL xs
  | .object es => (1 + JValue.fragsM es) :: volsM es
  | _ => [1]
def volsL : List JValue → List Nat
  | [] => []
  | x :: xs => volsV x ++ volsL xs
def volsM : List (Key × JValue) → List Nat
  | [] => []
  | (_, v) :: es => ((2 + v.frags) :: 1 :: volsV v) ++ volsM es
end

end JsonVerif
