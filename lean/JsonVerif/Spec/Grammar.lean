import JsonVerif.Model.Parse
/-!
# RFC 8259 as a relation between texts and values

`GDoc text v`: `text` is a JSON-text (RFC 8259 §2: `ws value ws`) and `v` is its abstract content
(§4 objects: members in order, duplicates kept; §5 arrays; §6 numbers: the spelling itself; §7
strings: the sequence of characters denoted, `\uXXXX` escapes read as UTF-16 so that a surrogate
pair denotes one scalar value — and, since the result must be a Rust `String`, an escape that is
an unpaired surrogate denotes nothing: such texts are not in the relation).

The productions are transcribed from the ABNF one for one; nothing here mentions the parser.
Only the lexical helpers `isWs`, `isDigit`, `isDigit19`, `isE`, `hexVal`, `esc2`, `isControl`,
`isHigh`, `isLow`, `pairCp`, `ofCp` (character classes and arithmetic, each a one-liner in
Model/Parse.lean) are shared with the model.
-/
namespace JsonVerif

/-- ws = *( %x20 / %x09 / %x0A / %x0D ) -/
def IsWsL (w : List Char) : Prop := ∀ c ∈ w, isWs c = true

def AllDigits (d : List Char) : Prop := ∀ c ∈ d, isDigit c = true

/-- int = zero / ( digit1-9 *DIGIT ) -/
inductive GInt : List Char → Prop
  | zero : GInt ['0']
  | nz (c : Char) (ds : List Char) : isDigit19 c = true → AllDigits ds → GInt (c :: ds)

/-- frac = decimal-point 1*DIGIT (optional) -/
inductive GFrac : List Char → Prop
  | none : GFrac []
  | some (c : Char) (ds : List Char) : isDigit c = true → AllDigits ds → GFrac ('.' :: c :: ds)

/-- exp = e [ minus / plus ] 1*DIGIT (optional) -/
inductive GExp : List Char → Prop
  | none : GExp []
  | plain (e c : Char) (ds : List Char) : isE e = true → isDigit c = true → AllDigits ds →
      GExp (e :: c :: ds)
  | signed (e sg c : Char) (ds : List Char) : isE e = true → (sg = '+' ∨ sg = '-') →
      isDigit c = true → AllDigits ds → GExp (e :: sg :: c :: ds)

/-- number = [ minus ] int [ frac ] [ exp ] -/
inductive GNumber : List Char → Prop
  | pos (i f e : List Char) : GInt i → GFrac f → GExp e → GNumber (i ++ f ++ e)
  | neg (i f e : List Char) : GInt i → GFrac f → GExp e → GNumber ('-' :: (i ++ f ++ e))

/-- the code unit written by four hex digits -/
def hexCp (a b c d : Char) : Option Nat :=
  match hexVal a, hexVal b, hexVal c, hexVal d with
  | some x3, some x2, some x1, some x0 => some (x3 * 4096 + x2 * 256 + x1 * 16 + x0)
  | _, _, _, _ => none

/-- one `char` of a string, and the character it denotes -/
inductive GElem : List Char → Char → Prop
  /-- unescaped = %x20-21 / %x23-5B / %x5D-10FFFF -/
  | raw (c : Char) : c ≠ '"' → c ≠ '\\' → isControl c = false → GElem [c] c
  /-- escape ( " \ / b f n r t ) -/
  | esc (e ch : Char) : e ≠ 'u' → esc2 e = some ch → GElem ['\\', e] ch
  /-- escape uXXXX, a scalar value by itself -/
  | u (a b c d : Char) (cp : Nat) (ch : Char) : hexCp a b c d = some cp →
      isHigh cp = false → ofCp cp = some ch → GElem ['\\', 'u', a, b, c, d] ch
  /-- a high surrogate escape followed by a low surrogate escape: one scalar value -/
  | pair (a b c d a' b' c' d' : Char) (hi lo : Nat) (ch : Char) :
      hexCp a b c d = some hi → isHigh hi = true → hexCp a' b' c' d' = some lo → isLow lo = true →
      ofCp (pairCp hi lo) = some ch →
      GElem ['\\', 'u', a, b, c, d, '\\', 'u', a', b', c', d'] ch

/-- *char -/
inductive GBody : List Char → List Char → Prop
  | nil : GBody [] []
  | cons (t : List Char) (c : Char) (ts cs : List Char) : GElem t c → GBody ts cs →
      GBody (t ++ ts) (c :: cs)

/-- string = quotation-mark *char quotation-mark -/
inductive GString : List Char → List Char → Prop
  | mk (t cs : List Char) : GBody t cs → GString ('"' :: (t ++ ['"'])) cs

mutual
/-- value = false / null / true / object / array / number / string -/
inductive GValue : List Char → JValue → Prop
  | null : GValue ['n', 'u', 'l', 'l'] .null
  | true : GValue ['t', 'r', 'u', 'e'] (.bool true)
  | false : GValue ['f', 'a', 'l', 's', 'e'] (.bool false)
  | number (n : List Char) : GNumber n → GValue n (.number n)
  | string (t cs : List Char) : GString t cs → GValue t (.string cs)
  /-- array = begin-array [ value *( value-separator value ) ] end-array -/
  | arrEmpty (w : List Char) : IsWsL w → GValue ('[' :: (w ++ [']'])) (.array [])
  | arr (t : List Char) (vs : List JValue) : GItems t vs → GValue ('[' :: (t ++ [']'])) (.array vs)
  /-- object = begin-object [ member *( value-separator member ) ] end-object -/
  | objEmpty (w : List Char) : IsWsL w → GValue ('{' :: (w ++ ['}'])) (.object [])
  | obj (t : List Char) (es : List JEntry) : GMembers t es → GValue ('{' :: (t ++ ['}'])) (.object es)
/-- ws value ws *( `,` ws value ws ) -/
inductive GItems : List Char → List JValue → Prop
  | one (w1 t w2 : List Char) (v : JValue) : IsWsL w1 → GValue t v → IsWsL w2 →
      GItems (w1 ++ t ++ w2) [v]
  | cons (w1 t w2 ts : List Char) (v : JValue) (vs : List JValue) :
      IsWsL w1 → GValue t v → IsWsL w2 → GItems ts vs →
      GItems (w1 ++ t ++ w2 ++ ',' :: ts) (v :: vs)
/-- member = ws string ws `:` ws value ws, separated by `,` -/
inductive GMembers : List Char → List JEntry → Prop
  | one (w1 k w2 w3 t w4 : List Char) (key : List Char) (v : JValue) :
      IsWsL w1 → GString k key → IsWsL w2 → IsWsL w3 → GValue t v → IsWsL w4 →
      GMembers (w1 ++ k ++ w2 ++ ':' :: (w3 ++ t ++ w4)) [(key, v)]
  | cons (w1 k w2 w3 t w4 ts : List Char) (key : List Char) (v : JValue) (es : List JEntry) :
      IsWsL w1 → GString k key → IsWsL w2 → IsWsL w3 → GValue t v → IsWsL w4 → GMembers ts es →
      GMembers (w1 ++ k ++ w2 ++ ':' :: (w3 ++ t ++ w4 ++ ',' :: ts)) ((key, v) :: es)
end

/-- JSON-text = ws value ws -/
def GDoc (text : List Char) (v : JValue) : Prop :=
  ∃ w1 t w2, text = w1 ++ t ++ w2 ∧ IsWsL w1 ∧ GValue t v ∧ IsWsL w2

end JsonVerif
