import JsonVerif.Model.Basic
/-!
# Equality up to permutation of object entries at any depth (specification side of C15)

Scalars must be equal; arrays are compared item by item, in order; two objects are related when the
entries of the second can be listed as a permutation of the entries of the first with equal keys
and related values — entries are matched one-to-one, so multiplicities of duplicates count.
-/
namespace JsonVerif

mutual
inductive PermEq : JValue → JValue → Prop
  | null : PermEq .null .null
  | bool (b : Bool) : PermEq (.bool b) (.bool b)
  | number (n : List Char) : PermEq (.number n) (.number n)
  | string (s : List Char) : PermEq (.string s) (.string s)
  | array {a b : List JValue} : PermEqL a b → PermEq (.array a) (.array b)
  | object {a b : List (List Char × JValue)} : PermEqM a b → PermEq (.object a) (.object b)
inductive PermEqL : List JValue → List JValue → Prop
  | nil : PermEqL [] []
  | cons {x y : JValue} {xs ys : List JValue} : PermEq x y → PermEqL xs ys → PermEqL (x :: xs) (y :: ys)
/-- `b` is `a` with its entries permuted and values replaced by related ones -/
inductive PermEqM : List (List Char × JValue) → List (List Char × JValue) → Prop
  | nil : PermEqM [] []
  | cons {k : List Char} {x y : JValue} {a b1 b2 : List (List Char × JValue)} :
      PermEq x y → PermEqM a (b1 ++ b2) → PermEqM ((k, x) :: a) (b1 ++ (k, y) :: b2)
end

end JsonVerif
