import JsonVerif.Spec.Grammar
/-!
# What the lenient parse options mean (specification of C12, string level)

`LBody o t cs`: the string body `t` denotes the characters `cs` under the option record `o`.
It extends `GBody` (every strict element keeps its strict meaning — in particular a high surrogate
escape directly followed by a low surrogate escape is still ONE scalar value) by exactly two
element kinds, each controlled by exactly one option, each denoting one U+FFFD:

* `loneHigh` — a high-surrogate escape that is not directly followed by a low-surrogate escape;
  allowed iff `accept_truncated_surrogate_pair`;
* `loneLow`  — a low-surrogate escape not preceded by a high-surrogate escape (the only `\uXXXX`
  that is not a Unicode scalar value on its own); allowed iff `accept_invalid_codepoints`.
-/
namespace JsonVerif

/-- the text starts with a low-surrogate escape -/
def StartsLow (l : List Char) : Prop :=
  ∃ a b c d lo r, l = '\\' :: 'u' :: a :: b :: c :: d :: r ∧ hexCp a b c d = some lo ∧ isLow lo = true

inductive LBody (o : ParseOptions) : List Char → List Char → Prop
  | nil : LBody o [] []
  | elem (t : List Char) (c : Char) (ts cs : List Char) : GElem t c → LBody o ts cs →
      LBody o (t ++ ts) (c :: cs)
  | loneHigh (a b c d : Char) (hi : Nat) (ts cs : List Char) : o.trunc = true →
      hexCp a b c d = some hi → isHigh hi = true → ¬ StartsLow ts → LBody o ts cs →
      LBody o ('\\' :: 'u' :: a :: b :: c :: d :: ts) (fffd :: cs)
  | loneLow (a b c d : Char) (lo : Nat) (ts cs : List Char) : o.inval = true →
      hexCp a b c d = some lo → isLow lo = true → LBody o ts cs →
      LBody o ('\\' :: 'u' :: a :: b :: c :: d :: ts) (fffd :: cs)

inductive LString (o : ParseOptions) : List Char → List Char → Prop
  | mk (t cs : List Char) : LBody o t cs → LString o ('"' :: (t ++ ['"'])) cs

/-- with both options off, nothing is added -/
theorem LBody.strict {t cs : List Char} (h : LBody ⟨false, false⟩ t cs) : GBody t cs := by
  induction h with
  | nil => exact .nil
  | elem t c ts cs he _ ih => exact .cons t c ts cs he ih
  | loneHigh _ _ _ _ _ _ _ ht => cases ht
  | loneLow _ _ _ _ _ _ _ hi => cases hi

/-- every strict string keeps its meaning under every option record -/
theorem GBody.lenient (o : ParseOptions) {t cs : List Char} (h : GBody t cs) : LBody o t cs := by
  induction h with
  | nil => exact .nil
  | cons t c ts cs he _ ih => exact .elem t c ts cs he ih

end JsonVerif
