import JsonVerif.Model.Macro
/-!
# JSON documents as written inside `json!( … )` (specification side of C19)
-/
namespace JsonVerif

inductive KeyStyle | lit | paren | var (name : List Char)

inductive Doc where
  | null
  | bool (b : Bool)
  | str (s : List Char)
  | int (i : Int)
  | float (src rendered : List Char)
  | arr (items : List Doc) (trailing : Bool)
  | obj (entries : List (KeyStyle × List Char × Doc)) (trailing : Bool)

def keyTok : KeyStyle → List Char → Tok
  | .lit, k => .lit (.str k)
  | .paren, k => .paren [.lit (.str k)]
  | .var x, _ => .paren [.ident x]

-- the token stream of the literal
mutual
def docTok : Doc → Tok
  | .null => .null
  | .bool true => .true_
  | .bool false => .false_
  | .str s => .lit (.str s)
  | .int i => .lit (.int i)
  | .float s r => .lit (.float s r)
  | .arr items tr => .bracket (itemsToks items tr)
  | .obj es tr => .brace (entriesToks es tr)
def itemsToks : List Doc → Bool → List Tok
  | [], _ => []
  | [d], tr => docTok d :: (if tr then [.comma] else [])
  | d :: d' :: r, tr => docTok d :: .comma :: itemsToks (d' :: r) tr
def entriesToks : List (KeyStyle × List Char × Doc) → Bool → List Tok
  | [], _ => []
  | [(st, k, d)], tr => keyTok st k :: .colon :: docTok d :: (if tr then [.comma] else [])
  | (st, k, d) :: e :: r, tr => keyTok st k :: .colon :: docTok d :: .comma :: entriesToks (e :: r) tr
end

-- the value the same text denotes as JSON
mutual
def docValue : Doc → JValue
  | .null => .null
  | .bool b => .bool b
  | .str s => .string s
  | .int i => .number (toString i).toList
  | .float _ r => .number r
  | .arr items _ => .array (itemsValues items)
  | .obj es _ => .object (entriesValues es)
def itemsValues : List Doc → List JValue
  | [] => []
  | d :: r => docValue d :: itemsValues r
def entriesValues : List (KeyStyle × List Char × Doc) → List (List Char × JValue)
  | [] => []
  | (_, k, d) :: r => (k, docValue d) :: entriesValues r
end

-- variables used as keys are bound to the key they stand for
mutual
def EnvOk (env : List Char → Option (List Char)) : Doc → Prop
  | .arr items _ => EnvOkL env items
  | .obj es _ => EnvOkM env es
  | _ => True
def EnvOkL (env : List Char → Option (List Char)) : List Doc → Prop
  | [] => True
  | d :: r => EnvOk env d ∧ EnvOkL env r
def EnvOkM (env : List Char → Option (List Char)) : List (KeyStyle × List Char × Doc) → Prop
  | [] => True
  | (st, k, d) :: r => (match st with | .var x => env x = some k | _ => True) ∧ EnvOk env d ∧ EnvOkM env r
end

end JsonVerif
