import JsonVerif.Model.De
/-!
# Well-typed data: which `SData` are the values of the Rust type a descriptor describes

This is the domain of C16's round trip. Side conditions that Rust itself guarantees (distinct field
and variant names, distinct map keys) and the ones the serde_json conventions impose (no field or
key spelled like the private number token, no `Some` around a value that serializes to `null`,
floats finite and stable under lexical's print/parse) are explicit.
-/
namespace JsonVerif

/-- the variant name of an enum datum -/
def variantOf : SData → Option (List Char)
  | .unitVariant n => some n
  | .newtypeVariant n _ => some n
  | .tupleVariant n _ => some n
  | .structVariant n _ => some n
  | _ => none

/-- data of a key type -/
def HasKey : KTy → SData → Prop
  | .str, d => ∃ s, d = .str s
  | .int w, d => ∃ i : Int, w.lo ≤ i ∧ i ≤ w.hi ∧ d = w.mk i
  | .char, d => ∃ c, d = .char c
  | .unitEnum names, d => ∃ v, d = .unitVariant v ∧ v ∈ names
  | .newtype k, d => ∃ x, d = .newtypeStruct x ∧ HasKey k x

/-- the keys of a map datum, as the key serializer spells them, are pairwise distinct and none is
    the private number token -/
def KeysOk (l : List (SData × SData)) : Prop :=
  ∃ ns : List (List Char), l.map (fun e => serKey e.1) = ns.map Except.ok ∧ ns.Nodup ∧ numberToken ∉ ns

mutual
def HasTy (env : FEnv) : DTy → SData → Prop
  | .bool, d => ∃ b, d = .bool b
  | .int w, d => ∃ i : Int, w.lo ≤ i ∧ i ≤ w.hi ∧ d = w.mk i
  | .f32, d => ∃ t, d = .float (some t) ∧ env.f32 t = some t
  | .f64, d => ∃ t, d = .float (some t) ∧ env.f64 t = some t
  | .char, d => ∃ c, d = .char c
  | .str, d => ∃ s, d = .str s
  | .unit, d => d = .unit
  | .unitStruct, d => d = .unitStruct
  | .opt t, d => d = .none ∨ ∃ x, d = .some x ∧ HasTy env t x ∧ ser x ≠ .ok .null
  | .newtype t, d => ∃ x, d = .newtypeStruct x ∧ HasTy env t x
  | .seq t, d => ∃ xs, d = .seq xs ∧ ∀ x ∈ xs, HasTy env t x
  | .tuple ts, d => ∃ xs, d = .seq xs ∧ HasTyL env ts xs
  | .map k t, d => ∃ l, d = .map l ∧ (∀ e ∈ l, HasKey k e.1 ∧ HasTy env t e.2) ∧ KeysOk l
  | .struct fs, d => ∃ l, d = .struct l ∧ HasTyF env fs l ∧ (fs.map (·.1)).Nodup ∧
      numberToken ∉ fs.map (·.1)
  | .enum vs, d => HasTyV env vs d
def HasTyL (env : FEnv) : List DTy → List SData → Prop
  | [], xs => xs = []
  | t :: ts, xs => ∃ y ys, xs = y :: ys ∧ HasTy env t y ∧ HasTyL env ts ys
def HasTyF (env : FEnv) : List (List Char × DTy) → List (List Char × SData) → Prop
  | [], l => l = []
  | (n, t) :: fs, l => ∃ y ys, l = (n, y) :: ys ∧ HasTy env t y ∧ HasTyF env fs ys
def HasTyV (env : FEnv) : List (List Char × DTy) → SData → Prop
  | [], _ => False
  | (n, p) :: vs, d =>
    (match p with
     | .unit => d = .unitVariant n
     | .newtype t => ∃ x, d = .newtypeVariant n x ∧ HasTy env t x
     | .tuple ts => ∃ xs, d = .tupleVariant n xs ∧ HasTyL env ts xs ∧ ts ≠ []
     | .struct fs => ∃ l, d = .structVariant n l ∧ HasTyF env fs l ∧ (fs.map (·.1)).Nodup
     | _ => False)
    ∨ (variantOf d ≠ some n ∧ HasTyV env vs d)
end

end JsonVerif
