import JsonVerif.Spec.Grammar
import JsonVerif.Lemmas.Adv
/-!
# The code map RFC 8259's grammar induces on a text (specification of C05)

`SValue b t v cm`: the text `t`, found at byte offset `b` of the document, derives the value `v`
(as in `GValue`), and `cm` is the list of code-map entries of the fragments of `v` in pre-order:
one entry per value, per object entry and per key; each entry's span is exactly the bytes of that
fragment's own text (for an object entry: from the first byte of its key to the last byte of its
value) — no surrounding whitespace — and its volume is the number of entries of its subtree.
Offsets are byte offsets in the UTF-8 encoding (`utf8Len`).
-/
namespace JsonVerif

mutual
inductive SValue : Nat → List Char → JValue → List CMEntry → Prop
  | null (b : Nat) : SValue b ['n', 'u', 'l', 'l'] .null [⟨b, b + 4, 1⟩]
  | true (b : Nat) : SValue b ['t', 'r', 'u', 'e'] (.bool true) [⟨b, b + 4, 1⟩]
  | false (b : Nat) : SValue b ['f', 'a', 'l', 's', 'e'] (.bool false) [⟨b, b + 5, 1⟩]
  | number (b : Nat) (n : List Char) : GNumber n → SValue b n (.number n) [⟨b, b + utf8Len n, 1⟩]
  | string (b : Nat) (t cs : List Char) : GString t cs → SValue b t (.string cs) [⟨b, b + utf8Len t, 1⟩]
  | arrEmpty (b : Nat) (w : List Char) : IsWsL w →
      SValue b ('[' :: (w ++ [']'])) (.array []) [⟨b, b + 1 + utf8Len w + 1, 1⟩]
  | arr (b : Nat) (t : List Char) (vs : List JValue) (cm : List CMEntry) : SItems (b + 1) t vs cm →
      SValue b ('[' :: (t ++ [']'])) (.array vs) (⟨b, b + 1 + utf8Len t + 1, 1 + cm.length⟩ :: cm)
  | objEmpty (b : Nat) (w : List Char) : IsWsL w →
      SValue b ('{' :: (w ++ ['}'])) (.object []) [⟨b, b + 1 + utf8Len w + 1, 1⟩]
  | obj (b : Nat) (w1 k w2 tl key : List Char) (es : List JEntry) (cm : List CMEntry) :
      IsWsL w1 → GString k key → IsWsL w2 →
      STail (b + 1 + utf8Len w1) (b + 1 + utf8Len w1 + utf8Len k)
        (b + 1 + utf8Len w1 + utf8Len k + utf8Len w2 + 1) tl key es cm →
      SValue b ('{' :: ((w1 ++ k ++ w2 ++ ':' :: tl) ++ ['}'])) (.object es)
        (⟨b, b + 1 + utf8Len (w1 ++ k ++ w2 ++ ':' :: tl) + 1, 1 + cm.length⟩ :: cm)
/-- `ws value ws ( , ws value ws )*` starting at offset `b` -/
inductive SItems : Nat → List Char → List JValue → List CMEntry → Prop
  | one (b : Nat) (w1 t w2 : List Char) (v : JValue) (cm : List CMEntry) :
      IsWsL w1 → SValue (b + utf8Len w1) t v cm → IsWsL w2 → SItems b (w1 ++ t ++ w2) [v] cm
  | cons (b : Nat) (w1 t w2 ts : List Char) (v : JValue) (vs : List JValue) (cm1 cm2 : List CMEntry) :
      IsWsL w1 → SValue (b + utf8Len w1) t v cm1 → IsWsL w2 →
      SItems (b + utf8Len (w1 ++ t ++ w2) + 1) ts vs cm2 →
      SItems b (w1 ++ t ++ w2 ++ ',' :: ts) (v :: vs) (cm1 ++ cm2)
/-- the members of an object from just after the first `key ws :` (key at bytes `kb..ke`, the text
    `tl` starting at `b`): entry fragment, key fragment, value fragments; then the next members -/
inductive STail : Nat → Nat → Nat → List Char → List Char → List JEntry → List CMEntry → Prop
  | one (kb ke b : Nat) (w3 t w4 key : List Char) (v : JValue) (cmv : List CMEntry) :
      IsWsL w3 → SValue (b + utf8Len w3) t v cmv → IsWsL w4 →
      STail kb ke b (w3 ++ t ++ w4) key [(key, v)]
        (⟨kb, b + utf8Len w3 + utf8Len t, 2 + cmv.length⟩ :: ⟨kb, ke, 1⟩ :: cmv)
  | cons (kb ke b : Nat) (w3 t w4 w1 k w2 ts key key' : List Char) (v : JValue) (es : List JEntry)
      (cmv cm' : List CMEntry) :
      IsWsL w3 → SValue (b + utf8Len w3) t v cmv → IsWsL w4 → IsWsL w1 → GString k key' → IsWsL w2 →
      STail (b + utf8Len (w3 ++ t ++ w4) + 1 + utf8Len w1)
        (b + utf8Len (w3 ++ t ++ w4) + 1 + utf8Len w1 + utf8Len k)
        (b + utf8Len (w3 ++ t ++ w4) + 1 + utf8Len w1 + utf8Len k + utf8Len w2 + 1) ts key' es cm' →
      STail kb ke b (w3 ++ t ++ w4 ++ ',' :: (w1 ++ k ++ w2 ++ ':' :: ts)) key ((key, v) :: es)
        (⟨kb, b + utf8Len w3 + utf8Len t, 2 + cmv.length⟩ :: ⟨kb, ke, 1⟩ :: (cmv ++ cm'))
end

/-- the code map of a whole document -/
def SDoc (text : List Char) (v : JValue) (cm : List CMEntry) : Prop :=
  ∃ w1 t w2, text = w1 ++ t ++ w2 ∧ IsWsL w1 ∧ SValue (utf8Len w1) t v cm ∧ IsWsL w2

end JsonVerif
