import JsonVerif.Model.Machine
/-!
# Recursive-descent reference parser, over the same lexical layer as the machine

Only the container structure differs from the code: where `Value::parse_in` keeps an explicit stack
(`run`), the reference recurses. Fuel makes the mutual recursion structural; `rd_fuel_irrelevant`
style facts are not needed because theorem B (`Lemmas/MachineRD.lean`) is stated for every
sufficient fuel.
-/
namespace JsonVerif

mutual
def rdValue (o : ParseOptions) : Nat → Ctx → PS → Except PErr (JValue × PS)
  | 0, _, _ => .error .panic
  | n + 1, ctx, s =>
    match parseFragment o ctx s with
    | .error e => .error e
    | .ok (.value v, s') => .ok (v, s')
    | .ok (.beginArray i, s') => rdItems o n [] i s'
    | .ok (.beginObject i key e, s') => rdMembers o n [] i key e s'
/-- after `[ ws` (non-empty array): value (ws , ws value)* ws ] — `acc` = items so far -/
def rdItems (o : ParseOptions) : Nat → List JValue → Nat → PS → Except PErr (JValue × PS)
  | 0, _, _, _ => .error .panic
  | n + 1, acc, i, s =>
    match rdValue o n .array s with
    | .error e => .error e
    | .ok (v, s1) =>
      match contArray i s1 with
      | .error e => .error e
      | .ok (.item, s2) => rdItems o n (acc ++ [v]) i s2
      | .ok (.end_, s2) => .ok (.array (acc ++ [v]), s2)
/-- after `{ ws key ws :` : value, close the entry, then `, key :` … or `}` -/
def rdMembers (o : ParseOptions) : Nat → List JEntry → Nat → List Char → Nat → PS →
    Except PErr (JValue × PS)
  | 0, _, _, _, _, _ => .error .panic
  | n + 1, acc, i, key, e, s =>
    match rdValue o n .objectValue s with
    | .error x => .error x
    | .ok (v, s1) =>
      match s1.endFragment e with
      | .error x => .error x
      | .ok s2 =>
        match contObject o i s2 with
        | .error x => .error x
        | .ok (.entry key' e', s3) => rdMembers o n (acc ++ [(key, v)]) i key' e' s3
        | .ok (.end_, s3) => .ok (.object (acc ++ [(key, v)]), s3)
end

/-- the whole document: value, trailing whitespace, end of input -/
def rdDocument (o : ParseOptions) (n : Nat) (s : PS) : Except PErr (JValue × PS) :=
  match rdValue o n .none s with
  | .error e => .error e
  | .ok (v, s1) =>
    match skipWs s1 with
    | .error e => .error e
    | .ok s2 =>
      match s2.rest with
      | c :: _ => .error (.unexpected s2.pos (some c))
      | [] => .ok (v, s2)

end JsonVerif
