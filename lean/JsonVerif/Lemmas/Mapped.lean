import JsonVerif.Spec.Preorder
/-!
# Code-map offsets navigate correctly (C11)

All statements assume the volume column of the code map is the one of a well-formed code map
(conclusion of C05): `cm.map (·.volume) = pre ++ volsX … ++ post`, the container sitting at
pre-order index `pre.length`.
-/
namespace JsonVerif
open JValue

theorem poL_eq (xs : List JValue) : poL xs = (xs.map preV).flatten := by
  induction xs with
  | nil => simp [poL]
  | cons x xs ih => simp [poL, ih]

mutual
theorem preV_length : ∀ v : JValue, (preV v).length = v.frags
  | .null => rfl
  | .bool _ => rfl
  | .number _ => rfl
  | .string _ => rfl
  | .array xs => by simp [preV, frags, poL_length xs]; omega
  | .object es => by simp [preV, frags, poM_length es]; omega
theorem poL_length : ∀ xs : List JValue, (poL xs).length = fragsL xs
  | [] => rfl
  | x :: xs => by simp [poL, fragsL, preV_length x, poL_length xs]
theorem poM_length : ∀ es : List (Key × JValue), (poM es).length = fragsM es
  | [] => rfl
  | (k, v) :: es => by simp [poM, fragsM, preV_length v, poM_length es]; omega
end

mutual
theorem volsV_length : ∀ v : JValue, (volsV v).length = v.frags
  | .null => rfl
  | .bool _ => rfl
  | .number _ => rfl
  | .string _ => rfl
  | .array xs => by simp [volsV, frags, volsL_length xs]; omega
  | .object es => by simp [volsV, frags, volsM_length es]; omega
theorem volsL_length : ∀ xs : List JValue, (volsL xs).length = fragsL xs
  | [] => rfl
  | x :: xs => by simp [volsL, fragsL, volsV_length x, volsL_length xs]
theorem volsM_length : ∀ es : List (Key × JValue), (volsM es).length = fragsM es
  | [] => rfl
  | (k, v) :: es => by simp [volsM, fragsM, volsV_length v, volsM_length es]; omega
end

/-- the first volume of a subtree is its own fragment count -/
theorem volsV_head (v : JValue) : ∃ t, volsV v = v.frags :: t := by
  cases v <;> simp [volsV, frags]

/-- `volumes cm` -/
def volumes (cm : List CMEntry) : List Nat := cm.map (·.volume)

theorem volAt_eq (cm : List CMEntry) (i : Nat) : volAt cm i = (volumes cm)[i]? := by
  simp [volAt, volumes]

/-- expected offsets of the items of an array whose first item sits at `o` -/
def offsetsL : Nat → List JValue → List Nat
  | _, [] => []
  | o, x :: xs => o :: offsetsL (o + x.frags) xs

theorem arrayMappedFrom_eq (cm : List CMEntry) :
    ∀ (xs : List JValue) (pre post : List Nat), volumes cm = pre ++ volsL xs ++ post →
      arrayMappedFrom cm pre.length xs = some (offsetsL pre.length xs)
  | [], _, _, _ => rfl
  | x :: xs, pre, post, h => by
    obtain ⟨t, ht⟩ := volsV_head x
    have hv : volAt cm pre.length = some x.frags := by
      rw [volAt_eq, h]
      simp [volsL, ht]
    simp only [arrayMappedFrom, hv, offsetsL]
    have hlen : (pre ++ volsV x).length = pre.length + x.frags := by simp [volsV_length]
    have := arrayMappedFrom_eq cm xs (pre ++ volsV x) post (by rw [h]; simp [volsL])
    rw [hlen] at this
    rw [this]; rfl

/-- **Array `iter_mapped`**: never panics and yields, for item `k`, the pre-order index of that
    item (`offset + 1 + Σ_{j<k} fragments(item j)`). -/
theorem arrayMapped_eq (cm : List CMEntry) (xs : List JValue) (pre post : List Nat)
    (h : volumes cm = pre ++ volsV (.array xs) ++ post) :
    arrayMapped cm pre.length xs = some (offsetsL (pre.length + 1) xs) := by
  unfold arrayMapped
  have := arrayMappedFrom_eq cm xs (pre ++ [1 + fragsL xs]) post (by rw [h]; simp [volsV])
  simpa using this

def offsetsM : Nat → List (Key × JValue) → List (Nat × Nat × Nat)
  | _, [] => []
  | o, (_, v) :: es => (o, o + 1, o + 2) :: offsetsM (o + 2 + v.frags) es

theorem objectMappedFrom_eq (cm : List CMEntry) :
    ∀ (es : List (Key × JValue)) (pre post : List Nat), volumes cm = pre ++ volsM es ++ post →
      objectMappedFrom cm pre.length es = some (offsetsM pre.length es)
  | [], _, _, _ => rfl
  | (k, v) :: es, pre, post, h => by
    obtain ⟨t, ht⟩ := volsV_head v
    have hv : volAt cm (pre.length + 2) = some v.frags := by
      rw [volAt_eq, h]
      simp only [volsM, ht, List.append_assoc, List.cons_append]
      rw [List.getElem?_append_right (by omega)]
      simp
    simp only [objectMappedFrom, hv, offsetsM]
    have hlen : (pre ++ ((2 + v.frags) :: 1 :: volsV v)).length = pre.length + 2 + v.frags := by
      simp [volsV_length]; omega
    have := objectMappedFrom_eq cm es (pre ++ ((2 + v.frags) :: 1 :: volsV v)) post
      (by rw [h]; simp [volsM])
    rw [hlen] at this
    rw [this]; rfl

/-- **Object `iter_mapped`**: entry / key / value offsets are the pre-order indices of the entry,
    its key and its value. -/
theorem objectMapped_eq (cm : List CMEntry) (es : List (Key × JValue)) (pre post : List Nat)
    (h : volumes cm = pre ++ volsV (.object es) ++ post) :
    objectMapped cm pre.length es = some (offsetsM (pre.length + 1) es) := by
  unfold objectMapped
  have := objectMappedFrom_eq cm es (pre ++ [1 + fragsM es]) post (by rw [h]; simp [volsV])
  simpa using this

-- the fragments found at those offsets
theorem poL_offsets : ∀ (xs : List JValue) (T pre post : List Frag),
    T = pre ++ poL xs ++ post →
      (offsetsL pre.length xs).map (fun i => T[i]?) = xs.map (fun x => some (Frag.value x))
  | [], _, _, _, _ => rfl
  | x :: xs, T, pre, post, h => by
    simp only [offsetsL, List.map_cons]
    have hx : ∃ t, preV x = Frag.value x :: t := by cases x <;> simp [preV]
    obtain ⟨t, ht⟩ := hx
    have h0 : T[pre.length]? = some (Frag.value x) := by
      rw [h]; simp [poL, ht]
    have hlen : (pre ++ preV x).length = pre.length + x.frags := by simp [preV_length]
    have := poL_offsets xs T (pre ++ preV x) post (by rw [h]; simp [poL])
    rw [hlen] at this
    rw [h0, this]

-- `get_fragment i` is the i-th fragment of the pre-order, or the remaining distance past the end
mutual
theorem getFragment_eq : ∀ (v : JValue) (i : Nat),
    getFragment v i = if h : i < (preV v).length then .inl ((preV v)[i]) else .inr (i - (preV v).length)
  | v, 0 => by
    have : 0 < (preV v).length := by rw [preV_length]; exact frags_pos v
    cases v <;> simp [getFragment, preV]
  | .null, i + 1 => by simp [getFragment, preV]
  | .bool _, i + 1 => by simp [getFragment, preV]
  | .number _, i + 1 => by simp [getFragment, preV]
  | .string _, i + 1 => by simp [getFragment, preV]
  | .array xs, i + 1 => by
    simp only [getFragment, preV, List.length_cons, Nat.add_lt_add_iff_right]
    rw [getFragmentL_eq xs i]
    split <;> simp <;> omega
  | .object es, i + 1 => by
    simp only [getFragment, preV, List.length_cons, Nat.add_lt_add_iff_right]
    rw [getFragmentM_eq es i]
    split <;> simp <;> omega
theorem getFragmentL_eq : ∀ (xs : List JValue) (i : Nat),
    getFragmentL xs i = if h : i < (poL xs).length then .inl ((poL xs)[i]) else .inr (i - (poL xs).length)
  | [], i => by simp [getFragmentL, poL]
  | x :: xs, i => by
    simp only [getFragmentL, poL, List.length_append]
    rw [getFragment_eq x i]
    by_cases h1 : i < (preV x).length
    · have : i < (preV x).length + (poL xs).length := by omega
      simp [h1, this, List.getElem_append_left h1]
    · simp only [h1, ↓reduceDIte]
      rw [getFragmentL_eq xs (i - (preV x).length)]
      by_cases h2 : i - (preV x).length < (poL xs).length
      · have : i < (preV x).length + (poL xs).length := by omega
        simp only [h2, this, ↓reduceDIte]
        rw [List.getElem_append_right (by omega)]
      · have : ¬ i < (preV x).length + (poL xs).length := by omega
        simp only [h2, this, ↓reduceDIte]
        congr 1; omega
theorem getFragmentM_eq : ∀ (es : List (Key × JValue)) (i : Nat),
    getFragmentM es i = if h : i < (poM es).length then .inl ((poM es)[i]) else .inr (i - (poM es).length)
  | [], i => by simp [getFragmentM, poM]
  | (k, x) :: es, i => by
    match i with
    | 0 => simp [getFragmentM, poM]
    | 1 => simp [getFragmentM, poM]
    | j + 2 =>
      simp only [getFragmentM, poM, List.cons_append, List.length_cons, List.length_append,
        Nat.add_lt_add_iff_right]
      rw [getFragment_eq x j]
      by_cases h1 : j < (preV x).length
      · have : j < (preV x).length + (poM es).length := by omega
        simp [h1, this, List.getElem_append_left h1]
      · simp only [h1, ↓reduceDIte]
        rw [getFragmentM_eq es (j - (preV x).length)]
        by_cases h2 : j - (preV x).length < (poM es).length
        · have : j < (preV x).length + (poM es).length := by omega
          simp only [h2, this, ↓reduceDIte, List.getElem_cons_succ]
          rw [List.getElem_append_right (by omega)]
        · have : ¬ j < (preV x).length + (poM es).length := by omega
          simp only [h2, this, ↓reduceDIte]
          congr 1; omega
end

end JsonVerif

namespace JsonVerif
open JValue

def preF : Frag → List Frag
  | .value v => preV v
  | .entry k v => .entry k v :: .key k :: preV v
  | .key k => [.key k]

def fragSize : Frag → Nat
  | .value v => frags v
  | .entry _ v => 2 + frags v
  | .key _ => 1

def stackSize (st : List Frag) : Nat := (st.map fragSize).sum

theorem poM_eq (es : List (Key × JValue)) :
    poM es = (es.map (fun e => preF (.entry e.1 e.2))).flatten := by
  induction es with
  | nil => simp [poM]
  | cons e es ih => obtain ⟨k, v⟩ := e; simp [poM, ih, preF]

theorem fragsL_eq (xs : List JValue) : fragsL xs = (xs.map frags).sum := by
  induction xs with
  | nil => simp [fragsL]
  | cons x xs ih => simp [fragsL, ih]

theorem fragsM_eq (es : List (Key × JValue)) : fragsM es = (es.map (fun e => 2 + frags e.2)).sum := by
  induction es with
  | nil => simp [fragsM]
  | cons e es ih => obtain ⟨k, v⟩ := e; simp [fragsM, ih]

theorem preF_eq (f : Frag) : preF f = f :: (f.subs.map preF).flatten := by
  cases f with
  | value v =>
    cases v <;> simp [preF, preV, Frag.subs, poL_eq, poM_eq, List.map_map, Function.comp_def]
  | entry k v => simp [preF, Frag.subs]
  | key k => simp [preF, Frag.subs]

theorem fragSize_eq (f : Frag) : fragSize f = 1 + stackSize f.subs := by
  cases f with
  | value v =>
    cases v <;> simp [fragSize, frags, Frag.subs, stackSize, fragsL_eq, fragsM_eq, List.map_map,
      Function.comp_def]
  | entry k v => simp [fragSize, Frag.subs, stackSize]; omega
  | key k => simp [fragSize, Frag.subs, stackSize]

theorem traverseFuel_eq : ∀ (n : Nat) (st : List Frag), stackSize st ≤ n →
    traverseFuel n st = (st.map preF).flatten := by
  intro n
  induction n with
  | zero =>
    intro st h
    cases st with
    | nil => simp [traverseFuel]
    | cons f st =>
      have := fragSize_eq f
      simp [stackSize] at h this; omega
  | succ n ih =>
    intro st h
    cases st with
    | nil => simp [traverseFuel]
    | cons f st =>
      have hs := fragSize_eq f
      have : stackSize (f.subs ++ st) ≤ n := by
        simp [stackSize] at h hs ⊢; omega
      simp [traverseFuel, ih _ this, preF_eq f]

/-- **The explicit-stack traversal yields the fragments in pre-order**, one step per fragment. -/
theorem traverse_eq_preorder (v : JValue) : traverse v = preV v := by
  have := traverseFuel_eq (frags v) [.value v] (by simp [stackSize, fragSize])
  simpa [traverse, preF] using this

end JsonVerif
