import JsonVerif.Spec.RD
import JsonVerif.Lemmas.Adv
/-!
# Theorem B: the explicit-stack machine computes the recursive-descent reference

For every stack `K` whose top expects a value, running the machine from `(K, none, s)` is the same
as computing the reference value at `s` and resuming the machine with that value delivered to `K`.
Hence `run [] none s = rdDocument …`: the iterative parser of src/parse/value.rs and the textbook
recursive parser agree on every input — value, code map, position, and error.
-/
namespace JsonVerif

/-- the stack's top is waiting for a value -/
def Ready : List StackItem → Prop
  | [] => True
  | .arrayItem _ _ :: _ => True
  | .objectEntry _ _ _ _ :: _ => True
  | _ => False

/-- `stack_context` -/
def ctxOf : List StackItem → Ctx
  | [] => .none
  | .array _ _ :: _ => .array
  | .arrayItem _ _ :: _ => .array
  | .object _ _ :: _ => .objectKey
  | .objectEntry _ _ _ _ :: _ => .objectValue

/-- deliver a reference result to the machine -/
def cont (o : ParseOptions) (K : List StackItem) (r : Except PErr (JValue × PS)) : Except PErr (JValue × PS) :=
  match r with
  | .error e => .error e
  | .ok (v, s') => run o K (some v) s'

theorem run_ready_none (o : ParseOptions) (K : List StackItem) (hK : Ready K) (s : PS) :
    run o K none s =
      match parseFragment o (ctxOf K) s with
      | .error e => .error e
      | .ok (.value v, s') => run o K (some v) s'
      | .ok (.beginArray i, s') => run o (.arrayItem [] i :: K) none s'
      | .ok (.beginObject i key e, s') => run o (.objectEntry [] i key e :: K) none s' := by
  match K, hK with
  | [], _ => rw [run]; simp only [ctxOf]; split <;> simp_all
  | .arrayItem a i :: k, _ =>
    rw [run]; simp only [ctxOf]
    split <;> simp_all
    rw [run.eq_def o (StackItem.arrayItem a i :: k) (some _)]
  | .objectEntry es i key e :: k, _ =>
    rw [run]; simp only [ctxOf]
    split <;> simp_all
    rw [run.eq_def o (StackItem.objectEntry es i key e :: k) (some _)]

theorem rd_len (o : ParseOptions) : ∀ n,
    (∀ ctx s v s', rdValue o n ctx s = .ok (v, s') → s'.rest.length < s.rest.length) ∧
    (∀ acc i s v s', rdItems o n acc i s = .ok (v, s') → s'.rest.length < s.rest.length) ∧
    (∀ acc i key e s v s', rdMembers o n acc i key e s = .ok (v, s') → s'.rest.length < s.rest.length) := by
  intro n
  induction n with
  | zero => refine ⟨?_, ?_, ?_⟩ <;> intros <;> simp_all [rdValue, rdItems, rdMembers]
  | succ n ih =>
    obtain ⟨ihV, ihI, ihM⟩ := ih
    refine ⟨?_, ?_, ?_⟩
    · intro ctx s v s' h
      simp only [rdValue] at h
      split at h
      · cases h
      · rename_i hf; cases h; exact parseFragment_len hf
      · rename_i hf; have := parseFragment_len hf; have := ihI _ _ _ _ _ h; omega
      · rename_i hf; have := parseFragment_len hf; have := ihM _ _ _ _ _ _ _ h; omega
    · intro acc i s v s' h
      simp only [rdItems] at h
      split at h
      · cases h
      · rename_i hv
        have := ihV _ _ _ _ hv
        split at h
        · cases h
        · rename_i hc; have := contArray_len hc; have := ihI _ _ _ _ _ h; omega
        · rename_i hc; have := contArray_len hc; cases h; omega
    · intro acc i key e s v s' h
      simp only [rdMembers] at h
      split at h
      · cases h
      · rename_i hv
        have := ihV _ _ _ _ hv
        split at h
        · cases h
        · rename_i he
          have := endFragment_len he
          split at h
          · cases h
          · rename_i hc; have := contObject_len hc; have := ihM _ _ _ _ _ _ _ h; omega
          · rename_i hc; have := contObject_len hc; cases h; omega

/-- the key lemma, by induction on the fuel -/
theorem machine_rd (o : ParseOptions) : ∀ n,
    (∀ s K, Ready K → 2 * s.rest.length + 1 ≤ n →
        run o K none s = cont o K (rdValue o n (ctxOf K) s)) ∧
    (∀ s K acc i, Ready K → 2 * s.rest.length + 2 ≤ n →
        run o (.arrayItem acc i :: K) none s = cont o K (rdItems o n acc i s)) ∧
    (∀ s K acc i key e, Ready K → 2 * s.rest.length + 2 ≤ n →
        run o (.objectEntry acc i key e :: K) none s = cont o K (rdMembers o n acc i key e s)) := by
  intro n
  induction n with
  | zero => refine ⟨?_, ?_, ?_⟩ <;> intros <;> omega
  | succ n ih =>
    obtain ⟨ihV, ihI, ihM⟩ := ih
    refine ⟨?_, ?_, ?_⟩
    · intro s K hK hn
      rw [run_ready_none o K hK]
      simp only [rdValue]
      split
      · simp_all [cont]
      · simp_all [cont]
      · rename_i hf
        have := parseFragment_len hf
        simp only [hf]
        rw [ihI _ K [] _ hK (by omega)]
      · rename_i hf
        have := parseFragment_len hf
        simp only [hf]
        rw [ihM _ K [] _ _ _ hK (by omega)]
    · intro s K acc i hK hn
      rw [ihV s (.arrayItem acc i :: K) (by simp [Ready]) (by omega)]
      simp only [rdItems, ctxOf]
      cases h : rdValue o n Ctx.array s with
      | error e => simp [cont]
      | ok r =>
        obtain ⟨v, s1⟩ := r
        have hl := (rd_len o n).1 _ _ _ _ h
        simp only [cont]
        rw [run, run]
        cases h2 : contArray i s1 with
        | error e => simp
        | ok r2 =>
          obtain ⟨c, s2⟩ := r2
          have hl2 := contArray_len h2
          cases c with
          | item => simp only []; rw [ihI s2 K _ _ hK (by omega)]; rfl
          | end_ => simp
    · intro s K acc i key e hK hn
      rw [ihV s (.objectEntry acc i key e :: K) (by simp [Ready]) (by omega)]
      simp only [rdMembers, ctxOf]
      cases h : rdValue o n Ctx.objectValue s with
      | error x => simp [cont]
      | ok r =>
        obtain ⟨v, s1⟩ := r
        have hl := (rd_len o n).1 _ _ _ _ h
        simp only [cont]
        rw [run]
        cases h1 : s1.endFragment e with
        | error x => simp
        | ok s2 =>
          have hl1 := endFragment_len h1
          simp only []
          rw [run]
          cases h2 : contObject o i s2 with
          | error x => simp
          | ok r2 =>
            obtain ⟨c, s3⟩ := r2
            have hl2 := contObject_len h2
            cases c with
            | entry key' e' => simp only []; rw [ihM s3 K _ _ _ _ hK (by omega)]; rfl
            | end_ => simp

/-- **Theorem B.** The machine and the recursive-descent reference agree on every input. -/
theorem machine_eq_rd (o : ParseOptions) (s : PS) :
    run o [] none s = rdDocument o (2 * s.rest.length + 1) s := by
  rw [(machine_rd o _).1 s [] trivial (Nat.le_refl _)]
  simp only [cont, ctxOf, rdDocument]
  cases h : rdValue o (2 * s.rest.length + 1) Ctx.none s with
  | error e => rfl
  | ok r =>
    obtain ⟨v, s1⟩ := r
    simp only []
    rw [run]
    rfl

end JsonVerif
