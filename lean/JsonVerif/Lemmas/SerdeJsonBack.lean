import JsonVerif.Lemmas.SerdeJson
import JsonVerif.Lemmas.PermEqLaws
/-!
# json-syntax → serde_json → json-syntax (C18, second clause)

For a value whose objects have no duplicate keys, converting into `serde_json::Value` and back
gives the value with (a) each number replaced by what the two number conversions make of it
(`numImg`) and (b) the members of every object in the map's order — i.e. a value equal up to the
order of entries (`PermEq`) to the original with its numbers respelled. No property of the key
order `lt` is needed: whatever position `BTreeMap::insert` picks, an absent key is inserted once.
-/
namespace JsonVerif
variable {SNum : Type}

/-- a number after the trip there and back: the text of its serde_json number, or `null` when
    it has none (magnitude beyond `f64`) -/
def numImg (disp : SNum → List Char) (conv : List Char → Option SNum) (n : List Char) : JValue :=
  match conv n with
  | some m => .number (disp m)
  | none => .null

mutual
def substNum (f : List Char → JValue) : JValue → JValue
  | .number n => f n
  | .array xs => .array (substNumL f xs)
  | .object es => .object (substNumM f es)
  | v => v
def substNumL (f : List Char → JValue) : List JValue → List JValue
  | [] => []
  | x :: xs => substNum f x :: substNumL f xs
def substNumM (f : List Char → JValue) : List (List Char × JValue) → List (List Char × JValue)
  | [] => []
  | (k, x) :: es => (k, substNum f x) :: substNumM f es
end

mutual
/-- no object, at any depth, has two entries with the same key -/
def DistinctKeys : JValue → Prop
  | .array xs => DistinctKeysL xs
  | .object es => DistinctKeysM es ∧ (es.map (·.1)).Nodup
  | _ => True
def DistinctKeysL : List JValue → Prop
  | [] => True
  | x :: xs => DistinctKeys x ∧ DistinctKeysL xs
def DistinctKeysM : List (List Char × JValue) → Prop
  | [] => True
  | (_, x) :: es => DistinctKeys x ∧ DistinctKeysM es
end

/-- inserting an absent key adds exactly that entry -/
theorem mapInsert_perm (lt : List Char → List Char → Bool) (k : List Char) (v : SJ SNum) :
    ∀ acc : List (List Char × SJ SNum), k ∉ acc.map (·.1) → (mapInsert lt k v acc).Perm ((k, v) :: acc)
  | [], _ => .refl _
  | (l, w) :: r, h => by
    have hkl : (k == l) = false := by
      cases hb : k == l with
      | false => rfl
      | true => simp only [beq_iff_eq] at hb; subst hb; simp at h
    have hr : k ∉ r.map (·.1) := fun hh => h (by simp at hh ⊢; exact Or.inr hh)
    simp only [mapInsert, hkl, Bool.false_eq_true, ↓reduceIte]
    split
    · exact .refl _
    · exact ((mapInsert_perm lt k v r hr).cons (l, w)).trans (List.Perm.swap _ _ _)

theorem fromSjM_eq_map (disp : SNum → List Char) :
    ∀ es : List (List Char × SJ SNum), fromSjM disp es = es.map (fun e => (e.1, fromSj disp e.2))
  | [] => rfl
  | (k, x) :: es => by simp [fromSjM, fromSjM_eq_map disp es]

/-- collecting entries with distinct keys into the map yields a rearrangement of them -/
theorem intoSjM_perm (lt : List Char → List Char → Bool) (conv : List Char → Option SNum) :
    ∀ (es : List (List Char × JValue)) (acc : List (List Char × SJ SNum)),
      (acc.map (·.1) ++ es.map (·.1)).Nodup →
      (intoSjM lt conv es acc).Perm (acc ++ es.map (fun e => (e.1, intoSj lt conv e.2)))
  | [], acc, _ => by simp [intoSjM]
  | (k, x) :: es, acc, h => by
    have hk : k ∉ acc.map (·.1) := by
      intro hh
      have := List.nodup_append.mp h
      exact this.2.2 k hh k (by simp) rfl
    have hp := mapInsert_perm lt k (intoSj lt conv x) acc hk
    have hnd : ((mapInsert lt k (intoSj lt conv x) acc).map (·.1) ++ es.map (·.1)).Nodup := by
      have hp' : ((mapInsert lt k (intoSj lt conv x) acc).map (·.1) ++ es.map (·.1)).Perm
          (acc.map (·.1) ++ ((k, x) :: es).map (·.1)) := by
        refine ((hp.map (·.1)).append_right _).trans ?_
        simp only [List.map_cons, List.cons_append]
        exact List.perm_middle.symm
      exact hp'.nodup_iff.mpr h
    rw [intoSjM]
    refine (intoSjM_perm lt conv es _ hnd).trans ?_
    refine (hp.append_right _).trans ?_
    simp only [List.map_cons, List.cons_append]
    exact List.perm_middle.symm

mutual
theorem back_permEq (lt : List Char → List Char → Bool) (disp : SNum → List Char)
    (conv : List Char → Option SNum) :
    ∀ v : JValue, DistinctKeys v →
      PermEq (substNum (numImg disp conv) v) (fromSj disp (intoSj lt conv v))
  | .null, _ => .null
  | .bool b, _ => .bool b
  | .string s, _ => .string s
  | .number n, _ => by
    simp only [substNum, numImg, intoSj]
    cases conv n with
    | none => exact .null
    | some m => exact .number _
  | .array xs, h => by
    simp only [substNum, intoSj, fromSj]
    exact .array (back_permEqL lt disp conv xs h)
  | .object es, h => by
    simp only [substNum, intoSj, fromSj]
    refine .object (PermEqM.ofPW (back_pw lt disp conv es h.1) ?_)
    have hp := intoSjM_perm lt conv es [] (by simpa using h.2)
    rw [fromSjM_eq_map, fromSjM_eq_map]
    simpa using (hp.map (fun e => (e.1, fromSj disp e.2))).symm
theorem back_permEqL (lt : List Char → List Char → Bool) (disp : SNum → List Char)
    (conv : List Char → Option SNum) :
    ∀ xs : List JValue, DistinctKeysL xs →
      PermEqL (substNumL (numImg disp conv) xs) (fromSjL disp (intoSjL lt conv xs))
  | [], _ => .nil
  | x :: xs, h => by
    simp only [substNumL, intoSjL, fromSjL]
    exact .cons (back_permEq lt disp conv x h.1) (back_permEqL lt disp conv xs h.2)
theorem back_pw (lt : List Char → List Char → Bool) (disp : SNum → List Char)
    (conv : List Char → Option SNum) :
    ∀ es : List (List Char × JValue), DistinctKeysM es →
      PW (substNumM (numImg disp conv) es)
        (fromSjM disp (es.map (fun e => (e.1, intoSj lt conv e.2))))
  | [], _ => .nil
  | (k, x) :: es, h => by
    simp only [substNumM, List.map_cons, fromSjM]
    exact .cons (back_permEq lt disp conv x h.1) (back_pw lt disp conv es h.2)
end

end JsonVerif
