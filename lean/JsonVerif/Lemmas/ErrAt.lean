import JsonVerif.Lemmas.Run
/-!
# Where errors point (C07, boundary clause)

`ErrOk l₀ p₀ bad e`: every offset carried by the error `e` is `p₀ + utf8Len w` for a prefix `w` of
the input `l₀` (a character boundary inside the input), an `Unexpected(p, c)` carries the character
found at that offset (`None` exactly at the end of the input), and a stream error sits at the end
of the characters delivered by a failing stream. Proved for every lexical function and lifted to
the whole machine by functional induction.
-/
namespace JsonVerif

def Bdry (l₀ : List Char) (p₀ p : Nat) : Prop := ∃ w r, l₀ = w ++ r ∧ p = p₀ + utf8Len w
def BdryC (l₀ : List Char) (p₀ p : Nat) (c : Option Char) : Prop :=
  ∃ w r, l₀ = w ++ r ∧ p = p₀ + utf8Len w ∧ c = r.head?

def ErrOk (l₀ : List Char) (p₀ : Nat) (bad : Bool) : PErr → Prop
  | .unexpected p c => BdryC l₀ p₀ p c
  | .stream p => bad = true ∧ p = p₀ + utf8Len l₀
  | .invalidCodePoint s e _ => Bdry l₀ p₀ s ∧ Bdry l₀ p₀ e ∧ s ≤ e
  | .missingLow s e _ => Bdry l₀ p₀ s ∧ Bdry l₀ p₀ e ∧ s ≤ e
  | .invalidLow s e _ _ => Bdry l₀ p₀ s ∧ Bdry l₀ p₀ e ∧ s ≤ e
  | .panic => True

theorem Bdry.lift {l₀ p₀ l p q} (h : AdvL l₀ p₀ l p) (hb : Bdry l p q) : Bdry l₀ p₀ q := by
  obtain ⟨w0, e0, q0⟩ := h
  obtain ⟨w, r, e, hq⟩ := hb
  exact ⟨w0 ++ w, r, by rw [e0, e]; simp, by rw [hq, q0]; simp; omega⟩

theorem BdryC.lift {l₀ p₀ l p q c} (h : AdvL l₀ p₀ l p) (hb : BdryC l p q c) : BdryC l₀ p₀ q c := by
  obtain ⟨w0, e0, q0⟩ := h
  obtain ⟨w, r, e, hq, hc⟩ := hb
  exact ⟨w0 ++ w, r, by rw [e0, e]; simp, by rw [hq, q0]; simp; omega, hc⟩

theorem Bdry.here (l : List Char) (p : Nat) : Bdry l p p := ⟨[], l, rfl, by simp⟩
theorem Bdry.of_adv {l₀ p₀ l p} (h : AdvL l₀ p₀ l p) : Bdry l₀ p₀ p := (Bdry.here l p).lift h
theorem Bdry.le {l₀ p₀ p} (h : Bdry l₀ p₀ p) : p₀ ≤ p := by obtain ⟨_, _, _, e⟩ := h; omega
theorem BdryC.here (l : List Char) (p : Nat) : BdryC l p p l.head? := ⟨[], l, rfl, by simp, rfl⟩

theorem ErrOk.lift {l₀ p₀ l p bad e} (h : AdvL l₀ p₀ l p) (he : ErrOk l p bad e) : ErrOk l₀ p₀ bad e := by
  cases e with
  | unexpected q c => exact BdryC.lift h he
  | stream q =>
    obtain ⟨w0, e0, q0⟩ := h
    exact ⟨he.1, by rw [he.2, q0, e0]; simp; omega⟩
  | invalidCodePoint s e _ => exact ⟨he.1.lift h, he.2.1.lift h, he.2.2⟩
  | missingLow s e _ => exact ⟨he.1.lift h, he.2.1.lift h, he.2.2⟩
  | invalidLow s e _ _ => exact ⟨he.1.lift h, he.2.1.lift h, he.2.2⟩
  | panic => trivial

/-- on parser states -/
def ErrOkS (s : PS) (e : PErr) : Prop := ErrOk s.rest s.pos s.bad e

theorem ErrOkS.lift {s s' : PS} {e : PErr} (h : Adv s s') (he : ErrOkS s' e) : ErrOkS s e := by
  unfold ErrOkS at *; rw [← h.2.1]; exact ErrOk.lift h.1 he

theorem eofErr_ok (s : PS) (h : s.rest = []) : ErrOkS s s.eofErr := by
  unfold PS.eofErr ErrOkS
  split
  · rename_i hb; exact ⟨hb, by simp [h]⟩
  · rw [h]; exact BdryC.here [] s.pos

theorem eofErrAt_ok (bad : Bool) (pos : Nat) : ErrOk [] pos bad (eofErrAt bad pos) := by
  unfold eofErrAt
  split
  · rename_i hb; exact ⟨hb, by simp⟩
  · exact BdryC.here [] pos

theorem skipWs_err {s : PS} {e : PErr} (h : skipWs s = .error e) : ErrOkS s e := by
  unfold skipWs at h
  simp only at h
  split at h
  · rename_i hc
    cases h
    simp only [Bool.and_eq_true, List.isEmpty_iff] at hc
    have ha := skipWsL_adv s.rest s.pos
    rw [hc.1] at ha
    obtain ⟨w, ew, qw⟩ := ha
    exact ⟨hc.2, by rw [qw, ew]; simp⟩
  · cases h

theorem expectChar_err {c : Char} {s : PS} {e : PErr} (h : expectChar c s = .error e) : ErrOkS s e := by
  unfold expectChar at h
  split at h
  · rename_i hr; cases h; exact eofErr_ok s hr
  · rename_i d r hr
    split at h
    · cases h
    · cases h; unfold ErrOkS; rw [hr]; exact BdryC.here _ _

theorem expectChars_err {cs : List Char} {s : PS} {e : PErr} (h : expectChars cs s = .error e) :
    ErrOkS s e := by
  induction cs generalizing s with
  | nil => simp [expectChars] at h
  | cons c cs ih =>
    simp only [expectChars] at h
    split at h
    · rename_i e' h1; cases h; exact expectChar_err h1
    · rename_i s1 h1; exact (ih h).lift (expectChar_adv h1)

theorem endFragment_err {s : PS} {i : Nat} {e : PErr} (h : s.endFragment i = .error e) : e = .panic := by
  unfold PS.endFragment at h
  split at h
  · cases h
  · cases h; rfl

theorem lexNull_err {s : PS} {e : PErr} (h : lexNull s = .error e) : ErrOkS s e := by
  unfold lexNull at h
  simp only [PS.beginFragment_fst, PS.beginFragment_snd] at h
  split at h
  · rename_i e' h1; cases h; exact (expectChars_err h1).lift (adv_begin s)
  · rw [endFragment_err h]; trivial

theorem lexBool_err {s : PS} {e : PErr} (h : lexBool s = .error e) : ErrOkS s e := by
  unfold lexBool at h
  simp only [PS.beginFragment_fst, PS.beginFragment_snd] at h
  split at h
  · rename_i hr; cases h; exact (eofErr_ok s.reserve hr).lift (adv_begin s)
  · rename_i d r hr
    split at h
    · split at h
      · rename_i e' h1; cases h; exact (expectChars_err h1).lift (adv_begin s)
      · split at h
        · rename_i h2; cases h; rw [endFragment_err h2]; trivial
        · cases h
    · split at h
      · split at h
        · rename_i e' h1; cases h; exact (expectChars_err h1).lift (adv_begin s)
        · split at h
          · rename_i h2; cases h; rw [endFragment_err h2]; trivial
          · cases h
      · cases h
        have : ErrOkS s.reserve (.unexpected s.reserve.pos (some d)) := by
          unfold ErrOkS; rw [hr]; exact BdryC.here _ _
        exact this.lift (adv_begin s)

theorem numLoop_err {ctx : Ctx} {st : NumState} {buf l : List Char} {pos : Nat} {bad : Bool} {e : PErr}
    (h : numLoop ctx st buf l pos = .error e) : ErrOk l pos bad e := by
  induction l generalizing st buf pos with
  | nil => simp [numLoop] at h
  | cons c r ih =>
    simp only [numLoop] at h
    split at h
    · exact ErrOk.lift (AdvL.cons c r pos) (ih h)
    · cases h
    · cases h; exact BdryC.here _ _

theorem lexNumber_err {ctx : Ctx} {s : PS} {e : PErr} (h : lexNumber ctx s = .error e) : ErrOkS s e := by
  unfold lexNumber at h
  simp only [PS.beginFragment_fst, PS.beginFragment_snd] at h
  split at h
  · rename_i e' h1; cases h
    exact (show ErrOkS s.reserve e from numLoop_err h1).lift (adv_begin s)
  · rename_i st buf r pos hv
    obtain ⟨w, ew, qw, _⟩ := numLoop_adv hv
    have hadv : AdvL s.rest s.pos r pos := ⟨w, by simpa using ew, by simpa using qw⟩
    split at h
    · rename_i hb
      cases h
      simp only [Bool.and_eq_true, List.isEmpty_iff] at hb
      unfold ErrOkS
      refine ErrOk.lift hadv ?_
      rw [hb.1]
      exact ⟨by simpa using hb.2, by simp⟩
    · split at h
      · split at h
        · rename_i h2; cases h; rw [endFragment_err h2]; trivial
        · cases h
      · cases h
        rename_i hb _
        unfold ErrOkS
        refine ErrOk.lift hadv ?_
        -- peek returned None: the remaining input is empty
        cases r with
        | nil => exact BdryC.here [] pos
        | cons c r' =>
          -- the loop only stops before a character with `.stop`; then the state is accepting
          exfalso
          have : st.accepting = true := by
            -- numLoop stops on `c :: r'` only through a `.stop` transition
            have key : ∀ (l : List Char) (st0 : NumState) (buf0 : List Char) (p0 : Nat),
                numLoop ctx st0 buf0 l p0 = .ok (st, buf, c :: r', pos) → st.accepting = true := by
              intro l
              induction l with
              | nil => intro st0 buf0 p0 hh; simp [numLoop] at hh
              | cons d l ih =>
                intro st0 buf0 p0 hh
                simp only [numLoop] at hh
                split at hh
                · exact ih _ _ _ hh
                · rename_i ht
                  cases hh
                  revert ht
                  cases st <;> simp only [numTrans, NumState.accepting] <;> (repeat' split) <;> simp
                · cases hh
            exact key _ _ _ _ hv
          simp_all

end JsonVerif

namespace JsonVerif

theorem hexDigitAt_err {bad : Bool} {l : List Char} {pos : Nat} {e : PErr}
    (h : hexDigitAt bad l pos = .error e) : ErrOk l pos bad e := by
  unfold hexDigitAt at h
  split at h
  · cases h; exact eofErrAt_ok bad pos
  · split at h
    · cases h
    · cases h; exact BdryC.here _ _

theorem hex4_err {bad : Bool} {l : List Char} {pos : Nat} {e : PErr}
    (h : hex4 bad l pos = .error e) : ErrOk l pos bad e := by
  unfold hex4 at h
  split at h
  · rename_i e1; cases h; exact hexDigitAt_err e1
  · rename_i e1
    split at h
    · rename_i e2; cases h; exact ErrOk.lift (hexDigitAt_adv e1) (hexDigitAt_err e2)
    · rename_i e2
      split at h
      · rename_i e3; cases h
        exact ErrOk.lift ((hexDigitAt_adv e1).trans (hexDigitAt_adv e2)) (hexDigitAt_err e3)
      · rename_i e3
        split at h
        · rename_i e4; cases h
          exact ErrOk.lift ((hexDigitAt_adv e1).trans ((hexDigitAt_adv e2).trans (hexDigitAt_adv e3)))
            (hexDigitAt_err e4)
        · cases h

/-- the pending high surrogate was seen at a character boundary not after the current position -/
def HighOk (l₀ : List Char) (p₀ pos : Nat) (high : Option (Nat × Nat)) : Prop :=
  ∀ ph h, high = some (ph, h) → Bdry l₀ p₀ ph ∧ ph ≤ pos

theorem HighOk.none (l₀ : List Char) (p₀ pos : Nat) : HighOk l₀ p₀ pos none := by
  intro ph h hh; cases hh

/-- what one step of the string scanner guarantees, relative to the whole input `(l₀, p₀)` -/
def StepOk (l₀ : List Char) (p₀ : Nat) (bad : Bool) : StrStep → Prop
  | .err e => ErrOk l₀ p₀ bad e
  | .more _ hi r p => AdvL l₀ p₀ r p ∧ HighOk l₀ p₀ p hi
  | .done _ r p _ => AdvL l₀ p₀ r p

theorem noHigh_ok {o : ParseOptions} {acc : List Char} {pe cp : Nat} {r : List Char} {pos : Nat}
    {l₀ : List Char} {p₀ : Nat} {bad : Bool}
    (hpe : Bdry l₀ p₀ pe) (hle : pe ≤ pos) (hadv : AdvL l₀ p₀ r pos) :
    StepOk l₀ p₀ bad (noHigh o acc pe cp r pos) := by
  unfold noHigh
  split
  · refine ⟨hadv, ?_⟩
    intro ph h hh; cases hh; exact ⟨hpe, hle⟩
  · split
    · exact ⟨hadv, HighOk.none _ _ _⟩
    · split
      · exact ⟨hadv, HighOk.none _ _ _⟩
      · exact ⟨hpe, Bdry.of_adv hadv, hle⟩

theorem flushChar_ok {o : ParseOptions} {acc : List Char} {high : Option (Nat × Nat)} {c : Char}
    {r : List Char} {pos pn : Nat} {l₀ : List Char} {p₀ : Nat} {bad : Bool}
    (hh : HighOk l₀ p₀ pn high) (hpn : Bdry l₀ p₀ pn) (hadv : AdvL l₀ p₀ r pos) :
    StepOk l₀ p₀ bad (flushChar o acc high c r pos pn) := by
  unfold flushChar
  split
  · exact ⟨hadv, HighOk.none _ _ _⟩
  · rename_i ph h
    split
    · exact ⟨hadv, HighOk.none _ _ _⟩
    · have := hh ph h rfl
      exact ⟨this.1, hpn, this.2⟩

theorem strEscU_ok {o : ParseOptions} {bad : Bool} {acc : List Char} {high : Option (Nat × Nat)}
    {r2 : List Char} {pe pos : Nat} {l₀ : List Char} {p₀ : Nat}
    (hh : HighOk l₀ p₀ pe high) (hpe : Bdry l₀ p₀ pe) (hle : pe ≤ pos) (hadv : AdvL l₀ p₀ r2 pos) :
    StepOk l₀ p₀ bad (strEscU o bad acc high r2 pe pos) := by
  unfold strEscU
  split
  · rename_i e h4; exact ErrOk.lift hadv (hex4_err h4)
  · rename_i cp r3 pos3 h4
    have a4 := hex4_adv h4
    have hadv3 := hadv.trans a4
    have hle3 : pe ≤ pos3 := by obtain ⟨w, _, q⟩ := a4; omega
    split
    · rename_i ph h
      have hph := hh ph h rfl
      split
      · split
        · exact ⟨hadv3, HighOk.none _ _ _⟩
        · split
          · exact ⟨hadv3, HighOk.none _ _ _⟩
          · exact ⟨hph.1, Bdry.of_adv hadv3, by omega⟩
      · split
        · exact noHigh_ok hpe hle3 hadv3
        · exact ⟨hpe, Bdry.of_adv hadv3, hle3⟩
    · exact noHigh_ok hpe hle3 hadv3

theorem strEsc_ok {o : ParseOptions} {bad : Bool} {acc : List Char} {high : Option (Nat × Nat)}
    {r : List Char} {pos pn : Nat} {l₀ : List Char} {p₀ : Nat}
    (hh : HighOk l₀ p₀ pn high) (hpn : Bdry l₀ p₀ pn) (hle : pn ≤ pos) (hadv : AdvL l₀ p₀ r pos) :
    StepOk l₀ p₀ bad (strEsc o bad acc high r pos pn) := by
  unfold strEsc
  split
  · exact ErrOk.lift hadv (eofErrAt_ok bad pos)
  · rename_i e r2
    have hadv2 := hadv.trans (AdvL.cons e r2 pos)
    split
    · -- \u : the escape's recorded offset is the offset of the `u`
      have hh' : HighOk l₀ p₀ pos high := by
        intro ph h hhh; have := hh ph h hhh; exact ⟨this.1, by omega⟩
      exact strEscU_ok hh' (Bdry.of_adv hadv) (by omega) hadv2
    · split
      · exact flushChar_ok hh hpn hadv2
      · exact BdryC.lift hadv (BdryC.here _ _)

theorem strStep_ok {o : ParseOptions} {bad : Bool} {acc : List Char} {high : Option (Nat × Nat)}
    {l : List Char} {pos : Nat} {l₀ : List Char} {p₀ : Nat}
    (hh : HighOk l₀ p₀ pos high) (hadv : AdvL l₀ p₀ l pos) :
    StepOk l₀ p₀ bad (strStep o bad acc high l pos) := by
  unfold strStep
  split
  · exact ErrOk.lift hadv (eofErrAt_ok bad pos)
  · rename_i c r
    have hadv1 := hadv.trans (AdvL.cons c r pos)
    split
    · split
      · exact hadv1
      · rename_i ph h
        split
        · exact hadv1
        · have := hh ph h rfl
          exact ⟨this.1, Bdry.of_adv hadv, this.2⟩
    · split
      · exact strEsc_ok hh (Bdry.of_adv hadv) (by omega) hadv1
      · split
        · exact BdryC.lift hadv (BdryC.here _ _)
        · exact flushChar_ok hh (Bdry.of_adv hadv) hadv1

theorem strLoopAux_err {o : ParseOptions} {bad : Bool} {l₀ : List Char} {p₀ : Nat} (fuel : List Char) :
    ∀ {acc : List Char} {high : Option (Nat × Nat)} {l : List Char} {pos : Nat} {e : PErr},
      HighOk l₀ p₀ pos high → AdvL l₀ p₀ l pos →
      strLoopAux o bad fuel acc high l pos = .error e → ErrOk l₀ p₀ bad e := by
  induction fuel with
  | nil =>
    intro acc high l pos e hh hadv h
    rw [strLoopAux] at h
    have hs := strStep_ok (o := o) (bad := bad) (acc := acc) hh hadv
    split at h
    · cases h
    · rename_i e' he; cases h; rw [he] at hs; exact hs
    · cases h; trivial
  | cons c fuel ih =>
    intro acc high l pos e hh hadv h
    rw [strLoopAux] at h
    have hs := strStep_ok (o := o) (bad := bad) (acc := acc) hh hadv
    split at h
    · cases h
    · rename_i e' he; cases h; rw [he] at hs; exact hs
    · rename_i he; rw [he] at hs; exact ih hs.2 hs.1 h

theorem lexString_err {o : ParseOptions} {s : PS} {e : PErr} (h : lexString o s = .error e) :
    ErrOkS s e := by
  unfold lexString at h
  simp only [PS.beginFragment_fst, PS.beginFragment_snd] at h
  split at h
  · rename_i hr; cases h; exact (eofErr_ok s.reserve hr).lift (adv_begin s)
  · rename_i d r hr
    simp only [beginFragment_rest] at hr
    split at h
    · split at h
      · rename_i e' h1
        cases h
        unfold ErrOkS
        have : ErrOk s.rest s.pos s.reserve.bad e :=
          strLoopAux_err (l₀ := s.rest) (p₀ := s.pos) r (HighOk.none _ _ _)
            (by rw [hr]; exact AdvL.cons d r s.pos) h1
        exact this
      · split at h
        · rename_i h2; cases h; rw [endFragment_err h2]; trivial
        · cases h
    · cases h
      unfold ErrOkS
      rw [hr]; exact BdryC.here _ _

theorem lexKeyColon_err {o : ParseOptions} {s : PS} {e : PErr} (h : lexKeyColon o s = .error e) :
    ErrOkS s e := by
  unfold lexKeyColon at h
  simp only [PS.beginFragment_fst, PS.beginFragment_snd] at h
  split at h
  · rename_i e' h1; cases h; exact (lexString_err h1).lift (adv_begin s)
  · rename_i key s1 hv
    have a1 := (adv_begin s).trans (lexString_adv hv)
    split at h
    · rename_i e' h2; cases h; exact (skipWs_err h2).lift a1
    · rename_i s2 h2
      split at h
      · rename_i e' h3; cases h; exact (expectChar_err h3).lift (a1.trans (skipWs_adv h2))
      · cases h

theorem startArray_err {s : PS} {e : PErr} (h : startArray s = .error e) : ErrOkS s e := by
  unfold startArray at h
  simp only [PS.beginFragment_fst, PS.beginFragment_snd] at h
  split at h
  · rename_i e' h1; cases h; exact (expectChar_err h1).lift (adv_begin s)
  · rename_i s1 h1
    have a1 := (adv_begin s).trans (expectChar_adv h1)
    split at h
    · rename_i e' h2; cases h; exact (skipWs_err h2).lift a1
    · split at h
      · split at h
        · split at h
          · rename_i h3; cases h; rw [endFragment_err h3]; trivial
          · cases h
        · cases h
      · cases h

theorem startObjectKey_err {o : ParseOptions} {i : Nat} {s : PS} {e : PErr}
    (h : startObjectKey o i s = .error e) : ErrOkS s e := by
  unfold startObjectKey at h
  split at h
  · rename_i e' h1; cases h; exact lexKeyColon_err h1
  · cases h

theorem startObject_err {o : ParseOptions} {s : PS} {e : PErr} (h : startObject o s = .error e) :
    ErrOkS s e := by
  unfold startObject at h
  simp only [PS.beginFragment_fst, PS.beginFragment_snd] at h
  split at h
  · rename_i e' h1; cases h; exact (expectChar_err h1).lift (adv_begin s)
  · rename_i s1 h1
    have a1 := (adv_begin s).trans (expectChar_adv h1)
    split at h
    · rename_i e' h2; cases h; exact (skipWs_err h2).lift a1
    · rename_i s2 h2
      have a2 := a1.trans (skipWs_adv h2)
      split at h
      · split at h
        · split at h
          · rename_i h3; cases h; rw [endFragment_err h3]; trivial
          · cases h
        · exact (startObjectKey_err h).lift a2
      · exact (startObjectKey_err h).lift a2

theorem parseFragment_err {o : ParseOptions} {ctx : Ctx} {s : PS} {e : PErr}
    (h : parseFragment o ctx s = .error e) : ErrOkS s e := by
  unfold parseFragment at h
  split at h
  · rename_i e' h0; cases h; exact skipWs_err h0
  · rename_i s0 h0
    have a0 := skipWs_adv h0
    split at h
    · rename_i hr; cases h; exact (eofErr_ok s0 hr).lift a0
    · rename_i c tl hr
      repeat' (split at h)
      all_goals (first | (cases h; done) | skip)
      · rename_i h1; cases h; exact (lexNull_err h1).lift a0
      · rename_i h1; cases h; exact (lexBool_err h1).lift a0
      · rename_i h1; cases h; exact (lexNumber_err h1).lift a0
      · rename_i h1; cases h; exact (lexString_err h1).lift a0
      · exact (startArray_err h).lift a0
      · exact (startObject_err h).lift a0
      · cases h
        have : ErrOkS s0 (.unexpected s0.pos (some c)) := by
          unfold ErrOkS; rw [hr]; exact BdryC.here _ _
        exact this.lift a0

theorem contArray_err {i : Nat} {s : PS} {e : PErr} (h : contArray i s = .error e) : ErrOkS s e := by
  unfold contArray at h
  split at h
  · rename_i e' h0; cases h; exact skipWs_err h0
  · rename_i s0 h0
    have a0 := skipWs_adv h0
    split at h
    · rename_i hr; cases h; exact (eofErr_ok s0 hr).lift a0
    · rename_i d r hr
      split at h
      · cases h
      · split at h
        · split at h
          · rename_i h1; cases h; rw [endFragment_err h1]; trivial
          · cases h
        · cases h
          have : ErrOkS s0 (.unexpected s0.pos (some d)) := by
            unfold ErrOkS; rw [hr]; exact BdryC.here _ _
          exact this.lift a0

theorem contObject_err {o : ParseOptions} {i : Nat} {s : PS} {e : PErr}
    (h : contObject o i s = .error e) : ErrOkS s e := by
  unfold contObject at h
  split at h
  · rename_i e' h0; cases h; exact skipWs_err h0
  · rename_i s0 h0
    have a0 := skipWs_adv h0
    split at h
    · rename_i hr; cases h; exact (eofErr_ok s0 hr).lift a0
    · rename_i d r hr
      have a1 := a0.trans (adv_adv hr)
      split at h
      · split at h
        · rename_i e' h1; cases h; exact (skipWs_err h1).lift a1
        · rename_i s1 h1
          split at h
          · rename_i e' h2; cases h; exact (lexKeyColon_err h2).lift (a1.trans (skipWs_adv h1))
          · cases h
      · split at h
        · split at h
          · rename_i h1; cases h; rw [endFragment_err h1]; trivial
          · cases h
        · cases h
          have : ErrOkS s0 (.unexpected s0.pos (some d)) := by
            unfold ErrOkS; rw [hr]; exact BdryC.here _ _
          exact this.lift a0

/-- **Every error of the machine points into the input at a character boundary.** -/
theorem run_err {o : ParseOptions} {stack : List StackItem} {value : Option JValue} {s : PS}
    {e : PErr} (h : run o stack value s = .error e) : ErrOkS s e := by
  fun_induction run o stack value s
  case case1 hws => cases h; exact skipWs_err hws
  case case2 s1 hws c tl hr =>
    cases h
    have : ErrOkS s1 (.unexpected s1.pos (some c)) := by
      unfold ErrOkS; rw [hr]; exact BdryC.here _ _
    exact this.lift (skipWs_adv hws)
  case case3 => cases h
  case case4 h1 => cases h; exact parseFragment_err h1
  case case5 h1 ih => exact (ih h).lift (parseFragment_adv h1)
  case case6 h1 ih => exact (ih h).lift (parseFragment_adv h1)
  case case7 h1 ih => exact (ih h).lift (parseFragment_adv h1)
  case case8 h1 => cases h; exact contArray_err h1
  case case9 h1 ih => exact (ih h).lift (contArray_adv h1)
  case case10 h1 ih => exact (ih h).lift (contArray_adv h1)
  case case11 ih => exact ih h
  case case12 h1 => cases h; exact parseFragment_err h1
  case case13 h1 ih => exact (ih h).lift (parseFragment_adv h1)
  case case14 h1 ih => exact (ih h).lift (parseFragment_adv h1)
  case case15 h1 ih => exact (ih h).lift (parseFragment_adv h1)
  case case16 h1 => cases h; exact contObject_err h1
  case case17 h1 ih => exact (ih h).lift (contObject_adv h1)
  case case18 h1 ih => exact (ih h).lift (contObject_adv h1)
  case case19 h1 => cases h; rw [endFragment_err h1]; trivial
  case case20 h1 ih => exact (ih h).lift (adv_end h1)
  case case21 h1 => cases h; exact parseFragment_err h1
  case case22 =>
    cases h
    have hp := endFragment_err ‹PS.endFragment _ _ = Except.error _›
    rw [hp]; trivial
  case case23 ih =>
    exact (ih h).lift ((parseFragment_adv ‹parseFragment _ _ _ = _›).trans (adv_end ‹PS.endFragment _ _ = _›))
  case case24 h1 ih => exact (ih h).lift (parseFragment_adv h1)
  case case25 h1 ih => exact (ih h).lift (parseFragment_adv h1)

end JsonVerif
