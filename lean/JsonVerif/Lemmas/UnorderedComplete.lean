import JsonVerif.Lemmas.PermEqLaws
import JsonVerif.Lemmas.Unordered
/-!
# Completeness of `unordered_eq` (C15): the greedy one-to-one matching never misses

Values related by `PermEq` form equivalence classes (`PermEq.symm`, `PermEq.trans`), so taking the
FIRST not-yet-paired entry of `other` with the same key and a related value is as good as taking any.
-/
namespace JsonVerif

theorem ueqPick_of_mem {f : JValue → Bool} {k : List Char} {y : JValue} :
    ∀ {b : List Entry}, (k, y) ∈ b → f y = true → ∃ b', ueqPick f k b = some b'
  | [], h, _ => by cases h
  | (l, z) :: b, h, hf => by
    simp only [ueqPick]
    split
    · exact ⟨b, rfl⟩
    · rename_i hne
      rcases List.mem_cons.mp h with e | e
      · cases e; simp [hf] at hne
      · obtain ⟨b', hb'⟩ := ueqPick_of_mem e hf
        exact ⟨(l, z) :: b', by simp [hb']⟩

/-- replace the value of one right-hand entry by a value with the same partners -/
theorem PW.replace {y y' : JValue} {k : List Char} (hrel : ∀ z, PermEq z y' → PermEq z y) :
    ∀ {a d1 d2 : List Entry}, PW a (d1 ++ (k, y') :: d2) → PW a (d1 ++ (k, y) :: d2)
  | _, [], _, h => by
    cases h with
    | cons hxy hrest => exact .cons (hrel _ hxy) hrest
  | _, e :: d1, _, h => by
    cases h with
    | cons hxy hrest => exact .cons hxy (PW.replace hrel hrest)

mutual
theorem ueq_complete : ∀ (a b : JValue), PermEq a b → ueq a b = true
  | .null, _, h => by cases h; rfl
  | .bool _, _, h => by cases h; simp [ueq]
  | .number _, _, h => by cases h; simp [ueq]
  | .string _, _, h => by cases h; simp [ueq]
  | .array xs, _, h => by
    cases h with
    | array hl => simp [ueq, ueqL_complete xs _ hl]
  | .object es, _, h => by
    cases h with
    | object hm =>
      simp only [ueq, Bool.and_eq_true, beq_iff_eq]
      exact ⟨hm.length, ueqM_complete es _ hm⟩
theorem ueqL_complete : ∀ (a b : List JValue), PermEqL a b → ueqL a b = true
  | [], _, h => by cases h; rfl
  | x :: xs, _, h => by
    cases h with
    | cons hxy hrest => simp [ueqL, ueq_complete x _ hxy, ueqL_complete xs _ hrest]
theorem ueqM_complete : ∀ (a b : List Entry), PermEqM a b → ueqM a b = true
  | [], _, _ => rfl
  | (k, x) :: a, b, h => by
    obtain ⟨b', hpw, hp⟩ := h.toPW
    cases hpw with
    | @cons _ _ y _ b0 hxy hpw0 =>
      have hmem : (k, y) ∈ b := hp.subset List.mem_cons_self
      obtain ⟨b'', hpick⟩ := ueqPick_of_mem (f := ueq x) hmem (ueq_complete x y hxy)
      obtain ⟨c1, y', c2, hb, hfy', hb''⟩ := ueqPick_some hpick
      simp only [ueqM, hpick]
      apply ueqM_complete a b''
      subst hb''
      -- (k,y) :: b0 ~ (k,y') :: (c1 ++ c2)
      have hperm : ((k, y) :: b0).Perm ((k, y') :: (c1 ++ c2)) := by
        rw [hb] at hp; exact hp.trans List.perm_middle
      by_cases hyy : y' = y
      · subst hyy
        exact PermEqM.ofPW hpw0 ((List.perm_cons _).mp hperm)
      · -- the picked entry is another one: it sits in b0, and (k,y) sits in c1 ++ c2
        have hm' : (k, y') ∈ b0 := by
          have : (k, y') ∈ (k, y) :: b0 := hperm.symm.subset List.mem_cons_self
          rcases List.mem_cons.mp this with e | e
          · cases e; exact absurd rfl hyy
          · exact e
        obtain ⟨d1, d2, rfl⟩ := List.append_of_mem hm'
        -- everything related to y' is related to y
        have hxy' : PermEq x y' := ueq_sound x y' hfy'
        have hrel : ∀ z, PermEq z y' → PermEq z y := fun z hz =>
          PermEq.trans z y' y hz (PermEq.trans y' x y (PermEq.symm x y' hxy') hxy)
        have hpw1 := PW.replace (k := k) hrel hpw0
        refine PermEqM.ofPW hpw1 ?_
        -- d1 ++ (k,y) :: d2 ~ c1 ++ c2
        have h1 : ((k, y) :: (k, y') :: (d1 ++ d2)).Perm ((k, y') :: (c1 ++ c2)) :=
          ((List.Perm.cons _ List.perm_middle.symm)).trans hperm
        have h2 : ((k, y') :: (k, y) :: (d1 ++ d2)).Perm ((k, y') :: (c1 ++ c2)) :=
          (List.Perm.swap _ _ _).trans h1
        exact List.perm_middle.trans ((List.perm_cons _).mp h2)
end

/-- **`unordered_eq` is exactly equality up to permutation of object entries** -/
theorem ueq_iff (a b : JValue) : ueq a b = true ↔ PermEq a b :=
  ⟨ueq_sound a b, ueq_complete a b⟩

end JsonVerif
