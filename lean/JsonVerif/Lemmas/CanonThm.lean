import JsonVerif.Lemmas.CanonLaws
import JsonVerif.Spec.PermEq
/-! # Canonical form: sorted at every depth, idempotent, blind to member order (C09 structure, C10) -/
namespace JsonVerif

theorem canonM_eq_map (nc : List Char → List Char) :
    ∀ es, canonM nc es = es.map (fun e => (e.1, canon nc e.2))
  | [] => rfl
  | (k, x) :: es => by simp [canonM, canonM_eq_map nc es]

theorem canonL_eq_map (nc : List Char → List Char) : ∀ xs, canonL nc xs = xs.map (canon nc)
  | [] => rfl
  | x :: xs => by simp [canonL, canonL_eq_map nc xs]

-- "members sorted by UTF-16 key order at every level"
mutual
def AllSorted : JValue → Prop
  | .array xs => AllSortedL xs
  | .object es => es.Pairwise (fun a b => canonEntryLe a b = true) ∧ AllSortedM es
  | _ => True
def AllSortedL : List JValue → Prop
  | [] => True
  | x :: xs => AllSorted x ∧ AllSortedL xs
def AllSortedM : List (List Char × JValue) → Prop
  | [] => True
  | (_, x) :: es => AllSorted x ∧ AllSortedM es
end

theorem allSortedM_iff : ∀ {es : List (List Char × JValue)}, AllSortedM es ↔ ∀ e ∈ es, AllSorted e.2
  | [] => by simp [AllSortedM]
  | (k, x) :: es => by simp [AllSortedM, allSortedM_iff (es := es)]

mutual
theorem canon_allSorted (nc : List Char → List Char) : ∀ v, AllSorted (canon nc v)
  | .null => trivial
  | .bool _ => trivial
  | .number _ => trivial
  | .string _ => trivial
  | .array xs => by simp only [canon, AllSorted]; exact canonL_allSorted nc xs
  | .object es => by
    simp only [canon, AllSorted]
    refine ⟨sortCanon_sorted _, ?_⟩
    rw [allSortedM_iff]
    intro e he
    rw [List.mem_mergeSort] at he
    exact (allSortedM_iff.mp (canonM_allSorted nc es)) e he
theorem canonL_allSorted (nc : List Char → List Char) : ∀ xs, AllSortedL (canonL nc xs)
  | [] => trivial
  | x :: xs => ⟨canon_allSorted nc x, canonL_allSorted nc xs⟩
theorem canonM_allSorted (nc : List Char → List Char) : ∀ es, AllSortedM (canonM nc es)
  | [] => trivial
  | (_, x) :: es => ⟨canon_allSorted nc x, canonM_allSorted nc es⟩
end

-- every number of the value is a fixed point of `nc`
mutual
def NumsFixed (nc : List Char → List Char) : JValue → Prop
  | .number n => nc n = n
  | .array xs => NumsFixedL nc xs
  | .object es => NumsFixedM nc es
  | _ => True
def NumsFixedL (nc : List Char → List Char) : List JValue → Prop
  | [] => True
  | x :: xs => NumsFixed nc x ∧ NumsFixedL nc xs
def NumsFixedM (nc : List Char → List Char) : List (List Char × JValue) → Prop
  | [] => True
  | (_, x) :: es => NumsFixed nc x ∧ NumsFixedM nc es
end

theorem numsFixedM_iff {nc : List Char → List Char} :
    ∀ {es : List (List Char × JValue)}, NumsFixedM nc es ↔ ∀ e ∈ es, NumsFixed nc e.2
  | [] => by simp [NumsFixedM]
  | (k, x) :: es => by simp [NumsFixedM, numsFixedM_iff (es := es)]

mutual
theorem canon_numsFixed (nc : List Char → List Char) (hnc : ∀ n, nc (nc n) = nc n) :
    ∀ v, NumsFixed nc (canon nc v)
  | .null => trivial
  | .bool _ => trivial
  | .number n => hnc n
  | .string _ => trivial
  | .array xs => by simp only [canon, NumsFixed]; exact canonL_numsFixed nc hnc xs
  | .object es => by
    simp only [canon, NumsFixed]
    rw [numsFixedM_iff]
    intro e he
    rw [List.mem_mergeSort] at he
    exact (numsFixedM_iff.mp (canonM_numsFixed nc hnc es)) e he
theorem canonL_numsFixed (nc : List Char → List Char) (hnc : ∀ n, nc (nc n) = nc n) :
    ∀ xs, NumsFixedL nc (canonL nc xs)
  | [] => trivial
  | x :: xs => ⟨canon_numsFixed nc hnc x, canonL_numsFixed nc hnc xs⟩
theorem canonM_numsFixed (nc : List Char → List Char) (hnc : ∀ n, nc (nc n) = nc n) :
    ∀ es, NumsFixedM nc (canonM nc es)
  | [] => trivial
  | (_, x) :: es => ⟨canon_numsFixed nc hnc x, canonM_numsFixed nc hnc es⟩
end

mutual
/-- a value that is already sorted at every depth and whose numbers are already canonical is a
    fixed point of canonicalization -/
theorem canon_fixed (nc : List Char → List Char) :
    ∀ v, AllSorted v → NumsFixed nc v → canon nc v = v
  | .null, _, _ => rfl
  | .bool _, _, _ => rfl
  | .number n, _, h => by simp only [canon]; rw [h]
  | .string _, _, _ => rfl
  | .array xs, hs, hn => by
    simp only [canon]; rw [canonL_fixed nc xs hs hn]
  | .object es, hs, hn => by
    simp only [canon]
    rw [canonM_fixed nc es hs.2 hn, List.mergeSort_of_pairwise hs.1]
theorem canonL_fixed (nc : List Char → List Char) :
    ∀ xs, AllSortedL xs → NumsFixedL nc xs → canonL nc xs = xs
  | [], _, _ => rfl
  | x :: xs, hs, hn => by
    simp only [canonL]; rw [canon_fixed nc x hs.1 hn.1, canonL_fixed nc xs hs.2 hn.2]
theorem canonM_fixed (nc : List Char → List Char) :
    ∀ es, AllSortedM es → NumsFixedM nc es → canonM nc es = es
  | [], _, _ => rfl
  | (k, x) :: es, hs, hn => by
    simp only [canonM]; rw [canon_fixed nc x hs.1 hn.1, canonM_fixed nc es hs.2 hn.2]
end

/-- **Idempotence** (given that the number canonicalizer is idempotent). -/
theorem canon_idem (nc : List Char → List Char) (hnc : ∀ n, nc (nc n) = nc n) (v : JValue) :
    canon nc (canon nc v) = canon nc v :=
  canon_fixed nc _ (canon_allSorted nc v) (canon_numsFixed nc hnc v)

theorem canonM_append (nc : List Char → List Char) (a b : List (List Char × JValue)) :
    canonM nc (a ++ b) = canonM nc a ++ canonM nc b := by
  simp [canonM_eq_map]

mutual
/-- **Blind to member order at every depth**: values equal up to permutation of object entries
    (the relation of C15) have the same canonical form. -/
theorem canon_permEq (nc : List Char → List Char) : ∀ {a b : JValue}, PermEq a b → canon nc a = canon nc b
  | _, _, .null => rfl
  | _, _, .bool _ => rfl
  | _, _, .number _ => rfl
  | _, _, .string _ => rfl
  | _, _, .array h => by simp only [canon]; rw [canonL_permEq nc h]
  | _, _, .object h => by
    simp only [canon]
    rw [sortCanon_perm_eq (canonM_permEq nc h)]
theorem canonL_permEq (nc : List Char → List Char) :
    ∀ {a b : List JValue}, PermEqL a b → canonL nc a = canonL nc b
  | _, _, .nil => rfl
  | _, _, .cons hx hr => by simp only [canonL]; rw [canon_permEq nc hx, canonL_permEq nc hr]
theorem canonM_permEq (nc : List Char → List Char) :
    ∀ {a b : List (List Char × JValue)}, PermEqM a b → (canonM nc a).Perm (canonM nc b)
  | _, _, .nil => List.Perm.refl _
  | _, _, .cons (k := k) (x := x) (y := y) (a := a) (b1 := b1) (b2 := b2) hx hr => by
    have ih := canonM_permEq nc hr
    rw [canonM_append] at ih
    rw [canonM_append]
    simp only [canonM]
    rw [canon_permEq nc hx]
    exact (List.Perm.cons _ ih).trans (List.perm_middle.symm)
end

end JsonVerif
