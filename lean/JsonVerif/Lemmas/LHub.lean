import JsonVerif.Lemmas.Hub
import JsonVerif.Lemmas.LGramComplete
/-!
# The parser under ANY option record decides the grammar with that record's strings

* `parse_sound_o`     accepted under `o` ⇒ the text is an `LDoc o` and the value is its content
* `parse_complete_o`  `LDoc o` text with content `v` ⇒ accepted under `o` with exactly `v`
* `ldoc_strict`       with both options off `LDoc` is the RFC 8259 `GDoc`
-/
namespace JsonVerif

theorem parse_sound_o (o : ParseOptions) {cs : List Char} {v : JValue} {cm : List CMEntry}
    (h : parseChars o cs false = .ok (v, cm)) : LDoc o cs v := by
  unfold parseChars at h
  split at h
  · cases h
  · rename_i v' s' hr
    cases h
    rw [machine_eq_rd] at hr
    exact Len.rdDocument_sound hr

theorem parse_complete_o (o : ParseOptions) {cs : List Char} {v : JValue} (h : LDoc o cs v) :
    ∃ cm, parseChars o cs false = .ok (v, cm) := by
  obtain ⟨s', hs'⟩ := Len.rdDocument_complete h { rest := cs, bad := false, pos := 0, cm := #[] } rfl rfl
    (2 * cs.length + 1) (Nat.le_refl _)
  refine ⟨s'.cm.toList, ?_⟩
  unfold parseChars
  rw [machine_eq_rd]
  simp only [hs']

/-- acceptance under `o` is membership in the grammar with `o`'s strings, and the value is the content -/
theorem accepts_iff_o (o : ParseOptions) (cs : List Char) (v : JValue) :
    (∃ cm, parseChars o cs false = .ok (v, cm)) ↔ LDoc o cs v :=
  ⟨fun ⟨_, h⟩ => parse_sound_o o h, parse_complete_o o⟩

theorem ldoc_unique (o : ParseOptions) {cs : List Char} {v v' : JValue} (h : LDoc o cs v) (h' : LDoc o cs v') :
    v = v' := by
  obtain ⟨cm, hc⟩ := parse_complete_o o h
  obtain ⟨cm', hc'⟩ := parse_complete_o o h'
  rw [hc] at hc'
  cases hc'; rfl

/-- with both options off the grammar is RFC 8259's -/
theorem ldoc_strict (cs : List Char) (v : JValue) : LDoc ⟨false, false⟩ cs v ↔ GDoc cs v := by
  constructor
  · intro h
    obtain ⟨cm, hc⟩ := parse_complete_o _ h
    exact parse_sound hc
  · intro h
    obtain ⟨cm, hc⟩ := parse_complete_strict h
    exact parse_sound_o _ hc

/-- every strict text keeps its content under every record … -/
theorem gdoc_ldoc (o : ParseOptions) {cs : List Char} {v : JValue} (h : GDoc cs v) : LDoc o cs v := by
  obtain ⟨cm, hc⟩ := parse_complete o h
  exact parse_sound_o o hc

end JsonVerif
