import JsonVerif.Lemmas.GramComplete
import JsonVerif.Lemmas.LGramSound
/-!
# Completeness of the recursive-descent parser under ANY option record, against `LValue o`

The proofs are those of Lemmas/GramComplete.lean with `strLoopAux_complete` replaced by
`strLoopO_complete`; everything that does not touch strings is reused.
-/
namespace JsonVerif.Len
open JsonVerif
variable {o : ParseOptions}


theorem lexString_complete {s : PS} {t cs r : List Char} (hg : LString o t cs) (hs : s.rest = t ++ r) :
    ∃ s', lexString o s = .ok (cs, s') ∧ Post s s' r := by
  cases hg with
  | mk body cs hb =>
    have hs' : s.reserve.rest = '"' :: (body ++ '"' :: r) := by
      simp only [beginFragment_rest, hs]; simp
    obtain ⟨p, q, hl⟩ := strLoopO_complete (o := o) (bad := s.reserve.bad) hb (body ++ '"' :: r) [] r
      (s.reserve.pos + '"'.utf8Size) (by simp)
    simp only [List.nil_append] at hl
    obtain ⟨s2, h2, p2⟩ := leaf_close (s := s) (s1 := { s.reserve with rest := r, pos := p }) rfl
    refine ⟨s2, ?_, ?_⟩
    · simp only [lexString, PS.beginFragment_fst, PS.beginFragment_snd, hs', if_true, strLoop, hl, h2]
    · exact ⟨p2.rest, by rw [p2.bad]; rfl, Nat.le_trans (by simp [PS.reserve]) p2.cm⟩


/-- the first character of a value: never whitespace, never a closing bracket or separator -/
theorem gvalue_head {t : List Char} {v : JValue} (h : LValue o t v) :
    ∃ c r, t = c :: r ∧ isWs c = false ∧ c ≠ ']' ∧ c ≠ '}' := by
  cases h with
  | null => exact ⟨_, _, rfl, by decide, by decide, by decide⟩
  | true => exact ⟨_, _, rfl, by decide, by decide, by decide⟩
  | false => exact ⟨_, _, rfl, by decide, by decide, by decide⟩
  | number n hn =>
    obtain ⟨c, r, rfl, hc⟩ := gnumber_head hn
    refine ⟨c, r, rfl, (digit_or_minus_facts hc).2.2.2, ?_, ?_⟩
    · intro e; subst e; rcases hc with hc | hc <;> revert hc <;> decide
    · intro e; subst e; rcases hc with hc | hc <;> revert hc <;> decide
  | string t cs hs => cases hs with | mk body cs hb => exact ⟨_, _, rfl, by decide, by decide, by decide⟩
  | arrEmpty w => exact ⟨_, _, rfl, by decide, by decide, by decide⟩
  | arr t vs => exact ⟨_, _, rfl, by decide, by decide, by decide⟩
  | objEmpty w => exact ⟨_, _, rfl, by decide, by decide, by decide⟩
  | obj t es => exact ⟨_, _, rfl, by decide, by decide, by decide⟩


theorem lexKeyColon_complete {s : PS} {k key w2 x : List Char} (hk : LString o k key)
    (hs : s.rest = k ++ w2 ++ ':' :: x) (hw : IsWsL w2) (hb : s.bad = false) :
    ∃ s', lexKeyColon o s = .ok (key, s.cm.size, s') ∧ Post s s' x ∧ s.cm.size < s'.cm.size := by
  obtain ⟨s1, h1, p1⟩ := lexString_complete (s := s.reserve) (r := w2 ++ ':' :: x) hk (by simpa using hs)
  obtain ⟨s2, h2, p2, c2⟩ := skipWs_complete (s := s1) (w := w2) (r := ':' :: x) p1.rest hw
    (noWsHead_cons (by decide)) (by rw [p1.bad]; exact hb)
  obtain ⟨s3, h3, p3, c3⟩ := expectChar_complete (s := s2) (c := ':') (r := x) p2.rest
  refine ⟨s3, by simp only [lexKeyColon, PS.beginFragment_fst, PS.beginFragment_snd, h1, h2, h3], ?_, ?_⟩
  · exact ⟨p3.rest, by rw [p3.bad, p2.bad, p1.bad]; rfl,
      Nat.le_trans (by rw [reserve_cm_size]; omega) (Nat.le_trans p1.cm (Nat.le_trans p2.cm p3.cm))⟩
  · have := p1.cm; rw [reserve_cm_size] at this
    rw [c3, c2]; omega


theorem gstring_head {k key : List Char} (h : LString o k key) : ∃ x, k = '"' :: x := by
  cases h with | mk body cs hb => exact ⟨_, rfl⟩


theorem contObject_entry_complete {i : Nat} {s : PS} {w w1 k key w2 x : List Char}
    (hs : s.rest = w ++ ',' :: (w1 ++ k ++ w2 ++ ':' :: x)) (hw : IsWsL w) (hw1 : IsWsL w1)
    (hk : LString o k key) (hw2 : IsWsL w2) (hb : s.bad = false) :
    ∃ s' e, contObject o i s = .ok (.entry key e, s') ∧ Post s s' x ∧ e < s'.cm.size := by
  obtain ⟨s1, h1, p1, c1⟩ := skipWs_complete (s := s) hs hw (noWsHead_cons (by decide)) hb
  obtain ⟨kx, hkx⟩ := gstring_head hk
  obtain ⟨s2, h2, p2, c2⟩ := skipWs_complete (s := s1.adv ',' (w1 ++ k ++ w2 ++ ':' :: x)) (w := w1)
    (r := k ++ w2 ++ ':' :: x) (by simp [PS.adv]) hw1
    (by rw [hkx]; exact noWsHead_cons (by decide)) (by simp [PS.adv, p1.bad, hb])
  obtain ⟨s3, h3, p3, c3⟩ := lexKeyColon_complete (s := s2) hk p2.rest hw2 (by rw [p2.bad]; simp [PS.adv, p1.bad, hb])
  refine ⟨s3, s2.cm.size, by simp only [contObject, h1, p1.rest, ↓reduceIte, h2, h3], ?_, c3⟩
  refine ⟨p3.rest, by rw [p3.bad, p2.bad]; simp [PS.adv, p1.bad], ?_⟩
  have := p3.cm
  rw [c2] at this
  simp only [PS.adv, c1] at this
  exact this


/-- the part of a non-empty object after its first `key ws :` — the shape `rdMembers` works on -/
theorem contObject_end_complete {i : Nat} {s : PS} {w x : List Char} (hs : s.rest = w ++ '}' :: x)
    (hw : IsWsL w) (hb : s.bad = false) (hi : i < s.cm.size) :
    ∃ s', contObject o i s = .ok (.end_, s') ∧ Post s s' x := by
  obtain ⟨s1, h1, p1, c1⟩ := skipWs_complete (s := s) hs hw (noWsHead_cons (by decide)) hb
  obtain ⟨s2, h2, p2⟩ := endFragment_ok (s := s1.adv '}' x) (i := i) (by simpa [PS.adv, c1] using hi)
  refine ⟨s2, by simp [contObject, h1, p1.rest, h2], ?_⟩
  exact ⟨p2.rest, by rw [p2.bad]; exact p1.bad, Nat.le_trans (by simp [PS.adv, c1]) p2.cm⟩


inductive LTail o : List Char → List Char → List JEntry → Prop
  | one (w3 t w4 key : List Char) (v : JValue) : IsWsL w3 → LValue o t v → IsWsL w4 →
      LTail o (w3 ++ t ++ w4) key [(key, v)]
  | cons (w3 t w4 w1 k w2 ts key key' : List Char) (v : JValue) (es : List JEntry) :
      IsWsL w3 → LValue o t v → IsWsL w4 → IsWsL w1 → LString o k key' → IsWsL w2 → LTail o ts key' es →
      LTail o (w3 ++ t ++ w4 ++ ',' :: (w1 ++ k ++ w2 ++ ':' :: ts)) key ((key, v) :: es)


theorem LMembers.toTail : ∀ {tm : List Char} {es : List JEntry}, LMembers o tm es →
    ∃ w1 k w2 key tl, tm = w1 ++ k ++ w2 ++ ':' :: tl ∧ IsWsL w1 ∧ LString o k key ∧ IsWsL w2 ∧ LTail o tl key es
  | _, _, .one w1 k w2 w3 t w4 key v h1 hk h2 h3 hv h4 =>
    ⟨w1, k, w2, key, _, rfl, h1, hk, h2, .one w3 t w4 key v h3 hv h4⟩
  | _, _, .cons w1 k w2 w3 t w4 ts key v es h1 hk h2 h3 hv h4 hts =>
    match LMembers.toTail hts with
    | ⟨w1', k', w2', key', tl', e, g1, gk, g2, gt⟩ =>
      ⟨w1, k, w2, key, _, by rw [e], h1, hk, h2, .cons w3 t w4 w1' k' w2' tl' key key' v es h3 hv h4 g1 gk g2 gt⟩


theorem LItems.strip {t : List Char} {vs : List JValue} (h : LItems o t vs) :
    ∃ w1 t', t = w1 ++ t' ∧ IsWsL w1 ∧ LItems o t' vs ∧ ∃ c x, t' = c :: x ∧ isWs c = false ∧ c ≠ ']' := by
  cases h with
  | one w1 t w2 v h1 hv h2 =>
    obtain ⟨c, x, rfl, hc, hn, _⟩ := gvalue_head hv
    exact ⟨w1, [] ++ (c :: x) ++ w2, by simp, h1, .one [] _ w2 v IsWsL.nil hv h2, c, x ++ w2, by simp, hc, hn⟩
  | cons w1 t w2 ts v vs h1 hv h2 hts =>
    obtain ⟨c, x, rfl, hc, hn, _⟩ := gvalue_head hv
    exact ⟨w1, [] ++ (c :: x) ++ w2 ++ ',' :: ts, by simp, h1, .cons [] _ w2 ts v vs IsWsL.nil hv h2 hts,
      c, x ++ w2 ++ ',' :: ts, by simp, hc, hn⟩


theorem parseFragment_leaf_complete {ctx : Ctx} {s : PS} {w t r : List Char} {v : JValue}
    (hg : LValue o t v) (hleaf : IsLeaf v) (hs : s.rest = w ++ t ++ r) (hw : IsWsL w)
    (hf : FollowOK ctx r) (hb : s.bad = false) :
    ∃ s', parseFragment o ctx s = .ok (.value v, s') ∧ Post s s' r := by
  obtain ⟨c0, x0, ht0, hc0, _, _⟩ := gvalue_head hg
  obtain ⟨s0, h0, p0, c0e⟩ := skipWs_complete (s := s) (w := w) (r := t ++ r) (by simpa using hs) hw
    (noWsHead_of_head ht0 hc0) hb
  have hb0 : s0.bad = false := by rw [p0.bad]; exact hb
  cases hg with
  | null =>
    obtain ⟨s1, h1, p1⟩ := lexNull_complete (s := s0) (r := r) p0.rest
    exact ⟨s1, by simp [parseFragment, h0, p0.rest, h1], p0.trans p1⟩
  | true =>
    obtain ⟨s1, h1, p1⟩ := lexBool_complete (s := s0) (r := r) true p0.rest
    exact ⟨s1, by simp [parseFragment, h0, p0.rest, h1], p0.trans p1⟩
  | false =>
    obtain ⟨s1, h1, p1⟩ := lexBool_complete (s := s0) (r := r) false p0.rest
    exact ⟨s1, by simp [parseFragment, h0, p0.rest, h1], p0.trans p1⟩
  | number n hn =>
    obtain ⟨c, x, rfl, hc⟩ := gnumber_head hn
    obtain ⟨s1, h1, p1⟩ := lexNumber_complete (ctx := ctx) (s := s0) hn p0.rest hf hb0
    have f := digit_or_minus_facts hc
    have hd : (isDigit c || decide (c = '-')) = true := by
      rcases hc with hc | hc <;> simp [hc]
    refine ⟨s1, ?_, p0.trans p1⟩
    simp only [parseFragment, h0, p0.rest, List.cons_append, f.1, f.2.1, f.2.2.1, ↓reduceIte,
      decide_false, Bool.or_self, Bool.false_eq_true, hd, h1]
  | string t cs hstr =>
    obtain ⟨kx, rfl⟩ := gstring_head hstr
    obtain ⟨s1, h1, p1⟩ := lexString_complete (s := s0) (r := r) hstr p0.rest
    exact ⟨s1, by simp [parseFragment, h0, p0.rest, isDigit, h1], p0.trans p1⟩
  | arrEmpty w0 hw0 =>
    obtain ⟨s1, h1, p1, c1⟩ := expectChar_complete (s := s0.reserve) (c := '[') (r := w0 ++ [']'] ++ r)
      (by simpa using p0.rest)
    obtain ⟨s2, h2, p2, c2⟩ := skipWs_complete (s := s1) (w := w0) (r := ']' :: r) (by simpa using p1.rest) hw0
      (noWsHead_cons (by decide)) (by rw [p1.bad]; exact hb0)
    obtain ⟨s3, h3, p3⟩ := endFragment_ok (s := s2.adv ']' r) (i := s0.cm.size)
      (by simp [PS.adv, c2, c1, PS.reserve])
    refine ⟨s3, ?_, ?_⟩
    · simp [parseFragment, h0, p0.rest, isDigit, startArray, h1, h2, p2.rest, h3]
    · refine ⟨p3.rest, by rw [p3.bad]; simp [PS.adv, p2.bad, p1.bad, p0.bad], ?_⟩
      have := p3.cm
      simp [PS.adv, c2, c1, PS.reserve] at this
      rw [c0e] at this; omega
  | objEmpty w0 hw0 =>
    obtain ⟨s1, h1, p1, c1⟩ := expectChar_complete (s := s0.reserve) (c := '{') (r := w0 ++ ['}'] ++ r)
      (by simpa using p0.rest)
    obtain ⟨s2, h2, p2, c2⟩ := skipWs_complete (s := s1) (w := w0) (r := '}' :: r) (by simpa using p1.rest) hw0
      (noWsHead_cons (by decide)) (by rw [p1.bad]; exact hb0)
    obtain ⟨s3, h3, p3⟩ := endFragment_ok (s := s2.adv '}' r) (i := s0.cm.size)
      (by simp [PS.adv, c2, c1, PS.reserve])
    refine ⟨s3, ?_, ?_⟩
    · simp [parseFragment, h0, p0.rest, isDigit, startObject, h1, h2, p2.rest, h3]
    · refine ⟨p3.rest, by rw [p3.bad]; simp [PS.adv, p2.bad, p1.bad, p0.bad], ?_⟩
      have := p3.cm
      simp [PS.adv, c2, c1, PS.reserve] at this
      rw [c0e] at this; omega
  | arr ti vs hi =>
    cases hi <;> simp [IsLeaf] at hleaf
  | obj tm es hm =>
    cases hm <;> simp [IsLeaf] at hleaf


theorem parseFragment_arr_complete {ctx : Ctx} {s : PS} {w ti r : List Char} {vs : List JValue}
    (hi : LItems o ti vs) (hs : s.rest = w ++ '[' :: (ti ++ ']' :: r)) (hw : IsWsL w) (hb : s.bad = false) :
    ∃ s' ti', parseFragment o ctx s = .ok (.beginArray s.cm.size, s') ∧ Post s s' (ti' ++ ']' :: r) ∧
      LItems o ti' vs ∧ ti'.length ≤ ti.length ∧ s.cm.size < s'.cm.size := by
  obtain ⟨s0, h0, p0, c0e⟩ := skipWs_complete (s := s) (w := w) (r := '[' :: (ti ++ ']' :: r)) hs hw
    (noWsHead_cons (by decide)) hb
  have hb0 : s0.bad = false := by rw [p0.bad]; exact hb
  obtain ⟨w1, ti', rfl, hw1, hi', c, x, hcx, hc, hn⟩ := LItems.strip hi
  obtain ⟨s1, h1, p1, c1⟩ := expectChar_complete (s := s0.reserve) (c := '[') (r := w1 ++ ti' ++ ']' :: r)
    (by simpa using p0.rest)
  obtain ⟨s2, h2, p2, c2⟩ := skipWs_complete (s := s1) (w := w1) (r := ti' ++ ']' :: r) (by simpa using p1.rest) hw1
    (noWsHead_of_head hcx hc) (by rw [p1.bad]; exact hb0)
  refine ⟨s2, ti', ?_, ?_, hi', by simp, ?_⟩
  · have hr2 : s2.rest = c :: (x ++ ']' :: r) := by rw [p2.rest, hcx]; simp
    simp [parseFragment, h0, p0.rest, isDigit, startArray, h1, h2, hr2, hn, c0e]
  · exact ⟨p2.rest, by rw [p2.bad, p1.bad]; simp [p0.bad],
      by rw [c2, c1]; simp [PS.reserve, c0e]⟩
  · rw [c2, c1]; simp [PS.reserve, c0e]


theorem parseFragment_obj_complete {ctx : Ctx} {s : PS} {w tm r : List Char} {es : List JEntry}
    (hm : LMembers o tm es) (hs : s.rest = w ++ '{' :: (tm ++ '}' :: r)) (hw : IsWsL w) (hb : s.bad = false) :
    ∃ s' key e tl, parseFragment o ctx s = .ok (.beginObject s.cm.size key e, s') ∧
      Post s s' (tl ++ '}' :: r) ∧ LTail o tl key es ∧ tl.length < tm.length ∧
      s.cm.size < s'.cm.size ∧ e < s'.cm.size := by
  obtain ⟨s0, h0, p0, c0e⟩ := skipWs_complete (s := s) (w := w) (r := '{' :: (tm ++ '}' :: r)) hs hw
    (noWsHead_cons (by decide)) hb
  have hb0 : s0.bad = false := by rw [p0.bad]; exact hb
  obtain ⟨w1, k, w2, key, tl, rfl, hw1, hk, hw2, htl⟩ := LMembers.toTail hm
  obtain ⟨kx, hkx⟩ := gstring_head hk
  obtain ⟨s1, h1, p1, c1⟩ := expectChar_complete (s := s0.reserve) (c := '{')
    (r := w1 ++ (k ++ w2 ++ ':' :: (tl ++ '}' :: r))) (by simpa using p0.rest)
  obtain ⟨s2, h2, p2, c2⟩ := skipWs_complete (s := s1) (w := w1) (r := k ++ w2 ++ ':' :: (tl ++ '}' :: r))
    p1.rest hw1 (by rw [hkx]; exact noWsHead_cons (by decide)) (by rw [p1.bad]; exact hb0)
  obtain ⟨s3, h3, p3, c3⟩ := lexKeyColon_complete (s := s2) hk p2.rest hw2 (by rw [p2.bad, p1.bad]; exact hb0)
  refine ⟨s3, key, s2.cm.size, tl, ?_, ?_, htl, by simp; omega, ?_, c3⟩
  · have hr2 : s2.rest = '"' :: (kx ++ w2 ++ ':' :: (tl ++ '}' :: r)) := by rw [p2.rest, hkx]; simp
    simp [parseFragment, h0, p0.rest, isDigit, startObject, h1, h2, hr2, startObjectKey, h3, c0e]
  · refine ⟨p3.rest, by rw [p3.bad, p2.bad, p1.bad]; simp [p0.bad], ?_⟩
    have := p3.cm
    rw [c2, c1] at this
    simp [PS.reserve, c0e] at this
    omega
  · have := c3
    rw [c2, c1] at this
    simp [PS.reserve, c0e] at this
    omega


/-- **Completeness of the recursive-descent reference**, by induction on the fuel -/
theorem rd_complete : ∀ n,
    (∀ t v, LValue o t v → ∀ ctx (s : PS) w r, s.rest = w ++ t ++ r → IsWsL w → FollowOK ctx r →
      s.bad = false → 2 * s.rest.length + 1 ≤ n →
      ∃ s', rdValue o n ctx s = .ok (v, s') ∧ Post s s' r) ∧
    (∀ t vs, LItems o t vs → ∀ acc i (s : PS) r, s.rest = t ++ ']' :: r → s.bad = false → i < s.cm.size →
      2 * s.rest.length + 2 ≤ n →
      ∃ s', rdItems o n acc i s = .ok (.array (acc ++ vs), s') ∧ Post s s' r) ∧
    (∀ tl key es, LTail o tl key es → ∀ acc i e (s : PS) r, s.rest = tl ++ '}' :: r → s.bad = false →
      i < s.cm.size → e < s.cm.size → 2 * s.rest.length + 2 ≤ n →
      ∃ s', rdMembers o n acc i key e s = .ok (.object (acc ++ es), s') ∧ Post s s' r) := by
  intro n
  induction n with
  | zero => refine ⟨?_, ?_, ?_⟩ <;> intros <;> omega
  | succ n ih =>
    obtain ⟨ihV, ihI, ihM⟩ := ih
    refine ⟨?_, ?_, ?_⟩
    · -- values
      intro t v hg ctx s w r hs hw hf hb hn
      rcases isLeaf_or (v := v) with hl | ⟨x, xs, rfl⟩ | ⟨e0, es0, rfl⟩
      · obtain ⟨s', h, p⟩ := parseFragment_leaf_complete hg hl hs hw hf hb
        exact ⟨s', by simp only [rdValue, h], p⟩
      · cases hg with
        | arr ti vs hi =>
          obtain ⟨s1, ti', h1, p1, hi', hlen, hcm⟩ := parseFragment_arr_complete (ctx := ctx) (s := s) (w := w) (r := r) hi
            (by rw [hs]; simp) hw hb
          have hl1 : s1.rest.length < s.rest.length := by rw [p1.rest, hs]; simp; omega
          obtain ⟨s', h2, p2⟩ := ihI ti' _ hi' [] s.cm.size s1 r p1.rest (by rw [p1.bad]; exact hb) hcm (by omega)
          exact ⟨s', by simp only [rdValue, h1, h2, List.nil_append], p1.trans p2⟩
      · cases hg with
        | obj tm es hm =>
          obtain ⟨s1, key, e, tl, h1, p1, htl, hlen, hcm, he⟩ := parseFragment_obj_complete (ctx := ctx) (s := s) (w := w) (r := r) hm
            (by rw [hs]; simp) hw hb
          have hl1 : s1.rest.length < s.rest.length := by rw [p1.rest, hs]; simp; omega
          obtain ⟨s', h2, p2⟩ := ihM tl key _ htl [] s.cm.size e s1 r p1.rest (by rw [p1.bad]; exact hb) hcm he (by omega)
          exact ⟨s', by simp only [rdValue, h1, h2, List.nil_append], p1.trans p2⟩
    · -- items
      intro t vs hi acc i s r hs hb hicm hn
      cases hi with
      | one w1 tv w2 v h1 hv h2 =>
        obtain ⟨s1, hr1, p1⟩ := ihV tv v hv .array s w1 (w2 ++ ']' :: r) (by rw [hs]; simp) h1
          (followOK_ws h2 (by decide)) hb (by omega)
        obtain ⟨s2, hr2, p2⟩ := contArray_end_complete (i := i) (s := s1) p1.rest h2 (by rw [p1.bad]; exact hb)
          (Nat.lt_of_lt_of_le hicm p1.cm)
        exact ⟨s2, by simp only [rdItems, hr1, hr2], p1.trans p2⟩
      | cons w1 tv w2 ts v vs' h1 hv h2 hts =>
        obtain ⟨s1, hr1, p1⟩ := ihV tv v hv .array s w1 (w2 ++ ',' :: (ts ++ ']' :: r)) (by rw [hs]; simp) h1
          (followOK_ws h2 (by decide)) hb (by omega)
        obtain ⟨s2, hr2, p2⟩ := contArray_item_complete (i := i) (s := s1) p1.rest h2 (by rw [p1.bad]; exact hb)
        have hl2 : s2.rest.length + 2 ≤ s.rest.length := by
          rw [p2.rest, hs]
          obtain ⟨c, x, rfl, _⟩ := gvalue_head hv
          simp; omega
        obtain ⟨s3, hr3, p3⟩ := ihI ts vs' hts (acc ++ [v]) i s2 r p2.rest (by rw [p2.bad, p1.bad]; exact hb)
          (Nat.lt_of_lt_of_le hicm (Nat.le_trans p1.cm p2.cm)) (by omega)
        exact ⟨s3, by simp only [rdItems, hr1, hr2, hr3, List.append_assoc, List.singleton_append],
          (p1.trans p2).trans p3⟩
    · -- members
      intro tl key es htl acc i e s r hs hb hicm hecm hn
      cases htl with
      | one w3 tv w4 _ v h3 hv h4 =>
        obtain ⟨s1, hr1, p1⟩ := ihV tv v hv .objectValue s w3 (w4 ++ '}' :: r) (by rw [hs]; simp) h3
          (followOK_ws h4 (by decide)) hb (by omega)
        obtain ⟨s2, hr2, p2⟩ := endFragment_ok (s := s1) (i := e) (Nat.lt_of_lt_of_le hecm p1.cm)
        obtain ⟨s3, hr3, p3⟩ := contObject_end_complete (o := o) (i := i) (s := s2) (by rw [p2.rest, p1.rest]) h4
          (by rw [p2.bad, p1.bad]; exact hb) (Nat.lt_of_lt_of_le hicm (Nat.le_trans p1.cm p2.cm))
        exact ⟨s3, by simp only [rdMembers, hr1, hr2, hr3], (p1.trans p2).trans p3⟩
      | cons w3 tv w4 w1 k w2 ts _ key' v es' h3 hv h4 h1 hk h2 hts =>
        obtain ⟨s1, hr1, p1⟩ := ihV tv v hv .objectValue s w3 (w4 ++ ',' :: (w1 ++ k ++ w2 ++ ':' :: (ts ++ '}' :: r)))
          (by rw [hs]; simp) h3 (followOK_ws h4 (by decide)) hb (by omega)
        obtain ⟨s2, hr2, p2⟩ := endFragment_ok (s := s1) (i := e) (Nat.lt_of_lt_of_le hecm p1.cm)
        obtain ⟨s3, e', hr3, p3, he'⟩ := contObject_entry_complete (i := i) (s := s2) (x := ts ++ '}' :: r)
          (by rw [p2.rest, p1.rest]) h4 h1 hk h2 (by rw [p2.bad, p1.bad]; exact hb)
        have hl3 : s3.rest.length + 2 ≤ s.rest.length := by
          rw [p3.rest, hs]
          obtain ⟨c, x, rfl, _⟩ := gvalue_head hv
          simp; omega
        obtain ⟨s4, hr4, p4⟩ := ihM ts key' es' hts (acc ++ [(key, v)]) i e' s3 r p3.rest
          (by rw [p3.bad, p2.bad, p1.bad]; exact hb)
          (Nat.lt_of_lt_of_le hicm (Nat.le_trans p1.cm (Nat.le_trans p2.cm p3.cm))) he' (by omega)
        exact ⟨s4, by simp only [rdMembers, hr1, hr2, hr3, hr4, List.append_assoc, List.singleton_append],
          ((p1.trans p2).trans p3).trans p4⟩


theorem rdDocument_complete {text : List Char} {v : JValue} (h : LDoc o text v) (s : PS)
    (hs : s.rest = text) (hb : s.bad = false) (n : Nat) (hn : 2 * text.length + 1 ≤ n) :
    ∃ s', rdDocument o n s = .ok (v, s') := by
  obtain ⟨w1, t, w2, rfl, hw1, hg, hw2⟩ := h
  obtain ⟨s1, h1, p1⟩ := (rd_complete n).1 t v hg .none s w1 w2 hs hw1 (followOK_none_ws hw2) hb (by rw [hs]; omega)
  obtain ⟨s2, h2, p2, _⟩ := skipWs_complete (s := s1) (w := w2) (r := []) (by simpa using p1.rest) hw2
    (by intro c r' e; cases e) (by rw [p1.bad]; exact hb)
  exact ⟨s2, by simp only [rdDocument, h1, h2, p2.rest]⟩


end JsonVerif.Len
