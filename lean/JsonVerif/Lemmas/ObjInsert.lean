import JsonVerif.Lemmas.ObjInv
/-!
# `IndexMap::insert` preserves the (masked) invariant — hence `push`, `from_vec`, `extend`, `sort`
-/
namespace JsonVerif
open Obj

theorem mem_insertSorted {x i : Nat} : ∀ {l : List Nat}, i ∈ Bucket.insertSorted x l ↔ i = x ∨ i ∈ l
  | [] => by simp [Bucket.insertSorted]
  | y :: ys => by
    simp only [Bucket.insertSorted]
    split
    · simp
    · split
      · rename_i h; subst h; simp
      · simp [mem_insertSorted (l := ys)]; constructor <;> (intro h; rcases h with h | h | h <;> simp [h])

theorem sorted_insertSorted {x : Nat} :
    ∀ {l : List Nat}, l.Pairwise (· < ·) → (Bucket.insertSorted x l).Pairwise (· < ·)
  | [], _ => by simp [Bucket.insertSorted]
  | y :: ys, h => by
    simp only [Bucket.insertSorted]
    have hy := List.pairwise_cons.mp h
    split
    · rename_i hxy
      refine List.pairwise_cons.mpr ⟨?_, h⟩
      intro a ha
      rcases List.mem_cons.mp ha with rfl | ha
      · exact hxy
      · have := hy.1 a ha; omega
    · split
      · exact h
      · rename_i h1 h2
        refine List.pairwise_cons.mpr ⟨?_, sorted_insertSorted hy.2⟩
        intro a ha
        rcases mem_insertSorted.mp ha with rfl | ha
        · omega
        · exact hy.1 a ha

/-- `Indexes::insert` on a sorted bucket: sorted again, with exactly one more member -/
theorem Bucket.insert_all {b : Bucket} {j : Nat} (hs : b.all.Pairwise (· < ·)) :
    (b.insert j).all.Pairwise (· < ·) ∧ (∀ i, i ∈ (b.insert j).all ↔ i = j ∨ i ∈ b.all) ∧
    (b.insert j).gkey = b.gkey := by
  unfold Bucket.insert
  have hc := List.pairwise_cons.mp hs
  split
  · rename_i h
    refine ⟨hs, ?_, rfl⟩
    intro i; simp [Bucket.all, h]
  · split
    · rename_i h1 h2
      refine ⟨?_, ?_, rfl⟩
      · simp only [Bucket.all]
        refine List.pairwise_cons.mpr ⟨?_, sorted_insertSorted hc.2⟩
        intro a ha
        rcases mem_insertSorted.mp ha with rfl | ha
        · exact h2
        · have := hc.1 a ha; simp only [Bucket.all] at *; omega
      · intro i
        simp only [Bucket.all, List.mem_cons, mem_insertSorted]
        try (constructor <;> (intro h; rcases h with h | h | h <;> simp [h]))
    · rename_i h1 h2
      refine ⟨?_, ?_, rfl⟩
      · simp only [Bucket.all]
        refine List.pairwise_cons.mpr ⟨?_, sorted_insertSorted hc.2⟩
        intro a ha
        rcases mem_insertSorted.mp ha with rfl | ha
        · omega
        · exact hc.1 a ha
      · intro i
        simp only [Bucket.all, List.mem_cons, mem_insertSorted]
        try (constructor <;> (intro h; rcases h with h | h | h <;> simp [h]))

theorem Bucket.insert_gkey (b : Bucket) (j : Nat) : (b.insert j).gkey = b.gkey := by
  unfold Bucket.insert
  split
  · rfl
  · split <;> rfl

theorem nodup_map_inj {α β : Type} {f : α → β} :
    ∀ {l : List α}, (l.map f).Nodup → ∀ {a b : α}, a ∈ l → b ∈ l → f a = f b → a = b
  | [], _, _, _, ha, _, _ => by cases ha
  | c :: cs, hnd, a, b, ha, hb, hab => by
    simp only [List.map_cons, List.nodup_cons] at hnd
    rcases List.mem_cons.mp ha with rfl | ha' <;> rcases List.mem_cons.mp hb with rfl | hb'
    · rfl
    · exact absurd (List.mem_map.mpr ⟨b, hb', hab.symm⟩) hnd.1
    · exact absurd (List.mem_map.mpr ⟨a, ha', hab⟩) hnd.1
    · exact nodup_map_inj hnd.2 ha' hb' hab

def maskAdd (S : Nat → Bool) (j : Nat) : Nat → Bool := fun i => S i || i == j

theorem keyAt_lt {es : List (Key × JValue)} {j : Nat} (h : j < es.length) :
    ∃ k, keyAt es j = some k := by
  unfold keyAt; rw [List.getElem?_eq_getElem h]; exact ⟨_, rfl⟩

theorem posMask_add_ne {S : Nat → Bool} {es : List (Key × JValue)} {j : Nat} {k k' : Key}
    (hk : keyAt es j = some k) (hne : k' ≠ k) : posMask (maskAdd S j) k' es = posMask S k' es := by
  apply sorted_ext (posMask_sorted _ _ _) (posMask_sorted _ _ _)
  intro i
  simp only [mem_posMask, maskAdd, Bool.or_eq_true, beq_iff_eq]
  constructor
  · rintro ⟨h1, h2 | h2⟩
    · exact ⟨h1, h2⟩
    · subst h2; rw [hk] at h1; cases h1; exact absurd rfl hne
  · rintro ⟨h1, h2⟩; exact ⟨h1, Or.inl h2⟩

theorem mem_posMask_add {S : Nat → Bool} {es : List (Key × JValue)} {j : Nat} {k : Key}
    (hk : keyAt es j = some k) (i : Nat) :
    i ∈ posMask (maskAdd S j) k es ↔ i = j ∨ i ∈ posMask S k es := by
  simp only [mem_posMask, maskAdd, Bool.or_eq_true, beq_iff_eq]
  constructor
  · rintro ⟨h1, h2 | h2⟩
    · exact Or.inr ⟨h1, h2⟩
    · exact Or.inl h2
  · rintro (h | ⟨h1, h2⟩)
    · subst h; exact ⟨hk, Or.inr rfl⟩
    · exact ⟨h1, Or.inl h2⟩

/-- **`IndexMap::insert` under the masked invariant.** -/
theorem indexInsert_inv {S : Nat → Bool} {es : List (Key × JValue)} {bs : List Bucket} {j : Nat}
    (h : InvMask S es bs) (hj : j < es.length) :
    ∃ bs' fresh k, keyAt es j = some k ∧ indexInsert es bs j = some (bs', fresh) ∧
      InvMask (maskAdd S j) es bs' ∧ (fresh = true ↔ posMask S k es = []) := by
  obtain ⟨k, hk⟩ := keyAt_lt hj
  unfold indexInsert
  simp only [hk]
  rcases findBucket_inv h k with ⟨hp, hf⟩ | ⟨b, hb, hbk, hf, hall⟩
  · -- fresh key: a new bucket is appended
    rw [hf]
    refine ⟨_, true, k, rfl, rfl, ?_, by simp [hp]⟩
    have hnotin : k ∉ bs.map (·.gkey) := by
      intro hm
      obtain ⟨c, hc, hck⟩ := List.mem_map.mp hm
      have := h.exact c hc
      rw [hck, hp] at this
      simp [Bucket.all] at this
    refine ⟨?_, ?_, ?_⟩
    · simp only [List.map_append, List.map_cons, List.map_nil]
      rw [List.nodup_append]
      refine ⟨h.nodup, by simp, ?_⟩
      intro a ha b hb'
      simp only [List.mem_singleton] at hb'
      subst hb'
      intro hab; subst hab; exact hnotin ha
    · intro c hc
      rcases List.mem_append.mp hc with hc | hc
      · have hne : c.gkey ≠ k := fun e => hnotin (List.mem_map.mpr ⟨c, hc, e⟩)
        rw [posMask_add_ne hk hne]; exact h.exact c hc
      · simp only [List.mem_singleton] at hc
        subst hc
        apply sorted_ext (by simp [Bucket.all]) (posMask_sorted _ _ _)
        intro i
        rw [mem_posMask_add hk, hp]; simp [Bucket.all]
    · intro k' hk'
      by_cases he : k' = k
      · subst he; exact ⟨_, List.mem_append_right _ (List.mem_singleton_self _), rfl⟩
      · rw [posMask_add_ne hk he] at hk'
        obtain ⟨c, hc, hck⟩ := h.cover k' hk'
        exact ⟨c, List.mem_append_left _ hc, hck⟩
  · -- existing key: its bucket gets the new index
    rw [hf]
    have hfresh : (false = true ↔ posMask S k es = []) := by
      constructor
      · intro hh; cases hh
      · intro hp; rw [hp] at hall; simp [Bucket.all] at hall
    refine ⟨_, false, k, rfl, rfl, ?_, hfresh⟩
    have hsorted : b.all.Pairwise (· < ·) := by rw [hall]; exact posMask_sorted _ _ _
    have hpred : ∀ c ∈ bs, (c.gkey == k && keyAt es c.rep == some k) = true ↔ c = b := by
      intro c hc
      constructor
      · intro hp
        simp only [Bool.and_eq_true, beq_iff_eq] at hp
        -- distinct ghost keys
        have hnd := h.nodup
        have : c.gkey = b.gkey := by rw [hp.1, hbk]
        exact nodup_map_inj hnd hc hb this
      · intro e; subst e
        have : c.rep ∈ posMask S k es := by rw [← hall]; simp [Bucket.all]
        simp [hbk, (mem_posMask.mp this).1]
    refine ⟨?_, ?_, ?_⟩
    · -- ghost keys unchanged
      have : (bs.map (fun c => if (c.gkey == k && keyAt es c.rep == some k) = true then c.insert j else c)).map (·.gkey)
          = bs.map (·.gkey) := by
        rw [List.map_map]
        apply List.map_congr_left
        intro c _
        simp only [Function.comp]
        split
        · exact Bucket.insert_gkey c j
        · rfl
      rw [this]; exact h.nodup
    · intro c hc
      obtain ⟨d, hd, hdc⟩ := List.mem_map.mp hc
      by_cases hdb : d = b
      · subst hdb
        rw [if_pos ((hpred d hd).mpr rfl)] at hdc
        subst hdc
        obtain ⟨hs', hm', hg'⟩ := Bucket.insert_all (j := j) hsorted
        rw [hg', hbk]
        apply sorted_ext hs' (posMask_sorted _ _ _)
        intro i
        rw [hm', mem_posMask_add hk, hall]
      · have : ¬ ((d.gkey == k && keyAt es d.rep == some k) = true) := fun hp => hdb ((hpred d hd).mp hp)
        rw [if_neg this] at hdc
        subst hdc
        have hne : d.gkey ≠ k := by
          intro e
          have hnd := h.nodup
          exact hdb (nodup_map_inj hnd hd hb (by rw [e, hbk]))
        rw [posMask_add_ne hk hne]; exact h.exact d hd
    · intro k' hk'
      by_cases he : k' = k
      · subst he
        refine ⟨b.insert j, List.mem_map.mpr ⟨b, hb, by rw [if_pos ((hpred b hb).mpr rfl)]⟩, ?_⟩
        rw [(Bucket.insert_all (j := j) hsorted).2.2, hbk]
      · rw [posMask_add_ne hk he] at hk'
        obtain ⟨c, hc, hck⟩ := h.cover k' hk'
        have hcb : c ≠ b := by intro e; subst e; exact he (by rw [← hck, hbk])
        refine ⟨c, List.mem_map.mpr ⟨c, hc, ?_⟩, hck⟩
        rw [if_neg (fun hp => hcb ((hpred c hc).mp hp))]

end JsonVerif
