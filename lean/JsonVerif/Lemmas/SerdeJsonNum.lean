import JsonVerif.Model.SerdeJsonNum
import JsonVerif.Lemmas.SerdeJson
import JsonVerif.Lemmas.DeNum
import JsonVerif.Lemmas.CanonLaws
/-!
# The integer legs of the serde_json number conversion are exact (C18)

`sjConv ftbl (disp n) = some n` for every serde_json number in its representation invariant:
`PosInt` below 2^64, `NegInt` in [-2^63, 0), and a `Float` whose printed text is not an integer
literal and is sent to itself by the float leg (the one hypothesis left about the dependencies:
serde_json prints a double with a `.` or an exponent, and parsing that text gives the double back).
The key order of the map (`strLt`) is a strict order.
-/
namespace JsonVerif

/-- representation invariant of `serde_json::Number` (float: as far as the round trip needs it) -/
def SjNum.WF (ftbl : List Char → Option (List Char)) : SjNum → Prop
  | .pos n => n < 2 ^ 64
  | .neg i => -(2 ^ 63 : Int) ≤ i ∧ i < 0
  | .float t => parseKeyInt .u64 t = none ∧ parseKeyInt .i64 t = none ∧ ftbl t = some t

theorem sjConv_disp (ftbl : List Char → Option (List Char)) :
    ∀ n : SjNum, SjNum.WF ftbl n → sjConv ftbl n.disp = some n
  | .pos n, h => by
    have h' : n < 18446744073709551616 := h
    have hb : IntW.u64.lo ≤ (n : Int) ∧ (n : Int) ≤ IntW.u64.hi := by
      simp only [IntW.lo, IntW.hi]; omega
    have hp : parseKeyInt .u64 (natText n) = some (n : Int) := by
      simp only [parseKeyInt, IntW.signed, parseIntR_natText]
      rw [if_pos hb]
    simp [sjConv, SjNum.disp, hp]
  | .neg i, h => by
    cases i with
    | ofNat k => exact absurd h.2 (by simp)
    | negSucc m =>
      have h1 : parseKeyInt .u64 (intText (Int.negSucc m)) = none := by
        rw [intText_negSucc]; simp [parseKeyInt, IntW.signed, parseIntR]
      have hb : -(9223372036854775808 : Int) ≤ Int.negSucc m := h.1
      have hb2 : IntW.i64.lo ≤ Int.negSucc m ∧ Int.negSucc m ≤ IntW.i64.hi := by
        simp only [IntW.lo, IntW.hi]; omega
      have h2 : parseKeyInt .i64 (intText (Int.negSucc m)) = some (Int.negSucc m) := by
        simp only [parseKeyInt, IntW.signed, parseIntR_neg]
        rw [if_pos hb2]
      simp only [sjConv, SjNum.disp, h1, h2]
      rw [if_pos (by omega)]
  | .float t, h => by
    simp [sjConv, SjNum.disp, h.1, h.2.1, h.2.2]

/-- whatever the conversion produces is in the representation invariant, given that the float leg
    only produces texts it sends to themselves -/
theorem sjConv_wf (ftbl : List Char → Option (List Char))
    (hf : ∀ t r, ftbl t = some r → SjNum.WF ftbl (.float r)) (n : List Char) (m : SjNum)
    (h : sjConv ftbl n = some m) : SjNum.WF ftbl m := by
  unfold sjConv at h
  split at h
  · rename_i u hu
    cases h
    simp only [parseKeyInt] at hu
    split at hu
    · rename_i i _
      split at hu
      · rename_i hb; cases hu
        simp only [IntW.lo, IntW.hi] at hb
        show u.toNat < 18446744073709551616
        omega
      · cases hu
    · cases hu
  · split at h
    · rename_i i hi
      simp only [parseKeyInt] at hi
      split at hi
      · rename_i j _
        split at hi
        · rename_i hb; cases hi
          simp only [IntW.lo, IntW.hi] at hb
          cases h
          split
          · rename_i hneg; exact ⟨by show -(9223372036854775808 : Int) ≤ i; omega, hneg⟩
          · show i.toNat < 18446744073709551616; omega
        · cases hi
      · cases hi
    · cases hr : ftbl n with
      | none => simp [hr] at h
      | some r => simp [hr] at h; subst h; exact hf n r hr

theorem strLt_irrefl (a : List Char) : strLt a a = false := by
  simp [strLt, cmpNats_refl]

theorem strLt_asymm (a b : List Char) (h : strLt a b = true) : strLt b a = false := by
  unfold strLt at *
  rw [cmpNats_swap]
  have : cmpNats (a.map Char.toNat) (b.map Char.toNat) = .lt := by simpa using h
  rw [this]; rfl

theorem strLt_trans (a b c : List Char) (h1 : strLt a b = true) (h2 : strLt b c = true) :
    strLt a c = true := by
  unfold strLt at *
  have e1 : cmpNats (a.map Char.toNat) (b.map Char.toNat) = .lt := by simpa using h1
  have e2 : cmpNats (b.map Char.toNat) (c.map Char.toNat) = .lt := by simpa using h2
  rw [cmpNats_trans e1 e2]; rfl

/-- serde_json → json-syntax → serde_json is the identity on the concrete number model -/
theorem sj_from_into (ftbl : List Char → Option (List Char)) (x : SJ SjNum)
    (hx : SJ.WF strLt (SjNum.WF ftbl) x) :
    intoSj strLt (sjConv ftbl) (fromSj SjNum.disp x) = x :=
  into_from strLt SjNum.disp (sjConv ftbl) strLt_irrefl strLt_asymm strLt_trans
    (SjNum.WF ftbl) (sjConv_disp ftbl) x hx

end JsonVerif
