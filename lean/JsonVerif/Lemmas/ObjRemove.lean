import JsonVerif.Lemmas.ObjOps
/-!
# `remove_at` keeps the key index exact (C06)
-/
namespace JsonVerif
open Obj

/-- `shift_down` on one position -/
def sd (index i : Nat) : Nat := if i > index then i - 1 else i

theorem Bucket.shiftDown_all (b : Bucket) (index : Nat) :
    (b.shiftDown index).all = b.all.map (sd index) := by
  simp [Bucket.shiftDown, Bucket.all, sd]

theorem Bucket.shiftDown_gkey (b : Bucket) (index : Nat) : (b.shiftDown index).gkey = b.gkey := rfl

theorem sd_mono {index i j : Nat} (hi : i ≠ index) (hj : j ≠ index) (h : i < j) : sd index i < sd index j := by
  unfold sd; split <;> split <;> omega

theorem sorted_map_sd {index : Nat} {l : List Nat} (hs : l.Pairwise (· < ·)) (hn : index ∉ l) :
    (l.map (sd index)).Pairwise (· < ·) := by
  rw [List.pairwise_map]
  refine hs.imp_of_mem ?_
  intro a b ha hb hab
  exact sd_mono (fun e => hn (e ▸ ha)) (fun e => hn (e ▸ hb)) hab

/-- `Indexes::remove` on a sorted bucket containing the index -/
theorem Bucket.remove_spec {b : Bucket} {index : Nat} (hs : b.all.Pairwise (· < ·)) (hm : index ∈ b.all) :
    (b.remove index = none ∧ b.all = [index]) ∨
    (∃ b', b.remove index = some b' ∧ b'.gkey = b.gkey ∧ b'.all.Pairwise (· < ·) ∧
      ∀ i, i ∈ b'.all ↔ i ∈ b.all ∧ i ≠ index) := by
  have hc := List.pairwise_cons.mp hs
  unfold Bucket.remove
  split
  · rename_i hr
    split
    · rename_i ho
      left
      refine ⟨rfl, ?_⟩
      simp only [Bucket.all]
      rw [hr, ho]
    · rename_i x xs ho
      right
      refine ⟨_, rfl, rfl, ?_, ?_⟩
      · simp only [Bucket.all]; rw [← ho]; exact hc.2
      · intro i
        simp only [Bucket.all, List.mem_cons]
        rw [← List.mem_cons, ← ho]
        constructor
        · intro hi
          have := hc.1 i hi
          exact ⟨Or.inr hi, by omega⟩
        · rintro ⟨h1 | h1, h2⟩
          · omega
          · exact h1
  · rename_i hr
    right
    have hnd : b.other.Nodup := hc.2.imp (fun h => Nat.ne_of_lt h)
    refine ⟨_, rfl, rfl, ?_, ?_⟩
    · simp only [Bucket.all]
      refine List.pairwise_cons.mpr ⟨?_, hc.2.sublist (List.erase_sublist)⟩
      intro a ha
      exact hc.1 a (List.mem_of_mem_erase ha)
    · intro i
      simp only [Bucket.all, List.mem_cons, hnd.mem_erase_iff]
      constructor
      · rintro (h | ⟨h1, h2⟩)
        · exact ⟨Or.inl h, by omega⟩
        · exact ⟨Or.inr h2, h1⟩
      · rintro ⟨h1 | h1, h2⟩
        · exact Or.inl h1
        · exact Or.inr ⟨h2, h1⟩

theorem keyAt_eraseIdx (es : List (Key × JValue)) (index j : Nat) :
    keyAt (es.eraseIdx index) j = if j < index then keyAt es j else keyAt es (j + 1) := by
  unfold keyAt
  rw [List.getElem?_eraseIdx]
  split <;> rfl

/-- positions of a key after erasing one entry: drop that position, shift the later ones down -/
theorem mem_posOf_eraseIdx {es : List (Key × JValue)} {index : Nat} {k : Key} {j : Nat} :
    j ∈ posOf k (es.eraseIdx index) ↔ ∃ i, i ∈ posOf k es ∧ i ≠ index ∧ sd index i = j := by
  rw [mem_posOf, keyAt_eraseIdx]
  constructor
  · intro h
    split at h
    · rename_i hlt
      exact ⟨j, mem_posOf.mpr h, by omega, by unfold sd; split <;> omega⟩
    · rename_i hge
      exact ⟨j + 1, mem_posOf.mpr h, by omega, by unfold sd; split <;> omega⟩
  · rintro ⟨i, hi, hne, rfl⟩
    have hk := mem_posOf.mp hi
    unfold sd
    split
    · rename_i hgt
      have : ¬ (i - 1 < index) := by omega
      rw [if_neg this]
      have : i - 1 + 1 = i := by omega
      rw [this]; exact hk
    · rename_i hle
      have : i < index := by omega
      rw [if_pos this]; exact hk

/-- under the invariant, the chain-and-equality test of a lookup singles out the key's bucket -/
theorem pred_iff {o : Obj} (h : Inv o) {c : Bucket} (hc : c ∈ o.buckets) (k : Key) :
    (c.gkey == k && keyAt o.entries c.rep == some k) = true ↔ c.gkey = k := by
  simp only [Bool.and_eq_true, beq_iff_eq]
  constructor
  · exact fun h => h.1
  · intro hk
    refine ⟨hk, ?_⟩
    have : c.rep ∈ posMask (fun _ => true) c.gkey o.entries := by
      rw [← h.exact c hc]; simp [Bucket.all]
    rw [hk] at this
    exact (mem_posMask.mp this).1

/-- the per-bucket action of `IndexMap::remove` -/
def rmF (es : List (Key × JValue)) (k : Key) (index : Nat) : Bucket → Option Bucket := fun c =>
  if (c.gkey == k && keyAt es c.rep == some k) = true then c.remove index else some c

/-- **`remove_at`**: no panic, the entry list loses exactly that entry, the removed entry is
    returned, and the index is exact again. -/
theorem removeAt_inv {o : Obj} (h : Inv o) (index : Nat) :
    ∃ o', o.removeAt index = some (o', o.entries[index]?) ∧ Inv o' ∧
      o'.entries = o.entries.eraseIdx index := by
  unfold removeAt
  by_cases hlt : index < o.entries.length
  case neg =>
    rw [if_neg hlt]
    refine ⟨o, ?_, h, ?_⟩
    · rw [List.getElem?_eq_none (by omega)]
    · rw [List.eraseIdx_of_length_le (by omega)]
  rw [if_pos hlt]
  obtain ⟨k, hk⟩ := keyAt_lt hlt
  have hmem : index ∈ posOf k o.entries := mem_posOf.mpr hk
  -- the bucket of k
  rcases findBucket_full h k with ⟨hp, _⟩ | ⟨b, hf, hall⟩
  · rw [hp] at hmem; cases hmem
  have hb : b ∈ o.buckets := by
    unfold findBucket at hf; exact List.mem_of_find?_eq_some hf
  have hbk : b.gkey = k := by
    unfold findBucket at hf
    have := List.find?_some hf
    simp only [Bool.and_eq_true, beq_iff_eq] at this
    exact this.1
  have hball : b.all = posOf k o.entries := by rw [hall]; rfl
  have hbs : b.all.Pairwise (· < ·) := by rw [hball]; exact posOf_sorted _ _
  have hbm : index ∈ b.all := by rw [hball]; exact hmem
  simp only [indexRemove, hk, hf]
  refine ⟨_, rfl, ?_, rfl⟩
  -- the invariant of the new index
  show Inv ⟨o.entries.eraseIdx index, indexShiftDown (o.buckets.filterMap (rmF o.entries k index)) index⟩
  generalize hfdef : rmF o.entries k index = f
  have hf_other : ∀ c ∈ o.buckets, c.gkey ≠ k → f c = some c := by
    intro c hc hne
    rw [← hfdef]; simp only [rmF]
    rw [if_neg (by rw [pred_iff h hc k]; exact hne)]
  have hf_b : ∀ c ∈ o.buckets, c.gkey = k → c = b := by
    intro c hc hck
    exact nodup_map_inj h.nodup hc hb (by rw [hck, hbk])
  have hf_k : f b = b.remove index := by
    rw [← hfdef]; simp only [rmF]
    rw [if_pos ((pred_iff h hb k).mpr hbk)]
  have hgk : ∀ c ∈ o.buckets, ∀ c', f c = some c' → c'.gkey = c.gkey := by
    intro c hc c' hfc
    by_cases hck : c.gkey = k
    · have := hf_b c hc hck; subst this
      rw [hf_k] at hfc
      rcases Bucket.remove_spec hbs hbm with ⟨hn, _⟩ | ⟨b', hr, hg, _, _⟩
      · rw [hn] at hfc; cases hfc
      · rw [hr] at hfc; cases hfc; exact hg
    · rw [hf_other c hc hck] at hfc; cases hfc; rfl
  -- all of a surviving bucket, before the shift
  have hall' : ∀ c ∈ o.buckets, ∀ c', f c = some c' →
      c'.all.Pairwise (· < ·) ∧ index ∉ c'.all ∧ ∀ i, i ∈ c'.all ↔ i ∈ posOf c.gkey o.entries ∧ i ≠ index := by
    intro c hc c' hfc
    have hcall : c.all = posOf c.gkey o.entries := by rw [h.exact c hc, posMask_true]
    by_cases hck : c.gkey = k
    · have := hf_b c hc hck; subst this
      rw [hf_k] at hfc
      rcases Bucket.remove_spec hbs hbm with ⟨hn, _⟩ | ⟨b', hr, _, hs', hm'⟩
      · rw [hn] at hfc; cases hfc
      · rw [hr] at hfc; cases hfc
        refine ⟨hs', fun hi => ((hm' index).mp hi).2 rfl, ?_⟩
        intro i; rw [hm' i, hcall]
    · rw [hf_other c hc hck] at hfc; cases hfc
      have hni : index ∉ c.all := by
        rw [hcall]; intro hi
        have := mem_posOf.mp hi
        rw [hk] at this; cases this; exact hck rfl
      refine ⟨by rw [hcall]; exact posOf_sorted _ _, hni, ?_⟩
      intro i; rw [hcall]
      constructor
      · intro hi; exact ⟨hi, fun e => hni (by rw [hcall, ← e]; exact hi)⟩
      · exact fun hi => hi.1
  constructor
  · -- nodup
    show ((indexShiftDown (o.buckets.filterMap f) index).map (·.gkey)).Nodup
    have hsub : ∀ (l : List Bucket), (∀ c ∈ l, c ∈ o.buckets) →
        ((indexShiftDown (l.filterMap f) index).map (·.gkey)).Sublist (l.map (·.gkey)) := by
      intro l
      induction l with
      | nil => intro _; simp [indexShiftDown]
      | cons c cs ih =>
        intro hl
        have ihs := ih (fun d hd => hl d (List.mem_cons_of_mem _ hd))
        simp only [List.filterMap_cons]
        cases hfc : f c with
        | none => simp only [List.map_cons]; exact ihs.cons _
        | some c' =>
          have := hgk c (hl c List.mem_cons_self) c' hfc
          simp only [indexShiftDown, List.map_cons, Bucket.shiftDown_gkey, this] at ihs ⊢
          exact ihs.cons_cons _
    exact (hsub o.buckets (fun _ hc => hc)).nodup h.nodup
  · -- exact
    intro b'' hb''
    simp only [indexShiftDown, List.mem_map, List.mem_filterMap] at hb''
    obtain ⟨c', ⟨c, hc, hfc⟩, rfl⟩ := hb''
    obtain ⟨hs', hni, hm'⟩ := hall' c hc c' hfc
    rw [posMask_true, Bucket.shiftDown_gkey, hgk c hc c' hfc, Bucket.shiftDown_all]
    apply sorted_ext (sorted_map_sd hs' hni) (posOf_sorted _ _)
    intro j
    rw [mem_posOf_eraseIdx, List.mem_map]
    constructor
    · rintro ⟨i, hi, rfl⟩
      exact ⟨i, ((hm' i).mp hi).1, ((hm' i).mp hi).2, rfl⟩
    · rintro ⟨i, hi, hne, rfl⟩
      exact ⟨i, (hm' i).mpr ⟨hi, hne⟩, rfl⟩
  · -- cover
    intro k' hne
    rw [posMask_true] at hne
    obtain ⟨j, hj⟩ := List.exists_mem_of_ne_nil _ hne
    obtain ⟨i, hi, hine, _⟩ := mem_posOf_eraseIdx.mp hj
    obtain ⟨c, hc, hck⟩ := h.cover k' (by rw [posMask_true]; exact List.ne_nil_of_mem hi)
    have hcall : c.all = posOf k' o.entries := by rw [h.exact c hc, posMask_true, hck]
    -- the bucket survives
    have : ∃ c', f c = some c' := by
      by_cases hkk : c.gkey = k
      · have := hf_b c hc hkk; subst this
        rw [hf_k]
        rcases Bucket.remove_spec hbs hbm with ⟨_, hone⟩ | ⟨b', hr, _⟩
        · rw [hcall, ] at hone
          rw [hone] at hi
          simp at hi; exact absurd hi hine
        · exact ⟨b', hr⟩
      · exact ⟨c, hf_other c hc hkk⟩
    obtain ⟨c', hfc⟩ := this
    refine ⟨c'.shiftDown index, ?_, by rw [Bucket.shiftDown_gkey, hgk c hc c' hfc, hck]⟩
    simp only [indexShiftDown, List.mem_map, List.mem_filterMap]
    exact ⟨c', ⟨c, hc, hfc⟩, rfl⟩

end JsonVerif
