import JsonVerif.Lemmas.Close
/-!
# Every partial token can be completed

When a lexical function reports an unexpected character (or the end of the input) after having read
`l`, some `comp` makes `l ++ comp` a complete token: digits for a number, the missing letters of a
literal, the missing hex digits / escape letter and the closing quote for a string.
-/
namespace JsonVerif

/-! ## numbers -/

theorem suffix_inhabited : ∀ st : NumState, ∃ w, Suffix st w
  | .init => ⟨['0'], gnumber_zero⟩
  | .firstDigit => ⟨['0'], ['0'], [], [], by simp, .zero, .none, .none⟩
  | .zero => ⟨[], [], [], by simp, .none, .none⟩
  | .nonZero => ⟨[], [], [], [], by simp, AllDigits.nil, .none, .none⟩
  | .fracFirst => ⟨['0'], '0', [], [], by simp, by decide, AllDigits.nil, .none⟩
  | .fracRest => ⟨[], [], [], by simp, AllDigits.nil, .none⟩
  | .expSign => ⟨['0'], .plain 'e' '0' [] (by decide) (by decide) AllDigits.nil⟩
  | .expFirst => ⟨['0'], '0', [], rfl, by decide, AllDigits.nil⟩
  | .expRest => ⟨[], AllDigits.nil⟩

/-- a number scanner that stops on an unexpected character (or needs more input) after `l` has read
    a prefix of a number -/
theorem numLoop_fail_suffix (ctx : Ctx) : ∀ (l z : List Char) (st : NumState) (buf : List Char)
    (pos : Nat) (c : Option Char),
    numLoop ctx st buf (l ++ z) pos = .error (.unexpected (pos + utf8Len l) c) →
    ∃ comp, Suffix st (l ++ comp)
  | [], z, st, buf, pos, c, _ => by
    obtain ⟨w, hw⟩ := suffix_inhabited st
    exact ⟨w, by simpa using hw⟩
  | d :: l, z, st, buf, pos, c, h => by
    simp only [List.cons_append, numLoop] at h
    cases ht : numTrans ctx st d with
    | to st2 =>
      simp only [ht] at h
      obtain ⟨comp, hc⟩ := numLoop_fail_suffix ctx l z st2 (buf ++ [d]) (pos + d.utf8Size) c
        (by simpa [utf8Len_cons, Nat.add_assoc] using h)
      exact ⟨comp, suffix_step_sound ht hc⟩
    | stop => simp [ht] at h
    | bad =>
      simp only [ht, Except.error.injEq, PErr.unexpected.injEq] at h
      have := utf8Size_pos d
      simp only [utf8Len_cons] at h
      omega

/-- the end-of-input variant: the scanner ran out of input in a non-accepting state -/
theorem numLoop_eof_suffix (ctx : Ctx) : ∀ (l : List Char) (st st' : NumState) (buf buf' : List Char)
    (pos p' : Nat), numLoop ctx st buf l pos = .ok (st', buf', [], p') → ∃ comp, Suffix st (l ++ comp)
  | [], st, st', buf, buf', pos, p', _ => by
    obtain ⟨w, hw⟩ := suffix_inhabited st
    exact ⟨w, by simpa using hw⟩
  | d :: l, st, st', buf, buf', pos, p', h => by
    simp only [numLoop] at h
    cases ht : numTrans ctx st d with
    | to st2 =>
      simp only [ht] at h
      obtain ⟨comp, hc⟩ := numLoop_eof_suffix ctx l st2 st' (buf ++ [d]) buf' (pos + d.utf8Size) p' h
      exact ⟨comp, suffix_step_sound ht hc⟩
    | stop => simp [ht] at h
    | bad => simp [ht] at h

theorem numTrans_stop_accepting {ctx : Ctx} {st : NumState} {c : Char} (h : numTrans ctx st c = .stop) :
    st.accepting = true := by
  cases st <;> simp only [numTrans] at h <;> (try rfl) <;> (repeat' (split at h)) <;> simp_all

theorem numLoop_stop_accepting {ctx : Ctx} : ∀ {l : List Char} {st st' : NumState} {buf buf' : List Char}
    {pos p' : Nat} {d : Char} {r : List Char},
    numLoop ctx st buf l pos = .ok (st', buf', d :: r, p') → st'.accepting = true
  | [], st, st', buf, buf', pos, p', d, r, h => by simp [numLoop] at h
  | c :: l, st, st', buf, buf', pos, p', d, r, h => by
    simp only [numLoop] at h
    cases ht : numTrans ctx st c with
    | to st2 => simp only [ht] at h; exact numLoop_stop_accepting h
    | stop =>
      simp only [ht, Except.ok.injEq, Prod.mk.injEq] at h
      obtain ⟨rfl, _, _, _⟩ := h
      exact numTrans_stop_accepting ht
    | bad => simp [ht] at h

/-- `lexNumber` stopping at the end of `l` (unexpected character or end of input): `l` is a prefix
    of a number -/
theorem lexNumber_fail_prefix {ctx : Ctx} {s : PS} {l z : List Char} {c : Option Char}
    (hs : s.rest = l ++ z) (h : lexNumber ctx s = .error (.unexpected (s.pos + utf8Len l) c)) :
    ∃ comp, GNumber (l ++ comp) := by
  unfold lexNumber at h
  simp only [PS.beginFragment_fst, PS.beginFragment_snd, beginFragment_rest, beginFragment_pos,
    beginFragment_bad, hs] at h
  cases h1 : numLoop ctx .init [] (l ++ z) s.pos with
  | error e =>
    simp only [h1, Except.error.injEq] at h
    subst h
    exact numLoop_fail_suffix ctx l z .init [] s.pos c h1
  | ok res =>
    obtain ⟨st, buf, r', p'⟩ := res
    simp only [h1] at h
    cases hb : (r'.isEmpty && s.bad) with
    | true => simp [hb] at h
    | false =>
      simp only [hb] at h
      cases hacc : st.accepting with
      | true =>
        simp only [hacc] at h
        split at h
        · rename_i e h2
          simp only [Except.error.injEq] at h
          have := endFragment_err h2; subst h; cases this
        · cases h
      | false =>
        simp only [hacc, Except.error.injEq, PErr.unexpected.injEq] at h
        -- the loop stopped without an error in a non-accepting state: it ran out of input
        obtain ⟨w, e1, hp, _⟩ := numLoop_adv h1
        have hr' : r' = [] := by
          cases r' with
          | nil => rfl
          | cons d r'' =>
            -- a `.stop` transition only leaves accepting states
            exfalso
            have hw : utf8Len w = utf8Len l := by omega
            have hlen := congrArg utf8Len e1
            simp only [utf8Len_append, utf8Len_cons] at hlen
            -- then z = d :: r'' … and numLoop returned at a `.stop`: st accepting
            have : st.accepting = true := by
              have hstop := numLoop_stop_accepting (ctx := ctx) h1
              exact hstop
            rw [hacc] at this; cases this
        subst hr'
        have : l ++ z = w := by simpa using e1
        obtain ⟨comp, hc⟩ := numLoop_eof_suffix ctx (l ++ z) .init st [] buf s.pos p' h1
        -- z must be empty: the whole input was consumed and the position is `pos + utf8Len l`
        have hz : z = [] := by
          have hlen := congrArg utf8Len this
          simp only [utf8Len_append] at hlen
          cases z with
          | nil => rfl
          | cons d z' => simp only [utf8Len_cons] at hlen; have := utf8Size_pos d; omega
        subst hz
        have hc' : GNumber (l ++ [] ++ comp) := hc
        exact ⟨comp, by simpa using hc'⟩

/-! ## literals -/

theorem expectChars_fail_prefix : ∀ (cs : List Char) (s : PS) (l z : List Char) (c : Option Char),
    s.rest = l ++ z → expectChars cs s = .error (.unexpected (s.pos + utf8Len l) c) → ∃ t, cs = l ++ t
  | [], s, l, z, c, _, h => by simp [expectChars] at h
  | d :: cs, s, l, z, c, hs, h => by
    cases l with
    | nil => exact ⟨d :: cs, by simp⟩
    | cons e l' =>
      simp only [expectChars] at h
      unfold expectChar at h
      simp only [hs, List.cons_append] at h
      by_cases hed : e = d
      · simp only [hed, ↓reduceIte] at h
        obtain ⟨t, ht⟩ := expectChars_fail_prefix cs (s.adv d (l' ++ z)) l' z c rfl
          (by simpa [PS.adv, utf8Len_cons, hed, Nat.add_assoc] using h)
        exact ⟨t, by simp [hed, ht]⟩
      · simp only [hed, ↓reduceIte, Except.error.injEq, PErr.unexpected.injEq] at h
        have := utf8Size_pos e
        simp only [utf8Len_cons] at h
        omega

theorem lexNull_fail_prefix {s : PS} {l z : List Char} {c : Option Char} (hs : s.rest = l ++ z)
    (h : lexNull s = .error (.unexpected (s.pos + utf8Len l) c)) :
    ∃ comp v, LValue allOpts (l ++ comp) v ∧ IsLeaf v := by
  unfold lexNull at h
  simp only [PS.beginFragment_fst, PS.beginFragment_snd] at h
  cases h1 : expectChars ['n', 'u', 'l', 'l'] s.reserve with
  | error e =>
    simp only [h1, Except.error.injEq] at h
    subst h
    obtain ⟨t, ht⟩ := expectChars_fail_prefix _ s.reserve l z c (by simpa using hs) (by simpa using h1)
    exact ⟨t, .null, by rw [← ht]; exact .null, trivial⟩
  | ok s1 =>
    simp only [h1] at h
    have := endFragment_err h; cases this

theorem lexBool_fail_prefix {s : PS} {l z : List Char} {c : Option Char} (hs : s.rest = l ++ z)
    (h : lexBool s = .error (.unexpected (s.pos + utf8Len l) c)) :
    ∃ comp v, LValue allOpts (l ++ comp) v ∧ IsLeaf v := by
  cases l with
  | nil => exact ⟨['t', 'r', 'u', 'e'], .bool true, by simpa using LValue.true, trivial⟩
  | cons d l' =>
    unfold lexBool at h
    simp only [PS.beginFragment_fst, PS.beginFragment_snd, beginFragment_rest, hs, List.cons_append] at h
    by_cases ht : d = 't'
    · subst ht
      simp only [↓reduceIte] at h
      cases h1 : expectChars ['t', 'r', 'u', 'e'] s.reserve with
      | error e =>
        simp only [h1, Except.error.injEq] at h
        subst h
        obtain ⟨t, htt⟩ := expectChars_fail_prefix _ s.reserve ('t' :: l') z c (by simpa using hs) (by simpa using h1)
        exact ⟨t, .bool true, by rw [← htt]; exact .true, trivial⟩
      | ok s1 =>
        simp only [h1] at h
        split at h
        · rename_i e h2
          simp only [Except.error.injEq] at h
          have := endFragment_err h2; subst h; cases this
        · cases h
    · by_cases hf : d = 'f'
      · subst hf
        have hne : ('f' : Char) ≠ 't' := by decide
        simp only [hne, ↓reduceIte] at h
        cases h1 : expectChars ['f', 'a', 'l', 's', 'e'] s.reserve with
        | error e =>
          simp only [h1, Except.error.injEq] at h
          subst h
          obtain ⟨t, htt⟩ := expectChars_fail_prefix _ s.reserve ('f' :: l') z c (by simpa using hs) (by simpa using h1)
          exact ⟨t, .bool false, by rw [← htt]; exact .false, trivial⟩
        | ok s1 =>
          simp only [h1] at h
          split at h
          · rename_i e h2
            simp only [Except.error.injEq] at h
            have := endFragment_err h2; subst h; cases this
          · cases h
      · simp only [ht, hf, ↓reduceIte, Except.error.injEq, PErr.unexpected.injEq] at h
        have := utf8Size_pos d
        simp only [beginFragment_pos, utf8Len_cons] at h
        omega

/-! ## strings: one step never looks past the element it reads -/

theorem hexDigitAt_cons (bad : Bool) (c : Char) (r : List Char) (pos : Nat) :
    hexDigitAt bad (c :: r) pos =
      (match hexVal c with
       | some h => .ok (h, r, pos + c.utf8Size)
       | none => .error (.unexpected pos (some c))) := by
  simp only [hexDigitAt]
  cases hexVal c <;> rfl

/-- a successful `parse_hex4` read exactly four characters and would read them before any tail -/
theorem hex4_ok_inv {bad : Bool} {l : List Char} {pos cp : Nat} {r : List Char} {p : Nat}
    (h : hex4 bad l pos = .ok (cp, r, p)) :
    ∃ a b c d, l = a :: b :: c :: d :: r ∧ ∀ y, hex4 bad (a :: b :: c :: d :: y) pos = .ok (cp, y, p) := by
  unfold hex4 at h
  cases l with
  | nil => simp [hexDigitAt] at h
  | cons a l1 =>
    rw [hexDigitAt_cons] at h
    cases ha : hexVal a with
    | none => simp [ha] at h
    | some x3 =>
      simp only [ha] at h
      cases l1 with
      | nil => simp [hexDigitAt] at h
      | cons b l2 =>
        rw [hexDigitAt_cons] at h
        cases hb : hexVal b with
        | none => simp [hb] at h
        | some x2 =>
          simp only [hb] at h
          cases l2 with
          | nil => simp [hexDigitAt] at h
          | cons c l3 =>
            rw [hexDigitAt_cons] at h
            cases hc : hexVal c with
            | none => simp [hc] at h
            | some x1 =>
              simp only [hc] at h
              cases l3 with
              | nil => simp [hexDigitAt] at h
              | cons d l4 =>
                rw [hexDigitAt_cons] at h
                cases hd : hexVal d with
                | none => simp [hd] at h
                | some x0 =>
                  simp only [hd, Except.ok.injEq, Prod.mk.injEq] at h
                  obtain ⟨rfl, rfl, rfl⟩ := h
                  refine ⟨a, b, c, d, rfl, fun y => ?_⟩
                  simp only [hex4, hexDigitAt_cons, ha, hb, hc, hd]

theorem escUK_more_inv {o : ParseOptions} {acc : List Char} {high : Option (Nat × Nat)} {pe cp pos3 : Nat}
    {r3 a : List Char} {hi : Option (Nat × Nat)} {r : List Char} {p : Nat}
    (h : escUK o acc high pe cp r3 pos3 = .more a hi r p) :
    r = r3 ∧ ∀ y, escUK o acc high pe cp y pos3 = .more a hi y p := by
  have h0 := escUK_app o acc high pe cp pos3 [] r3
  simp only [List.nil_append] at h0
  rw [h] at h0
  cases hk : escUK o acc high pe cp [] pos3 with
  | more a0 hi0 r0 p0 =>
    simp only [hk, StrStep.app, StrStep.more.injEq] at h0
    obtain ⟨rfl, rfl, hr, rfl⟩ := h0
    have hat := escUK_at o acc high pe cp pos3 []
    -- the continuation hands its input on unchanged
    have hr0 : r0 = [] := by
      unfold escUK at hk
      repeat' (split at hk)
      all_goals (first | (cases hk; done) | skip)
      all_goals (try (simp only [StrStep.more.injEq] at hk; exact hk.2.2.1.symm))
      all_goals (try (have := noHigh_adv hk; exact this.1))
    subst hr0
    refine ⟨by simpa using hr, fun y => ?_⟩
    have := escUK_app o acc high pe cp pos3 [] y
    simp only [List.nil_append] at this
    rw [this, hk]; rfl
  | done a0 r0 p0 q0 => simp [hk, StrStep.app] at h0
  | err e => simp [hk, StrStep.app] at h0

theorem flushChar_more_inv {o : ParseOptions} {acc : List Char} {high : Option (Nat × Nat)} {c : Char}
    {r0 : List Char} {pos pn : Nat} {a : List Char} {hi : Option (Nat × Nat)} {r : List Char} {p : Nat}
    (h : flushChar o acc high c r0 pos pn = .more a hi r p) :
    r = r0 ∧ ∀ y, flushChar o acc high c y pos pn = .more a hi y p := by
  unfold flushChar at h ⊢
  repeat' (split at h)
  all_goals (first | (cases h; done) | skip)
  all_goals (simp only [StrStep.more.injEq] at h; obtain ⟨rfl, rfl, rfl, rfl⟩ := h)
  all_goals (refine ⟨rfl, fun y => ?_⟩)
  all_goals simp_all

/-- a step that hands on (`more`) read a non-empty `w` and would read it before any tail -/
theorem strStep_more_any {o : ParseOptions} {bad : Bool} {acc : List Char} {high : Option (Nat × Nat)}
    {l : List Char} {pos : Nat} {a : List Char} {hi : Option (Nat × Nat)} {r : List Char} {p : Nat}
    (h : strStep o bad acc high l pos = .more a hi r p) :
    ∃ w, l = w ++ r ∧ ∀ y, strStep o bad acc high (w ++ y) pos = .more a hi y p := by
  unfold strStep at h
  cases l with
  | nil => simp at h
  | cons c rest =>
    simp only at h
    by_cases hq : c = '"'
    · simp only [hq, ↓reduceIte] at h
      repeat' (split at h)
      all_goals cases h
    · simp only [hq, ↓reduceIte] at h
      by_cases hb : c = '\\'
      · simp only [hb, ↓reduceIte] at h
        unfold strEsc at h
        cases rest with
        | nil => simp at h
        | cons e r2 =>
          simp only at h
          by_cases hu : e = 'u'
          · simp only [hu, ↓reduceIte] at h
            rw [strEscU_eq] at h
            cases h4 : hex4 bad r2 (pos + ('\\' : Char).utf8Size + ('u' : Char).utf8Size) with
            | error x => simp [h4] at h
            | ok v =>
              obtain ⟨cp, r3, pos3⟩ := v
              simp only [h4] at h
              obtain ⟨rfl, hk⟩ := escUK_more_inv h
              obtain ⟨a0, b0, c0, d0, rfl, h4y⟩ := hex4_ok_inv h4
              refine ⟨['\\', 'u', a0, b0, c0, d0], by simp [hb, hu], fun y => ?_⟩
              simp only [List.cons_append, List.nil_append, strStep, strEsc, ↓reduceIte]
              have h1 : ¬ (('\\' : Char) = '"') := by decide
              simp only [h1, ↓reduceIte]
              rw [strEscU_eq, h4y y]
              exact hk y
          · simp only [hu, ↓reduceIte] at h
            cases he : esc2 e with
            | none => simp [he] at h
            | some ch =>
              simp only [he] at h
              obtain ⟨rfl, hk⟩ := flushChar_more_inv h
              refine ⟨[c, e], by simp, fun y => ?_⟩
              simp only [List.cons_append, List.nil_append, strStep, hq, hb, strEsc, hu, he, ↓reduceIte]
              exact hk y
      · simp only [hb, ↓reduceIte] at h
        by_cases hc : isControl c = true
        · simp [hc] at h
        · simp only [hc, Bool.false_eq_true, ↓reduceIte] at h
          obtain ⟨rfl, hk⟩ := flushChar_more_inv h
          refine ⟨[c], by simp, fun y => ?_⟩
          simp only [List.cons_append, List.nil_append, strStep, hq, hb, hc, Bool.false_eq_true, ↓reduceIte]
          exact hk y

theorem hexVal_zero : hexVal '0' = some 0 := by decide

/-- a `parse_hex4` that stopped after `l` (fewer than four hex digits read) is completed by zeros -/
theorem hex4_fail_comp {bad : Bool} {l z : List Char} {pos : Nat} {c : Option Char}
    (h : hex4 bad (l ++ z) pos = .error (.unexpected (pos + utf8Len l) c)) :
    ∃ comp, ∀ y, ∃ cp p, hex4 bad (l ++ comp ++ y) pos = .ok (cp, y, p) := by
  unfold hex4 at h
  cases l with
  | nil =>
    refine ⟨['0', '0', '0', '0'], fun y => ?_⟩
    simp only [List.nil_append, List.cons_append, hex4, hexDigitAt_cons, hexVal_zero]
    exact ⟨_, _, rfl⟩
  | cons a l1 =>
    simp only [List.cons_append] at h
    have sa := utf8Size_pos a
    cases ha : hexVal a with
    | none =>
      rw [hexDigitAt_cons, ha] at h
      simp only [Except.error.injEq, PErr.unexpected.injEq, utf8Len_cons] at h; omega
    | some x3 =>
      rw [hexDigitAt_cons, ha] at h
      simp only at h
      cases l1 with
      | nil =>
        refine ⟨['0', '0', '0'], fun y => ?_⟩
        simp only [List.cons_append, List.nil_append, hex4, hexDigitAt_cons, ha, hexVal_zero]
        exact ⟨_, _, rfl⟩
      | cons b l2 =>
        simp only [List.cons_append] at h
        have sb := utf8Size_pos b
        cases hb : hexVal b with
        | none =>
          rw [hexDigitAt_cons, hb] at h
          simp only [Except.error.injEq, PErr.unexpected.injEq, utf8Len_cons] at h; omega
        | some x2 =>
          rw [hexDigitAt_cons, hb] at h
          simp only at h
          cases l2 with
          | nil =>
            refine ⟨['0', '0'], fun y => ?_⟩
            simp only [List.cons_append, List.nil_append, hex4, hexDigitAt_cons, ha, hb, hexVal_zero]
            exact ⟨_, _, rfl⟩
          | cons c0 l3 =>
            simp only [List.cons_append] at h
            have sc := utf8Size_pos c0
            cases hc : hexVal c0 with
            | none =>
              rw [hexDigitAt_cons, hc] at h
              simp only [Except.error.injEq, PErr.unexpected.injEq, utf8Len_cons] at h; omega
            | some x1 =>
              rw [hexDigitAt_cons, hc] at h
              simp only at h
              cases l3 with
              | nil =>
                refine ⟨['0'], fun y => ?_⟩
                simp only [List.cons_append, List.nil_append, hex4, hexDigitAt_cons, ha, hb, hc, hexVal_zero]
                exact ⟨_, _, rfl⟩
              | cons d0 l4 =>
                simp only [List.cons_append] at h
                have sd := utf8Size_pos d0
                cases hd : hexVal d0 with
                | none =>
                  rw [hexDigitAt_cons, hd] at h
                  simp only [Except.error.injEq, PErr.unexpected.injEq, utf8Len_cons] at h; omega
                | some x0 =>
                  rw [hexDigitAt_cons, hd] at h
                  simp at h

theorem noHigh_all_more (acc : List Char) (pe cp pos : Nat) (r : List Char) :
    ∃ a hi, noHigh allOpts acc pe cp r pos = .more a hi r pos := by
  unfold noHigh
  split
  · exact ⟨_, _, rfl⟩
  · split
    · exact ⟨_, _, rfl⟩
    · simp [allOpts]

/-- with every `\\uXXXX` allowed, a code unit is always accepted -/
theorem escUK_all_more (acc : List Char) (high : Option (Nat × Nat)) (pe cp pos3 : Nat) (r : List Char) :
    ∃ a hi, escUK allOpts acc high pe cp r pos3 = .more a hi r pos3 := by
  unfold escUK
  cases high with
  | none => exact noHigh_all_more _ _ _ _ _
  | some p =>
    obtain ⟨ph, h⟩ := p
    simp only
    split
    · split
      · exact ⟨_, _, rfl⟩
      · simp [allOpts]
    · simp only [allOpts, ↓reduceIte]
      exact noHigh_all_more _ _ _ _ _

theorem flushChar_all_more (acc : List Char) (high : Option (Nat × Nat)) (c : Char) (r : List Char)
    (pos pn : Nat) : ∃ a, flushChar allOpts acc high c r pos pn = .more a none r pos := by
  unfold flushChar
  cases high with
  | none => exact ⟨_, rfl⟩
  | some p => obtain ⟨ph, h⟩ := p; simp [allOpts]

/-- the closing quote ends the string under `allOpts`, whatever is pending -/
theorem strLoopAux_quote (bad : Bool) (fuel acc : List Char) (high : Option (Nat × Nat)) (r : List Char)
    (pos : Nat) : ∃ a p q, strLoopAux allOpts bad fuel acc high ('"' :: r) pos = .ok (a, r, p, q) := by
  rw [strLoopAux]
  have : ∃ a p q, strStep allOpts bad acc high ('"' :: r) pos = .done a r p q := by
    unfold strStep
    cases high with
    | none => exact ⟨_, _, _, rfl⟩
    | some p => obtain ⟨ph, h⟩ := p; simp [allOpts]
  obtain ⟨a, p, q, hs⟩ := this
  exact ⟨a, p, q, by simp [hs]⟩

/-- an element that stops on an unexpected character (or the end of input) after `l` is completed
    to an element; then the closing quote -/
theorem strStep_fail_complete {bad : Bool} {acc : List Char} {high : Option (Nat × Nat)} {l z : List Char}
    {pos : Nat} {c : Option Char}
    (h : strStep strictOpts bad acc high (l ++ z) pos = .err (.unexpected (pos + utf8Len l) c)) :
    ∃ comp, ∀ r fuel2, 1 ≤ fuel2.length →
      ∃ a p q, strLoopAux allOpts bad fuel2 acc high (l ++ comp ++ '"' :: r) pos = .ok (a, r, p, q) := by
  cases l with
  | nil =>
    refine ⟨[], fun r fuel2 _ => ?_⟩
    simpa using strLoopAux_quote bad fuel2 acc high r pos
  | cons c0 l1 =>
    have s0 := utf8Size_pos c0
    unfold strStep at h
    simp only [List.cons_append] at h
    by_cases hq : c0 = '"'
    · simp only [hq, ↓reduceIte] at h
      repeat' (split at h)
      all_goals (first | (cases h; done) | skip)
      all_goals (simp [strictOpts] at h)
    · simp only [hq, ↓reduceIte] at h
      by_cases hb : c0 = '\\'
      · subst hb
        simp only [↓reduceIte] at h
        unfold strEsc at h
        cases l1 with
        | nil =>
          -- only the backslash was read: complete with an ordinary escape
          refine ⟨['n'], fun r fuel2 hf => ?_⟩
          obtain ⟨a1, h1⟩ := flushChar_all_more acc high '\n' ('"' :: r)
            (pos + ('\\' : Char).utf8Size + ('n' : Char).utf8Size) pos
          cases fuel2 with
          | nil => simp at hf
          | cons f1 fuel2 =>
            obtain ⟨a, p, q, h2⟩ := strLoopAux_quote bad fuel2 a1 none r
              (pos + ('\\' : Char).utf8Size + ('n' : Char).utf8Size)
            refine ⟨a, p, q, ?_⟩
            rw [strLoopAux]
            have hn : ¬ (('\\' : Char) = '"') := by decide
            have hnu : ¬ (('n' : Char) = 'u') := by decide
            have he : esc2 'n' = some '\n' := by decide
            simp only [List.cons_append, List.nil_append, strStep, hn, ↓reduceIte, strEsc, hnu, he, h1]
            exact h2
        | cons e l2 =>
          have se := utf8Size_pos e
          simp only [List.cons_append] at h
          by_cases hu : e = 'u'
          · subst hu
            simp only [↓reduceIte] at h
            rw [strEscU_eq] at h
            cases h4 : hex4 bad (l2 ++ z) (pos + ('\\' : Char).utf8Size + ('u' : Char).utf8Size) with
            | error x =>
              simp only [h4, StrStep.err.injEq] at h
              subst h
              obtain ⟨comp, hc⟩ := hex4_fail_comp (bad := bad) (l := l2) (z := z) (c := c)
                (pos := pos + ('\\' : Char).utf8Size + ('u' : Char).utf8Size)
                (by rw [h4]; simp only [utf8Len_cons]; congr 2; omega)
              refine ⟨comp, fun r fuel2 hf => ?_⟩
              obtain ⟨cp, p4, h4'⟩ := hc ('"' :: r)
              obtain ⟨a1, hi1, h1⟩ := escUK_all_more acc high (pos + ('\\' : Char).utf8Size) cp p4 ('"' :: r)
              cases fuel2 with
              | nil => simp at hf
              | cons f1 fuel2 =>
                obtain ⟨a, p, q, h2⟩ := strLoopAux_quote bad fuel2 a1 hi1 r p4
                refine ⟨a, p, q, ?_⟩
                rw [strLoopAux]
                have hn : ¬ (('\\' : Char) = '"') := by decide
                simp only [List.cons_append, List.append_assoc, strStep, hn, ↓reduceIte, strEsc]
                rw [strEscU_eq]
                simp only [List.append_assoc] at h4'
                rw [h4']
                simp only [h1]
                exact h2
            | ok v =>
              obtain ⟨cp, r3, pos3⟩ := v
              simp only [h4] at h
              exact absurd h (StrStep.at_not_unexpected (escUK_at strictOpts acc high _ cp pos3 r3))
          · simp only [hu, ↓reduceIte] at h
            cases he : esc2 e with
            | some ch =>
              simp only [he] at h
              exact absurd h (StrStep.at_not_unexpected (flushChar_at _ _ _ _ _ _ _))
            | none =>
              simp only [he, StrStep.err.injEq, PErr.unexpected.injEq, utf8Len_cons] at h
              omega
      · simp only [hb, ↓reduceIte] at h
        by_cases hc : isControl c0 = true
        · simp only [hc, ↓reduceIte, StrStep.err.injEq, PErr.unexpected.injEq, utf8Len_cons] at h
          omega
        · simp only [hc, Bool.false_eq_true, ↓reduceIte] at h
          exact absurd h (StrStep.at_not_unexpected (flushChar_at _ _ _ _ _ _ _))

/-- two ways of cutting the same input: the one that consumed no more bytes is a prefix -/
theorem split_of_le {l x w t : List Char} (h : l ++ x = w ++ t) (hle : utf8Len w ≤ utf8Len l) :
    ∃ r, l = w ++ r ∧ t = r ++ x := by
  induction w generalizing l with
  | nil => exact ⟨l, by simp, by simpa using h.symm⟩
  | cons c w ih =>
    cases l with
    | nil => simp at hle; have := utf8Size_pos c; omega
    | cons d l =>
      simp only [List.cons_append, List.cons.injEq] at h
      obtain ⟨rfl, h⟩ := h
      simp only [utf8Len_cons] at hle
      obtain ⟨r, hl, ht⟩ := ih h (by omega)
      exact ⟨r, by simp [hl], ht⟩

theorem strLoopAux_fail_complete (bad : Bool) : ∀ (fuel acc : List Char) (high : Option (Nat × Nat))
    (l z : List Char) (pos : Nat) (c : Option Char),
    strLoopAux strictOpts bad fuel acc high (l ++ z) pos = .error (.unexpected (pos + utf8Len l) c) →
    ∃ comp, ∀ r fuel2, (l ++ comp ++ '"' :: r).length ≤ fuel2.length →
      ∃ a p q, strLoopAux allOpts bad fuel2 acc high (l ++ comp ++ '"' :: r) pos = .ok (a, r, p, q) := by
  intro fuel
  induction fuel with
  | nil =>
    intro acc high l z pos c h
    rw [strLoopAux] at h
    cases hs : strStep strictOpts bad acc high (l ++ z) pos with
    | done a1 r1 p1 q1 => simp [hs] at h
    | err e =>
      simp only [hs, Except.error.injEq] at h
      subst h
      obtain ⟨comp, hc⟩ := strStep_fail_complete hs
      exact ⟨comp, fun r fuel2 hf => hc r fuel2 (by simp at hf; omega)⟩
    | more a1 hi r1 p1 => simp [hs] at h
  | cons f0 fuel ih =>
    intro acc high l z pos c h
    rw [strLoopAux] at h
    cases hs : strStep strictOpts bad acc high (l ++ z) pos with
    | done a1 r1 p1 q1 => simp [hs] at h
    | err e =>
      simp only [hs, Except.error.injEq] at h
      subst h
      obtain ⟨comp, hc⟩ := strStep_fail_complete hs
      exact ⟨comp, fun r fuel2 hf => hc r fuel2 (by simp at hf; omega)⟩
    | more a1 hi r1' p1 =>
      simp only [hs] at h
      have hmono := strStep_more_mono (o := allOpts) hs
      obtain ⟨w, hw, hany⟩ := strStep_more_any hmono
      obtain ⟨w', hw', hp1⟩ := strStep_more_adv hs
      have hww : w' = w := by
        rw [hw] at hw'
        exact (List.append_cancel_right hw').symm
      subst hww
      have hq := strLoopAux_err_pos fuel h
      obtain ⟨l1, hl, hr1⟩ := split_of_le hw (by omega)
      have hwne : w' ≠ [] := by
        intro e; subst e
        have := strStep_len hs
        simp only [List.nil_append] at hw
        rw [hw] at this; omega
      subst hr1
      obtain ⟨comp, hc⟩ := ih a1 hi l1 z p1 c (by rw [h]; congr 2; rw [hl, hp1]; simp; omega)
      refine ⟨comp, fun r fuel2 hf => ?_⟩
      cases fuel2 with
      | nil => simp at hf
      | cons f2 fuel2 =>
        have hlen : (l1 ++ comp ++ '"' :: r).length ≤ fuel2.length := by
          have : 1 ≤ w'.length := by
            cases w' with
            | nil => exact absurd rfl hwne
            | cons _ _ => simp
          rw [hl] at hf
          simp only [List.length_append, List.length_cons] at hf ⊢
          omega
        obtain ⟨a, p, q, hres⟩ := hc r fuel2 hlen
        refine ⟨a, p, q, ?_⟩
        rw [strLoopAux]
        have : l ++ comp ++ '"' :: r = w' ++ (l1 ++ comp ++ '"' :: r) := by rw [hl]; simp
        rw [this, hany]
        exact hres

/-- a string literal whose scan stopped after `l` is completed to a string literal -/
theorem lexString_fail_complete {s : PS} {l z : List Char} {c : Option Char} (hs : s.rest = l ++ z)
    (h : lexString strictOpts s = .error (.unexpected (s.pos + utf8Len l) c)) :
    ∃ comp, ∀ r, ∃ str s', lexString allOpts (s.re (l ++ comp ++ r)) = .ok (str, s') ∧
      Post s s' r := by
  cases l with
  | nil =>
    refine ⟨['"', '"'], fun r => ?_⟩
    obtain ⟨a, p, q, h1⟩ := strLoopAux_quote s.bad ('"' :: r) [] none r (s.pos + ('"' : Char).utf8Size)
    obtain ⟨s2, h2, p2⟩ := leaf_close (s := s) (s1 := { s.reserve with rest := r, pos := p }) rfl
    refine ⟨a, s2, ?_, p2.rest, by rw [p2.bad]; rfl, Nat.le_trans (by simp [PS.reserve]) p2.cm⟩
    simp only [lexString, PS.beginFragment_fst, PS.beginFragment_snd, PS.reserve_re, PS.re_rest,
      List.nil_append, List.cons_append, ↓reduceIte, strLoop, PS.re_bad, PS.re_pos, beginFragment_bad,
      beginFragment_pos, h1, PS.re_cm]
    simp only [beginFragment_bad] at h2
    rw [h2]
  | cons d l1 =>
    have sd := utf8Size_pos d
    unfold lexString at h
    simp only [PS.beginFragment_fst, PS.beginFragment_snd, beginFragment_rest, beginFragment_pos,
      beginFragment_bad, hs, List.cons_append] at h
    by_cases hd : d = '"'
    · subst hd
      simp only [↓reduceIte] at h
      cases h1 : strLoop strictOpts s.bad [] none (l1 ++ z) (s.pos + ('"' : Char).utf8Size) with
      | error e =>
        simp only [h1, Except.error.injEq] at h
        subst h
        unfold strLoop at h1
        obtain ⟨comp, hc⟩ := strLoopAux_fail_complete s.bad (l1 ++ z) [] none l1 z _ c
          (by rw [h1]; simp only [utf8Len_cons]; congr 2; omega)
        refine ⟨comp ++ ['"'], fun r => ?_⟩
        obtain ⟨a, p, q, h2⟩ := hc r (l1 ++ comp ++ '"' :: r) (Nat.le_refl _)
        obtain ⟨s2, h3, p3⟩ := leaf_close (s := s) (s1 := { s.reserve with rest := r, pos := p }) rfl
        refine ⟨a, s2, ?_, p3.rest, by rw [p3.bad]; rfl, Nat.le_trans (by simp [PS.reserve]) p3.cm⟩
        simp only [lexString, PS.beginFragment_fst, PS.beginFragment_snd, PS.reserve_re, PS.re_rest,
          List.cons_append, List.append_assoc, ↓reduceIte, strLoop, PS.re_bad, PS.re_pos, beginFragment_bad,
          beginFragment_pos, PS.re_cm]
        simp only [List.append_assoc, List.cons_append, List.nil_append] at h2 ⊢
        rw [h2]
        simp only [beginFragment_bad] at h3
        simp only [h3]
      | ok v =>
        obtain ⟨str', r', pos', q'⟩ := v
        simp only [h1] at h
        split at h
        · rename_i e h2
          simp only [Except.error.injEq] at h
          have := endFragment_err h2; subst h; cases this
        · cases h
    · simp only [hd, ↓reduceIte, Except.error.injEq, PErr.unexpected.injEq, utf8Len_cons] at h
      omega

end JsonVerif
