import JsonVerif.Lemmas.Adv
/-! Facts about the machine proved by functional induction over `run`. -/
namespace JsonVerif

/-- A successful run consumed the whole input, kept `position = utf8Len consumed`, and the stream
    did not end in a decoding error. -/
theorem run_ok {o : ParseOptions} {stack : List StackItem} {value : Option JValue} {s : PS}
    {v : JValue} {s' : PS} (h : run o stack value s = .ok (v, s')) :
    Adv s s' ∧ s'.rest = [] ∧ s.bad = false := by
  fun_induction run o stack value s
  case case3 s1 hws hr =>
    cases h
    have ha := skipWs_adv hws
    refine ⟨ha, hr, ?_⟩
    unfold skipWs at hws
    simp only at hws
    split at hws
    · cases hws
    · rename_i hb
      cases hws
      simp only at hr
      simp [hr] at hb
      exact hb
  all_goals (first | (cases h; done) | skip)
  all_goals (rename_i ih; obtain ⟨a, b, c⟩ := ih h)
  case case5 h1 => have := parseFragment_adv h1; exact ⟨this.trans a, b, by rw [← this.2.1]; exact c⟩
  case case6 h1 => have := parseFragment_adv h1; exact ⟨this.trans a, b, by rw [← this.2.1]; exact c⟩
  case case7 h1 => have := parseFragment_adv h1; exact ⟨this.trans a, b, by rw [← this.2.1]; exact c⟩
  case case9 h1 => have := contArray_adv h1; exact ⟨this.trans a, b, by rw [← this.2.1]; exact c⟩
  case case10 h1 => have := contArray_adv h1; exact ⟨this.trans a, b, by rw [← this.2.1]; exact c⟩
  case case11 => exact ⟨a, b, c⟩
  case case13 h1 => have := parseFragment_adv h1; exact ⟨this.trans a, b, by rw [← this.2.1]; exact c⟩
  case case14 h1 => have := parseFragment_adv h1; exact ⟨this.trans a, b, by rw [← this.2.1]; exact c⟩
  case case15 h1 => have := parseFragment_adv h1; exact ⟨this.trans a, b, by rw [← this.2.1]; exact c⟩
  case case17 h1 => have := contObject_adv h1; exact ⟨this.trans a, b, by rw [← this.2.1]; exact c⟩
  case case18 h1 => have := contObject_adv h1; exact ⟨this.trans a, b, by rw [← this.2.1]; exact c⟩
  case case20 h1 => have := adv_end h1; exact ⟨this.trans a, b, by rw [← this.2.1]; exact c⟩
  case case23 =>
    have := (parseFragment_adv ‹parseFragment _ _ _ = _›).trans (adv_end ‹PS.endFragment _ _ = _›)
    exact ⟨this.trans a, b, by rw [← this.2.1]; exact c⟩
  case case24 h1 => have := parseFragment_adv h1; exact ⟨this.trans a, b, by rw [← this.2.1]; exact c⟩
  case case25 h1 => have := parseFragment_adv h1; exact ⟨this.trans a, b, by rw [← this.2.1]; exact c⟩

end JsonVerif
