import JsonVerif.Lemmas.PrintTokens
import JsonVerif.Spec.Grammar
/-!
# Every whitespace-interleaving of a value's token sequence is an RFC 8259 text denoting that value

With `spec_interleave` (every layout the printer can produce is such an interleaving) this puts the
printer's output inside the grammar, and the completeness theorem of the parser then gives the
round trip of C04 for every value and every option record.
-/
namespace JsonVerif

-- the invariant of `NumberBuf`: every number of the value is spelled as a JSON number
mutual
def NumsOk : JValue → Prop
  | .number n => GNumber n
  | .array xs => NumsOkL xs
  | .object es => NumsOkM es
  | _ => True
def NumsOkL : List JValue → Prop
  | [] => True
  | x :: xs => NumsOk x ∧ NumsOkL xs
def NumsOkM : List (List Char × JValue) → Prop
  | [] => True
  | (_, x) :: es => NumsOk x ∧ NumsOkM es
end

theorem ctl_escape : ∀ n : Fin 32,
    hexCp (hexDigitLower ((n.val / 4096) % 16)) (hexDigitLower ((n.val / 256) % 16))
      (hexDigitLower ((n.val / 16) % 16)) (hexDigitLower (n.val % 16)) = some n.val ∧
    isHigh n.val = false ∧ ofCp n.val = some (Char.ofNat n.val) := by decide

theorem escapeChar_gelem (c : Char) : GElem (escapeChar c) c := by
  unfold escapeChar
  split
  · rename_i h; subst h; exact .esc '\\' '\\' (by decide) (by decide)
  · split
    · rename_i h; subst h; exact .esc '"' '"' (by decide) (by decide)
    · split
      · rename_i h; subst h; exact .esc 'b' _ (by decide) (by decide)
      · split
        · rename_i h; subst h; exact .esc 't' _ (by decide) (by decide)
        · split
          · rename_i h; subst h; exact .esc 'n' _ (by decide) (by decide)
          · split
            · rename_i h; subst h; exact .esc 'f' _ (by decide) (by decide)
            · split
              · rename_i h; subst h; exact .esc 'r' _ (by decide) (by decide)
              · split
                · rename_i hctl
                  have hlt : c.toNat < 32 := by omega
                  obtain ⟨h1, h2, h3⟩ := ctl_escape ⟨c.toNat, hlt⟩
                  simp only at h1 h2 h3
                  rw [Char.ofNat_toNat] at h3
                  exact .u _ _ _ _ c.toNat c h1 h2 h3
                · rename_i h1 h2 _ _ _ _ _ hctl
                  exact .raw c h2 h1 (by simp [isControl]; omega)

theorem body_gbody (s : List Char) : GBody (s.flatMap escapeChar) s := by
  induction s with
  | nil => exact .nil
  | cons c s ih =>
    rw [List.flatMap_cons]
    exact .cons _ c _ s (escapeChar_gelem c) ih

theorem stringLiteral_gstring (s : List Char) : GString (stringLiteral s) s := by
  unfold stringLiteral
  exact .mk _ s (body_gbody s)

theorem Interleave.cons_inv {t : List Char} {ts : List (List Char)} {text : List Char}
    (h : Interleave (t :: ts) text) :
    ∃ w rest, text = w ++ t ++ rest ∧ IsWsL w ∧ Interleave ts rest := by
  cases h with
  | cons w t ts rest hw hr => exact ⟨w, rest, rfl, hw, hr⟩

theorem Interleave.nil_inv {text : List Char} (h : Interleave [] text) : IsWsL text := by
  cases h with
  | nil w hw => exact hw

/-- the tokens of a non-empty item list, without a leading separator -/
def toksL' : List JValue → Nat → List (List Char)
  | [], _ => []
  | x :: xs, i => toks x ++ toksL xs (i + 1)
/-- the tokens of a non-empty member list, without a leading separator -/
def toksM' : List (List Char × JValue) → Nat → List (List Char)
  | [], _ => []
  | (k, x) :: es, i => stringLiteral k :: [':'] :: (toks x ++ toksM es (i + 1))

mutual
theorem interleave_value : ∀ (v : JValue), NumsOk v → ∀ (ts : List (List Char)) (text : List Char),
    Interleave (toks v ++ ts) text →
    ∃ w t rest, text = w ++ t ++ rest ∧ IsWsL w ∧ GValue t v ∧ Interleave ts rest
  | .null, _, ts, text, h => by
    obtain ⟨w, rest, rfl, hw, hr⟩ := Interleave.cons_inv (by simpa [toks] using h)
    exact ⟨w, _, rest, rfl, hw, .null, hr⟩
  | .bool b, _, ts, text, h => by
    obtain ⟨w, rest, rfl, hw, hr⟩ := Interleave.cons_inv (by simpa [toks] using h)
    cases b
    · exact ⟨w, _, rest, rfl, hw, .false, hr⟩
    · exact ⟨w, _, rest, rfl, hw, .true, hr⟩
  | .number n, hn, ts, text, h => by
    obtain ⟨w, rest, rfl, hw, hr⟩ := Interleave.cons_inv (by simpa [toks] using h)
    exact ⟨w, n, rest, rfl, hw, .number n (by simpa [NumsOk] using hn), hr⟩
  | .string s, _, ts, text, h => by
    obtain ⟨w, rest, rfl, hw, hr⟩ := Interleave.cons_inv (by simpa [toks] using h)
    exact ⟨w, _, rest, rfl, hw, .string _ s (stringLiteral_gstring s), hr⟩
  | .array [], hn, ts, text, h => by
    simp only [toks, toksL, List.cons_append, List.nil_append] at h
    obtain ⟨w, rest1, rfl, hw, hr1⟩ := Interleave.cons_inv h
    obtain ⟨w0, rest, rfl, hw0, hr⟩ := Interleave.cons_inv hr1
    exact ⟨w, '[' :: (w0 ++ [']']), rest, by simp, hw, .arrEmpty w0 hw0, hr⟩
  | .array (x :: xs), hn, ts, text, h => by
    simp only [toks, List.cons_append, List.append_assoc] at h
    obtain ⟨w, rest1, rfl, hw, hr1⟩ := Interleave.cons_inv h
    simp only [NumsOk] at hn
    have h' : Interleave (toksL' (x :: xs) 0 ++ [']'] :: ts) rest1 := by
      simpa [toksL, toksL'] using hr1
    obtain ⟨ti, rest, rfl, hi, hr⟩ := interleave_items (x :: xs) 0 hn (by simp) ts rest1 h'
    exact ⟨w, '[' :: (ti ++ [']']), rest, by simp, hw, .arr ti _ hi, hr⟩
  | .object [], hn, ts, text, h => by
    simp only [toks, toksM, List.cons_append, List.nil_append] at h
    obtain ⟨w, rest1, rfl, hw, hr1⟩ := Interleave.cons_inv h
    obtain ⟨w0, rest, rfl, hw0, hr⟩ := Interleave.cons_inv hr1
    exact ⟨w, '{' :: (w0 ++ ['}']), rest, by simp, hw, .objEmpty w0 hw0, hr⟩
  | .object (e :: es), hn, ts, text, h => by
    simp only [toks, List.cons_append, List.append_assoc] at h
    obtain ⟨w, rest1, rfl, hw, hr1⟩ := Interleave.cons_inv h
    simp only [NumsOk] at hn
    have h' : Interleave (toksM' (e :: es) 0 ++ ['}'] :: ts) rest1 := by
      obtain ⟨k, x⟩ := e
      simpa [toksM, toksM'] using hr1
    obtain ⟨tm, rest, rfl, hm, hr⟩ := interleave_members (e :: es) 0 hn (by simp) ts rest1 h'
    exact ⟨w, '{' :: (tm ++ ['}']), rest, by simp, hw, .obj tm _ hm, hr⟩
theorem interleave_items : ∀ (l : List JValue) (i : Nat), NumsOkL l → l ≠ [] →
    ∀ (ts : List (List Char)) (text : List Char),
    Interleave (toksL' l i ++ [']'] :: ts) text →
    ∃ ti rest, text = ti ++ ']' :: rest ∧ GItems ti l ∧ Interleave ts rest
  | [], _, _, hne, _, _, _ => absurd rfl hne
  | [x], i, hl, _, ts, text, h => by
    simp only [NumsOkL] at hl
    simp only [toksL', toksL, List.append_nil] at h
    obtain ⟨w1, t, rest1, rfl, hw1, hg, hr1⟩ := interleave_value x hl.1 _ text h
    obtain ⟨w2, rest, rfl, hw2, hr⟩ := Interleave.cons_inv hr1
    exact ⟨w1 ++ t ++ w2, rest, by simp, .one w1 t w2 x hw1 hg hw2, hr⟩
  | x :: y :: ys, i, hl, _, ts, text, h => by
    simp only [NumsOkL] at hl
    have h0 : Interleave (toks x ++ ([','] :: (toksL' (y :: ys) (i + 1) ++ [']'] :: ts))) text := by
      simpa [toksL', toksL] using h
    obtain ⟨w1, t, rest1, rfl, hw1, hg, hr1⟩ := interleave_value x hl.1 _ text h0
    obtain ⟨w2, rest2, rfl, hw2, hr2⟩ := Interleave.cons_inv hr1
    obtain ⟨ti, rest, rfl, hi, hr⟩ := interleave_items (y :: ys) (i + 1) (by simpa [NumsOkL] using hl.2) (by simp) ts rest2 hr2
    exact ⟨w1 ++ t ++ w2 ++ ',' :: ti, rest, by simp, .cons w1 t w2 ti x (y :: ys) hw1 hg hw2 hi, hr⟩
theorem interleave_members : ∀ (l : List (List Char × JValue)) (i : Nat), NumsOkM l → l ≠ [] →
    ∀ (ts : List (List Char)) (text : List Char),
    Interleave (toksM' l i ++ ['}'] :: ts) text →
    ∃ tm rest, text = tm ++ '}' :: rest ∧ GMembers tm l ∧ Interleave ts rest
  | [], _, _, hne, _, _, _ => absurd rfl hne
  | [(k, x)], i, hl, _, ts, text, h => by
    simp only [NumsOkM] at hl
    simp only [toksM', toksM, List.append_nil, List.cons_append] at h
    obtain ⟨w1, r1, rfl, hw1, hr1⟩ := Interleave.cons_inv h
    obtain ⟨w2, r2, rfl, hw2, hr2⟩ := Interleave.cons_inv hr1
    obtain ⟨w3, t, r3, rfl, hw3, hg, hr3⟩ := interleave_value x hl.1 _ r2 hr2
    obtain ⟨w4, rest, rfl, hw4, hr⟩ := Interleave.cons_inv hr3
    exact ⟨w1 ++ stringLiteral k ++ w2 ++ ':' :: (w3 ++ t ++ w4), rest, by simp,
      .one w1 _ w2 w3 t w4 k x hw1 (stringLiteral_gstring k) hw2 hw3 hg hw4, hr⟩
  | (k, x) :: e2 :: es, i, hl, _, ts, text, h => by
    simp only [NumsOkM] at hl
    have h0 : Interleave (stringLiteral k :: [':'] :: (toks x ++ ([','] :: (toksM' (e2 :: es) (i + 1) ++ ['}'] :: ts)))) text := by
      obtain ⟨k2, y⟩ := e2
      simpa [toksM', toksM] using h
    obtain ⟨w1, r1, rfl, hw1, hr1⟩ := Interleave.cons_inv h0
    obtain ⟨w2, r2, rfl, hw2, hr2⟩ := Interleave.cons_inv hr1
    obtain ⟨w3, t, r3, rfl, hw3, hg, hr3⟩ := interleave_value x hl.1 _ r2 hr2
    obtain ⟨w4, r4, rfl, hw4, hr4⟩ := Interleave.cons_inv hr3
    obtain ⟨tm, rest, rfl, hm, hr⟩ := interleave_members (e2 :: es) (i + 1) hl.2 (by simp) ts r4 hr4
    exact ⟨w1 ++ stringLiteral k ++ w2 ++ ':' :: (w3 ++ t ++ w4 ++ ',' :: tm), rest, by simp,
      .cons w1 _ w2 w3 t w4 tm k x (e2 :: es) hw1 (stringLiteral_gstring k) hw2 hw3 hg hw4 hm, hr⟩
end

/-- **Every whitespace-interleaving of a value's tokens is a JSON text denoting that value.** -/
theorem interleave_gdoc {v : JValue} (hn : NumsOk v) {text : List Char}
    (h : Interleave (toks v) text) : GDoc text v := by
  obtain ⟨w, t, rest, rfl, hw, hg, hr⟩ := interleave_value v hn [] text (by simpa using h)
  exact ⟨w, t, rest, rfl, hw, hg, hr.nil_inv⟩

end JsonVerif
