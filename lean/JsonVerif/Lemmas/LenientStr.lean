import JsonVerif.Spec.Lenient
import JsonVerif.Lemmas.GramStr
/-!
# The string scanner under any option record reads exactly `LString o` (C12, exactness)
-/
namespace JsonVerif

theorem hexVal_lt {c : Char} {h : Nat} (hv : hexVal c = some h) : h < 16 := by
  unfold hexVal at hv
  split at hv
  · rename_i hc; cases hv
    have h2 := hc.2
    rw [Char.le_def, UInt32.le_iff_toNat_le] at h2
    have : ('9'.val).toNat = 57 := by decide
    show c.val.toNat - 48 < 16
    omega
  · split at hv
    · rename_i hc; cases hv
      have h2 := hc.2
      rw [Char.le_def, UInt32.le_iff_toNat_le] at h2
      have : ('f'.val).toNat = 102 := by decide
      show c.val.toNat - 87 < 16
      omega
    · split at hv
      · rename_i hc; cases hv
        have h2 := hc.2
        rw [Char.le_def, UInt32.le_iff_toNat_le] at h2
        have : ('F'.val).toNat = 70 := by decide
        show c.val.toNat - 55 < 16
        omega
      · cases hv

theorem hexCp_lt {a b c d : Char} {cp : Nat} (h : hexCp a b c d = some cp) : cp < 65536 := by
  unfold hexCp at h
  split at h
  · rename_i x3 x2 x1 x0 h3 h2 h1 h0
    cases h
    have := hexVal_lt h3; have := hexVal_lt h2; have := hexVal_lt h1; have := hexVal_lt h0
    omega
  · cases h

theorem ofCp_none_low {cp : Nat} (h : ofCp cp = none) (hlt : cp < 65536) (hh : isHigh cp = false) :
    isLow cp = true := by
  unfold ofCp at h
  split at h
  · cases h
  · rename_i hv
    simp only [Nat.isValidChar, not_or, not_and, Nat.not_lt] at hv
    simp only [isHigh, Bool.and_eq_false_iff, decide_eq_false_iff_not, Nat.not_le] at hh
    simp only [isLow, Bool.and_eq_true, decide_eq_true_eq]
    omega

theorem ofCp_low_none {lo : Nat} (h : isLow lo = true) : ofCp lo = none := by
  unfold ofCp
  simp only [isLow, Bool.and_eq_true, decide_eq_true_eq] at h
  rw [dif_neg]
  simp only [Nat.isValidChar, not_or, not_and, Nat.not_lt]
  omega

theorem ofCp_pair_some {h l : Nat} (hh : isHigh h = true) (hl : isLow l = true) :
    ∃ ch, ofCp (pairCp h l) = some ch := by
  unfold ofCp
  simp only [isHigh, isLow, Bool.and_eq_true, decide_eq_true_eq] at hh hl
  have : (pairCp h l).isValidChar := by
    simp only [Nat.isValidChar, pairCp]; omega
  rw [dif_pos this]
  exact ⟨_, rfl⟩

theorem StartsLow.mono {l x : List Char} (h : StartsLow l) : StartsLow (l ++ x) := by
  obtain ⟨a, b, c, d, lo, r, rfl, h1, h2⟩ := h
  exact ⟨a, b, c, d, lo, r ++ x, by simp, h1, h2⟩

/-! ## One iteration, no high surrogate pending, any option record -/

theorem strStepO_none_done {o : ParseOptions} {bad : Bool} {acc l : List Char} {pos : Nat}
    {a r : List Char} {p q : Nat}
    (h : strStep o bad acc none l pos = .done a r p q) : l = '"' :: r ∧ a = acc := by
  unfold strStep at h
  split at h
  · cases h
  · rename_i c r'
    split at h
    · rename_i hc; cases h; exact ⟨by rw [hc], rfl⟩
    · split at h
      · unfold strEsc at h
        split at h
        · cases h
        · split at h
          · unfold strEscU at h
            split at h
            · cases h
            · simp only [noHigh] at h
              repeat' (split at h)
              all_goals cases h
          · split at h
            · simp [flushChar] at h
            · cases h
      · split at h
        · cases h
        · simp [flushChar] at h

theorem strStepO_none_more {o : ParseOptions} {bad : Bool} {acc l : List Char} {pos : Nat}
    {a : List Char} {hi : Option (Nat × Nat)} {r : List Char} {p : Nat}
    (h : strStep o bad acc none l pos = .more a hi r p) :
    (∃ t ch, l = t ++ r ∧ GElem t ch ∧ a = acc ++ [ch] ∧ hi = none) ∨
    (∃ x y z w cp pe, l = '\\' :: 'u' :: x :: y :: z :: w :: r ∧ hexCp x y z w = some cp ∧
        isHigh cp = true ∧ a = acc ∧ hi = some (pe, cp)) ∨
    (o.inval = true ∧ ∃ x y z w lo, l = '\\' :: 'u' :: x :: y :: z :: w :: r ∧ hexCp x y z w = some lo ∧
        isLow lo = true ∧ a = acc ++ [fffd] ∧ hi = none) := by
  unfold strStep at h
  split at h
  · cases h
  · rename_i c r'
    split at h
    · cases h
    · rename_i hq
      split at h
      · rename_i hb
        subst hb
        unfold strEsc at h
        split at h
        · cases h
        · rename_i e r2
          split at h
          · rename_i he
            subst he
            unfold strEscU at h
            split at h
            · cases h
            · rename_i cp r3 pos3 h4
              obtain ⟨x, y, z, w, rfl, hcp⟩ := hex4_ok h4
              simp only [noHigh] at h
              split at h
              · rename_i hh
                cases h
                exact .inr (.inl ⟨x, y, z, w, cp, _, rfl, hcp, hh, rfl, rfl⟩)
              · rename_i hh
                split at h
                · rename_i ch hch
                  cases h
                  exact .inl ⟨['\\', 'u', x, y, z, w], ch, rfl,
                    .u x y z w cp ch hcp (by simpa using hh) hch, rfl, rfl⟩
                · rename_i hnone
                  split at h
                  · rename_i hinv
                    cases h
                    exact .inr (.inr ⟨hinv, x, y, z, w, cp, rfl, hcp,
                      ofCp_none_low hnone (hexCp_lt hcp) (by simpa using hh), rfl, rfl⟩)
                  · cases h
          · rename_i he
            split at h
            · rename_i ch hch
              simp only [flushChar] at h
              cases h
              exact .inl ⟨['\\', e], ch, rfl, .esc e ch he hch, rfl, rfl⟩
            · cases h
      · rename_i hb
        split at h
        · cases h
        · rename_i hctl
          simp only [flushChar] at h
          cases h
          exact .inl ⟨[c], c, rfl, .raw c hq hb (by simpa using hctl), rfl, rfl⟩

/-! ## With a high surrogate pending -/

/-- a low-surrogate escape completes the pair, whatever the options -/
theorem strStepO_pair {o : ParseOptions} (bad : Bool) (acc r : List Char) (pos ph hv : Nat)
    {a b c d ch : Char} {lo : Nat}
    (h1 : hexCp a b c d = some lo) (h2 : isLow lo = true) (h3 : ofCp (pairCp hv lo) = some ch) :
    ∃ p, strStep o bad acc (some (ph, hv)) ('\\' :: 'u' :: a :: b :: c :: d :: r) pos =
      .more (acc ++ [ch]) none r p := by
  obtain ⟨p, hp⟩ := hex4_of (bad := bad) r (pos + '\\'.utf8Size + 'u'.utf8Size) h1
  exact ⟨p, by simp [strStep, strEsc, strEscU, hp, h2, h3]⟩

/-- anything else: with `accept_truncated_surrogate_pair` the pending high becomes U+FFFD and the
    scanner carries on exactly as if nothing had been pending -/
theorem strStepO_trunc {o : ParseOptions} (ht : o.trunc = true) (bad : Bool) (acc l : List Char)
    (pos ph hv : Nat) (hn : ¬ StartsLow l) :
    strStep o bad acc (some (ph, hv)) l pos = strStep o bad (acc ++ [fffd]) none l pos := by
  unfold strStep
  split
  · rfl
  · rename_i c r
    split
    · simp [ht]
    · rename_i hq
      split
      · rename_i hb
        unfold strEsc
        split
        · rfl
        · rename_i e r2
          split
          · rename_i he
            unfold strEscU
            split
            · rfl
            · rename_i cp r3 pos3 h4
              have hnl : isLow cp = false := by
                cases hl : isLow cp with
                | false => rfl
                | true =>
                  obtain ⟨x, y, z, w, hr, hcp⟩ := hex4_ok h4
                  exact absurd ⟨x, y, z, w, cp, r3, by rw [hb, he, hr], hcp, hl⟩ hn
              simp [hnl, ht]
          · split
            · simp [flushChar, ht]
            · rfl
      · split
        · rfl
        · simp [flushChar, ht]

/-- without it, nothing but a low-surrogate escape is accepted after a high one -/
theorem strStepO_strictHigh {o : ParseOptions} (ht : o.trunc = false) {bad : Bool} {acc l : List Char}
    {pos ph hv : Nat} (hn : ¬ StartsLow l) :
    (∀ a r p q, strStep o bad acc (some (ph, hv)) l pos ≠ .done a r p q) ∧
    (∀ a hi r p, strStep o bad acc (some (ph, hv)) l pos ≠ .more a hi r p) := by
  constructor
  · intro a r p q h
    unfold strStep at h
    split at h
    · cases h
    · split at h
      · simp [ht] at h
      · split at h
        · unfold strEsc at h
          split at h
          · cases h
          · split at h
            · unfold strEscU at h
              split at h
              · cases h
              · simp only at h
                repeat' (split at h)
                all_goals (first | cases h | (simp [ht] at h; done) | (rename_i htt; rw [ht] at htt; cases htt))
            · split at h
              · simp [flushChar, ht] at h
              · cases h
        · split at h
          · cases h
          · simp [flushChar, ht] at h
  · intro a hi r p h
    unfold strStep at h
    split at h
    · cases h
    · rename_i c r'
      split at h
      · simp [ht] at h
      · split at h
        · rename_i hb
          unfold strEsc at h
          split at h
          · cases h
          · rename_i e r2
            split at h
            · rename_i he
              unfold strEscU at h
              split at h
              · cases h
              · rename_i cp r3 pos3 h4
                obtain ⟨x, y, z, w, hr, hcp⟩ := hex4_ok h4
                have hnl : isLow cp = false := by
                  cases hl : isLow cp with
                  | false => rfl
                  | true => exact absurd ⟨x, y, z, w, cp, r3, by rw [hb, he, hr], hcp, hl⟩ hn
                simp [hnl, ht] at h
            · split at h
              · simp [flushChar, ht] at h
              · cases h
        · split at h
          · cases h
          · simp [flushChar, ht] at h

end JsonVerif

namespace JsonVerif

theorem isLow_not_high {n : Nat} (h : isLow n = true) : isHigh n = false := by
  simp only [isLow, isHigh, Bool.and_eq_true, decide_eq_true_eq, Bool.and_eq_false_iff,
    decide_eq_false_iff_not, Nat.not_le] at *
  omega

/-! ## Forward steps, any option record -/

theorem strStepO_quote (o : ParseOptions) (bad : Bool) (acc r : List Char) (pos : Nat) :
    strStep o bad acc none ('"' :: r) pos = .done acc r (pos + '"'.utf8Size) pos := by
  simp [strStep]

theorem strStepO_raw (o : ParseOptions) (bad : Bool) (acc r : List Char) (pos : Nat) {c : Char}
    (h1 : c ≠ '"') (h2 : c ≠ '\\') (h3 : isControl c = false) :
    strStep o bad acc none (c :: r) pos = .more (acc ++ [c]) none r (pos + c.utf8Size) := by
  simp [strStep, h1, h2, h3, flushChar]

theorem strStepO_esc (o : ParseOptions) (bad : Bool) (acc r : List Char) (pos : Nat) {e ch : Char}
    (h1 : e ≠ 'u') (h2 : esc2 e = some ch) :
    ∃ p, strStep o bad acc none ('\\' :: e :: r) pos = .more (acc ++ [ch]) none r p := by
  exact ⟨_, by simp [strStep, strEsc, h1, h2, flushChar]; rfl⟩

theorem strStepO_u (o : ParseOptions) (bad : Bool) (acc r : List Char) (pos : Nat) {a b c d ch : Char}
    {cp : Nat} (h1 : hexCp a b c d = some cp) (h2 : isHigh cp = false) (h3 : ofCp cp = some ch) :
    ∃ p, strStep o bad acc none ('\\' :: 'u' :: a :: b :: c :: d :: r) pos = .more (acc ++ [ch]) none r p := by
  obtain ⟨p, hp⟩ := hex4_of (bad := bad) r (pos + '\\'.utf8Size + 'u'.utf8Size) h1
  exact ⟨p, by simp [strStep, strEsc, strEscU, hp, noHigh, h2, h3]⟩

theorem strStepO_high (o : ParseOptions) (bad : Bool) (acc r : List Char) (pos : Nat) {a b c d : Char}
    {hi : Nat} (h1 : hexCp a b c d = some hi) (h2 : isHigh hi = true) :
    ∃ pe p, strStep o bad acc none ('\\' :: 'u' :: a :: b :: c :: d :: r) pos =
      .more acc (some (pe, hi)) r p := by
  obtain ⟨p, hp⟩ := hex4_of (bad := bad) r (pos + '\\'.utf8Size + 'u'.utf8Size) h1
  exact ⟨_, p, by simp [strStep, strEsc, strEscU, hp, noHigh, h2]; rfl⟩

theorem strStepO_loneLow {o : ParseOptions} (hinv : o.inval = true) (bad : Bool) (acc r : List Char)
    (pos : Nat) {a b c d : Char} {lo : Nat} (h1 : hexCp a b c d = some lo) (h2 : isLow lo = true) :
    ∃ p, strStep o bad acc none ('\\' :: 'u' :: a :: b :: c :: d :: r) pos =
      .more (acc ++ [fffd]) none r p := by
  obtain ⟨p, hp⟩ := hex4_of (bad := bad) r (pos + '\\'.utf8Size + 'u'.utf8Size) h1
  exact ⟨p, by simp [strStep, strEsc, strEscU, hp, noHigh, isLow_not_high h2, ofCp_low_none h2, hinv]⟩

theorem strLoopAux_trunc {o : ParseOptions} (ht : o.trunc = true) (bad : Bool) (fuel acc l : List Char)
    (pos ph hv : Nat) (hn : ¬ StartsLow l) :
    strLoopAux o bad fuel acc (some (ph, hv)) l pos = strLoopAux o bad fuel (acc ++ [fffd]) none l pos := by
  unfold strLoopAux
  rw [strStepO_trunc ht bad acc l pos ph hv hn]

/-! ## The loop -/

/-- **Exactness, soundness half**: what the scanner accepts under `o` is an `LBody o`. -/
theorem strLoopO_sound (o : ParseOptions) {bad : Bool} : ∀ (fuel : List Char),
    (∀ acc l pos a r p q, strLoopAux o bad fuel acc none l pos = .ok (a, r, p, q) →
      ∃ t cs, l = t ++ '"' :: r ∧ LBody o t cs ∧ a = acc ++ cs) ∧
    (∀ acc ph hv l pos a r p q, isHigh hv = true →
      strLoopAux o bad fuel acc (some (ph, hv)) l pos = .ok (a, r, p, q) →
      (∃ x y z w lo ch t cs, l = '\\' :: 'u' :: x :: y :: z :: w :: (t ++ '"' :: r) ∧
        hexCp x y z w = some lo ∧ isLow lo = true ∧ ofCp (pairCp hv lo) = some ch ∧ LBody o t cs ∧
        a = acc ++ ch :: cs) ∨
      (o.trunc = true ∧ ¬ StartsLow l ∧ ∃ t cs, l = t ++ '"' :: r ∧ LBody o t cs ∧ a = acc ++ fffd :: cs)) := by
  intro fuel
  -- the pending-high half follows from the other half at the same fuel (truncation) or one less (pair)
  have some_of : ∀ (fuel : List Char),
      (∀ acc l pos a r p q, strLoopAux o bad fuel acc none l pos = .ok (a, r, p, q) →
        ∃ t cs, l = t ++ '"' :: r ∧ LBody o t cs ∧ a = acc ++ cs) →
      (∀ f fuel', fuel = f :: fuel' → ∀ acc l pos a r p q, strLoopAux o bad fuel' acc none l pos = .ok (a, r, p, q) →
        ∃ t cs, l = t ++ '"' :: r ∧ LBody o t cs ∧ a = acc ++ cs) →
      ∀ acc ph hv l pos a r p q, isHigh hv = true →
      strLoopAux o bad fuel acc (some (ph, hv)) l pos = .ok (a, r, p, q) →
      (∃ x y z w lo ch t cs, l = '\\' :: 'u' :: x :: y :: z :: w :: (t ++ '"' :: r) ∧
        hexCp x y z w = some lo ∧ isLow lo = true ∧ ofCp (pairCp hv lo) = some ch ∧ LBody o t cs ∧
        a = acc ++ ch :: cs) ∨
      (o.trunc = true ∧ ¬ StartsLow l ∧ ∃ t cs, l = t ++ '"' :: r ∧ LBody o t cs ∧ a = acc ++ fffd :: cs) := by
    intro fuel hN hPrev acc ph hv l pos a r p q hh h
    by_cases hsl : StartsLow l
    · left
      obtain ⟨x, y, z, w, lo, r0, rfl, hlo, hl⟩ := hsl
      obtain ⟨ch, hch⟩ := ofCp_pair_some hh hl
      obtain ⟨p1, hs⟩ := strStepO_pair (o := o) bad acc r0 pos ph hv hlo hl hch
      unfold strLoopAux at h
      rw [hs] at h
      cases fuel with
      | nil => cases h
      | cons f fuel' =>
        simp only at h
        obtain ⟨t, cs, rfl, hb, rfl⟩ := hPrev f fuel' rfl _ _ _ _ _ _ _ h
        exact ⟨x, y, z, w, lo, ch, t, cs, rfl, hlo, hl, hch, hb, by simp⟩
    · cases ht : o.trunc with
      | true =>
        right
        rw [strLoopAux_trunc ht bad fuel acc l pos ph hv hsl] at h
        obtain ⟨t, cs, rfl, hb, rfl⟩ := hN _ _ _ _ _ _ _ h
        exact ⟨rfl, hsl, t, cs, rfl, hb, by simp⟩
      | false =>
        exfalso
        obtain ⟨hd, hm⟩ := strStepO_strictHigh (o := o) ht (bad := bad) (acc := acc) (pos := pos) (ph := ph) (hv := hv) hsl
        unfold strLoopAux at h
        split at h
        · rename_i hs; exact hd _ _ _ _ hs
        · cases h
        · rename_i hs; exact hm _ _ _ _ hs
  induction fuel with
  | nil =>
    have hN : ∀ acc l pos a r p q, strLoopAux o bad [] acc none l pos = .ok (a, r, p, q) →
        ∃ t cs, l = t ++ '"' :: r ∧ LBody o t cs ∧ a = acc ++ cs := by
      intro acc l pos a r p q h
      unfold strLoopAux at h
      split at h
      · rename_i hs; cases h
        obtain ⟨rfl, rfl⟩ := strStepO_none_done hs
        exact ⟨[], [], rfl, .nil, by simp⟩
      · cases h
      · cases h
    exact ⟨hN, some_of [] hN (fun f fuel' e => by cases e)⟩
  | cons f fuel ih =>
    obtain ⟨ihN, ihS⟩ := ih
    have hN : ∀ acc l pos a r p q, strLoopAux o bad (f :: fuel) acc none l pos = .ok (a, r, p, q) →
        ∃ t cs, l = t ++ '"' :: r ∧ LBody o t cs ∧ a = acc ++ cs := by
      intro acc l pos a r p q h
      unfold strLoopAux at h
      split at h
      · rename_i hs; cases h
        obtain ⟨rfl, rfl⟩ := strStepO_none_done hs
        exact ⟨[], [], rfl, .nil, by simp⟩
      · cases h
      · rename_i a1 hi1 r1 p1 hs
        simp only at h
        rcases strStepO_none_more hs with ⟨te, ch, rfl, hel, rfl, rfl⟩ |
          ⟨x, y, z, w, cp, pe, rfl, hcp, hh, rfl, rfl⟩ | ⟨hinv, x, y, z, w, lo, rfl, hlo, hl, rfl, rfl⟩
        · obtain ⟨t, cs, rfl, hb, rfl⟩ := ihN _ _ _ _ _ _ _ h
          exact ⟨te ++ t, ch :: cs, by simp, .elem te ch t cs hel hb, by simp⟩
        · rcases ihS _ _ _ _ _ _ _ _ _ hh h with
            ⟨x', y', z', w', lo, ch, t, cs, rfl, hlo, hl, hch, hb, rfl⟩ | ⟨ht, hns, t, cs, rfl, hb, rfl⟩
          · exact ⟨['\\', 'u', x, y, z, w, '\\', 'u', x', y', z', w'] ++ t, ch :: cs, by simp,
              .elem _ ch t cs (.pair x y z w x' y' z' w' cp lo ch hcp hh hlo hl hch) hb, rfl⟩
          · exact ⟨'\\' :: 'u' :: x :: y :: z :: w :: t, fffd :: cs, by simp,
              .loneHigh x y z w cp t cs ht hcp hh (fun hst => hns hst.mono) hb, rfl⟩
        · obtain ⟨t, cs, rfl, hb, rfl⟩ := ihN _ _ _ _ _ _ _ h
          exact ⟨'\\' :: 'u' :: x :: y :: z :: w :: t, fffd :: cs, by simp,
            .loneLow x y z w lo t cs hinv hlo hl hb, by simp⟩
    exact ⟨hN, some_of (f :: fuel) hN (fun f' fuel' e => by cases e; exact ihN)⟩

end JsonVerif

namespace JsonVerif

/-- a body never makes the text after it look like a low-surrogate escape unless it already does -/
theorem lbody_startsLow {o : ParseOptions} {ts cs : List Char} (hb : LBody o ts cs) (r : List Char)
    (h : StartsLow (ts ++ '"' :: r)) : StartsLow ts := by
  obtain ⟨a, b, c, d, lo, r0, he, hlo, hl⟩ := h
  cases hb with
  | nil => simp at he
  | elem t ch ts' cs' hel hb' =>
    cases hel with
    | raw c' h1 h2 h3 => simp at he; exact absurd he.1 h2
    | esc e ch' h1 h2 => simp at he; exact absurd he.1 h1
    | u a' b' c' d' cp ch' h1 h2 h3 =>
      simp at he
      obtain ⟨rfl, rfl, rfl, rfl, _⟩ := he
      exact ⟨a', b', c', d', lo, ts', by simp, hlo, hl⟩
    | pair a' b' c' d' a'' b'' c'' d'' hi lo' ch' h1 h2 h3 h4 h5 =>
      simp at he
      obtain ⟨rfl, rfl, rfl, rfl, _⟩ := he
      exact ⟨a', b', c', d', lo, '\\' :: 'u' :: a'' :: b'' :: c'' :: d'' :: ts', by simp, hlo, hl⟩
  | loneHigh a' b' c' d' hi ts' cs' ht h1 h2 hn hb' =>
    simp at he
    obtain ⟨rfl, rfl, rfl, rfl, _⟩ := he
    exact ⟨a', b', c', d', lo, ts', rfl, hlo, hl⟩
  | loneLow a' b' c' d' lo' ts' cs' hi h1 h2 hb' =>
    simp at he
    obtain ⟨rfl, rfl, rfl, rfl, _⟩ := he
    exact ⟨a', b', c', d', lo, ts', rfl, hlo, hl⟩

/-- **Exactness, completeness half**: every `LBody o` followed by the closing quote is read to that
    quote under `o`, and the characters it denotes are returned. -/
theorem strLoopO_complete {o : ParseOptions} {bad : Bool} {t cs : List Char} (hb : LBody o t cs) :
    ∀ (fuel acc r : List Char) (pos : Nat), t.length ≤ fuel.length →
      ∃ p q, strLoopAux o bad fuel acc none (t ++ '"' :: r) pos = .ok (acc ++ cs, r, p, q) := by
  induction hb with
  | nil =>
    intro fuel acc r pos _
    exact ⟨pos + '"'.utf8Size, pos, by unfold strLoopAux; simp [strStepO_quote]⟩
  | elem te ch ts cs hel _ ih =>
    intro fuel acc r pos hf
    have hlen := gelem_len hel
    cases fuel with
    | nil => simp only [List.length_append, List.length_nil] at hf; omega
    | cons f fuel =>
      simp only [List.length_append, List.length_cons] at hf
      cases hel with
      | raw c h1 h2 h3 =>
        obtain ⟨p, q, h⟩ := ih fuel (acc ++ [ch]) r (pos + ch.utf8Size) (by simp at hf; omega)
        refine ⟨p, q, ?_⟩
        unfold strLoopAux
        simp only [List.cons_append, List.nil_append, strStepO_raw o bad acc _ pos h1 h2 h3]
        rw [h]; simp
      | esc e ch h1 h2 =>
        obtain ⟨p1, hs⟩ := strStepO_esc o bad acc (ts ++ '"' :: r) pos h1 h2
        obtain ⟨p, q, h⟩ := ih fuel (acc ++ [ch]) r p1 (by simp at hf; omega)
        refine ⟨p, q, ?_⟩
        unfold strLoopAux
        simp only [List.cons_append, List.nil_append, hs]
        rw [h]; simp
      | u a b c d cp ch h1 h2 h3 =>
        obtain ⟨p1, hs⟩ := strStepO_u o bad acc (ts ++ '"' :: r) pos h1 h2 h3
        obtain ⟨p, q, h⟩ := ih fuel (acc ++ [ch]) r p1 (by simp at hf; omega)
        refine ⟨p, q, ?_⟩
        unfold strLoopAux
        simp only [List.cons_append, List.nil_append, hs]
        rw [h]; simp
      | pair a b c d a' b' c' d' hi lo ch h1 h2 h3 h4 h5 =>
        obtain ⟨pe, p1, hs1⟩ := strStepO_high o bad acc ('\\' :: 'u' :: a' :: b' :: c' :: d' :: (ts ++ '"' :: r)) pos h1 h2
        obtain ⟨p2, hs2⟩ := strStepO_pair (o := o) bad acc (ts ++ '"' :: r) p1 pe hi h3 h4 h5
        cases fuel with
        | nil => simp at hf; omega
        | cons f2 fuel =>
          obtain ⟨p, q, h⟩ := ih fuel (acc ++ [ch]) r p2 (by simp at hf; omega)
          refine ⟨p, q, ?_⟩
          unfold strLoopAux
          simp only [List.cons_append, List.nil_append, hs1]
          unfold strLoopAux
          simp only [hs2]
          rw [h]; simp
  | loneHigh a b c d hi ts cs ht h1 h2 hn hb' ih =>
    intro fuel acc r pos hf
    obtain ⟨pe, p1, hs1⟩ := strStepO_high o bad acc (ts ++ '"' :: r) pos h1 h2
    cases fuel with
    | nil => simp at hf
    | cons f fuel =>
      obtain ⟨p, q, h⟩ := ih fuel (acc ++ [fffd]) r p1 (by simp at hf; omega)
      refine ⟨p, q, ?_⟩
      unfold strLoopAux
      simp only [List.cons_append, hs1]
      rw [strLoopAux_trunc ht bad fuel acc _ p1 pe hi (fun hs => hn (lbody_startsLow hb' r hs)), h]
      simp
  | loneLow a b c d lo ts cs hinv h1 h2 hb' ih =>
    intro fuel acc r pos hf
    obtain ⟨p1, hs1⟩ := strStepO_loneLow hinv bad acc (ts ++ '"' :: r) pos h1 h2
    cases fuel with
    | nil => simp at hf
    | cons f fuel =>
      obtain ⟨p, q, h⟩ := ih fuel (acc ++ [fffd]) r p1 (by simp at hf; omega)
      refine ⟨p, q, ?_⟩
      unfold strLoopAux
      simp only [List.cons_append, hs1]
      rw [h]; simp

/-- **C12 at the string level, both directions**: under any option record the string lexer accepts
    exactly the `LString o` literals and returns the characters they denote. -/
theorem lexString_iff (o : ParseOptions) (s : PS) (str : List Char) (r : List Char) :
    (∃ s', lexString o s = .ok (str, s') ∧ s'.rest = r) ↔ ∃ t, s.rest = t ++ r ∧ LString o t str := by
  constructor
  · rintro ⟨s', h, rfl⟩
    unfold lexString at h
    simp only [PS.beginFragment_fst, PS.beginFragment_snd] at h
    split at h
    · cases h
    · rename_i d r0 hr
      split at h
      · rename_i hd
        split at h
        · cases h
        · rename_i str' r' pos' q hv
          split at h
          · cases h
          · rename_i s1 h1
            cases h
            have hp := endFragment_rest h1
            obtain ⟨t, cs, hl, hb, ha⟩ := (strLoopO_sound o (bad := s.reserve.bad) r0).1 _ _ _ _ _ _ _ hv
            simp only [List.nil_append] at ha
            subst ha
            refine ⟨'"' :: (t ++ ['"']), ?_, .mk t _ hb⟩
            rw [hp.1]
            simp only [beginFragment_rest] at hr
            rw [hr, hd, hl]
            simp
      · cases h
  · rintro ⟨t, hs, hg⟩
    cases hg with
    | mk body cs hb =>
      have hs' : s.reserve.rest = '"' :: (body ++ '"' :: r) := by
        simp only [beginFragment_rest, hs]; simp
      obtain ⟨p, q, hl⟩ := strLoopO_complete (bad := s.reserve.bad) hb (body ++ '"' :: r) [] r
        (s.reserve.pos + '"'.utf8Size) (by simp)
      simp only [List.nil_append] at hl
      have hend : ∃ s2, ({ s.reserve with rest := r, pos := p } : PS).endFragment s.cm.size = .ok s2 ∧
          s2.rest = r := by
        unfold PS.endFragment
        have : ({ s.reserve with rest := r, pos := p } : PS).cm[s.cm.size]? = some ⟨s.pos, s.pos, 0⟩ := by
          simp [PS.reserve]
        rw [this]
        exact ⟨_, rfl, rfl⟩
      obtain ⟨s2, h2, hr2⟩ := hend
      exact ⟨s2, by simp only [lexString, PS.beginFragment_fst, PS.beginFragment_snd, hs', if_true, strLoop, hl, h2], hr2⟩

end JsonVerif
